"""
T — the mesh clip-mask code of `emsarray.conventions.ugrid`, translated from its source text on every run.

    buffer_faces(face_indexes, topology)                       -> Gen.UgridSrc.bufferFaces          : UExpr
    mask_from_face_indexes(face_indexes, topology)             -> Gen.UgridSrc.maskFromFaceIndexes  : UProg
        (its inner `new_element_indexes` and the module-level helper `_masked_integer_data_array` are inlined)
    UGrid.make_clip_mask(self, clip_geometry, buffer=0)        -> Gen.UgridSrc.makeClipMask         : UProg
        (+ `makeClipMaskParams`: its parameters and their defaults)

    UGrid._make_polygons(self)                                 -> Gen.UgridSrc.ugridPolygons         : PProg
        (lean/EmsModel/Core/UgridSrcPoly.lean; theorems in Props/C06Src.lean; complaints in `polygonComplaints`)

The functions are found with `inspect.getsource` in the emsarray that is being checked, their bodies are executed
symbolically (locals are inlined, so renaming one is invisible; docstrings, comments, annotations, `logger.*` calls and
`cast(...)` dropped) and emitted as terms of `Ems.UgridSrc.UExpr` / `UProg` (lean/EmsModel/Core/UgridSrc.lean) into
lean/EmsModel/Gen/UgridSrc.lean.  `Props/C07Src.lean` proves that the generated terms compute the hand models
`FaceMesh.bufferFaces`, `maskFromFaceIndexes` and `ugridClipMask` for every masked connectivity table and every index list.
What cannot be rendered becomes `.unsupported "<python>"`, which evaluates to `err`, so the theorems about that function no
longer hold (the run itself never fails here); it is also listed in `complaints`.

Meaning given to the Python constructs (trusted; cross-checked by the driver ops `bufferfaces-src` / `maskfrom-src` /
`ugridmask-src`, which evaluate the generated terms next to the running code):
  * inputs are recognised by what they are: the first parameter of `buffer_faces` / `mask_from_face_indexes` is `.arg`,
    the second the topology; `topology.face_node_array` is `.faceNode`, … ; `self.topology`, `self.strtree`;
  * `set(x)`, `x.tolist()`, `bool(x)`, `len(x)`, `x in s`, `s.intersection(x)`, `a or b`, `a and b`, `not a`;
  * `t[i]` (rows of a table at an integer array), `x.compressed()`, `numpy.unique`, `numpy.sort`, `numpy.arange`,
    `numpy.full((n,), …)` + `numpy.ma.masked_array(…, mask=True)` (a fully masked array), `a[i] = v` (functional update of
    every name bound to that array object; refused on an input), `x.astype(numpy.double)`, `numpy.ma.filled(x, numpy.nan)`;
  * `numpy.fromiter((elt for i, row in enumerate(t) if cond), dtype=…)` is `.enumGen t elt cond`; dtypes and fill values are
    not modelled (they may only appear in `dtype=` / `fill_value=` positions);
  * `for _ in range(n): x = f(x)` is `.iterate n (f carried) x`; a call of another translated function is
    `.withArg argument <its generated term>`; nested `def`s and `_masked_integer_data_array` are inlined;
  * `data_vars[name] = DataArray(data, dims=…)` under `if test:` is a guarded entry of the dataset.
"""
from __future__ import annotations

import ast
import inspect
import pathlib
import textwrap
import warnings

warnings.simplefilter('ignore')

VERIF = pathlib.Path(__file__).resolve().parent.parent
OUT = VERIF / 'lean' / 'EmsModel' / 'Gen' / 'UgridSrc.lean'
TARGET = 'EmsModel.Gen.UgridSrc'


def lean_str(s: str) -> str:
    out = []
    for ch in s:
        if ch == '\\':
            out.append('\\\\')
        elif ch == '"':
            out.append('\\"')
        elif ch == '\n':
            out.append('\\n')
        elif ch == '\t':
            out.append('\\t')
        elif ord(ch) < 32 or ord(ch) == 127:
            out.append('?')
        else:
            out.append(ch)
    return '"' + ''.join(out) + '"'


def text_of(node) -> str:
    try:
        return ast.unparse(node)[:200]
    except Exception:  # noqa: BLE001
        return repr(node)[:200]


# ---------------------------------------------------------------------------------------------------------------------
# symbolic values

class Term:
    """an expression of the language; `t` is a nested tuple (constructor, arguments…); a fresh object per array created,
    so that `a[i] = v` can update every name bound to the same array"""

    def __init__(self, t, is_input: bool = False):
        self.t = t
        self.is_input = is_input


class Topology:
    pass


class SelfObj:
    pass


class Strtree:
    pass


class Geometry:
    pass


class Opaque:
    """a dtype, a fill value, `numpy`, … : allowed only where it is not modelled"""

    def __init__(self, label: str):
        self.label = label


class Const:
    def __init__(self, value):
        self.value = value


class Full:
    """numpy.full((size,), …) before it is wrapped by numpy.ma.masked_array(…, mask=True)"""

    def __init__(self, size):
        self.size = size


class DataArray:
    def __init__(self, term, dims):
        self.term = term
        self.dims = dims


class DictVal:
    def __init__(self):
        self.entries = []      # (key, guards, value)


class Kwargs:
    def __init__(self, d: dict):
        self.d = d


class LocalFn:
    def __init__(self, node, env):
        self.node = node
        self.env = env


class ModFn:
    def __init__(self, name: str):
        self.name = name


class Method:
    def __init__(self, obj, name: str):
        self.obj = obj
        self.name = name


class Prog:
    def __init__(self, p):
        self.p = p          # ('dataset', [(name, dims, guards, term)]) | ('withArg', term, ('ref', name)) | ('unsupported', text)


#: module-level functions that are translated themselves; a call of one is a reference to its generated term
TRANSLATED_CALLS = {'buffer_faces': ('bufferFaces', 'expr'), 'mask_from_face_indexes': ('maskFromFaceIndexes', 'prog')}
#: module-level helpers that are inlined
INLINED_HELPERS = {'_masked_integer_data_array'}

TOPOLOGY_ATTRS = {
    'face_node_array': ('faceNode',), 'face_edge_array': ('faceEdge',),
    'face_count': ('faceCount',), 'node_count': ('nodeCount',), 'edge_count': ('edgeCount',),
    'has_edge_dimension': ('hasEdgeDim',),
}
TOPOLOGY_OPAQUE = {'sensible_fill_value', 'sensible_dtype'}


class Exec:
    """symbolic execution of one function"""

    def __init__(self, where: str, module_tree, complaints: list):
        self.where = where
        self.module_tree = module_tree
        self.complaints = complaints
        self.poison = None
        self.binding_enum = False
        self.in_loop = False
        self.depth = 0

    # ---- refusing ------------------------------------------------------------------------------------------------
    def uns(self, what) -> Term:
        text = what if isinstance(what, str) else text_of(what)
        self.complaints.append((self.where, text))
        return Term(('unsupported', text))

    def stray(self, what) -> None:
        """a statement whose effect is unknown: the whole function becomes unsupported"""
        text = what if isinstance(what, str) else text_of(what)
        self.complaints.append((self.where, text))
        if self.poison is None:
            self.poison = text

    def term(self, v, node) -> tuple:
        """the language term of a value, or an `unsupported` one"""
        if isinstance(v, Term):
            return v.t
        return self.uns(node).t

    # ---- expressions ---------------------------------------------------------------------------------------------
    def ev(self, node, env):
        try:
            return self._ev(node, env)
        except RecursionError:
            return self.uns(node)
        except Exception:  # noqa: BLE001
            return self.uns(node)

    def _ev(self, node, env):
        if isinstance(node, ast.Constant):
            return Const(node.value)
        if isinstance(node, ast.Name):
            if node.id in env:
                return env[node.id]
            if node.id in ('numpy', 'xarray', 'shapely'):
                return Opaque(node.id)
            if node.id in ('set', 'bool', 'len', 'cast', 'enumerate', 'range', 'int', 'sorted', 'list'):
                return ModFn(node.id)
            if node.id == 'logger':
                return Opaque('logger')
            if node.id in TRANSLATED_CALLS or node.id in INLINED_HELPERS:
                return ModFn(node.id)
            return self.uns(node)
        if isinstance(node, ast.Tuple) or isinstance(node, ast.List):
            return Const([self.ev(e, env) for e in node.elts])
        if isinstance(node, ast.Dict):
            d = DictVal()
            for k, v in zip(node.keys, node.values):
                if k is None:
                    return self.uns(node)
                d.entries.append((self.ev(k, env), [], self.ev(v, env)))
            return d
        if isinstance(node, ast.Attribute):
            obj = self.ev(node.value, env)
            if isinstance(obj, Topology):
                if node.attr in TOPOLOGY_ATTRS:
                    return Term(TOPOLOGY_ATTRS[node.attr], is_input=True)
                if node.attr in TOPOLOGY_OPAQUE:
                    return Opaque(node.attr)
                return self.uns(node)
            if isinstance(obj, SelfObj):
                if node.attr == 'topology':
                    return Topology()
                if node.attr == 'strtree':
                    return Strtree()
                return self.uns(node)
            if isinstance(obj, Opaque):
                return Opaque(f'{obj.label}.{node.attr}')
            if isinstance(obj, (Term, Strtree, DataArray)):
                return Method(obj, node.attr)
            return self.uns(node)
        if isinstance(node, ast.Subscript):
            obj = self.ev(node.value, env)
            if isinstance(obj, Term):
                idx = self.ev(node.slice, env)
                if isinstance(idx, Term):
                    return Term(('takeRows', obj.t, idx.t))
            return self.uns(node)
        if isinstance(node, ast.Compare):
            if len(node.ops) == 1 and isinstance(node.ops[0], ast.In):
                a = self.ev(node.left, env)
                b = self.ev(node.comparators[0], env)
                return Term(('mem', self.term(a, node.left), self.term(b, node.comparators[0])))
            if len(node.ops) == 1 and isinstance(node.ops[0], ast.NotIn):
                a = self.ev(node.left, env)
                b = self.ev(node.comparators[0], env)
                return Term(('not', ('mem', self.term(a, node.left), self.term(b, node.comparators[0]))))
            return self.uns(node)
        if isinstance(node, ast.BoolOp):
            op = 'or' if isinstance(node.op, ast.Or) else 'and'
            parts = [self.term(self.ev(v, env), v) for v in node.values]
            acc = parts[-1]
            for p in reversed(parts[:-1]):
                acc = (op, p, acc)
            return Term(acc)
        if isinstance(node, ast.UnaryOp) and isinstance(node.op, ast.Not):
            return Term(('not', self.term(self.ev(node.operand, env), node.operand)))
        if isinstance(node, ast.GeneratorExp):
            return self.genexp(node, env)
        if isinstance(node, ast.Call):
            return self.call(node, env)
        return self.uns(node)

    def genexp(self, node, env):
        if len(node.generators) != 1 or self.binding_enum:
            return self.uns(node)
        comp = node.generators[0]
        it = comp.iter
        if comp.is_async or not (isinstance(it, ast.Call) and isinstance(it.func, ast.Name) and it.func.id == 'enumerate'
                                 and 'enumerate' not in env and len(it.args) == 1 and not it.keywords):
            return self.uns(node)
        tgt = comp.target
        if not (isinstance(tgt, ast.Tuple) and len(tgt.elts) == 2 and all(isinstance(e, ast.Name) for e in tgt.elts)):
            return self.uns(node)
        table = self.term(self.ev(it.args[0], env), it.args[0])
        child = dict(env)
        child[tgt.elts[0].id] = Term(('idxVar',), is_input=True)
        child[tgt.elts[1].id] = Term(('rowVar',), is_input=True)
        self.binding_enum = True
        try:
            elt = self.term(self.ev(node.elt, child), node.elt)
            conds = [self.term(self.ev(c, child), c) for c in comp.ifs]
        finally:
            self.binding_enum = False
        if not conds:
            return self.uns(node)       # an unconditional generator is not in the language
        cond = conds[-1]
        for c in reversed(conds[:-1]):
            cond = ('and', c, cond)
        return Term(('enumGen', table, elt, cond))

    def call(self, node, env):
        fn = self.ev(node.func, env)
        args = [self.ev(a, env) for a in node.args if not isinstance(a, ast.Starred)]
        if any(isinstance(a, ast.Starred) for a in node.args):
            return self.uns(node)
        kwargs = {}
        for kw in node.keywords:
            v = self.ev(kw.value, env)
            if kw.arg is None:
                if not isinstance(v, Kwargs):
                    return self.uns(node)
                kwargs.update(v.d)
            else:
                kwargs[kw.arg] = v

        def one_term():
            """the single positional argument as a term"""
            if len(args) == 1 and not kwargs and isinstance(args[0], Term):
                return args[0].t
            return None

        if isinstance(fn, ModFn):
            name = fn.name
            if name == 'cast' and len(args) == 2 and not kwargs:
                return args[1]
            if name in ('set', 'bool', 'len'):
                t = one_term()
                if t is None:
                    return self.uns(node)
                return Term(({'set': 'setOf', 'bool': 'truth', 'len': 'len'}[name], t))
            if name in TRANSLATED_CALLS:
                lean_name, kind = TRANSLATED_CALLS[name]
                if len(args) == 2 and not kwargs and isinstance(args[0], Term) and isinstance(args[1], Topology):
                    if kind == 'expr':
                        return Term(('withArg', args[0].t, ('ref', lean_name)))
                    return Prog(('withArg', args[0].t, ('ref', lean_name)))
                return self.uns(node)
            if name in INLINED_HELPERS:
                fdef = find_module_function(self.module_tree, name)
                if fdef is None:
                    return self.uns(node)
                return self.inline(fdef, {}, args, kwargs, node)
            return self.uns(node)
        if isinstance(fn, LocalFn):
            return self.inline(fn.node, fn.env, args, kwargs, node)
        if isinstance(fn, Opaque):
            label = fn.label
            if label in ('numpy.unique', 'numpy.sort', 'numpy.arange'):
                t = one_term()
                if t is None:
                    return self.uns(node)
                return Term((label.split('.')[1], t))
            if label == 'numpy.fromiter':
                if len(args) == 1 and isinstance(args[0], Term) and args[0].t[0] == 'enumGen' and \
                        set(kwargs) <= {'dtype'} and all(isinstance(v, Opaque) for v in kwargs.values()):
                    return args[0]
                return self.uns(node)
            if label == 'numpy.full':
                # numpy.full((size,), fill_value=<not modelled>, dtype=<not modelled>)
                if len(args) >= 1 and isinstance(args[0], Const) and isinstance(args[0].value, list) and \
                        len(args[0].value) == 1 and isinstance(args[0].value[0], Term) and \
                        len(args) + len(kwargs) >= 2 and len(args) <= 2 and set(kwargs) <= {'fill_value', 'dtype'} and \
                        all(isinstance(v, Opaque) for v in list(args[1:]) + list(kwargs.values())):
                    return Full(args[0].value[0].t)
                return self.uns(node)
            if label == 'numpy.ma.masked_array':
                m = kwargs.get('mask')
                if len(args) == 1 and isinstance(args[0], Full) and set(kwargs) == {'mask'} and \
                        isinstance(m, Const) and m.value is True:
                    return Term(('maskedFull', args[0].size))
                return self.uns(node)
            if label == 'numpy.ma.filled':
                if len(args) == 2 and not kwargs and isinstance(args[0], Term) and isinstance(args[1], Opaque) and \
                        args[1].label == 'numpy.nan':
                    return Term(('filledNan', args[0].t))
                return self.uns(node)
            if label == 'xarray.DataArray':
                data = kwargs.get('data') if not args else (args[0] if len(args) == 1 else None)
                dims = kwargs.get('dims')
                if isinstance(data, Term) and set(kwargs) <= {'data', 'dims'} and isinstance(dims, Const) and \
                        isinstance(dims.value, list) and \
                        all(isinstance(d, Const) and isinstance(d.value, str) for d in dims.value):
                    return DataArray(data.t, [d.value for d in dims.value])
                return self.uns(node)
            if label == 'xarray.Dataset':
                dv = kwargs.get('data_vars') if not args else (args[0] if len(args) == 1 else None)
                if isinstance(dv, DictVal) and set(kwargs) <= {'data_vars', 'attrs'}:
                    entries = []
                    for key, guards, value in dv.entries:
                        if not (isinstance(key, Const) and isinstance(key.value, str) and isinstance(value, DataArray)):
                            return self.uns(node)
                        entries.append((key.value, value.dims, guards, value.term))
                    return Prog(('dataset', entries))
                return self.uns(node)
            return self.uns(node)
        if isinstance(fn, Method):
            obj, name = fn.obj, fn.name
            if isinstance(obj, Term):
                if name in ('tolist', 'compressed') and not args and not kwargs:
                    return Term((name, obj.t))
                if name == 'astype' and len(args) == 1 and not kwargs and isinstance(args[0], Opaque) and \
                        args[0].label in ('numpy.double', 'numpy.float64'):
                    return Term(('astypeDouble', obj.t))
                if name == 'intersection' and len(args) == 1 and not kwargs and isinstance(args[0], Term):
                    return Term(('inter', obj.t, args[0].t))
                return self.uns(node)
            if isinstance(obj, Strtree):
                p = kwargs.get('predicate')
                if name == 'query' and len(args) == 1 and isinstance(args[0], Geometry) and set(kwargs) == {'predicate'} and \
                        isinstance(p, Const) and isinstance(p.value, str):
                    return Term(('strtreeQuery', p.value))
                return self.uns(node)
            return self.uns(node)
        return self.uns(node)

    def inline(self, fdef, closure, args, kwargs, node):
        """the value a nested `def` or an inlined helper returns for these arguments"""
        if self.depth > 8:
            return self.uns(node)
        a = fdef.args
        if a.posonlyargs or a.vararg or a.kwonlyargs or a.defaults or a.kw_defaults:
            return self.uns(node)
        names = [p.arg for p in a.args]
        if len(args) > len(names):
            return self.uns(node)
        env = _ChainEnv(closure) if len(closure) or isinstance(closure, _ChainEnv) else {}
        bound = dict(zip(names, args))
        rest = {}
        for k, v in kwargs.items():
            if k in bound:
                return self.uns(node)
            if k in names:
                bound[k] = v
            elif a.kwarg is not None:
                rest[k] = v
            else:
                return self.uns(node)
        if set(bound) != set(names):
            return self.uns(node)
        for k, v in bound.items():
            env[k] = v
        if a.kwarg is not None:
            env[a.kwarg.arg] = Kwargs(rest)
        self.depth += 1
        try:
            return self.body(fdef.body, env, [], node)
        finally:
            self.depth -= 1

    # ---- statements ----------------------------------------------------------------------------------------------
    def body(self, stmts, env, guards, node):
        """execute statements; the value of the first top-level `return`"""
        for st in stmts:
            if isinstance(st, ast.Return):
                if st.value is None:
                    return self.uns(st)
                return self.ev(st.value, env)
            self.stmt(st, env, guards)
        return self.uns(f'{text_of(node)}: no return statement')

    def stmt(self, st, env, guards) -> None:
        try:
            self._stmt(st, env, guards)
        except Exception:  # noqa: BLE001
            self.stray(st)

    def _stmt(self, st, env, guards) -> None:
        if isinstance(st, ast.Pass):
            return
        if isinstance(st, ast.Expr):
            v = st.value
            if isinstance(v, ast.Constant):
                return                                            # docstring
            if isinstance(v, ast.Call):
                f = v.func
                if isinstance(f, ast.Attribute) and isinstance(f.value, ast.Name) and f.value.id == 'logger' and \
                        'logger' not in env:
                    return                                        # logging
                if isinstance(f, ast.Attribute) and f.attr == 'update' and isinstance(f.value, ast.Attribute) and \
                        f.value.attr == 'encoding' and isinstance(self.ev(f.value.value, env), DataArray):
                    return                                        # on-disk encoding of a DataArray: not modelled
            self.stray(st)
            return
        if isinstance(st, ast.FunctionDef):
            env[st.name] = LocalFn(st, env)
            return
        if isinstance(st, (ast.Assign, ast.AnnAssign)):
            if isinstance(st, ast.AnnAssign):
                if st.value is None:
                    return
                targets = [st.target]
            else:
                targets = st.targets
            if len(targets) != 1:
                self.stray(st)
                return
            tgt = targets[0]
            if isinstance(tgt, ast.Name):
                env[tgt.id] = self.ev(st.value, env)
                return
            if isinstance(tgt, ast.Subscript):
                obj = self.ev(tgt.value, env)
                if isinstance(obj, DictVal):
                    obj.entries.append((self.ev(tgt.slice, env), list(guards), self.ev(st.value, env)))
                    return
                if isinstance(obj, Term) and not obj.is_input and (guards or self.in_loop):
                    self.stray(f'{text_of(st)}: array written under a condition or in a loop')
                    return
                if isinstance(obj, Term) and not obj.is_input:
                    idx = self.ev(tgt.slice, env)
                    val = self.ev(st.value, env)
                    # functional update, seen through every name bound to this array object
                    obj.t = ('setItem', obj.t, self.term(idx, tgt.slice), self.term(val, st.value))
                    return
                if isinstance(obj, Term):
                    self.stray(f'{text_of(st)}: writes into an input array')
                    return
            self.stray(st)
            return
        if isinstance(st, ast.If):
            if st.orelse:
                self.stray(f'if {text_of(st.test)}: … else: …')
                return
            test = self.term(self.ev(st.test, env), st.test)
            child = dict(env) if isinstance(env, dict) else env.copy()
            for s in st.body:
                if isinstance(s, ast.Return):
                    self.stray(f'return under `if {text_of(st.test)}`')
                    return
                self.stmt(s, child, guards + [test])
            for k in child:
                if k not in env or env[k] is not child[k]:
                    env[k] = Term(('unsupported', f'{k}: assigned only under `if {text_of(st.test)}`'))
            return
        if isinstance(st, ast.For):
            self.loop(st, env, guards)
            return
        self.stray(st)

    def loop(self, st, env, guards) -> None:
        it = st.iter
        if st.orelse or self.in_loop or not isinstance(st.target, ast.Name) or \
                not (isinstance(it, ast.Call) and isinstance(it.func, ast.Name) and it.func.id == 'range'
                     and 'range' not in env and len(it.args) == 1 and not it.keywords):
            self.stray(f'for {text_of(st.target)} in {text_of(st.iter)}: …')
            return
        count = self.term(self.ev(it.args[0], env), it.args[0])
        assigned = set()
        for n in ast.walk(st):
            if isinstance(n, ast.Name) and isinstance(n.ctx, ast.Store) and n is not st.target:
                assigned.add(n.id)
        uses_target = any(isinstance(n, ast.Name) and n.id == st.target.id and isinstance(n.ctx, ast.Load)
                          for s in st.body for n in ast.walk(s))
        if len(assigned) != 1 or uses_target:
            self.stray(f'for {text_of(st.target)} in {text_of(st.iter)}: more than one carried variable')
            return
        name = next(iter(assigned))
        if not isinstance(env.get(name), Term):
            self.stray(f'for {text_of(st.target)} in {text_of(st.iter)}: {name} has no value before the loop')
            return
        init = env[name].t
        child = dict(env) if isinstance(env, dict) else env.copy()
        child[name] = Term(('carried',), is_input=True)
        self.in_loop = True
        try:
            for s in st.body:
                if isinstance(s, ast.Return):
                    self.stray('return inside a loop')
                    return
                self.stmt(s, child, guards)
        finally:
            self.in_loop = False
        step = self.term(child[name], st)
        env[name] = Term(('iterate', count, step, init))


class _ChainEnv(dict):
    """the environment of an inlined nested function: its own names over the (live) enclosing environment"""

    def __init__(self, parent):
        super().__init__()
        self.parent = parent

    def __contains__(self, k):
        return dict.__contains__(self, k) or k in self.parent

    def __getitem__(self, k):
        if dict.__contains__(self, k):
            return dict.__getitem__(self, k)
        return self.parent[k]

    def get(self, k, default=None):
        return self[k] if k in self else default

    def copy(self):
        c = _ChainEnv(self.parent)
        for k in dict.keys(self):
            dict.__setitem__(c, k, dict.__getitem__(self, k))
        return c

    def __iter__(self):
        seen = set(dict.keys(self))
        yield from seen
        for k in self.parent:
            if k not in seen:
                yield k


# ---------------------------------------------------------------------------------------------------------------------
# finding the source

def find_module_function(tree, name: str):
    for st in tree.body:
        if isinstance(st, ast.FunctionDef) and st.name == name:
            return st
    return None


def find_method(tree, cls: str, name: str):
    for st in tree.body:
        if isinstance(st, ast.ClassDef) and st.name == cls:
            for s in st.body:
                if isinstance(s, ast.FunctionDef) and s.name == name:
                    return s
    return None


def module_tree():
    import importlib
    mod = importlib.import_module('emsarray.conventions.ugrid')
    return ast.parse(textwrap.dedent(inspect.getsource(mod)))


# ---------------------------------------------------------------------------------------------------------------------
# rendering

def r_term(t, ind: int = 2) -> str:
    if not isinstance(t, tuple) or not t:
        return f'(.unsupported {lean_str(repr(t)[:200])})'
    head = t[0]
    if head == 'ref':
        return str(t[1])
    if head in ('unsupported', 'strtreeQuery'):
        return f'(.{head} {lean_str(str(t[1]))})'
    if len(t) == 1:
        return f'.{head}'
    parts = [r_term(a, ind + 2) for a in t[1:]]
    flat = f'(.{head} ' + ' '.join(parts) + ')'
    if len(flat) + ind <= 110 and '\n' not in flat:
        return flat
    pad = '\n' + ' ' * (ind + 2)
    return f'(.{head}' + ''.join(pad + p for p in parts) + ')'


def r_prog(p) -> str:
    if p[0] == 'dataset':
        rows = []
        for name, dims, guards, term in p[1]:
            g = '[' + ', '.join(r_term(x, 8) for x in guards) + ']'
            d = '[' + ', '.join(lean_str(x) for x in dims) + ']'
            rows.append(f'    {{ name := {lean_str(name)}, dims := {d}, guards := {g},\n      data := {r_term(term, 6)} }}')
        return '.dataset [\n' + ',\n'.join(rows) + ']'
    if p[0] == 'withArg':
        return f'.withArg\n    {r_term(p[1], 4)}\n    {r_term(p[2], 4)}'
    return f'.unsupported {lean_str(str(p[1]))}'


# ---------------------------------------------------------------------------------------------------------------------
# UGrid._make_polygons -> PProg (lean/EmsModel/Core/UgridSrcPoly.lean)

class PolyExec:
    """symbolic execution of `UGrid._make_polygons`: straight-line numpy code, one `for` loop over the values of an
    array whose body ends in `shapely.polygons(coords, indices=…, out=<the preallocated array>)`, `return <that array>`"""

    INPUTS = {('topology', 'face_node_array'): ('faceNode',), ('topology', 'node_x', 'values'): ('nodeX',),
              ('topology', 'node_y', 'values'): ('nodeY',), ('topology', 'face_count'): ('faceCount',)}

    def __init__(self, complaints: list):
        self.where = 'UGrid._make_polygons'
        self.complaints = complaints
        self.poison = None
        self.loop = None            # (over, coords, indices) once the loop has been seen
        self.in_loop = False
        self.out_obj = None         # the Term of the preallocated array

    def uns(self, what) -> Term:
        text = what if isinstance(what, str) else text_of(what)
        self.complaints.append((self.where, text))
        return Term(('unsupported', text))

    def stray(self, what) -> None:
        text = what if isinstance(what, str) else text_of(what)
        self.complaints.append((self.where, text))
        if self.poison is None:
            self.poison = text

    def chain(self, node, env):
        """('topology', 'node_x', 'values') for `topology.node_x.values` / `self.topology.node_x.values`"""
        parts = []
        while isinstance(node, ast.Attribute):
            parts.append(node.attr)
            node = node.value
        if not isinstance(node, ast.Name):
            return None
        base = env.get(node.id)
        parts.reverse()
        if isinstance(base, SelfObj) and parts and parts[0] == 'topology':
            return tuple(parts)
        if isinstance(base, Topology):
            return ('topology',) + tuple(parts)
        if base is None and node.id in ('numpy', 'shapely'):
            return (node.id,) + tuple(parts)
        return None

    def ev(self, node, env):
        try:
            return self._ev(node, env)
        except Exception:  # noqa: BLE001
            return self.uns(node)

    def t(self, node, env) -> tuple:
        v = self.ev(node, env)
        return v.t if isinstance(v, Term) else self.uns(node).t

    def _ev(self, node, env):
        if isinstance(node, ast.Name):
            v = env.get(node.id)
            return v if v is not None else self.uns(node)
        if isinstance(node, ast.Attribute):
            ch = self.chain(node, env)
            if ch == ('topology',):
                return Topology()
            if ch in self.INPUTS:
                return Term(self.INPUTS[ch], is_input=True)
            return self.uns(node)
        if isinstance(node, ast.UnaryOp) and isinstance(node.op, ast.Invert):
            return Term(('invert', self.t(node.operand, env)))
        if isinstance(node, ast.Compare) and len(node.ops) == 1 and isinstance(node.ops[0], ast.Eq):
            return Term(('eqScalar', self.t(node.left, env), self.t(node.comparators[0], env)))
        if isinstance(node, ast.Subscript):
            sl = node.slice
            if isinstance(sl, ast.Tuple) and len(sl.elts) == 2 and isinstance(sl.elts[1], ast.Slice) and \
                    sl.elts[1].lower is None and sl.elts[1].step is None and sl.elts[1].upper is not None:
                return Term(('takeRowsCols', self.t(node.value, env), self.t(sl.elts[0], env), self.t(sl.elts[1].upper, env)))
            if not isinstance(sl, (ast.Tuple, ast.Slice)):
                return Term(('gatherT', self.t(node.value, env), self.t(sl, env)))
            return self.uns(node)
        if isinstance(node, ast.Call):
            ch = self.chain(node.func, env) if isinstance(node.func, ast.Attribute) else None
            kws = {k.arg: k.value for k in node.keywords}
            if None in kws:
                return self.uns(node)
            a = node.args

            def axis_is(v) -> bool:
                ax = kws.get('axis')
                if isinstance(ax, ast.UnaryOp) and isinstance(ax.op, ast.USub) and isinstance(ax.operand, ast.Constant):
                    return -ax.operand.value == v
                return isinstance(ax, ast.Constant) and ax.value == v
            if ch in (('numpy', 'ma', 'getmaskarray'), ('numpy', 'ma', 'getdata'), ('numpy', 'unique'),
                      ('numpy', 'flatnonzero')) and len(a) == 1 and not kws:
                return Term(({'getmaskarray': 'getmaskarray', 'getdata': 'getdata', 'unique': 'unique',
                              'flatnonzero': 'flatnonzero'}[ch[-1]], self.t(a[0], env)))
            if ch == ('numpy', 'sum') and len(a) == 1 and set(kws) == {'axis'} and axis_is(1):
                return Term(('sumAxis1', self.t(a[0], env)))
            if ch == ('numpy', 'stack') and len(a) == 1 and set(kws) == {'axis'} and axis_is(-1) and \
                    isinstance(a[0], (ast.List, ast.Tuple)) and len(a[0].elts) == 2:
                return Term(('stackLast', self.t(a[0].elts[0], env), self.t(a[0].elts[1], env)))
            if ch == ('numpy', 'full') and len(a) == 2 and set(kws) == {'dtype'} and \
                    isinstance(a[1], ast.Constant) and a[1].value is None and \
                    self.chain(kws['dtype'], env) in (('numpy', 'object_'),):
                return Term(('fullNone', self.t(a[0], env)))
            return self.uns(node)
        return self.uns(node)

    def stmts(self, body, env) -> None:
        for st in body:
            try:
                self.stmt(st, env)
            except Exception:  # noqa: BLE001
                self.stray(st)

    def stmt(self, st, env) -> None:
        if isinstance(st, ast.Pass):
            return
        if isinstance(st, ast.Expr):
            v = st.value
            if isinstance(v, ast.Constant):
                return
            if isinstance(v, ast.Call) and isinstance(v.func, ast.Attribute) and isinstance(v.func.value, ast.Name) and \
                    v.func.value.id == 'logger' and 'logger' not in env:
                return
            if self.in_loop and isinstance(v, ast.Call) and self.chain(v.func, env) == ('shapely', 'polygons'):
                kws = {k.arg: k.value for k in v.keywords}
                out = env.get(kws['out'].id) if set(kws) == {'indices', 'out'} and isinstance(kws['out'], ast.Name) else None
                if len(v.args) == 1 and out is not None and out is self.out_obj and self.pending is None:
                    self.pending = (self.t(v.args[0], env), self.t(kws['indices'], env))
                    return
            self.stray(st)
            return
        if isinstance(st, (ast.Assign, ast.AnnAssign)):
            targets = [st.target] if isinstance(st, ast.AnnAssign) else st.targets
            if len(targets) == 1 and isinstance(targets[0], ast.Name) and st.value is not None:
                if self.in_loop and self.pending is not None:
                    self.stray(f'{text_of(st)}: statement after shapely.polygons in the loop')
                    return
                v = self.ev(st.value, env)
                if isinstance(v, Term) and v.t[0] == 'fullNone' and not self.in_loop and self.out_obj is None:
                    self.out_obj = v
                env[targets[0].id] = v
                return
            self.stray(st)
            return
        if isinstance(st, ast.For):
            if self.in_loop or self.loop is not None or st.orelse or not isinstance(st.target, ast.Name):
                self.stray(f'for {text_of(st.target)} in {text_of(st.iter)}: …')
                return
            over = self.t(st.iter, env)
            child = dict(env)
            child[st.target.id] = Term(('loopVar',), is_input=True)
            self.in_loop = True
            self.pending = None
            try:
                self.stmts(st.body, child)
            finally:
                self.in_loop = False
            if self.pending is None:
                self.stray(f'for {text_of(st.target)} in {text_of(st.iter)}: no shapely.polygons(…, indices=…, out=…) in the body')
                return
            self.loop = (over,) + self.pending
            return
        self.stray(st)

    def run(self, fdef):
        a = fdef.args
        if [p.arg for p in a.args] != ['self'] or a.vararg or a.kwarg or a.kwonlyargs:
            return ('unsupported', f'{self.where}: parameters')
        env = {'self': SelfObj()}
        body = list(fdef.body)
        ret = None
        for k, st in enumerate(body):
            if isinstance(st, ast.Return):
                ret = st
                body = body[:k]
                break
        self.pending = None
        self.stmts(body, env)
        if self.poison is not None:
            return ('unsupported', f'statement not understood: {self.poison}')
        if ret is None or not isinstance(ret.value, ast.Name) or self.out_obj is None or \
                env.get(ret.value.id) is not self.out_obj or self.loop is None:
            self.complaints.append((self.where, 'not of the form: preallocate, loop with shapely.polygons(…, out=…), return the array'))
            return ('unsupported', f'{self.where}: not of the form preallocate / batch loop / return')
        over, coords, indices = self.loop
        return ('batchLoop', self.out_obj.t, over, coords, indices)


def translate_polygons():
    complaints: list = []
    try:
        tree = module_tree()
        fdef = find_method(tree, 'UGrid', '_make_polygons')
        if fdef is None:
            complaints.append(('UGrid._make_polygons', 'no such function in the source'))
            return ('unsupported', 'UGrid._make_polygons: no such function in the source'), complaints
        return PolyExec(complaints).run(fdef), complaints
    except Exception as e:  # noqa: BLE001
        complaints.append(('UGrid._make_polygons', f'translator error {type(e).__name__}'))
        return ('unsupported', f'translator error {type(e).__name__}'), complaints


def r_pprog(p) -> str:
    if p[0] == 'batchLoop':
        return '.batchLoop\n' + '\n'.join('    ' + r_term(x, 4) for x in p[1:])
    return f'.unsupported {lean_str(str(p[1]))}'


# ---------------------------------------------------------------------------------------------------------------------

def translate_all():
    complaints: list = []
    out = {}
    try:
        tree = module_tree()
    except Exception as e:  # noqa: BLE001
        tree = None
        complaints.append(('ugrid', f'source of emsarray.conventions.ugrid not available: {type(e).__name__}'))

    def run(where, fdef, bind, kind):
        if fdef is None:
            complaints.append((where, 'no such function in the source'))
            return ('unsupported', f'{where}: no such function in the source')
        ex = Exec(where, tree, complaints)
        a = fdef.args
        params = [p.arg for p in a.args]
        if a.vararg or a.kwarg or a.kwonlyargs or a.posonlyargs or len(params) != len(bind):
            complaints.append((where, f'parameters {params}'))
            return ('unsupported', f'{where}: parameters {params}')
        env = {}
        for p, b in zip(params, bind):
            env[p] = b()
        v = ex.body(fdef.body, env, [], fdef)
        if ex.poison is not None:
            return ('unsupported', f'statement not understood: {ex.poison}')
        if kind == 'expr':
            if isinstance(v, Term):
                return v.t
            complaints.append((where, 'the value returned is not an array expression'))
            return ('unsupported', f'{where}: the value returned is not an array expression')
        if isinstance(v, Prog):
            return v.p
        complaints.append((where, 'the value returned is not a dataset'))
        return ('unsupported', f'{where}: the value returned is not a dataset')

    arg = lambda: Term(('arg',), is_input=True)          # noqa: E731
    try:
        out['bufferFaces'] = run('buffer_faces', tree and find_module_function(tree, 'buffer_faces'), [arg, Topology], 'expr')
    except Exception as e:  # noqa: BLE001
        complaints.append(('buffer_faces', f'translator error {type(e).__name__}'))
        out['bufferFaces'] = ('unsupported', f'translator error {type(e).__name__}')
    try:
        out['maskFromFaceIndexes'] = run('mask_from_face_indexes', tree and find_module_function(tree, 'mask_from_face_indexes'),
                                         [arg, Topology], 'prog')
    except Exception as e:  # noqa: BLE001
        complaints.append(('mask_from_face_indexes', f'translator error {type(e).__name__}'))
        out['maskFromFaceIndexes'] = ('unsupported', f'translator error {type(e).__name__}')
    params = []
    try:
        fdef = tree and find_method(tree, 'UGrid', 'make_clip_mask')
        out['makeClipMask'] = run('UGrid.make_clip_mask', fdef,
                                  [SelfObj, Geometry, lambda: Term(('buffer',), is_input=True)], 'prog')
        if fdef is not None:
            a = fdef.args
            names = [p.arg for p in a.args]
            defaults = [None] * (len(names) - len(a.defaults)) + [text_of(d) for d in a.defaults]
            params = [(n, d) for n, d in zip(names, defaults) if n != 'self']
    except Exception as e:  # noqa: BLE001
        complaints.append(('UGrid.make_clip_mask', f'translator error {type(e).__name__}'))
        out['makeClipMask'] = ('unsupported', f'translator error {type(e).__name__}')
    return out, params, complaints


def render() -> str:
    try:
        out, params, complaints = translate_all()
    except Exception as e:  # noqa: BLE001
        msg = f'translator error {type(e).__name__}'
        out = {'bufferFaces': ('unsupported', msg), 'maskFromFaceIndexes': ('unsupported', msg),
               'makeClipMask': ('unsupported', msg)}
        params, complaints = [], [('ugridsrc', msg)]
    L = []
    L.append('import EmsModel.Core.UgridSrc')
    L.append('import EmsModel.Core.UgridSrcPoly')
    L.append('/- GENERATED by harness/trans_ugridsrc.py from the source text of emsarray/conventions/ugrid.py of the working')
    L.append('   tree. Do not edit. -/')
    L.append('namespace Ems.Gen.UgridSrc')
    L.append('open Ems.UgridSrc')
    L.append('')
    L.append('/-- `emsarray.conventions.ugrid.buffer_faces(face_indexes, topology)` -/')
    L.append('def bufferFaces : UExpr :=')
    L.append('  ' + r_term(out['bufferFaces'], 2))
    L.append('')
    L.append('/-- `emsarray.conventions.ugrid.mask_from_face_indexes(face_indexes, topology)`, `new_element_indexes` and')
    L.append('`_masked_integer_data_array` inlined -/')
    L.append('def maskFromFaceIndexes : UProg :=')
    L.append('  ' + r_prog(out['maskFromFaceIndexes']))
    L.append('')
    L.append('/-- `emsarray.conventions.ugrid.UGrid.make_clip_mask(self, clip_geometry, buffer)` -/')
    L.append('def makeClipMask : UProg :=')
    L.append('  ' + r_prog(out['makeClipMask']))
    L.append('')
    L.append('/-- the parameters of `UGrid.make_clip_mask` after `self`, with the source text of their defaults -/')
    L.append('def makeClipMaskParams : List (String × Option String) :=')
    L.append('  [' + ', '.join(f'({lean_str(n)}, ' + ('none' if d is None else f'some {lean_str(d)}') + ')' for n, d in params) + ']')
    L.append('')
    L.append('/-- what the translator could not render: (function, python text) -/')
    L.append('def complaints : List (String × String) :=')
    L.append('  [' + ', '.join(f'({lean_str(w)}, {lean_str(t)})' for w, t in complaints) + ']')
    L.append('')
    try:
        pprog, pcomplaints = translate_polygons()
    except Exception as e:  # noqa: BLE001
        pprog, pcomplaints = ('unsupported', f'translator error {type(e).__name__}'), [('UGrid._make_polygons', 'translator error')]
    L.append('/-- `emsarray.conventions.ugrid.UGrid._make_polygons(self)` -/')
    L.append('def ugridPolygons : PProg :=')
    L.append('  ' + r_pprog(pprog))
    L.append('')
    L.append('/-- what the translator could not render of `UGrid._make_polygons`: (function, python text) -/')
    L.append('def polygonComplaints : List (String × String) :=')
    L.append('  [' + ', '.join(f'({lean_str(w)}, {lean_str(t)})' for w, t in pcomplaints) + ']')
    L.append('')
    L.append('end Ems.Gen.UgridSrc')
    return '\n'.join(L) + '\n'


if __name__ == '__main__':
    import sys
    sys.path.insert(0, str(VERIF))
    print(render())
