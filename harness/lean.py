"""Lean side of a check run: build, axiom audit, forbidden-token grep, driver I/O."""
from __future__ import annotations

import fcntl
import os
import pathlib
import re
import subprocess
import time

VERIF = pathlib.Path(__file__).resolve().parent.parent
LEAN_DIR = VERIF / 'lean'
ALLOWED_AXIOMS = {'propext', 'Quot.sound', 'Classical.choice'}
FORBIDDEN = re.compile(
    r'\b(sorry|admit|native_decide|bv_decide|implemented_by|unsafe)\b|^\s*axiom\s|maxHeartbeats\s+0\b',
    re.M)


class LeanError(Exception):
    pass


def _env():
    env = dict(os.environ)
    env.pop('LEAN_PATH', None)
    return env


class _Lock:
    """The project lock. Builds (and everything that rewrites files under lean/) take it exclusively; drivers and
    axiom audits only READ the compiled files, so they share it among themselves and exclude builds only."""

    def __init__(self, shared: bool = False):
        self.shared = shared

    def __enter__(self):
        self.f = open(LEAN_DIR / '.lock', 'a')
        fcntl.flock(self.f, fcntl.LOCK_SH if self.shared else fcntl.LOCK_EX)
        return self

    def __exit__(self, *a):
        fcntl.flock(self.f, fcntl.LOCK_UN)
        self.f.close()


def _run(cmd, input=None, timeout=1800):
    p = subprocess.run(cmd, cwd=LEAN_DIR, input=input, capture_output=True, text=True,
                       env=_env(), timeout=timeout)
    return p.returncode, p.stdout, p.stderr


def build(targets: list[str], clean: bool = False) -> tuple[bool, str]:
    """`lake build <targets>` under the project lock. Returns (ok, log)."""
    with _Lock():
        if clean:
            for t in targets:
                rel = t.replace('.', '/')
                for ext in ('olean', 'ilean', 'trace', 'olean.hash', 'ilean.hash'):
                    f = LEAN_DIR / '.lake/build/lib/lean' / f'{rel}.{ext}'
                    if f.exists():
                        f.unlink()
        rc, out, err = _run(['lake', 'build', *targets])
    log = '\n'.join(l for l in (out + err).splitlines() if 'conda' not in l)
    return rc == 0, log


def strip_comments(src: str) -> str:
    # block comments (possibly nested once) then line comments
    prev = None
    while prev != src:
        prev = src
        src = re.sub(r'/-(?:(?!/-|-/).)*-/', ' ', src, flags=re.S)
    src = re.sub(r'--.*', '', src)
    return src


def grep_forbidden(paths: list[pathlib.Path]) -> list[str]:
    hits = []
    for p in paths:
        src = strip_comments(p.read_text())
        # string literals may legitimately contain words; drop them
        src_nostr = re.sub(r'"(?:\\.|[^"\\])*"', '""', src)
        for m in FORBIDDEN.finditer(src_nostr):
            hits.append(f'{p.relative_to(LEAN_DIR)}: {m.group(0).strip()}')
    return hits


def theorems_in(module: str) -> list[str]:
    """Fully qualified names of the `theorem`s declared in a module's source file."""
    path = LEAN_DIR / (module.replace('.', '/') + '.lean')
    src = strip_comments(path.read_text())
    names = []
    ns_stack: list[str] = []
    for line in src.splitlines():
        m = re.match(r'\s*namespace\s+(\S+)', line)
        if m:
            ns_stack.append(m.group(1))
            continue
        m = re.match(r'\s*end\s+(\S+)', line)
        if m and ns_stack and ns_stack[-1] == m.group(1):
            ns_stack.pop()
            continue
        m = re.match(r'\s*(?:@\[[^\]]*\]\s*)?(?:private\s+|protected\s+)?theorem\s+(\S+)', line)
        if m:
            names.append('.'.join(ns_stack + [m.group(1)]))
    return names


def module_closure(module: str, seen=None) -> list[pathlib.Path]:
    """Source files of `module` and everything under EmsModel it imports."""
    seen = seen if seen is not None else {}
    if module in seen:
        return list(seen.values())
    path = LEAN_DIR / (module.replace('.', '/') + '.lean')
    if not path.exists():
        return list(seen.values())
    seen[module] = path
    for m in re.finditer(r'^\s*import\s+(\S+)', path.read_text(), flags=re.M):
        if m.group(1).startswith('EmsModel'):
            module_closure(m.group(1), seen)
    return list(seen.values())


def audit(module: str, theorems: list[str]) -> tuple[dict, str]:
    """`#print axioms` for every theorem. Returns ({theorem: [axioms] | None}, raw log).
    None = the theorem does not exist / did not elaborate."""
    src = f'import {module}\n' + '\n'.join(f'#print axioms {t}' for t in theorems) + '\n'
    tmp = LEAN_DIR / f'.audit_{module.replace(".", "_")}_{os.getpid()}.lean'
    text = ''
    # The audit reads the compiled files of the module's whole closure.  Another check running at the same
    # time may be rebuilding a shared module (the generated tables, a common lemma file), so the audit holds the
    # project lock, and an audit in which *nothing* elaborated right after a successful build is an
    # infrastructure hiccup, not a verdict: rebuild and try again, then give up with an error (exit 2).
    for attempt in range(3):
        with _Lock(shared=(attempt == 0)):
            if attempt:
                _run(['lake', 'build', module])
            tmp.write_text(src)
            try:
                rc, out, err = _run(['lake', 'env', 'lean', str(tmp)])
            finally:
                tmp.unlink(missing_ok=True)
        text = out + err
        if not theorems or re.search(r"depends on axioms|does not depend on any axioms", text):
            break
        time.sleep(2 + 3 * attempt)
    else:
        raise LeanError('axiom audit produced no output after a successful build (3 attempts): ' + text[-400:])
    res: dict = {t: None for t in theorems}
    # outputs look like: 'Ems.C01.ravel_wind' depends on axioms: [propext, Quot.sound]
    #                or: 'Ems.C01.foo' does not depend on any axioms
    flat = re.sub(r'\s+', ' ', text)
    for t in theorems:
        m = re.search(r"'" + re.escape(t) + r"' depends on axioms: \[([^\]]*)\]", flat)
        if m:
            res[t] = [a.strip() for a in m.group(1).split(',') if a.strip()]
            continue
        if re.search(r"'" + re.escape(t) + r"' does not depend on any axioms", flat):
            res[t] = []
    return res, text


def leanchecker(modules: list[str]) -> tuple[bool, str]:
    """Re-check the compiled modules. It only reads the .olean files, so it shares the project lock with drivers and
    audits; a concurrent clean rebuild of another check (exclusive) can then no longer pull the files from under it.
    If files are missing all the same (a clean build elsewhere removed them before this run took the lock), they are
    rebuilt once and the re-check repeated: that is an infrastructure hiccup, not a verdict."""
    for attempt in range(2):
        with _Lock(shared=True):
            rc, out, err = _run(['lake', 'env', 'leanchecker', *modules], timeout=3600)
        if rc == 0 or 'Could not find any oleans' not in (out + err):
            break
        build(modules)
    return rc == 0, (out + err)


def driver_imports(name: str) -> list[str]:
    """EmsModel modules a driver file imports (they must be built before `lean --run`)."""
    path = LEAN_DIR / 'Drivers' / f'{name}.lean'
    if not path.exists():
        return []
    return [m.group(1) for m in re.finditer(r'^\s*import\s+(EmsModel\.\S+)', path.read_text(), flags=re.M)]


class Driver:
    """Batch line-protocol access to `Drivers/<name>.lean`."""

    def __init__(self, name: str):
        self.name = name
        self.path = LEAN_DIR / 'Drivers' / f'{name}.lean'
        self.lines_sent = 0
        self.seconds = 0.0

    def run(self, lines: list[str]) -> list[str]:
        if not lines:
            return []
        for l in lines:
            if '\n' in l:
                raise LeanError(f'newline inside protocol line: {l!r}')
        t0 = time.time()
        # under the project lock: another check's (clean) build must not pull the .olean
        # files from under a running driver
        with _Lock(shared=True):
            rc, out, err = _run(['lake', 'env', 'lean', '--run', str(self.path)],
                                input='\n'.join(lines) + '\n', timeout=3600)
        self.seconds += time.time() - t0
        outs = [l for l in out.splitlines() if 'conda.cli' not in l]
        if rc != 0 or len(outs) != len(lines):
            raise LeanError(
                f'driver {self.name} rc={rc}, {len(outs)} output lines for {len(lines)} inputs\n'
                + (err[-2000:] if err else '') + '\n' + '\n'.join(outs[-5:]))
        self.lines_sent += len(lines)
        return outs
