"""
T — index selection (C05): `DimensionConvention.selector_for_indexes`, `Convention.select_indexes`, `select_index`,
`select_point` and `drop_geometry` of emsarray/conventions/_base.py, read from their source text on every run.

Each function becomes a record of the language in lean/EmsModel/Core/SelectSrc.lean (a decision list of refusals in source
order + named operands of the steps), written to lean/EmsModel/Gen/SelectSrc.lean; Props/C05Src.lean proves that, run, the
records compute the hand model `Ems.selectIndexes` for all inputs.  Locals are followed by data flow (an environment of
symbolic values), never by their names.  Whatever is not recognised becomes an `unknown "<python>"` operand or a `false`
flag which no theorem accepts, and is listed in `complaints`.  `render()` never raises.
"""
from __future__ import annotations

import ast
import inspect
import pathlib
import textwrap

VERIF = pathlib.Path(__file__).resolve().parent.parent
OUT = VERIF / 'lean' / 'EmsModel' / 'Gen' / 'SelectSrc.lean'
TARGET = 'EmsModel.Gen.SelectSrc'


def lean_str(s: str) -> str:
    s = s if len(s) < 160 else s[:157] + '...'
    return '"' + s.replace('\\', '\\\\').replace('"', '\\"').replace('\n', '\\n') + '"'


def b(x) -> str:
    return 'true' if x else 'false'


def opt(x, f=str) -> str:
    return 'none' if x is None else f'(some {f(x)})'


def _int(n):
    if isinstance(n, ast.Constant) and isinstance(n.value, int) and not isinstance(n.value, bool) and n.value >= 0:
        return n.value
    return None


def _body(fn):
    return [s for s in fn.body
            if not (isinstance(s, ast.Expr) and isinstance(s.value, ast.Constant) and isinstance(s.value.value, str))]


def _fn(obj, src=None):
    text = src if src is not None else inspect.getsource(obj)
    return ast.parse(textwrap.dedent(text)).body[0]


def _is_log(s):
    """a statement without effect on the result: logging call, `pass`"""
    if isinstance(s, ast.Pass):
        return True
    if isinstance(s, ast.Expr) and isinstance(s.value, ast.Call):
        f = ast.unparse(s.value.func)
        return f.startswith(('logger.', 'logging.', 'log.', 'warnings.warn')) or f == 'print'
    return False


def _find_unused(node, env):
    """utils.find_unused_dimension(self.dataset, '<prefix>') -> prefix"""
    if isinstance(node, ast.Call) and ast.unparse(node.func).endswith('find_unused_dimension') and not node.keywords:
        if len(node.args) == 2 and ast.unparse(node.args[0]) == 'self.dataset' and isinstance(node.args[1], ast.Constant) \
                and isinstance(node.args[1].value, str):
            return node.args[1].value
        if len(node.args) == 1 and ast.unparse(node.args[0]) == 'self.dataset':
            return 'index'
    return None


CMPS = {ast.Eq: 'eq', ast.NotEq: 'ne', ast.Gt: 'gt', ast.GtE: 'ge', ast.Lt: 'lt', ast.LtE: 'le'}


# ---------------------------------------------------------------------------------------------- selector_for_indexes
def read_selector(src=None) -> dict:
    out = {'defaultPrefix': None, 'guards': [], 'unpacksAll': False, 'kindFrom': None, 'dimsOfKind': False,
           'arrayOfTuples': False, 'order': '.unknown "?"', 'keyIsDim': False, 'alongIndexDim': False,
           'slice': '.unknown "?"', 'complaints': []}
    bad = out['complaints'].append
    if src is None:
        from emsarray.conventions._base import DimensionConvention
        fn = _fn(DimensionConvention.selector_for_indexes)
    else:
        fn = _fn(None, src)
    params = [a.arg for a in fn.args.args + fn.args.kwonlyargs]
    p_indexes = params[1] if len(params) > 1 else 'indexes'
    p_idim = 'index_dimension' if 'index_dimension' in params else (params[2] if len(params) > 2 else 'index_dimension')
    env: dict = {p_indexes: ('indexes',), p_idim: ('idim',)}

    def sym(n):
        if isinstance(n, ast.Name):
            return env.get(n.id, ('py', n.id))
        if isinstance(n, ast.Call) and not n.keywords and len(n.args) == 1:
            f = ast.unparse(n.func)
            a = sym(n.args[0])
            if f in ('set', 'frozenset') and a == ('kinds',):
                return ('kindset',)
            if f in ('numpy.array', 'np.array', 'numpy.asarray', 'np.asarray') and a == ('tuples',):
                return ('array',)
            if f in ('reversed',) and a[0] == 'dims':
                return ('dims', 'asIs' if a[1] == 'reversed' else 'reversed', a[2])
            if f in ('list', 'tuple') and a[0] == 'dims':
                return a
        if isinstance(n, ast.Subscript):
            v = sym(n.value)
            if v == ('kinds',) and _int(n.slice) is not None:
                return ('kind', _int(n.slice))
            if ast.unparse(n.value) == 'self.grid_dimensions':
                k = sym(n.slice)
                if k[0] == 'kind':
                    return ('dims', 'asIs', k[1])
            if v[0] == 'dims' and ast.unparse(n.slice) == '::-1':
                return ('dims', 'asIs' if v[1] == 'reversed' else 'reversed', v[2])
        return ('py', ast.unparse(n))

    def qty(n):
        if isinstance(n, ast.Call) and ast.unparse(n.func) == 'len' and len(n.args) == 1 and not n.keywords:
            a = sym(n.args[0])
            if a == ('indexes',):
                return '.lenIndexes'
            if a == ('kindset',):
                return '.numKinds'
        return f'.unknown {lean_str(ast.unparse(n))}'

    def guard(test):
        if isinstance(test, ast.UnaryOp) and isinstance(test.op, ast.Not) and sym(test.operand) == ('indexes',):
            return ('.lenIndexes', '.eq', 0)
        if isinstance(test, ast.Compare) and len(test.ops) == 1 and type(test.ops[0]) in CMPS \
                and _int(test.comparators[0]) is not None:
            return (qty(test.left), '.' + CMPS[type(test.ops[0])], _int(test.comparators[0]))
        return (f'.unknown {lean_str(ast.unparse(test))}', '.unknown', 0)

    def is_unpack(v):
        """zip(*[self.unpack_index(x) for x in indexes])"""
        if not (isinstance(v, ast.Call) and ast.unparse(v.func) == 'zip' and len(v.args) == 1 and not v.keywords
                and isinstance(v.args[0], ast.Starred)):
            return False
        c = v.args[0].value
        if not (isinstance(c, (ast.ListComp, ast.GeneratorExp)) and len(c.generators) == 1):
            return False
        g = c.generators[0]
        return (not g.ifs and isinstance(g.target, ast.Name) and sym(g.iter) == ('indexes',)
                and isinstance(c.elt, ast.Call) and ast.unparse(c.elt.func) == 'self.unpack_index'
                and len(c.elt.args) == 1 and not c.elt.keywords and isinstance(c.elt.args[0], ast.Name)
                and c.elt.args[0].id == g.target.id)

    def result(v):
        if not (isinstance(v, ast.Call) and ast.unparse(v.func) in ('xarray.Dataset', 'xr.Dataset') and len(v.args) == 1
                and not v.keywords and isinstance(v.args[0], ast.DictComp) and len(v.args[0].generators) == 1):
            bad(f'selector_for_indexes: result not understood: {ast.unparse(v)}')
            return
        dc = v.args[0]
        g = dc.generators[0]
        if g.ifs or not (isinstance(g.iter, ast.Call) and ast.unparse(g.iter.func) == 'enumerate' and len(g.iter.args) == 1
                         and not g.iter.keywords and isinstance(g.target, ast.Tuple) and len(g.target.elts) == 2
                         and all(isinstance(e, ast.Name) for e in g.target.elts)):
            bad(f'selector_for_indexes: loop not understood: {ast.unparse(dc)}')
            return
        ctr, dim = g.target.elts[0].id, g.target.elts[1].id
        d = sym(g.iter.args[0])
        if d[0] == 'dims':
            out['order'] = '.' + d[1]
            out['dimsOfKind'] = True
            out['kindFrom'] = d[2]
        else:
            out['order'] = f'.unknown {lean_str(ast.unparse(g.iter.args[0]))}'
            bad(f'selector_for_indexes: enumerated iterable not understood: {ast.unparse(g.iter.args[0])}')
        out['keyIsDim'] = isinstance(dc.key, ast.Name) and dc.key.id == dim
        val = dc.value
        if isinstance(val, ast.Tuple) and len(val.elts) == 2:
            out['alongIndexDim'] = sym(val.elts[0]) == ('idim',)
            s = val.elts[1]
            sl = f'.unknown {lean_str(ast.unparse(s))}'
            if isinstance(s, ast.Subscript) and sym(s.value) == ('array',):
                out['arrayOfTuples'] = True
                ix = s.slice
                full = lambda e: isinstance(e, ast.Slice) and e.lower is None and e.upper is None and e.step is None  # noqa: E731
                if isinstance(ix, ast.Tuple) and len(ix.elts) == 2:
                    a0, a1 = ix.elts
                    if full(a0) and isinstance(a1, ast.Name) and a1.id == ctr:
                        sl = '.colLoop'
                    elif full(a0) and _int(a1) is not None:
                        sl = f'.colConst {_int(a1)}'
                    elif full(a1) and isinstance(a0, ast.Name) and a0.id == ctr:
                        sl = '.rowLoop'
                elif isinstance(ix, ast.Name) and ix.id == ctr:
                    sl = '.rowLoop'
            out['slice'] = sl
            if sl.startswith('.unknown'):
                bad(f'selector_for_indexes: slice not understood: {ast.unparse(s)}')
        else:
            bad(f'selector_for_indexes: variable not understood: {ast.unparse(val)}')

    returned = False
    for s in _body(fn):
        if returned or _is_log(s):
            continue
        if isinstance(s, ast.If) and not s.orelse and len(s.body) == 1 and isinstance(s.body[0], ast.Raise):
            out['guards'].append(guard(s.test))
        elif isinstance(s, ast.If) and not s.orelse and len(s.body) == 1 and isinstance(s.body[0], ast.Assign) \
                and ast.unparse(s.test) == f'{p_idim} is None' and ast.unparse(s.body[0].targets[0]) == p_idim \
                and _find_unused(s.body[0].value, env) is not None and not out['guards'] and not out['unpacksAll']:
            out['defaultPrefix'] = _find_unused(s.body[0].value, env)
        elif isinstance(s, ast.Assign) and len(s.targets) == 1 and isinstance(s.targets[0], ast.Tuple) \
                and len(s.targets[0].elts) == 2 and all(isinstance(e, ast.Name) for e in s.targets[0].elts) \
                and is_unpack(s.value):
            env[s.targets[0].elts[0].id] = ('kinds',)
            env[s.targets[0].elts[1].id] = ('tuples',)
            out['unpacksAll'] = True
        elif isinstance(s, ast.Assign) and len(s.targets) == 1 and isinstance(s.targets[0], ast.Name):
            env[s.targets[0].id] = sym(s.value)
        elif isinstance(s, ast.Return) and s.value is not None:
            result(s.value)
            returned = True
        else:
            bad(f'selector_for_indexes: statement not understood: {ast.unparse(s)[:120]}')
            out['guards'].append((f'.unknown {lean_str(ast.unparse(s))}', '.unknown', 0))
    return out


# ---------------------------------------------------------------------------------------------- select_indexes
def read_select_indexes(src=None) -> dict:
    out = {'selectorCall': False, 'baseIfDrop': '.unknown "?"', 'baseElse': '.unknown "?"', 'dimsAreSelectorVars': False,
           'iteratesBase': False, 'keep': '.unknown "?"', 'extractsNames': False, 'returnsIsel': False, 'complaints': []}
    bad = out['complaints'].append
    if src is None:
        from emsarray.conventions._base import Convention
        fn = _fn(Convention.select_indexes)
    else:
        fn = _fn(None, src)
    env: dict = {'indexes': ('indexes',), 'index_dimension': ('idim',), 'drop_geometry': ('drop',)}

    def base(n):
        t = ast.unparse(n)
        if t == 'self.drop_geometry()':
            return '.dropGeometry'
        if t == 'self.dataset':
            return '.dataset'
        return f'.unknown {lean_str(t)}'

    def sym(n):
        if isinstance(n, ast.Name):
            return env.get(n.id, ('py', n.id))
        t = ast.unparse(n)
        if isinstance(n, ast.Call) and t.startswith('self.selector_for_indexes('):
            kw = {k.arg: k.value for k in n.keywords}
            if len(n.args) == 1 and sym(n.args[0]) == ('indexes',) and set(kw) == {'index_dimension'} \
                    and sym(kw['index_dimension']) == ('idim',):
                return ('selector',)
        if isinstance(n, ast.Call) and ast.unparse(n.func) in ('set', 'frozenset') and len(n.args) == 1 and not n.keywords:
            a = n.args[0]
            at = ast.unparse(a)
            for name, v in env.items():
                if v == ('selector',) and at in (f'{name}.variables.keys()', f'{name}.variables', f'{name}.data_vars',
                                                 f'{name}.data_vars.keys()', f'{name}.keys()'):
                    return ('seldims',)
        if isinstance(n, ast.IfExp) and sym(n.test) == ('drop',):
            return ('base', base(n.body), base(n.orelse))
        if t in ('self.drop_geometry()', 'self.dataset'):
            return ('base', base(n), base(n))
        if isinstance(n, ast.ListComp) and len(n.generators) == 1:
            g = n.generators[0]
            if isinstance(g.iter, ast.Call) and isinstance(g.iter.func, ast.Attribute) and g.iter.func.attr == 'items' \
                    and not g.iter.args and isinstance(g.target, ast.Tuple) and len(g.target.elts) == 2 \
                    and all(isinstance(e, ast.Name) for e in g.target.elts) and isinstance(n.elt, ast.Name) \
                    and n.elt.id == g.target.elts[0].id and sym(g.iter.func.value)[0] == 'base':
                var = g.target.elts[1].id
                return ('names', keep(g.ifs, var), sym(g.iter.func.value))
        if isinstance(n, ast.Call) and ast.unparse(n.func).endswith('extract_vars') and len(n.args) == 2 and not n.keywords:
            a0, a1 = sym(n.args[0]), sym(n.args[1])
            if a0[0] == 'base' and a1[0] == 'names':
                return ('extracted', a0, a1)
        if isinstance(n, ast.Call) and isinstance(n.func, ast.Attribute) and n.func.attr == 'isel' and len(n.args) == 1 \
                and not n.keywords and sym(n.func.value)[0] == 'extracted' and sym(n.args[0]) == ('selector',):
            return ('result',) + sym(n.func.value)[1:]
        return ('py', t)

    def keep(ifs, var):
        if not ifs:
            return '.always'
        if len(ifs) > 1:
            return f'.unknown {lean_str(" and ".join(ast.unparse(i) for i in ifs))}'
        t = ifs[0]
        vd = f'{var}.dims'

        def is_dims(n):
            return sym(n) == ('seldims',)

        def is_vd(n):
            return ast.unparse(n) in (vd, f'set({vd})')
        if isinstance(t, ast.Call) and isinstance(t.func, ast.Attribute) and len(t.args) == 1 and not t.keywords:
            if t.func.attr == 'intersection' and ((is_dims(t.func.value) and is_vd(t.args[0]))
                                                  or (is_vd(t.func.value) and is_dims(t.args[0]))):
                return '.anyShared'
            if t.func.attr == 'issuperset' and is_dims(t.func.value) and is_vd(t.args[0]):
                return '.allShared'
            if t.func.attr == 'issubset' and is_vd(t.func.value) and is_dims(t.args[0]):
                return '.allShared'
        if isinstance(t, ast.BinOp) and isinstance(t.op, ast.BitAnd) and ((is_dims(t.left) and is_vd(t.right))
                                                                         or (is_vd(t.left) and is_dims(t.right))):
            return '.anyShared'
        if isinstance(t, ast.Compare) and len(t.ops) == 1:
            l, r = t.left, t.comparators[0]
            if isinstance(t.ops[0], ast.LtE) and is_vd(l) and is_dims(r):
                return '.allShared'
            if isinstance(t.ops[0], ast.GtE) and is_dims(l) and is_vd(r):
                return '.allShared'
        if isinstance(t, ast.Call) and ast.unparse(t.func) in ('any', 'all') and len(t.args) == 1 \
                and isinstance(t.args[0], ast.GeneratorExp) and len(t.args[0].generators) == 1:
            g = t.args[0].generators[0]
            e = t.args[0].elt
            if not g.ifs and isinstance(g.target, ast.Name) and ast.unparse(g.iter) == vd and isinstance(e, ast.Compare) \
                    and len(e.ops) == 1 and isinstance(e.ops[0], ast.In) and ast.unparse(e.left) == g.target.id \
                    and is_dims(e.comparators[0]):
                return '.anyShared' if ast.unparse(t.func) == 'any' else '.allShared'
        return f'.unknown {lean_str(ast.unparse(t))}'

    returned = False
    for s in _body(fn):
        if returned or _is_log(s):
            continue
        if isinstance(s, ast.If) and len(s.body) == 1 and len(s.orelse) == 1 and isinstance(s.body[0], ast.Assign) \
                and isinstance(s.orelse[0], ast.Assign) and len(s.body[0].targets) == 1 \
                and isinstance(s.body[0].targets[0], ast.Name) \
                and ast.unparse(s.body[0].targets[0]) == ast.unparse(s.orelse[0].targets[0]):
            t, a, c = s.test, s.body[0].value, s.orelse[0].value
            if isinstance(t, ast.UnaryOp) and isinstance(t.op, ast.Not):
                t, a, c = t.operand, c, a
            if sym(t) == ('drop',):
                env[s.body[0].targets[0].id] = ('base', base(a), base(c))
            else:
                env[s.body[0].targets[0].id] = ('py', ast.unparse(s))
                bad(f'select_indexes: branch not understood: {ast.unparse(s.test)}')
        elif isinstance(s, ast.Assign) and len(s.targets) == 1 and isinstance(s.targets[0], ast.Name):
            env[s.targets[0].id] = sym(s.value)
        elif isinstance(s, ast.Return) and s.value is not None:
            returned = True
            r = sym(s.value)
            if r[0] == 'result':
                # `result` is only reached through isel(selector) of extract_vars(base, names)
                _, bs, nm = r
                out['returnsIsel'] = out['selectorCall'] = out['extractsNames'] = True
                out['baseIfDrop'], out['baseElse'] = bs[1], bs[2]
                out['keep'] = nm[1]
                out['iteratesBase'] = nm[2] == bs
                out['dimsAreSelectorVars'] = not nm[1].startswith('.unknown')
                if nm[1].startswith('.unknown'):
                    bad(f'select_indexes: kept-variables test not understood: {nm[1]}')
            else:
                bad(f'select_indexes: result not understood: {ast.unparse(s.value)}')
        else:
            bad(f'select_indexes: statement not understood: {ast.unparse(s)[:120]}')
            return out
    return out


# ---------------------------------------------------------------------------------------------- the small ones
def read_drop_geometry(src=None) -> dict:
    out = {'ofDataset': False, 'dropsAllGeometryNames': False, 'complaints': []}
    if src is None:
        from emsarray.conventions._base import Convention
        fn = _fn(Convention.drop_geometry)
    else:
        fn = _fn(None, src)
    body = [s for s in _body(fn) if not _is_log(s)]
    env = {}
    for s in body[:-1]:
        if isinstance(s, ast.Assign) and len(s.targets) == 1 and isinstance(s.targets[0], ast.Name):
            env[s.targets[0].id] = s.value
        else:
            out['complaints'].append(f'drop_geometry: statement not understood: {ast.unparse(s)[:120]}')
            return out

    def inl(n):
        while isinstance(n, ast.Name) and n.id in env:
            n = env[n.id]
        return n
    if body and isinstance(body[-1], ast.Return) and body[-1].value is not None:
        v = inl(body[-1].value)
        if isinstance(v, ast.Call) and isinstance(v.func, ast.Attribute) and v.func.attr == 'drop_vars' \
                and len(v.args) == 1 and not v.keywords:
            out['ofDataset'] = ast.unparse(inl(v.func.value)) == 'self.dataset'
            out['dropsAllGeometryNames'] = ast.unparse(inl(v.args[0])) == 'self.get_all_geometry_names()'
    if not (out['ofDataset'] and out['dropsAllGeometryNames']):
        out['complaints'].append('drop_geometry: not `self.dataset.drop_vars(self.get_all_geometry_names())`')
    return out


def read_select_index(src=None) -> dict:
    out = {'dimPrefix': None, 'callsSelectIndexesOnSingleton': False, 'squeezesIndexDim': False, 'complaints': []}
    if src is None:
        from emsarray.conventions._base import Convention
        fn = _fn(Convention.select_index)
    else:
        fn = _fn(None, src)
    params = [a.arg for a in fn.args.args]
    p_index = params[1] if len(params) > 1 else 'index'
    env: dict = {}
    for s in _body(fn):
        if _is_log(s):
            continue
        if isinstance(s, ast.Assign) and len(s.targets) == 1 and isinstance(s.targets[0], ast.Name):
            v, val = s.value, ('py',)
            if _find_unused(v, env) is not None:
                val = ('idim', _find_unused(v, env))
            elif isinstance(v, ast.Call) and ast.unparse(v.func) == 'self.select_indexes' and len(v.args) == 1:
                kw = {k.arg: k.value for k in v.keywords}
                a = v.args[0]
                if isinstance(a, ast.List) and len(a.elts) == 1 and ast.unparse(a.elts[0]) == p_index \
                        and set(kw) == {'index_dimension', 'drop_geometry'} and ast.unparse(kw['drop_geometry']) == 'drop_geometry' \
                        and isinstance(kw['index_dimension'], ast.Name) and env.get(kw['index_dimension'].id, ('py',))[0] == 'idim':
                    val = ('selected', env[kw['index_dimension'].id][1])
            elif isinstance(v, ast.Call) and isinstance(v.func, ast.Attribute) and v.func.attr == 'squeeze' and not v.args \
                    and isinstance(v.func.value, ast.Name) and env.get(v.func.value.id, ('py',))[0] == 'selected':
                kw = {k.arg: k.value for k in v.keywords}
                if set(kw) == {'dim', 'drop'} and ast.unparse(kw['drop']) == 'False' and isinstance(kw['dim'], ast.Name) \
                        and env.get(kw['dim'].id, ('py',))[0] == 'idim':
                    val = ('squeezed', env[v.func.value.id][1])
            env[s.targets[0].id] = val
        elif isinstance(s, ast.Return) and isinstance(s.value, ast.Name) and env.get(s.value.id, ('py',))[0] == 'squeezed':
            out['dimPrefix'] = env[s.value.id][1]
            out['callsSelectIndexesOnSingleton'] = True
            out['squeezesIndexDim'] = True
            return out
        else:
            break
    out['complaints'].append('select_index: not find_unused_dimension / select_indexes([index]) / squeeze')
    return out


def read_select_point(src=None) -> dict:
    out = {'looksUpPoint': False, 'missRaises': False, 'selectsHitIndex': False, 'complaints': []}
    if src is None:
        from emsarray.conventions._base import Convention
        fn = _fn(Convention.select_point)
    else:
        fn = _fn(None, src)
    params = [a.arg for a in fn.args.args]
    p_point = params[1] if len(params) > 1 else 'point'
    hit = None
    for s in _body(fn):
        if _is_log(s):
            continue
        if isinstance(s, ast.Assign) and len(s.targets) == 1 and isinstance(s.targets[0], ast.Name) \
                and ast.unparse(s.value) == f'self.get_index_for_point({p_point})' and hit is None:
            hit = s.targets[0].id
            out['looksUpPoint'] = True
        elif isinstance(s, ast.If) and hit and not s.orelse and len(s.body) == 1 and isinstance(s.body[0], ast.Raise) \
                and ast.unparse(s.test) == f'{hit} is None':
            out['missRaises'] = True
        elif isinstance(s, ast.Return) and hit and out['missRaises'] \
                and ast.unparse(s.value) == f'self.select_index({hit}.index)':
            out['selectsHitIndex'] = True
            return out
        else:
            break
    out['complaints'].append('select_point: not lookup / refuse a miss / select_index(index.index)')
    return out


# ---------------------------------------------------------------------------------------------- rendering
def _safe(reader, default, src=None):
    try:
        r = reader(src)
        if isinstance(r, tuple):
            r = r[0]
        return r
    except Exception as e:  # noqa: BLE001 - never make the run fail
        d = dict(default)
        d['complaints'] = [f'{reader.__name__}: {type(e).__name__}: {e}']
        return d


D_SELECTOR = {'defaultPrefix': None, 'guards': [], 'unpacksAll': False, 'kindFrom': None, 'dimsOfKind': False,
              'arrayOfTuples': False, 'order': '.unknown "?"', 'keyIsDim': False, 'alongIndexDim': False,
              'slice': '.unknown "?"'}
D_SELIDX = {'selectorCall': False, 'baseIfDrop': '.unknown "?"', 'baseElse': '.unknown "?"', 'dimsAreSelectorVars': False,
            'iteratesBase': False, 'keep': '.unknown "?"', 'extractsNames': False, 'returnsIsel': False}
D_DROP = {'ofDataset': False, 'dropsAllGeometryNames': False}
D_ONE = {'dimPrefix': None, 'callsSelectIndexesOnSingleton': False, 'squeezesIndexDim': False}
D_POINT = {'looksUpPoint': False, 'missRaises': False, 'selectsHitIndex': False}


def render(srcs: dict | None = None) -> str:
    srcs = srcs or {}
    s = _safe(read_selector, D_SELECTOR, srcs.get('selector_for_indexes'))
    p = _safe(read_select_indexes, D_SELIDX, srcs.get('select_indexes'))
    d = _safe(read_drop_geometry, D_DROP, srcs.get('drop_geometry'))
    o = _safe(read_select_index, D_ONE, srcs.get('select_index'))
    q = _safe(read_select_point, D_POINT, srcs.get('select_point'))
    complaints = s['complaints'] + p['complaints'] + d['complaints'] + o['complaints'] + q['complaints']
    guards = ', '.join(f'{{ q := {g[0]}, cmp := {g[1]}, n := {g[2]} }}' for g in s['guards'])
    L = ['import EmsModel.Core.SelectSrc', '/-',
         'GENERATED by harness/trans_selectsrc.py from the source text of the working tree under check. Do not edit.',
         '-/', 'namespace Ems.Gen.SelectSrc', 'open Ems.SelectSrc', '',
         '/-- `DimensionConvention.selector_for_indexes` -/',
         'def selectorSrc : Selector :=',
         f'  {{ defaultPrefix := {opt(s["defaultPrefix"], lean_str)},',
         f'    guards := [{guards}],',
         f'    unpacksAll := {b(s["unpacksAll"])}, kindFrom := {opt(s["kindFrom"])}, dimsOfKind := {b(s["dimsOfKind"])},',
         f'    arrayOfTuples := {b(s["arrayOfTuples"])}, order := {s["order"]}, keyIsDim := {b(s["keyIsDim"])},',
         f'    alongIndexDim := {b(s["alongIndexDim"])}, slice := {s["slice"]} }}', '',
         '/-- `Convention.select_indexes` -/',
         'def selIdxSrc : SelIdx :=',
         f'  {{ selectorCall := {b(p["selectorCall"])}, baseIfDrop := {p["baseIfDrop"]}, baseElse := {p["baseElse"]},',
         f'    dimsAreSelectorVars := {b(p["dimsAreSelectorVars"])}, iteratesBase := {b(p["iteratesBase"])},',
         f'    keep := {p["keep"]}, extractsNames := {b(p["extractsNames"])}, returnsIsel := {b(p["returnsIsel"])} }}', '',
         '/-- `Convention.drop_geometry` -/',
         'def dropGeomSrc : DropGeom :=',
         f'  {{ ofDataset := {b(d["ofDataset"])}, dropsAllGeometryNames := {b(d["dropsAllGeometryNames"])} }}', '',
         '/-- `Convention.select_index` -/',
         'def selOneSrc : SelOne :=',
         f'  {{ dimPrefix := {opt(o["dimPrefix"], lean_str)},',
         f'    callsSelectIndexesOnSingleton := {b(o["callsSelectIndexesOnSingleton"])},',
         f'    squeezesIndexDim := {b(o["squeezesIndexDim"])} }}', '',
         '/-- `Convention.select_point` -/',
         'def selPointSrc : SelPoint :=',
         f'  {{ looksUpPoint := {b(q["looksUpPoint"])}, missRaises := {b(q["missRaises"])},',
         f'    selectsHitIndex := {b(q["selectsHitIndex"])} }}', '',
         '/-- what the translator could not read -/',
         'def complaints : List String := [' + ', '.join(lean_str(c) for c in complaints) + ']', '',
         'end Ems.Gen.SelectSrc', '']
    return '\n'.join(L)


if __name__ == '__main__':
    import sys
    sys.path.insert(0, str(VERIF))
    print(render())
