"""
T — translator for the plot artists (property C19): `Convention.make_poly_collection`, `Convention.make_quiver`
(emsarray/conventions/_base.py) and `plot.polygons_to_collection` (emsarray/plot.py).

On every run the SOURCE TEXT of the three functions of the working tree under check (`import emsarray`, `inspect.getsource`, `ast`)
is re-emitted as terms of the language of `lean/EmsModel/Core/PlotSrc.lean` in `lean/EmsModel/Gen/PlotSrc.lean`:

* `make_poly_collection` → `Gen.plotSrcMakePolyCollection : List PsStmt`  — the statements in source order, each with the tests of
                           the `if`s around it: `raise`, `kwargs['k'] = …`, `return polygons_to_collection(<polygons>, **kwargs)`;
* `make_quiver`          → `Gen.plotSrcMakeQuiver : List PsStmt`          — the same, ending in `return Quiver(axes, x, y, *values, **kwargs)`;
* `polygons_to_collection` → `Gen.plotSrcPolygonsToCollection : PsCollectionProg` — what is walked, what a vertex list is, `closed=`, `**kwargs`.

Locals are inlined (name → expression, a local re-assigned under `if a is not None and b is not None` becomes an `.ifGiven2` choice),
parameters are recognised by POSITION, `self.<attr>` by attribute, so renaming a local or a parameter leaves the file byte-identical;
docstrings, comments, imports, bare annotations, `logger.*` / `print` / `warnings.warn` calls are dropped.
Whatever is not understood becomes `.unsupported "<python text>"` (the interpreter is stuck on it, no theorem of `Props/C19Src.lean`
accepts it) and is listed in `Gen.plotSrcComplaints`.  `render()` never raises.
"""
from __future__ import annotations

import ast
import inspect
import pathlib
import textwrap
import warnings

warnings.simplefilter('ignore')

VERIF = pathlib.Path(__file__).resolve().parent.parent
OUT = VERIF / 'lean' / 'EmsModel' / 'Gen' / 'PlotSrc.lean'
TARGET = 'EmsModel.Gen.PlotSrc'


def lean_str(s: str) -> str:
    out = []
    for ch in s:
        if ch == '\\':
            out.append('\\\\')
        elif ch == '"':
            out.append('\\"')
        elif ch == '\n':
            out.append('\\n')
        elif ord(ch) < 32 or ord(ch) > 126:
            out.append('?')
        else:
            out.append(ch)
    return '"' + ''.join(out)[:200] + '"'


def unparse(node) -> str:
    try:
        return ast.unparse(node)
    except Exception:  # noqa: BLE001
        return '<?>'


def dotted(node) -> str | None:
    """`a.b.c` → 'a.b.c' for Name/Attribute chains"""
    parts = []
    while isinstance(node, ast.Attribute):
        parts.append(node.attr)
        node = node.value
    if isinstance(node, ast.Name):
        parts.append(node.id)
        return '.'.join(reversed(parts))
    return None


def get_func_ast(func):
    if isinstance(func, str):       # source text handed over directly (the translator's own mutation tests)
        src = textwrap.dedent(func)
    else:
        while hasattr(func, '__wrapped__'):
            func = func.__wrapped__
        src = textwrap.dedent(inspect.getsource(func))
    tree = ast.parse(src)
    for node in ast.walk(tree):
        if isinstance(node, (ast.FunctionDef, ast.AsyncFunctionDef)):
            return node
    raise ValueError('no function definition')


LOG_PREFIXES = ('logger.', 'logging.', 'log.', 'warnings.')


class Translator:
    """one function → list of `PsStmt` texts"""

    def __init__(self, fn: ast.FunctionDef, params: dict[int, str], complaints: list, label: str):
        self.fn = fn
        self.label = label
        self.complaints = complaints
        args = fn.args
        names = [a.arg for a in args.posonlyargs + args.args]
        self.self_name = names[0] if names else 'self'
        self.param_names = names
        self.kwargs_name = args.kwarg.arg if args.kwarg else None
        # locals: name -> list of (guard ids tuple, extra conds list (texts), expr text)
        self.defs: dict[str, list] = {}
        for pos, lean in params.items():
            if pos < len(names):
                self.defs[names[pos]] = [((), [], lean)]
        self.guards: list[tuple[int, str]] = []   # (id, cond text)
        self.next_id = 0
        self.stmts: list[str] = []

    # ---------------------------------------------------------------- expressions
    def unsupported(self, node, what='expression') -> str:
        text = unparse(node)
        self.complaints.append(f'{self.label}: {what} not understood: {text}')
        return f'(.unsupported {lean_str(text)})'

    def is_self_attr(self, node, attr: str) -> bool:
        return (isinstance(node, ast.Attribute) and node.attr == attr and isinstance(node.value, ast.Name)
                and node.value.id == self.self_name and self.self_name not in self.assigned_self())

    def assigned_self(self):
        return ()

    def resolve(self, node: ast.Name) -> str:
        name = node.id
        defs = self.defs.get(name)
        if not defs:
            return self.unsupported(node, 'name')
        cur = tuple(g[0] for g in self.guards)
        base = None
        for i in range(len(defs) - 1, -1, -1):
            ids = defs[i][0]
            if cur[:len(ids)] == ids:
                base = i
                break
        if base is None:
            return self.unsupported(node, 'name that may be unassigned')
        result = defs[base][2]
        for ids, conds, expr in defs[base + 1:]:
            # a later assignment under an `if` that is not around this use: a choice on that test
            common = 0
            while common < len(ids) and common < len(cur) and ids[common] == cur[common]:
                common += 1
            extra = conds[common:]
            given = self.given2(extra)
            if given is None:
                return self.unsupported(node, 'name assigned under a test that is not `a is not None and b is not None`')
            result = f'(.ifGiven2 {given[0]} {given[1]} {expr} {result})'
        return result

    @staticmethod
    def given2(conds: list):
        if len(conds) != 1 or not isinstance(conds[0], tuple):
            return None
        return conds[0]

    def expr(self, node) -> str:
        if isinstance(node, ast.Name):
            if node.id in self.defs:
                return self.resolve(node)
            return self.unsupported(node, 'name')
        if isinstance(node, ast.Attribute):
            if self.is_self_attr(node, 'polygons'):
                return '.polygons'
            if self.is_self_attr(node, 'face_centres'):
                return '.faceCentres'
            if self.is_self_attr(node, 'data_crs'):
                return '.dataCrs'
            if dotted(node) in ('numpy.nan', 'np.nan', 'numpy.NaN', 'math.nan'):
                return '.nan'
            if node.attr == 'values':
                return f'(.values {self.expr(node.value)})'
            return self.unsupported(node)
        if isinstance(node, ast.Subscript):
            if self.is_self_attr(node.slice, 'mask'):
                return f'(.maskIndex {self.expr(node.value)})'
            return self.unsupported(node)
        if isinstance(node, ast.Tuple) and len(node.elts) == 2 and not any(isinstance(e, ast.Starred) for e in node.elts):
            return f'(.tuple2 {self.expr(node.elts[0])} {self.expr(node.elts[1])})'
        if isinstance(node, ast.Call) and not node.keywords:
            callee = dotted(node.func)
            a = node.args
            if any(isinstance(x, ast.Starred) for x in a):
                return self.unsupported(node)
            if callee in ('utils.name_to_data_array', 'name_to_data_array') and len(a) == 2 \
                    and self.is_self_attr(a[0], 'dataset'):
                return self.expr(a[1])
            if callee == f'{self.self_name}.ravel' and len(a) == 1:
                return f'(.ravel {self.expr(a[0])})'
            if callee in ('numpy.nanmin', 'np.nanmin') and len(a) == 1:
                return f'(.nanmin {self.expr(a[0])})'
            if callee in ('numpy.nanmax', 'np.nanmax') and len(a) == 1:
                return f'(.nanmax {self.expr(a[0])})'
            return self.unsupported(node)
        return self.unsupported(node)

    # ---------------------------------------------------------------- tests
    def cond(self, node):
        """→ (lean text, given2 info or None); given2 info = (a, b) when the test is `a is not None and b is not None`"""
        if isinstance(node, ast.UnaryOp) and isinstance(node.op, ast.Not):
            return f'(.not {self.cond(node.operand)[0]})', None
        if isinstance(node, ast.BoolOp) and isinstance(node.op, ast.And) and len(node.values) >= 2:
            parts = [self.cond(v) for v in node.values]
            text = parts[-1][0]
            for p in reversed(parts[:-1]):
                text = f'(.and {p[0]} {text})'
            info = None
            if len(parts) == 2 and all(isinstance(p[1], str) for p in parts):
                info = (parts[0][1], parts[1][1])
            return text, info
        if isinstance(node, ast.Compare) and len(node.ops) == 1:
            op, left, right = node.ops[0], node.left, node.comparators[0]
            is_none = isinstance(right, ast.Constant) and right.value is None
            if isinstance(op, ast.IsNot) and is_none:
                e = self.expr(left)
                return f'(.given {e})', e        # a str marks "a single `is not None`"
            if isinstance(op, ast.Is) and is_none:
                return f'(.not (.given {self.expr(left)}))', None
            if isinstance(op, (ast.In, ast.NotIn)) and isinstance(left, ast.Constant) and isinstance(left.value, str) \
                    and isinstance(right, ast.Name) and right.id == self.kwargs_name and right.id not in self.defs:
                t = f'(.kwHas {lean_str(left.value)})'
                return (t if isinstance(op, ast.In) else f'(.not {t})'), None
            dims_len = self.dims_len(left)
            if isinstance(op, ast.Gt) and dims_len is not None and isinstance(right, ast.Constant) \
                    and type(right.value) is int and right.value >= 0:
                return f'(.dimsLenGt {dims_len} {right.value})', None
            dims_len = self.dims_len(right)
            if isinstance(op, ast.Lt) and dims_len is not None and isinstance(left, ast.Constant) \
                    and type(left.value) is int and left.value >= 0:
                return f'(.dimsLenGt {dims_len} {left.value})', None
            if isinstance(op, ast.NotEq) and isinstance(left, ast.Attribute) and left.attr == 'dims' \
                    and isinstance(right, ast.Attribute) and right.attr == 'dims':
                return f'(.dimsNe {self.expr(left.value)} {self.expr(right.value)})', None
        text = unparse(node)
        self.complaints.append(f'{self.label}: test not understood: {text}')
        return f'(.unsupported {lean_str(text)})', None

    def dims_len(self, node):
        if isinstance(node, ast.Call) and isinstance(node.func, ast.Name) and node.func.id == 'len' and len(node.args) == 1 \
                and not node.keywords and isinstance(node.args[0], ast.Attribute) and node.args[0].attr == 'dims':
            return self.expr(node.args[0].value)
        return None

    # ---------------------------------------------------------------- statements
    def emit(self, act: str):
        guards = ', '.join(g[1] for g in self.guards)
        self.stmts.append(f'{{ guards := [{guards}], act := {act} }}')

    def emit_unsupported(self, node):
        text = unparse(node)
        self.complaints.append(f'{self.label}: statement not understood: {text}')
        self.emit(f'(.unsupported {lean_str(text)})')

    def assign(self, name: str, expr: str):
        ids = tuple(g[0] for g in self.guards)
        conds = [g[2] for g in self.guards]
        self.defs.setdefault(name, []).append((ids, conds, expr))

    def block(self, body):
        for st in body:
            self.stmt(st)

    def stmt(self, st):
        if isinstance(st, (ast.Import, ast.ImportFrom, ast.Pass)):
            return
        if isinstance(st, ast.Expr):
            v = st.value
            if isinstance(v, ast.Constant):
                return      # docstring
            if isinstance(v, ast.Call):
                callee = dotted(v.func) or ''
                if callee == 'print' or callee.startswith(LOG_PREFIXES):
                    return
            return self.emit_unsupported(st)
        if isinstance(st, ast.AnnAssign):
            if st.value is None:
                return
            if isinstance(st.target, ast.Name):
                return self.assign(st.target.id, self.expr(st.value))
            return self.emit_unsupported(st)
        if isinstance(st, ast.Assign) and len(st.targets) == 1:
            tgt, val = st.targets[0], st.value
            if isinstance(tgt, ast.Name):
                if tgt.id == self.kwargs_name or tgt.id == self.self_name:
                    return self.emit_unsupported(st)
                return self.assign(tgt.id, self.expr(val))
            if isinstance(tgt, ast.Subscript) and isinstance(tgt.value, ast.Name) and tgt.value.id == self.kwargs_name \
                    and isinstance(tgt.slice, ast.Constant) and isinstance(tgt.slice.value, str):
                return self.emit(f'(.setKw {lean_str(tgt.slice.value)} {self.expr(val)})')
            if isinstance(tgt, ast.Tuple) and all(isinstance(e, ast.Name) for e in tgt.elts):
                names = [e.id for e in tgt.elts]
                if self.kwargs_name in names or self.self_name in names:
                    return self.emit_unsupported(st)
                if isinstance(val, ast.Tuple) and len(val.elts) == len(names) \
                        and not any(isinstance(e, ast.Starred) for e in val.elts):
                    exprs = [self.expr(e) for e in val.elts]       # all right-hand sides first
                    for n, e in zip(names, exprs):
                        self.assign(n, e)
                    return
                if isinstance(val, ast.Call) and dotted(val.func) in ('numpy.transpose', 'np.transpose') \
                        and len(val.args) == 1 and not val.keywords and len(names) == 2:
                    inner = self.expr(val.args[0])
                    for k, n in enumerate(names):
                        self.assign(n, f'(.column {k} {inner})')
                    return
            return self.emit_unsupported(st)
        if isinstance(st, ast.Raise):
            exc = st.exc
            name = None
            if isinstance(exc, ast.Call):
                name = dotted(exc.func)
            elif exc is not None:
                name = dotted(exc)
            if name is None:
                return self.emit_unsupported(st)
            return self.emit(f'(.raise {lean_str(name)})')
        if isinstance(st, ast.If):
            text, info = self.cond(st.test)
            if 'kwHas' in text and (len(st.body) > 1 or len(st.orelse) > 1):
                # the guards are re-evaluated per statement: a body that changes `kwargs` and goes on is not covered
                return self.emit_unsupported(st)
            self.next_id += 1
            gid = self.next_id
            self.guards.append((gid, text, info if isinstance(info, tuple) else None))
            self.block(st.body)
            self.guards.pop()
            if st.orelse:
                self.next_id += 1
                self.guards.append((self.next_id, f'(.not {text})', None))
                self.block(st.orelse)
                self.guards.pop()
            return
        if isinstance(st, ast.Return):
            return self.ret(st)
        return self.emit_unsupported(st)

    def ret(self, st: ast.Return):
        v = st.value
        if not isinstance(v, ast.Call):
            return self.emit_unsupported(st)
        callee = dotted(v.func)
        passes_kwargs = (len(v.keywords) == 1 and v.keywords[0].arg is None and isinstance(v.keywords[0].value, ast.Name)
                         and v.keywords[0].value.id == self.kwargs_name and self.kwargs_name not in self.defs)
        if not passes_kwargs:
            return self.emit_unsupported(st)
        if callee in ('polygons_to_collection', 'plot.polygons_to_collection', 'emsarray.plot.polygons_to_collection') \
                and len(v.args) == 1 and not isinstance(v.args[0], ast.Starred):
            return self.emit(f'(.retCollection {self.expr(v.args[0])})')
        if callee in ('Quiver', 'matplotlib.quiver.Quiver') and len(v.args) == 4 \
                and not any(isinstance(a, ast.Starred) for a in v.args[:3]) and isinstance(v.args[3], ast.Starred) \
                and isinstance(v.args[0], ast.Name) and len(self.param_names) > 1 and v.args[0].id == self.param_names[1] \
                and v.args[0].id not in [k for k in self.defs if len(self.defs[k]) and k == v.args[0].id]:
            return self.emit(f'(.retQuiver {self.expr(v.args[1])} {self.expr(v.args[2])} {self.expr(v.args[3].value)})')
        return self.emit_unsupported(st)


def translate_function(func, params: dict[int, str], complaints: list, label: str) -> list[str]:
    try:
        fn = get_func_ast(func)
        tr = Translator(fn, params, complaints, label)
        tr.block(fn.body)
        return tr.stmts
    except Exception as e:  # noqa: BLE001
        msg = f'{type(e).__name__}: {e}'
        complaints.append(f'{label}: translator error: {msg}')
        return [f'{{ guards := [], act := (.unsupported {lean_str(msg)}) }}']


def translate_collection(func, complaints: list) -> str:
    label = 'polygons_to_collection'
    it, vert, closed, kw = '(.unsupported "missing")', '(.unsupported "missing")', 'none', 'false'
    try:
        fn = get_func_ast(func)
        names = [a.arg for a in fn.args.posonlyargs + fn.args.args]
        kwname = fn.args.kwarg.arg if fn.args.kwarg else None
        body = [s for s in fn.body
                if not (isinstance(s, ast.Expr) and (isinstance(s.value, ast.Constant)
                        or (isinstance(s.value, ast.Call) and ((dotted(s.value.func) or '') == 'print'
                            or (dotted(s.value.func) or '').startswith(LOG_PREFIXES)))))
                and not isinstance(s, (ast.Import, ast.ImportFrom, ast.Pass))]
        env = {}
        while body and isinstance(body[0], ast.Assign) and len(body[0].targets) == 1 and isinstance(body[0].targets[0], ast.Name) \
                and body[0].targets[0].id not in names and body[0].targets[0].id != kwname:
            env[body[0].targets[0].id] = body[0].value
            body = body[1:]
        if len(body) != 1 or not isinstance(body[0], ast.Return) or not isinstance(body[0].value, ast.Call):
            raise ValueError('body is not a single `return PolyCollection(...)`: ' + '; '.join(unparse(s) for s in body)[:150])
        call = body[0].value
        if dotted(call.func) not in ('PolyCollection', 'matplotlib.collections.PolyCollection', 'collections.PolyCollection'):
            raise ValueError('returns ' + unparse(call.func))
        kws = {}
        for k in call.keywords:
            if k.arg is None:
                if isinstance(k.value, ast.Name) and k.value.id == kwname and 'kwargs' not in kws:
                    kws['**'] = True
                else:
                    raise ValueError('unexpected ** argument ' + unparse(k.value))
            else:
                if k.arg in kws:
                    raise ValueError('duplicate keyword')
                kws[k.arg] = k.value
        pos = list(call.args)
        if pos and 'verts' not in kws:
            kws['verts'] = pos.pop(0)
        if pos or set(kws) - {'verts', 'closed', '**'}:
            raise ValueError('unexpected arguments in ' + unparse(call)[:120])
        kw = 'true' if kws.get('**') else 'false'
        c = kws.get('closed')
        if isinstance(c, ast.Constant) and isinstance(c.value, bool):
            closed = f'(some {"true" if c.value else "false"})'
        elif c is not None:
            complaints.append(f'{label}: closed= not understood: {unparse(c)}')
        verts = kws.get('verts')
        while isinstance(verts, ast.Name) and verts.id in env:
            verts = env[verts.id]
        if isinstance(verts, ast.ListComp) and len(verts.generators) == 1 and not verts.generators[0].ifs \
                and not verts.generators[0].is_async and isinstance(verts.generators[0].target, ast.Name):
            gen = verts.generators[0]
            loopvar = gen.target.id
            if isinstance(gen.iter, ast.Name) and names and gen.iter.id == names[0] and gen.iter.id not in env:
                it = '.polygonsParam'
            else:
                it = f'(.unsupported {lean_str(unparse(gen.iter))})'
                complaints.append(f'{label}: iterates over {unparse(gen.iter)}')
            elt = verts.elt
            if isinstance(elt, ast.Call) and dotted(elt.func) in ('numpy.asarray', 'np.asarray', 'numpy.array', 'np.array') \
                    and len(elt.args) == 1 and not elt.keywords and dotted(elt.args[0]) == f'{loopvar}.exterior.coords':
                vert = '.exteriorCoords'
            else:
                vert = f'(.unsupported {lean_str(unparse(elt))})'
                complaints.append(f'{label}: vertex list {unparse(elt)}')
        else:
            it = f'(.unsupported {lean_str(unparse(verts) if verts is not None else "no verts")})'
            complaints.append(f'{label}: verts= is not a list comprehension over the polygons')
    except Exception as e:  # noqa: BLE001
        msg = f'{type(e).__name__}: {e}'
        complaints.append(f'{label}: {msg}')
        it = f'(.unsupported {lean_str(msg)})'
    return f'{{ iter := {it}, vert := {vert}, closed := {closed}, passesKwargs := {kw} }}'


def render(sources: dict | None = None) -> str:
    """`sources` (tests only): function name -> source text to translate instead of the working tree's"""
    sources = sources or {}
    complaints: list[str] = []
    try:
        from emsarray.conventions._base import Convention
        poly = translate_function(sources.get('make_poly_collection', Convention.make_poly_collection), {1: '.dataArg'}, complaints, 'make_poly_collection')
    except Exception as e:  # noqa: BLE001
        complaints.append(f'make_poly_collection: {type(e).__name__}: {e}')
        poly = ['{ guards := [], act := (.unsupported "not found") }']
    try:
        from emsarray.conventions._base import Convention
        quiver = translate_function(sources.get('make_quiver', Convention.make_quiver), {2: '.uArg', 3: '.vArg'}, complaints, 'make_quiver')
    except Exception as e:  # noqa: BLE001
        complaints.append(f'make_quiver: {type(e).__name__}: {e}')
        quiver = ['{ guards := [], act := (.unsupported "not found") }']
    try:
        from emsarray import plot
        coll = translate_collection(sources.get('polygons_to_collection', plot.polygons_to_collection), complaints)
    except Exception as e:  # noqa: BLE001
        complaints.append(f'polygons_to_collection: {type(e).__name__}: {e}')
        coll = '{ iter := (.unsupported "not found"), vert := (.unsupported "not found"), closed := none, passesKwargs := false }'

    def lst(items):
        return '[\n    ' + ',\n    '.join(items) + ']' if items else '[]'

    return (
        'import EmsModel.Core.PlotSrc\n'
        '/- GENERATED by harness/trans_plotsrc.py from the source text of Convention.make_poly_collection, Convention.make_quiver\n'
        '   (emsarray/conventions/_base.py) and plot.polygons_to_collection (emsarray/plot.py) in the working tree. Do not edit. -/\n'
        'namespace Ems.Gen\nopen Ems\n\n'
        '/-- `Convention.make_poly_collection`: the statements in source order, each under the tests of the `if`s around it -/\n'
        f'def plotSrcMakePolyCollection : List PsStmt := {lst(poly)}\n\n'
        '/-- `Convention.make_quiver` -/\n'
        f'def plotSrcMakeQuiver : List PsStmt := {lst(quiver)}\n\n'
        '/-- `plot.polygons_to_collection` -/\n'
        f'def plotSrcPolygonsToCollection : PsCollectionProg := {coll}\n\n'
        '/-- what the translator did not understand (empty for the code the theorems are about) -/\n'
        f'def plotSrcComplaints : List String := {lst([lean_str(c) for c in complaints])}\n\n'
        'end Ems.Gen\n')


if __name__ == '__main__':
    import sys
    sys.path.insert(0, str(VERIF))
    text = render()
    if '--write' in sys.argv:
        from harness.translators import write_if_changed
        write_if_changed(OUT, text)
    print(text)
