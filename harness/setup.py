"""./check --setup : regenerate the tables and build the Lean modules of every claimed property."""
import importlib
import pathlib
import subprocess
import sys
import warnings

warnings.simplefilter('ignore')
VERIF = pathlib.Path(__file__).resolve().parent.parent
sys.path.insert(0, str(VERIF))
from harness import lean, pipelines, tables, translators  # noqa: E402

tables.regenerate()
pipelines.regenerate()
ready = (VERIF / 'harness' / 'ready.txt').read_text().split()
targets = ['EmsModel.Gen.Tables', 'EmsModel.Gen.Pipelines'] + translators.regenerate()
for pid in ready:
    mod = importlib.import_module(f'harness.props.{pid.lower()}')
    targets.append(mod.MODULE)
    targets += list(getattr(mod, 'EXTRA_MODULES', []))
    if getattr(mod, 'DRIVER', None):
        targets += lean.driver_imports(mod.DRIVER)
targets = sorted(set(targets))
ok, log = lean.build(targets)
print(log[-3000:])
print('setup', 'ok' if ok else 'FAILED', f'({len(targets)} targets)')
sys.exit(0 if ok else 1)
