"""Which emsarray function is modelled by which Lean definition.

One entry per modelled function: (source file, qualified name inside it, Lean definitions standing for it,
properties whose theorems / correspondence rest on it).  This is the explicit statement of "exactly which
parts of the code are modelled": everything emsarray does that is not listed here is outside the models
(it is still exercised by the correspondence where a listed function calls it).

The map is *checked*, not asserted, on every run (harness/anchors.py):
  * every listed function must still exist in /repo's working tree (a rename or removal is reported in the
    evidence and makes the run look harder, like a changed anchor file);
  * every listed Lean definition must exist in lean/EmsModel/Core (a stale name is an infrastructure error of
    ours and is reported by `python -m harness.modelmap --check`);
  * the normalised AST of every listed function (docstrings and comments dropped) is fingerprinted in
    harness/anchors.lock.json; a run names the modelled functions whose code changed since the model was last
    validated against them.
"""
from __future__ import annotations

import ast
import hashlib
import pathlib
import re
import sys

VERIF = pathlib.Path(__file__).resolve().parent.parent

B = 'src/emsarray/conventions/_base.py'
G = 'src/emsarray/conventions/grid.py'
A = 'src/emsarray/conventions/arakawa_c.py'
U = 'src/emsarray/conventions/ugrid.py'
S = 'src/emsarray/conventions/shoc.py'
R = 'src/emsarray/conventions/_registry.py'
UT = 'src/emsarray/utils.py'
M = 'src/emsarray/masking.py'
T = 'src/emsarray/transect.py'
P = 'src/emsarray/plot.py'
D = 'src/emsarray/operations/depth.py'
TRI = 'src/emsarray/operations/triangulate.py'
GEO = 'src/emsarray/operations/geometry.py'
CA = 'src/emsarray/operations/cache.py'
PE = 'src/emsarray/operations/point_extraction.py'
CU = 'src/emsarray/cli/utils.py'

# (file, qualified name, lean definitions, properties)
MAP = [
    # ---- indexes (C01) and named arrays (C02, C03)
    (B, 'DimensionConvention.grid_shape', ['Ems.Conv.shape'], ['C01', 'C02']),
    (B, 'DimensionConvention.grid_size', ['Ems.Conv.gridSize'], ['C01']),
    (B, 'DimensionConvention.ravel_index', ['Ems.Conv.ravelIndex', 'Ems.ravel'], ['C01', 'C15']),
    (B, 'DimensionConvention.wind_index', ['Ems.Conv.windIndex', 'Ems.unravel'], ['C01', 'C02', 'C04', 'C15']),
    (B, 'DimensionConvention.get_grid_kind', ['Ems.GridConv.getGridKind'], ['C03']),
    (B, 'DimensionConvention.ravel', ['Ems.GridConv.ravel'], ['C02', 'C03', 'C18', 'C19']),
    (B, 'DimensionConvention.wind', ['Ems.GridConv.wind', 'Ems.pyIndex'], ['C03']),
    (B, 'DimensionConvention.selector_for_indexes', ['Ems.DSet.isel', 'Ems.selectVar'], ['C02', 'C05']),
    (G, 'CFGrid.pack_index', ['Ems.Conv.windIndex'], ['C01']),
    (G, 'CFGrid.unpack_index', ['Ems.Conv.ravelIndex'], ['C01']),
    (G, 'CFGrid.grid_dimensions', ['Ems.Conv.shape'], ['C01']),
    (A, 'ArakawaC.pack_index', ['Ems.Conv.windIndex'], ['C01']),
    (A, 'ArakawaC.unpack_index', ['Ems.Conv.ravelIndex'], ['C01']),
    (A, 'ArakawaC.grid_dimensions', ['Ems.Conv.shape'], ['C01']),
    (U, 'UGrid.pack_index', ['Ems.Conv.windIndex'], ['C01']),
    (U, 'UGrid.unpack_index', ['Ems.Conv.ravelIndex'], ['C01']),
    (U, 'UGrid.grid_dimensions', ['Ems.Conv.shape'], ['C01']),
    (U, 'UGrid.grid_kinds', ['Ems.Conv.shape'], ['C01']),
    (UT, 'move_dimensions_to_end', ['Ems.NArr.moveToEnd', 'Ems.NArr.transposeTo'], ['C03']),
    (UT, 'ravel_dimensions', ['Ems.NArr.ravelDims'], ['C02', 'C03']),
    (UT, 'wind_dimension', ['Ems.NArr.windDim'], ['C03']),
    (UT, 'splice_tuple', ['Ems.NArr.splice'], ['C03']),
    (UT, 'find_unused_dimension', ['Ems.NArr.findUnused'], ['C03']),
    # ---- polygons, centres, extent (C02, C06)
    (G, 'CFGrid1DTopology._get_or_make_bounds', ['Ems.midBounds', 'Ems.Gen.cf1dMidBounds'], ['C06']),
    (G, 'CFGrid1D._make_polygons', ['Ems.cf1dPolys', 'Ems.rect', 'Ems.Gen.cf1dPolygonPoints'], ['C02', 'C06']),
    (G, 'CFGrid1D.face_centres', ['Ems.cf1dCentres', 'Ems.Gen.cf1dFaceCentres'], ['C02', 'C06']),
    (G, 'CFGrid1D.geometry', ['Ems.cf1dGeometryBox', 'Ems.contiguous'], ['C06']),
    (G, 'CFGrid2DTopology._get_or_make_bounds', ['Ems.derived2d', 'Ems.storedCorners', 'Ems.nanmean', 'Ems.Gen.cf2dDerivedBounds'], ['C06']),
    (G, 'CFGrid2D._make_polygons', ['Ems.cf2dPolys', 'Ems.Gen.cf2dPolygonPoints'], ['C02', 'C06']),
    (G, 'CFGrid2D.face_centres', ['Ems.gridCentres'], ['C02']),
    (G, 'CFGrid.bounds', ['Ems.polysBounds', 'Ems.bbox'], ['C06']),
    (A, 'ArakawaC._make_polygons', ['Ems.arakawaPolys', 'Ems.Gen.arakawaPolygonPoints'], ['C02', 'C06']),
    (A, 'ArakawaC.face_centres', ['Ems.gridCentres'], ['C02']),
    (U, 'UGrid._make_polygons', ['Ems.ugridPolys'], ['C02', 'C06', 'C10']),
    (U, 'UGrid.bounds', ['Ems.polysBounds'], ['C06']),
    (UT, 'make_polygons_with_holes', ['Ems.allSomeL'], ['C02', 'C06']),
    (B, 'Convention.polygons', ['Ems.keepValid', 'Ems.invalidDropped'], ['C02', 'C06']),
    (B, 'Convention.mask', ['Ems.polyMask', 'Ems.ConvCache.read', 'Ems.observeAfter'], ['C06']),
    (B, 'Convention.bounds', ['Ems.polysBounds'], ['C06']),
    # ---- point lookup and selection (C04, C05)
    (B, 'Convention.get_index_for_point', ['Ems.getIndexForPoint', 'Ems.firstHit', 'Ems.hitSet'], ['C04', 'C05']),
    (B, 'Convention.select_indexes', ['Ems.selectIndexes', 'Ems.keptVars'], ['C05']),
    (B, 'Convention.select_index', ['Ems.selectIndexes'], ['C02', 'C05']),
    (B, 'Convention.select_points', ['Ems.extractPoints'], ['C05']),
    (UT, 'extract_vars', ['Ems.keptVars'], ['C05']),
    (PE, 'extract_points', ['Ems.extractPoints'], ['C05', 'C20']),
    (PE, 'extract_dataframe', ['Ems.extractPoints', 'Ems.fillRows'], ['C05', 'C20']),
    # ---- clip masks (C07)
    (M, 'blur_mask', ['Ems.Mask.blur', 'Ems.Gen.blurMask'], ['C07']),
    (M, 'smear_mask', ['Ems.Mask.smear', 'Ems.Gen.cMaskLeft', 'Ems.Gen.cMaskBack', 'Ems.Gen.cMaskNode'], ['C07']),
    (A, 'c_mask_from_centres', ['Ems.cMaskFromCentres', 'Ems.Gen.cMaskLeft', 'Ems.Gen.cMaskBack', 'Ems.Gen.cMaskNode'], ['C07']),
    (G, 'CFGrid.make_clip_mask', ['Ems.gridClipMask'], ['C07']),
    (A, 'ArakawaC.make_clip_mask', ['Ems.arakawaClipMask'], ['C07']),
    (U, 'buffer_faces', ['Ems.bufferFaces', 'Ems.bufferIter'], ['C07']),
    (U, 'mask_from_face_indexes', ['Ems.maskFromFaceIndexes', 'Ems.newElementIndexes', 'Ems.referencedBy'], ['C07', 'C09']),
    (U, 'UGrid.make_clip_mask', ['Ems.ugridClipMask', 'Ems.keptFaces'], ['C07']),
    # ---- applying a clip mask (C08, C09)
    (M, 'calculate_grid_mask_bounds', ['Ems.maskBounds', 'Ems.trueBounds'], ['C08']),
    (M, 'find_fill_value', ['Ems.fillDecision'], ['C08']),
    (M, 'mask_grid_data_array', ['Ems.clipVar', 'Ems.whereMask', 'Ems.governingMask'], ['C08']),
    (M, 'mask_grid_dataset', ['Ems.clipVar', 'Ems.crop'], ['C08', 'C09']),
    (U, 'UGrid.apply_clip_mask', ['Ems.meshRows', 'Ems.selectRows', 'Ems.updateConnectivity'], ['C08', 'C09']),
    (U, 'update_connectivity', ['Ems.updateConnectivity', 'Ems.renumber'], ['C09']),
    (B, 'Convention.select_variables', ['Ems.keptVars'], ['C09']),
    # ---- mesh topology (C10)
    (U, '_get_start_index', ['Ems.getStartIndex'], ['C10']),
    (U, 'Mesh2DTopology._to_index_array', ['Ems.toIndexArray'], ['C06', 'C10']),
    (U, 'Mesh2DTopology.make_edge_node_array', ['Ems.makeEdgeNode'], ['C10']),
    (U, 'Mesh2DTopology.edge_node_array', ['Ems.Mesh.TopoIn.edgeNodeArrayN', 'Ems.Mesh.TopoIn.derivedEdgeTable',
                                           'Ems.Mesh.makeEdgeNodeFollowingFaceEdge', 'Ems.Mesh.makeEdgeNodeFollowingEdgeFace'], ['C09', 'C10']),
    (U, 'Mesh2DTopology.edge_count', ['Ems.Mesh.TopoIn.edgeCountN'], ['C10']),
    (U, 'Mesh2DTopology.face_edge_array', ['Ems.Mesh.TopoIn.faceEdgeArrayN'], ['C10']),
    (U, 'Mesh2DTopology.edge_face_array', ['Ems.Mesh.TopoIn.edgeFaceArrayN'], ['C10']),
    (U, 'Mesh2DTopology.face_face_array', ['Ems.Mesh.TopoIn.faceFaceArrayN'], ['C10']),
    (U, 'Mesh2DTopology.make_face_edge_array', ['Ems.makeFaceEdge'], ['C10']),
    (U, 'Mesh2DTopology.make_edge_face_array', ['Ems.makeEdgeFace'], ['C10']),
    (U, 'Mesh2DTopology.make_face_face_array', ['Ems.makeFaceFace'], ['C10']),
    (U, 'Mesh2DTopology._face_and_node_pair_iter', ['Ems.facePairs'], ['C10']),
    (U, 'Mesh2DTopology.has_valid_edge_node_connectivity', ['Ems.MeshDS.validEdgeVar'], ['C10', 'C16']),
    (U, 'Mesh2DTopology.has_valid_face_edge_connectivity', ['Ems.MeshDS.faceEdgeValid'], ['C09', 'C10', 'C16']),
    (U, 'Mesh2DTopology.two_dimension', ['Ems.MeshDS.twoDim'], ['C10', 'C16']),
    (U, 'Mesh2DTopology.edge_dimension', ['Ems.MeshDS.edgeDim'], ['C01', 'C10']),
    (U, 'Mesh2DTopology.has_edge_dimension', ['Ems.MeshDS.hasEdgeDim'], ['C01', 'C10']),
    (U, 'Mesh2DTopology.face_dimension', ['Ems.MeshDS.faceDim'], ['C01', 'C10']),
    (U, 'Mesh2DTopology.node_dimension', ['Ems.MeshDS.nodeDim'], ['C01', 'C10']),
    (U, 'Mesh2DTopology._node_coordinates', ['Ems.MeshDS.nodeCoords'], ['C06', 'C10']),
    (U, 'Mesh2DTopology._face_coordinates', ['Ems.MeshDS.faceCoords'], ['C02', 'C10']),
    # ---- detection and binding (C11)
    (R, 'ConventionRegistry.conventions', ['Ems.conventions'], ['C11']),
    (R, 'ConventionRegistry.match_conventions', ['Ems.matchConventions'], ['C11']),
    (R, 'ConventionRegistry.guess_convention', ['Ems.guess'], ['C11']),
    (R, 'entry_point_conventions', ['Ems.scanEntryPoints', 'Ems.entryPointClasses'], ['C11']),
    (R, 'get_dataset_convention', ['Ems.detect'], ['C11']),
    (G, 'CFGrid1D.check_dataset', ['Ems.cfCheck'], ['C11']),
    (G, 'CFGrid2D.check_dataset', ['Ems.cfCheck'], ['C11']),
    (S, 'ShocSimple.check_dataset', ['Ems.shocSimpleCheck'], ['C11']),
    (A, 'ArakawaC.check_dataset', ['Ems.shocStandardCheck'], ['C11']),
    (U, 'UGrid.check_dataset', ['Ems.ugridCheck', 'Ems.meshVariable'], ['C11']),
    ('src/emsarray/state.py', 'State.bind_convention', ['Ems.World.bindNew', 'Ems.step'], ['C11']),
    ('src/emsarray/accessors.py', 'ems_accessor', ['Ems.step'], ['C11']),
    (B, 'Convention.bind', ['Ems.step'], ['C11']),
    # ---- depth (C12, C13)
    (D, 'ocean_floor', ['Ems.oceanFloor', 'Ems.floorGroups'], ['C12']),
    (D, '_find_ocean_floor_indexes', ['Ems.floorIndex', 'Ems.runCount', 'Ems.argmaxFirst'], ['C12']),
    (D, 'normalize_depth_variables', ['Ems.normalize', 'Ems.normStep'], ['C12', 'C13']),
    # ---- triangulation (C14)
    (TRI, 'triangulate_dataset', ['Ems.Tri.triangulateDataset', 'Ems.Tri.cellTriangles'], ['C14']),
    (TRI, '_triangulate_polygons_by_length', ['Ems.Tri.fan'], ['C14']),
    (TRI, '_triangulate_concave_polygon', ['Ems.Tri.earClip', 'Ems.Tri.findEar'], ['C14']),
    # ---- export (C15)
    (GEO, 'to_geojson', ['Ems.features', 'Ems.encodeIndex'], ['C15', 'C20']),
    (GEO, 'write_shapefile', ['Ems.dbfRecords'], ['C15', 'C20']),
    (GEO, '_to_multipolygon', ['Ems.multipolygon'], ['C15']),
    # ---- cache key (C16)
    (CA, 'hash_int', ['Ems.hashInt'], ['C16']),
    (CA, 'hash_string', ['Ems.hashString'], ['C16']),
    (CA, 'hash_attributes', ['Ems.hashAttrs'], ['C16']),
    (CA, 'make_cache_key', ['Ems.cacheKey', 'Ems.cacheStream', 'Ems.trailer'], ['C16']),
    (B, 'Convention.hash_geometry', ['Ems.hashGeometry', 'Ems.hashVar'], ['C16']),
    (G, 'CFGrid.get_all_geometry_names', ['Ems.CK.cfNames'], ['C09', 'C16']),
    (A, 'ArakawaC.get_all_geometry_names', ['Ems.CK.arakawaNames'], ['C09', 'C16']),
    (U, 'UGrid.get_all_geometry_names', ['Ems.CK.ugridNames'], ['C09', 'C16']),
    # ---- saving (C17)
    (UT, 'format_time_units_for_ems', ['Ems.formatTimeUnits', 'Ems.formatOffset'], ['C17']),
    (UT, 'fix_time_units_for_ems', ['Ems.saveTimeVariable'], ['C17']),
    (UT, 'disable_default_fill_value', ['Ems.disableDefaultFill'], ['C17']),
    (B, 'Convention.time_coordinate', ['Ems.timeCoordinateGeneric'], ['C17']),
    (S, 'ShocSimple.time_coordinate', ['Ems.timeCoordinateNamed'], ['C17']),
    (S, 'ShocStandard.time_coordinate', ['Ems.timeCoordinateNamed'], ['C17']),
    # ---- transects (C18)
    (T, 'Transect.segments', ['Ems.segments', 'Ems.rawSegments'], ['C18']),
    (T, 'Transect._intersect_polygon', ['Ems.rawSegments', 'Ems.clipPathConvex', 'Ems.clipPathSimple'], ['C18']),
    (T, 'Transect.prepare_data_array_for_transect', ['Ems.transectColumns'], ['C18']),
    # ---- plotting (C19)
    (B, 'Convention.make_poly_collection', ['Ems.makePolyCollection', 'Ems.defaultClim'], ['C19']),
    (P, 'polygons_to_collection', ['Ems.plottedPaths'], ['C19']),
    (B, 'Convention.make_quiver', ['Ems.makeQuiver'], ['C19']),
    # ---- command line (C20)
    (CU, 'bounds_argument', ['Ems.Cli.boundsArgument', 'Ems.Cli.parseBounds'], ['C20']),
    (CU, 'geometry_argument', ['Ems.Cli.geometryArgument'], ['C20']),
    (CU, 'nice_console_errors', ['Ems.Cli.exitStatus'], ['C20']),
    ('src/emsarray/cli/commands/export_geometry.py', 'Command.guess_format', ['Ems.Cli.guessFormat'], ['C20']),
    ('src/emsarray/cli/commands/export_geometry.py', 'Command.handle', ['Ems.Cli.exportGeometrySteps'], ['C20']),
    ('src/emsarray/cli/commands/clip.py', 'Command.handle', ['Ems.Cli.clipSteps'], ['C20']),
    ('src/emsarray/cli/commands/extract_points.py', 'Command.handle', ['Ems.Cli.extractPointsSteps'], ['C20']),
]


# Functions whose model is (also) REGENERATED FROM THE SOURCE TEXT on every run, the first of the two ties the brief names:
# (file, qualified name, translator module, generated definitions, theorems that equate the generated terms with the hand model)
TRANSLATED = [
    # ---- C01: index conversion (harness/trans_indexsrc.py -> Gen/IndexSrc.lean)
    (B, 'DimensionConvention.ravel_index', 'trans_indexsrc', ['Ems.Gen.IndexSrc.ravelIndexBody'], ['Ems.C01.ravel_index_generated']),
    (B, 'DimensionConvention.wind_index', 'trans_indexsrc', ['Ems.Gen.IndexSrc.windIndexBody'], ['Ems.C01.wind_index_generated']),
    (B, 'DimensionConvention.grid_size', 'trans_indexsrc', ['Ems.Gen.IndexSrc.gridSizeEntry'], ['Ems.C01.grid_size_generated']),
    (G, 'CFGrid.pack_index', 'trans_indexsrc', ['Ems.Gen.IndexSrc.cfPack'], ['Ems.C01.cf_pack_generated']),
    (G, 'CFGrid.unpack_index', 'trans_indexsrc', ['Ems.Gen.IndexSrc.cfUnpack'], ['Ems.C01.cf_unpack_generated']),
    (A, 'ArakawaC.pack_index', 'trans_indexsrc', ['Ems.Gen.IndexSrc.arakawaPack'], ['Ems.C01.arakawa_pack_generated']),
    (A, 'ArakawaC.unpack_index', 'trans_indexsrc', ['Ems.Gen.IndexSrc.arakawaUnpack'], ['Ems.C01.arakawa_unpack_generated']),
    (U, 'UGrid.pack_index', 'trans_indexsrc', ['Ems.Gen.IndexSrc.ugridPack'], ['Ems.C01.ugrid_pack_generated']),
    (U, 'UGrid.unpack_index', 'trans_indexsrc', ['Ems.Gen.IndexSrc.ugridUnpack'], ['Ems.C01.ugrid_unpack_generated']),
    # ---- C03: dimension / shape arithmetic of flattening and winding (harness/trans_dimssrc.py -> Gen/DimsSrc.lean)
    (UT, 'move_dimensions_to_end', 'trans_dimssrc', ['Ems.Gen.DimsSrc.moveNewOrder', 'Ems.Gen.DimsSrc.moveGuard', 'Ems.Gen.DimsSrc.moveTransposes'],
     ['Ems.C03.move_order_generated', 'Ems.C03.move_structure_generated']),
    (UT, 'ravel_dimensions', 'trans_dimssrc', ['Ems.Gen.DimsSrc.ravelNewDims', 'Ems.Gen.DimsSrc.ravelNewShape', 'Ems.Gen.DimsSrc.ravelKeptDims'],
     ['Ems.C03.ravel_dims_generated', 'Ems.C03.ravel_generated_matches_model']),
    (UT, 'wind_dimension', 'trans_dimssrc', ['Ems.Gen.DimsSrc.windNewDims', 'Ems.Gen.DimsSrc.windNewShape'],
     ['Ems.C03.wind_dims_generated', 'Ems.C03.wind_generated_matches_model']),
    (UT, 'splice_tuple', 'trans_dimssrc', ['Ems.Gen.DimsSrc.spliceBody'], ['Ems.C03.splice_generated']),
    (UT, 'find_unused_dimension', 'trans_dimssrc', ['Ems.Gen.DimsSrc.findUnusedSeparator', 'Ems.Gen.DimsSrc.findUnusedStart'],
     ['Ems.C03.find_unused_generated']),
    # ---- C11: registry (harness/trans_registrysrc.py -> Gen/RegistrySrc.lean)
    (R, 'ConventionRegistry.conventions', 'trans_registrysrc', ['Ems.Gen.RegistrySrc.conventionsSrc'], ['Ems.C11.conventions_generated']),
    (R, 'ConventionRegistry.match_conventions', 'trans_registrysrc', ['Ems.Gen.RegistrySrc.matchSrc'], ['Ems.C11.match_generated']),
    (R, 'ConventionRegistry.guess_convention', 'trans_registrysrc', ['Ems.Gen.RegistrySrc.guessSrc'], ['Ems.C11.guess_generated', 'Ems.C11.detection_generated']),
    # ---- C04: point lookup (harness/trans_lookupsrc.py -> Gen/LookupSrc.lean)
    (B, 'Convention.get_index_for_point', 'trans_lookupsrc', ['Ems.Gen.LookupSrc.lookupSrc'], ['Ems.C04.lookup_generated']),
    # ---- C08: grid clipping helpers (harness/trans_masking.py -> Gen/MaskingSrc.lean)
    (M, 'find_fill_value', 'trans_masking', ['Ems.Gen.msFindFillValue'], ['Ems.C08.find_fill_value_generated']),
    (M, 'calculate_grid_mask_bounds', 'trans_masking', ['Ems.Gen.msBoundsProg'], ['Ems.C08.bounds_generated', 'Ems.C08.bounds_slice_generated']),
    (M, 'mask_grid_data_array', 'trans_masking', ['Ems.Gen.msApplyProg'], ['Ems.C08.apply_generated']),
    (M, 'mask_grid_dataset', 'trans_masking', ['Ems.Gen.msDatasetSteps'], ['Ems.C08.dataset_steps_generated', 'Ems.C08.clip_var_from_source']),
    # ---- C17: EMS time units and fill decisions (harness/trans_timeunits.py -> Gen/TimeUnitsSrc.lean)
    (UT, 'format_time_units_for_ems', 'trans_timeunits', ['Ems.Gen.tuFormatProg', 'Ems.Gen.tuNewUnits'], ['Ems.C17.src_format_spec', 'Ems.C17.src_template_spec']),
    (UT, 'disable_default_fill_value', 'trans_timeunits', ['Ems.Gen.tuFillProg'], ['Ems.C17.src_fill_spec']),
    (UT, '_get_variables', 'trans_timeunits', ['Ems.Gen.tuFillProg'], ['Ems.C17.src_fill_spec']),
    (UT, 'fix_time_units_for_ems', 'trans_timeunits', ['Ems.Gen.tuFixSteps'], ['Ems.C17.src_fix_spec']),
    (B, 'Convention.time_coordinate', 'trans_timeunits', ['Ems.Gen.tuTimeCoordGeneric', 'Ems.Gen.tuTimeCoordOwners'], ['Ems.C17.src_time_coordinate_generic', 'Ems.C17.src_time_coordinate_owners']),
    (S, 'ShocStandard.time_coordinate', 'trans_timeunits', ['Ems.Gen.tuTimeCoordShocStandard'], ['Ems.C17.src_time_coordinate_shoc']),
    (S, 'ShocSimple.time_coordinate', 'trans_timeunits', ['Ems.Gen.tuTimeCoordShocSimple'], ['Ems.C17.src_time_coordinate_shoc']),
    # ---- C07 / C06: UGRID mask construction and polygons (harness/trans_ugridsrc.py -> Gen/UgridSrc.lean)
    (U, 'buffer_faces', 'trans_ugridsrc', ['Ems.Gen.UgridSrc.bufferFaces'], ['Ems.C07Src.buffer_faces_src']),
    (U, 'mask_from_face_indexes', 'trans_ugridsrc', ['Ems.Gen.UgridSrc.maskFromFaceIndexes'], ['Ems.C07Src.mask_from_face_indexes_src']),
    (U, 'UGrid.make_clip_mask', 'trans_ugridsrc', ['Ems.Gen.UgridSrc.makeClipMask'], ['Ems.C07Src.make_clip_mask_src', 'Ems.C07Src.make_clip_mask_src_kept']),
    (U, 'UGrid._make_polygons', 'trans_ugridsrc', ['Ems.Gen.UgridSrc.ugridPolygons'], ['Ems.C06Src.ugrid_polygons_src']),
    # ---- C02 / C06: holes keep their slot (harness/trans_holessrc.py -> Gen/HolesSrc.lean)
    (UT, 'make_polygons_with_holes', 'trans_holessrc', ['Ems.Gen.HolesSrc.holesSrc'], ['Ems.C02.holes_generated']),
    # ---- C19: plot artists (harness/trans_plotsrc.py -> Gen/PlotSrc.lean)
    (B, 'Convention.make_poly_collection', 'trans_plotsrc', ['Ems.Gen.plotSrcMakePolyCollection'], ['Ems.C19.src_poly_collection_spec']),
    (B, 'Convention.make_quiver', 'trans_plotsrc', ['Ems.Gen.plotSrcMakeQuiver'], ['Ems.C19.src_quiver_spec', 'Ems.C19.src_quiver_default']),
    (P, 'polygons_to_collection', 'trans_plotsrc', ['Ems.Gen.plotSrcPolygonsToCollection'], ['Ems.C19.src_collection_spec']),
    # ---- C12 / C13: depth operations (harness/trans_depth.py -> Gen/DepthSrc.lean)
    (D, '_find_ocean_floor_indexes', 'trans_depth', ['Ems.Gen.depthFindFloorIndexes'], ['Ems.C12.find_floor_term_spec']),
    (D, 'normalize_depth_variables', 'trans_depth', ['Ems.Gen.depthNormalizeBody', 'Ems.Gen.depthNormalizeFrame'],
     ['Ems.C13.normalize_body_spec', 'Ems.C13.normalize_src_spec']),
    (D, 'ocean_floor', 'trans_depth', ['Ems.Gen.depthOceanFloorSteps', 'Ems.Gen.depthOceanFloorNormalizeOpts', 'Ems.Gen.depthOceanFloorKeepBounds'],
     ['Ems.C12.ocean_floor_steps_generated', 'Ems.C12.ocean_floor_src_spec']),
    # ---- C14: triangulation (harness/trans_trifan.py, trans_tridataset.py)
    (TRI, '_triangulate_polygons_by_length', 'trans_trifan', ['Ems.Gen.triFanTriangles'], ['Ems.C14.fan_pipeline_spec']),
    (TRI, 'triangulate_dataset', 'trans_tridataset', ['Ems.Gen.triDatasetLoops', 'Ems.Gen.triDatasetTable'],
     ['Ems.C14.dataset_loops_spec', 'Ems.C14.dataset_total_spec']),
    # ---- C05: index and point selection (harness/trans_selectsrc.py -> Gen/SelectSrc.lean)
    (B, 'DimensionConvention.selector_for_indexes', 'trans_selectsrc', ['Ems.Gen.SelectSrc.selectorSrc'], ['Ems.C05.selector_src_spec']),
    (B, 'Convention.select_indexes', 'trans_selectsrc', ['Ems.Gen.SelectSrc.selIdxSrc'], ['Ems.C05.select_indexes_src_spec']),
    (B, 'Convention.drop_geometry', 'trans_selectsrc', ['Ems.Gen.SelectSrc.dropGeomSrc'], ['Ems.C05.drop_geometry_src_spec']),
    (B, 'Convention.select_index', 'trans_selectsrc', ['Ems.Gen.SelectSrc.selOneSrc'], ['Ems.C05.select_index_src_spec']),
    (B, 'Convention.select_point', 'trans_selectsrc', ['Ems.Gen.SelectSrc.selPointSrc'], ['Ems.C05.select_point_src_spec']),
    # ---- earlier phases (harness/pipelines.py -> Gen/Pipelines.lean; harness/tables.py -> Gen/Tables.lean)
    (G, 'CFGrid1D._make_polygons', 'pipelines', ['Ems.Gen.cf1dPolygonPoints'], ['Ems.C06.cf1d_pipeline_spec']),
    (G, 'CFGrid2D._make_polygons', 'pipelines', ['Ems.Gen.cf2dPolygonPoints'], ['Ems.C06.cf2d_pipeline_spec']),
    (A, 'ArakawaC._make_polygons', 'pipelines', ['Ems.Gen.arakawaPolygonPoints'], ['Ems.C06.arakawa_pipeline_spec']),
    (G, 'CFGrid1DTopology._get_or_make_bounds', 'pipelines', ['Ems.Gen.cf1dMidBounds'], ['Ems.C06.cf1d_midbounds_pipeline_spec']),
    (G, 'CFGrid2DTopology._get_or_make_bounds', 'pipelines', ['Ems.Gen.cf2dDerivedBounds'], ['Ems.C06.cf2d_derived_pipeline_spec']),
    (G, 'CFGrid1D.face_centres', 'pipelines', ['Ems.Gen.cf1dFaceCentres'], ['Ems.C06.cf1d_centres_pipeline_spec']),
    (A, 'c_mask_from_centres', 'pipelines', ['Ems.Gen.cMaskLeft', 'Ems.Gen.cMaskBack', 'Ems.Gen.cMaskNode'],
     ['Ems.C07.cmask_left_pipeline_spec', 'Ems.C07.cmask_back_pipeline_spec', 'Ems.C07.cmask_node_pipeline_spec']),
    (M, 'blur_mask', 'pipelines', ['Ems.Gen.blurMask'], ['Ems.C07.blur_pipeline_spec']),
]


def _strip_docstring(node: ast.AST) -> None:
    body = getattr(node, 'body', None)
    if body and isinstance(body[0], ast.Expr) and isinstance(getattr(body[0], 'value', None), ast.Constant) \
            and isinstance(body[0].value.value, str):
        node.body = body[1:] or [ast.Pass()]


def find_function(tree: ast.Module, qual: str):
    parts = qual.split('.')
    scope = tree.body
    node = None
    for i, name in enumerate(parts):
        node = next((n for n in scope if isinstance(n, (ast.FunctionDef, ast.AsyncFunctionDef, ast.ClassDef))
                     and n.name == name), None)
        if node is None:
            return None
        scope = node.body
    return node


def function_hash(repo_root: pathlib.Path, file: str, qual: str):
    """sha256 of the function's AST with docstrings dropped (comments and layout never reach the AST);
    None when the function no longer exists"""
    p = repo_root / file
    if not p.exists():
        return None
    try:
        tree = ast.parse(p.read_text())
    except SyntaxError:
        return None
    node = find_function(tree, qual)
    if node is None:
        return None
    for sub in ast.walk(node):
        if isinstance(sub, (ast.FunctionDef, ast.AsyncFunctionDef, ast.ClassDef)):
            _strip_docstring(sub)
    return hashlib.sha256(ast.dump(node, annotate_fields=True, include_attributes=False).encode()).hexdigest()


def functions_of(prop: str) -> list:
    return [(f, q, l) for f, q, l, ps in MAP if prop in ps]


def fingerprints(repo_root: pathlib.Path) -> dict:
    return {f'{f}:{q}': function_hash(repo_root, f, q) for f, q, _l, _p in MAP}


def lean_definitions() -> set:
    """every definition name in lean/EmsModel/Core, qualified by the namespaces it sits in"""
    out = set()
    for p in sorted((VERIF / 'lean' / 'EmsModel' / 'Core').glob('*.lean')) + sorted((VERIF / 'lean' / 'EmsModel' / 'Gen').glob('*.lean')):
        ns: list = []
        for line in p.read_text().splitlines():
            m = re.match(r'\s*namespace\s+(\S+)', line)
            if m:
                ns.append(m.group(1))
                continue
            m = re.match(r'\s*end\s+(\S+)\s*$', line)
            if m and ns and ns[-1] == m.group(1):
                ns.pop()
                continue
            m = re.match(r'\s*(?:@\[[^\]]*\]\s*)?(?:private\s+|protected\s+|partial\s+|noncomputable\s+)*'
                         r'(?:def|structure|inductive|abbrev|instance)\s+([A-Za-z_][\w.\']*)', line)
            if m:
                out.add('.'.join(ns + [m.group(1)]))
    return out


def theorem_names() -> set:
    out = set()
    for p in (VERIF / 'lean' / 'EmsModel' / 'Props').glob('*.lean'):
        out |= set(re.findall(r'^\s*theorem\s+([A-Za-z_][\w\']*)', p.read_text(), flags=re.M))
    return out


def check() -> int:
    """stale entries of the map itself: a Lean name that does not exist, a function that does not exist"""
    defs = lean_definitions()
    short = {d.split('.')[-1] for d in defs}
    bad = 0
    for f, q, leans, _ps in MAP:
        if function_hash(pathlib.Path('/repo'), f, q) is None:
            print(f'missing in /repo: {f}:{q}')
            bad += 1
        for l in leans:
            if l not in defs and l.split('.')[-1] not in short:
                print(f'no such Lean definition: {l} (for {q})')
                bad += 1
    thms = theorem_names()
    for f, q, _mod, gens, ths in TRANSLATED:
        if function_hash(pathlib.Path('/repo'), f, q) is None:
            print(f'missing in /repo: {f}:{q}')
            bad += 1
        for g in gens:
            if g not in defs and g.split('.')[-1] not in short:
                print(f'no such generated definition: {g} (for {q})')
                bad += 1
        for t in ths:
            if t.split('.')[-1] not in thms:
                print(f'no such theorem: {t} (for {q})')
                bad += 1
    print(f'{len(MAP)} modelled functions ({len({(f, q) for f, q, *_ in TRANSLATED})} of them also translated from the source on every run), '
          f'{len(defs)} Core/Gen definitions, {bad} stale entries')
    return 1 if bad else 0


if __name__ == '__main__':
    if '--check' in sys.argv:
        raise SystemExit(check())
