import EmsModel.Core.Shape
import EmsModel.Core.Index
import EmsModel.Core.Proto
import EmsModel.Lemmas.Shape
import EmsModel.Props.C01
