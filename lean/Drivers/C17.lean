import EmsModel.Core.TimeUnits
import EmsModel.Core.Proto
import EmsModel.Core.TimeUnitsSrc
import EmsModel.Gen.TimeUnitsSrc
import EmsModel.Core.SaveSession
/-! Line-protocol driver for C17.

Strings travel verbatim (spaces included) as the tail of the line; bytes outside printable ASCII and
the characters `% ; |` are written `%XX`.

`fmt <calendar> <units…>`      → rewritten units | `ERR`        (primary model, with the code's check)
`fmtpure <calendar> <units…>`  → same through `formatTimeUnits` (no check) — must agree with `fmt`
`instant <calendar> <units…>`  → `<seconds since 1970-01-01> <micro≠0>` | `ERR`   (`num2pydate(0, …)`)
`parse <date…>`                → `y,mo,d,h,mi,s,<micro≠0>,<offset minutes>` | `ERR` (`_parse_date`)
`poff <text…>`                 → offset minutes | `-`            (timezone grammar at the head of text)
`foff <minutes>`               → `±HH:MM`
`split <units…>`               → `<period>|<remainder>` | `ERR`  (`_datesplit`)
`unitok <period>`              → `1` | `0`
`decode <calendar> <n> <units…>` → microseconds since 1970 of stored value n | `ERR`
`promote <kind>`               → `1` | `0`      (`maybe_promote(dtype)[0] == dtype`)
`autofill <kind>`              → `1` | `0`      (`np.issubdtype(dtype, np.floating)`)
`fill <mem> <disk> <enc:absent|none|value> <attr:0|1>` → `<encoding slot after disable> <file has _FillValue>`
`fixattrs <units|!> ; <calendar|!>` → new units attribute | `ERR`   (`fix_time_units_for_ems` on the attributes found in the file)
`timecoord <generic|shoc_standard|shoc_simple> <dims,|-> name|units-or-!|dt;…` → name | `-`
`savetime …`     same line → variable whose units `to_netcdf` rewrites | `-` | `ERR` (save raises)
`propcheck offset <m>`         → `1` iff parseOffset (formatOffset m) = some m
`propcheck fmt <calendar> <units…>` → `1` iff output (if any) has the EMS form and the same instant

Cross-check of the source translator (`harness/trans_timeunits.py` → `Gen/TimeUnitsSrc.lean`): the *generated* terms
evaluated by the interpreters of `Core/TimeUnitsSrc.lean`
`srcfmt <calendar> <units…>`   → `run gregorian Gen.tuFormatProg` | `ERR`          (real `format_time_units_for_ems`)
`srcfill <mem> <enc> <attr>`   → encoding slot after `fillRun Gen.tuFillProg` | `ERR` (real `disable_default_fill_value`)
`srctimecoord …` (as `timecoord`) → `tcRun` of the generated search of that convention: name | `-` | `ERR`
`srcfixattrs <units|!> ; <calendar|!>` → `fixRun (run gregorian Gen.tuFormatProg) Gen.tuFixSteps` | `ERR`
`srcspec <m|p|s> <0|1> <width> <n>` → `fmtInt` (Python `format(n, '[+| ][0][width]d')`)
`srcstrf <directive> <y> <mo> <d> <h> <mi> <s>` → `strftime1` (Python `datetime(...).strftime('%<directive>')`) | `ERR`

Round 6 (`Core/SaveSession.lean`): the `_FillValue` attributes of every file of a history of saves, oldest call first
`savehist <call> ; <call> ; …` with `<call>` = `<encoding=> <variables>`,
    `<encoding=>` = `-` | `name:disk:slot,…`, `<variables>` = `-` | `name:rank:mem:disk:enc:attr,…`
    → per call `name=0|1,…` (`-` for no variable) | `ERR` (the call raises), joined by ` ; `     (`runSession`)
-/
open Ems Ems.Proto Ems.TimeUnits

def hexVal (c : Char) : Option Nat :=
  if '0' ≤ c ∧ c ≤ '9' then some (c.toNat - 48)
  else if 'A' ≤ c ∧ c ≤ 'F' then some (c.toNat - 55)
  else if 'a' ≤ c ∧ c ≤ 'f' then some (c.toNat - 87)
  else none

def unesc : List Char → Option (List Char)
  | [] => some []
  | '%' :: a :: b :: r => do
      let x ← hexVal a
      let y ← hexVal b
      let rest ← unesc r
      pure (Char.ofNat (16 * x + y) :: rest)
  | '%' :: _ => none
  | c :: r => (unesc r).map (c :: ·)

def hexDigit (n : Nat) : Char := if n < 10 then Char.ofNat (48 + n) else Char.ofNat (55 + n)

def esc (s : List Char) : String :=
  String.ofList (s.flatMap fun c =>
    if c.toNat < 32 ∨ c.toNat > 126 ∨ c = '%' ∨ c = ';' ∨ c = '|' then
      ['%', hexDigit (c.toNat / 16 % 16), hexDigit (c.toNat % 16)]
    else [c])

/-- first word and the verbatim rest (after exactly one space) -/
def cut (s : List Char) : List Char × List Char :=
  let (a, b) := s.span (· ≠ ' ')
  (a, b.drop 1)

def showOpt (o : Option Str) : String :=
  match o with
  | some s => esc s
  | none => "ERR"

def parseKind? (s : String) : Option DKind :=
  match s with
  | "bool" => some .bool | "int" => some .int | "uint" => some .uint | "float" => some .float
  | "complex" => some .complex | "datetime" => some .datetime | "timedelta" => some .timedelta
  | "str" => some .str | "bytes" => some .bytes | "object" => some .object
  | _ => none

def parseSlot? (s : String) : Option Slot :=
  match s with
  | "absent" => some .absent | "none" => some .none | "value" => some .value | _ => none

def showSlot : Slot → String
  | .absent => "absent" | .none => "none" | .value => "value"

def bit (b : Bool) : String := if b then "1" else "0"

def parseTVars? (s : List Char) : Option (List TVar) :=
  if s = [] ∨ s = ['-'] then some [] else
  allSome (((String.ofList s).splitOn ";").map fun item =>
    match item.splitOn "|" with
    | [name, units, dt] =>
      let u : Option (Option Str) := if units = "!" then some none else (unesc units.toList).map some
      match u, dt with
      | some u, "1" => some ⟨name, u, true⟩
      | some u, "0" => some ⟨name, u, false⟩
      | _, _ => none
    | _ => none)

/-- the EMS form `<unit> since YYYY-MM-DD HH:MM:SS ±HH:MM` for a given unit -/
def emsForm (p : Str) (out : Str) : Bool :=
  match (out.drop p.length).drop 7 with
  | [y1, y2, y3, y4, '-', m1, m2, '-', d1, d2, ' ',
     h1, h2, ':', n1, n2, ':', s1, s2, ' ', sg, o1, o2, ':', o3, o4] =>
    out.take p.length == p && (out.drop p.length).take 7 == [' ', 's', 'i', 'n', 'c', 'e', ' ']
      && [y1, y2, y3, y4, m1, m2, d1, d2, h1, h2, n1, n2, s1, s2, o1, o2, o3, o4].all isDig
      && (sg == '+' || sg == '-')
  | _ => false

/-- `name:rank:mem:disk:enc:attr,…` of `savehist` -/
def parseSVars? (s : String) : Option (List Ems.SaveSession.SVar) :=
  if s = "-" then some [] else
  allSome ((s.splitOn ",").map fun item =>
    match item.splitOn ":" with
    | [name, rank, mem, disk, enc, attr] =>
      match parseNat? rank, parseKind? mem, parseKind? disk, parseSlot? enc with
      | some rank, some mem, some disk, some enc =>
        if name ≠ "" ∧ (attr = "0" ∨ attr = "1") then some ⟨name, rank, ⟨mem, disk, enc, attr = "1"⟩⟩ else none
      | _, _, _, _ => none
    | _ => none)

/-- `name:disk:slot,…` of `savehist` -/
def parseEncArgs? (s : String) : Option (List Ems.SaveSession.EncArg) :=
  if s = "-" then some [] else
  allSome ((s.splitOn ",").map fun item =>
    match item.splitOn ":" with
    | [name, disk, slot] =>
      match parseKind? disk, parseSlot? slot with
      | some disk, some slot => if name ≠ "" then some ⟨name, disk, slot⟩ else none
      | _, _ => none
    | _ => none)

def showFile : Option Ems.SaveSession.File → String
  | none => "ERR"
  | some [] => "-"
  | some f => ",".intercalate (f.map fun (n, b) => s!"{n}={bit b}")

def step (line : String) : String :=
  let (op, rest) := cut line.toList
  match String.ofList op with
  | "fmt" | "fmtpure" | "instant" =>
    let (cal, u) := cut rest
    match unesc cal, unesc u with
    | some cal, some u =>
      match String.ofList op with
      | "fmt" => showOpt (formatTimeUnitsChecked gregorian cal u)
      | "fmtpure" => showOpt (formatTimeUnits gregorian cal u)
      | _ =>
        match refInstant gregorian cal u with
        | some (t, mic) => s!"{t} {bit mic}"
        | none => "ERR"
    | _, _ => "BAD"
  | "parse" =>
    match unesc rest with
    | some s =>
      match parseDate s with
      | some b => s!"{b.f.year},{b.f.month},{b.f.day},{b.f.hour},{b.f.minute},{b.f.second},{bit b.micro},{b.off}"
      | none => "ERR"
    | none => "BAD"
  | "poff" =>
    match unesc rest with
    | some s => match parseOffset s with
      | some m => toString m
      | none => "-"
    | none => "BAD"
  | "foff" => match parseInt? (String.ofList rest) with
    | some m => esc (formatOffset m)
    | none => "BAD"
  | "split" =>
    match unesc rest with
    | some s => match datesplit s with
      | some (p, r) => s!"{esc p}|{esc r}"
      | none => "ERR"
    | none => "BAD"
  | "unitok" =>
    match unesc rest with
    | some s => bit (decide (s ∈ allowedUnits))
    | none => "BAD"
  | "decode" =>
    let (cal, r1) := cut rest
    let (n, u) := cut r1
    match unesc cal, parseInt? (String.ofList n), unesc u with
    | some cal, some n, some u =>
      match decodeValue gregorian cal u n with
      | some t => toString t
      | none => "ERR"
    | _, _, _ => "BAD"
  | "promote" => match parseKind? (String.ofList rest) with
    | some k => bit (promoteStable k)
    | none => "BAD"
  | "autofill" => match parseKind? (String.ofList rest) with
    | some k => bit (autoFills k)
    | none => "BAD"
  | "fill" =>
    match words (String.ofList rest) with
    | [mem, disk, enc, attr] =>
      match parseKind? mem, parseKind? disk, parseSlot? enc, attr with
      | some mem, some disk, some enc, a =>
        if a = "0" ∨ a = "1" then
          let v := disableDefaultFill ⟨mem, disk, enc, a = "1"⟩
          s!"{showSlot v.enc} {bit (writesFill v)}"
        else "BAD"
      | _, _, _, _ => "BAD"
    | _ => "BAD"
  | "fixattrs" =>
    match (String.ofList rest).splitOn " ; " with
    | [u, cal] =>
      let dec (x : String) : Option (Option Str) := if x = "!" then some none else (unesc x.toList).map some
      match dec u, dec cal with
      | some u, some cal => showOpt (fixAttrs (formatTimeUnitsChecked gregorian) u cal)
      | _, _ => "BAD"
    | _ => "BAD"
  | "timecoord" | "savetime" =>
    let (conv, r1) := cut rest
    let (dims, vs) := cut r1
    let k : Option ConvKind := match String.ofList conv with
      | "generic" => some .generic | "shoc_standard" => some .shocStandard
      | "shoc_simple" => some .shocSimple | _ => none
    -- the dimension names travel with the line for the record; a bare dimension is not a variable
    let _dims : List String := if dims = ['-'] then [] else (String.ofList dims).splitOn ","
    match k, parseTVars? vs with
    | some k, some vs =>
      match String.ofList op with
      | "timecoord" => (timeCoordinate k vs).getD "-"
      | _ =>
        match saveTimeVariable (timeCoordinate k vs) vs with
        | none => "-"
        | some (some n) => n
        | some none => "ERR"
    | _, _ => "BAD"
  | "srcfmt" =>
    let (cal, u) := cut rest
    match unesc cal, unesc u with
    | some cal, some u => showOpt (Ems.TimeUnitsSrc.run gregorian Ems.Gen.tuFormatProg cal u)
    | _, _ => "BAD"
  | "srcfill" =>
    match words (String.ofList rest) with
    | [mem, enc, attr] =>
      match parseKind? mem, parseSlot? enc with
      | some mem, some enc =>
        if attr = "0" ∨ attr = "1" then
          match Ems.TimeUnitsSrc.fillRun Ems.Gen.tuFillProg ⟨mem, mem, enc, attr = "1"⟩ with
          | some v => showSlot v.enc
          | none => "ERR"
        else "BAD"
      | _, _ => "BAD"
    | _ => "BAD"
  | "srctimecoord" =>
    let (conv, r1) := cut rest
    let (_dims, vs) := cut r1
    let prog : Option Ems.TimeUnitsSrc.TcProg := match String.ofList conv with
      | "generic" => some Ems.Gen.tuTimeCoordGeneric | "shoc_standard" => some Ems.Gen.tuTimeCoordShocStandard
      | "shoc_simple" => some Ems.Gen.tuTimeCoordShocSimple | _ => none
    match prog, parseTVars? vs with
    | some prog, some vs =>
      match Ems.TimeUnitsSrc.tcRun prog vs with
      | some (some n) => n
      | some none => "-"
      | none => "ERR"
    | _, _ => "BAD"
  | "srcfixattrs" =>
    match (String.ofList rest).splitOn " ; " with
    | [u, cal] =>
      let dec (x : String) : Option (Option Str) := if x = "!" then some none else (unesc x.toList).map some
      match dec u, dec cal with
      | some u, some cal =>
        showOpt (Ems.TimeUnitsSrc.fixRun (Ems.TimeUnitsSrc.run gregorian Ems.Gen.tuFormatProg) Ems.Gen.tuFixSteps u cal)
      | _, _ => "BAD"
    | _ => "BAD"
  | "srcspec" =>
    match words (String.ofList rest) with
    | [sg, z, w, n] =>
      let sign : Option Ems.TimeUnitsSrc.SignFlag := match sg with
        | "m" => some .minusOnly | "p" => some .plus | "s" => some .space | _ => none
      match sign, parseNat? w, parseInt? n with
      | some sign, some w, some n =>
        if z = "0" ∨ z = "1" then esc (Ems.TimeUnitsSrc.fmtInt ⟨sign, z = "1", w⟩ n) else "BAD"
      | _, _, _ => "BAD"
    | _ => "BAD"
  | "srcstrf" =>
    match words (String.ofList rest) with
    | [d, y, mo, dd, h, mi, sec] =>
      match d.toList, parseInt? y, parseNat? mo, parseNat? dd, parseNat? h, parseNat? mi, parseNat? sec with
      | [c], some y, some mo, some dd, some h, some mi, some sec =>
        showOpt (Ems.TimeUnitsSrc.strftime1 ⟨y, mo, dd, h, mi, sec⟩ c)
      | _, _, _, _, _, _, _ => "BAD"
    | _ => "BAD"
  | "savehist" =>
    let calls := allSome (((String.ofList rest).splitOn " ; ").map fun c =>
      match words c with
      | [a, v] =>
        match parseEncArgs? a, parseSVars? v with
        | some a, some v => some (⟨a, v⟩ : Ems.SaveSession.SaveCall)
        | _, _ => none
      | _ => none)
    match calls with
    | some calls => " ; ".intercalate ((Ems.SaveSession.runSession calls).map showFile)
    | none => "BAD"
  | "propcheck" =>
    let (what, r1) := cut rest
    match String.ofList what with
    | "offset" => match parseInt? (String.ofList r1) with
      | some m => bit (parseOffset (formatOffset m) == some m)
      | none => "BAD"
    | "fmt" =>
      let (cal, u) := cut r1
      match unesc cal, unesc u with
      | some cal, some u =>
        match formatTimeUnits gregorian cal u, parseUnits u with
        | some out, some (p, _) =>
          bit (emsForm p out && (refInstant gregorian cal out == refInstant gregorian cal u))
        | some _, none => "0"
        | none, _ => "1"
      | _, _ => "BAD"
    | _ => "BAD"
  | _ => "BAD"

def main : IO Unit := loop step
