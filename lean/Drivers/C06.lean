import EmsModel.Core.GeomProto
/-! Line-protocol driver for C06 (polygons, mask, bounds faithful to the coordinates).
See `Core/GeomProto.lean` for the operations (`polys`, `centres`, `valid`, `pip`). -/
open Ems Ems.Proto
def step (line : String) : String := (Ems.GeomProto.step? (words line)).getD "BAD"
def main : IO Unit := loop step
