import EmsModel.Core.GeomProto
import EmsModel.Core.GeomCover
import EmsModel.Core.ConvReads
import EmsModel.Core.ConvOpen
import EmsModel.Core.NpProto
import EmsModel.Core.UgridSrcProto
/-! Line-protocol driver for C06 (polygons, mask, bounds faithful to the coordinates).
See `Core/GeomProto.lean` for the operations on the comprehension models (`polys`, `centres`, `valid`, `pip`,
`cf1dgeom`), `Core/GeomCover.lean` for `cf1dcover` (the point set of the overall geometry of a CF 1-D grid on a
lattice of probe points), `Core/ConvReads.lean` for `reads <accessors> polys …` (one convention object read through its
cached accessors in the given order) and `Core/NpProto.lean` for the `pipe …` operations, which run the numpy pipelines
generated from the source (`Gen/Pipelines.lean`). -/
open Ems Ems.Proto
def step (line : String) : String :=
  -- `polys-src ugrid …` (Core/UgridSrcProto.lean): the program generated from the source of `UGrid._make_polygons` (B5)
  match Ems.UgridSrcProto.step? (words line) with
  | some r => r
  | none =>
  -- `opens …` (Core/ConvOpen.lean): convention objects constructed one after the other, some configured through their constructor
  match Ems.GeomProto.opensStep? (words line) with
  | some r => r
  | none =>
  match Ems.NpProto.step? (words line) with
  | some r => r
  | none =>
    match Ems.GeomProto.coverStep? (words line) with
    | some r => r
    | none =>
      match Ems.GeomProto.readsStep? (words line) with
      | some r => r
      | none => (Ems.GeomProto.step? (words line)).getD "BAD"
def main : IO Unit := loop step
