import EmsModel.Core.ArrProto
/-! Line-protocol driver for C03 (flatten / wind); operations in `Core/ArrProto.lean`.

Further operation (presentations of one variable):
  `ravelp <grids> <default> <arr> <order,> <lin|->`
the stored variable `arr` handed over as `arr.transpose(*order)` - the MODEL transposes it (`NArr.transposeTo`) -
and flattened; `ERR` when `order` is not an ordering of the variable's dimensions (xarray raises) or the flattening
is refused. -/
open Ems Ems.Proto

def stepPresented (ws : List String) : Option String :=
  match ws with
  | ["ravelp", gs, dflt, arr, order, lin] =>
    some (match Ems.ArrProto.parseGrids? gs, Ems.ArrProto.parseArr? arr with
    | some grids, some a =>
      let ord := Ems.ArrProto.parseNames order
      if ord.isPerm a.names then
        Ems.ArrProto.showRes
          (({ grids := grids, default := dflt } : GridConv).ravel (a.transposeTo ord) (Ems.ArrProto.opt lin))
      else "ERR"
    | _, _ => "BAD")
  | _ => none

def step (line : String) : String :=
  match stepPresented (words line) with
  | some out => out
  | none => (Ems.ArrProto.step? (words line)).getD "BAD"

def main : IO Unit := loop step
