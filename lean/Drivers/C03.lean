import EmsModel.Core.Named
import EmsModel.Core.Proto
/-! Line-protocol driver for C03 (flatten / wind).
array:  `t:2,y:3,x:4|0,1,2,…`   (dims `-` for a 0-d array)
grids:  `face=y:3,x:4;left=yl:3,xl:5`
ops:
  `ravel  <grids> <default> <arr> <lin|->`
  `wind   <grids> <default> <arr> <kind|-> <axis|-> <lin|->`
  `uravel <arr> <dims,> <lin|->`
  `uwind  <arr> <newdims> <lin>`
  `mte    <arr> <dims,>`
  `unused <names,|-> <prefix>`
output: an array, a name, or `ERR` -/
open Ems Ems.Proto

def parseDims? (s : String) : Option (List Dim) :=
  if s == "-" then some [] else
  Proto.allSome ((s.splitOn ",").map fun d =>
    match d.splitOn ":" with
    | [n, sz] => (parseNat? sz).map (fun k => (n, k))
    | _ => none)

def parseArr? (s : String) : Option (NArr Int) :=
  match s.splitOn "|" with
  | [d, v] => do
      let dims ← parseDims? d
      let vals ← parseIntList? v
      some { dims := dims, data := vals }
  | _ => none

def showDims (ds : List Dim) : String :=
  if ds.isEmpty then "-" else joinWith "," (ds.map fun d => s!"{d.1}:{d.2}")

def showArr (a : NArr Int) : String := s!"{showDims a.dims}|{showIntList a.data}"

def parseGrids? (s : String) : Option (List (String × List Dim)) :=
  Proto.allSome ((s.splitOn ";").map fun g =>
    match g.splitOn "=" with
    | [k, ds] => (parseDims? ds).map (fun l => (k, l))
    | _ => none)

def parseNames (s : String) : List String := if s == "-" then [] else s.splitOn ","
def opt (s : String) : Option String := if s == "-" then none else some s

def showRes : Option (NArr Int) → String
  | some a => showArr a
  | none => "ERR"

def step (line : String) : String :=
  match words line with
  | ["ravel", gs, dflt, arr, lin] =>
    match parseGrids? gs, parseArr? arr with
    | some grids, some a => showRes (({ grids := grids, default := dflt } : GridConv).ravel a (opt lin))
    | _, _ => "BAD"
  | ["wind", gs, dflt, arr, kind, axis, lin] =>
    match parseGrids? gs, parseArr? arr, (if axis == "-" then some none else (parseInt? axis).map some) with
    | some grids, some a, some ax =>
      showRes (({ grids := grids, default := dflt } : GridConv).wind a (opt kind) ax (opt lin))
    | _, _, _ => "BAD"
  | ["uravel", arr, dims, lin] =>
    match parseArr? arr with
    | some a => showRes (a.ravelDims (parseNames dims) (opt lin))
    | none => "BAD"
  | ["uwind", arr, nd, lin] =>
    match parseArr? arr, parseDims? nd with
    | some a, some nd => showRes (a.windDim nd lin)
    | _, _ => "BAD"
  | ["mte", arr, dims] =>
    match parseArr? arr with
    | some a => showRes (a.moveToEnd (parseNames dims))
    | none => "BAD"
  | ["unused", names, pfx] => NArr.findUnused (parseNames names) pfx
  | _ => "BAD"

def main : IO Unit := loop step
