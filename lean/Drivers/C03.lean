import EmsModel.Core.ArrProto
/-! Line-protocol driver for C03 (flatten / wind); operations in `Core/ArrProto.lean`. -/
open Ems Ems.Proto
def step (line : String) : String := (Ems.ArrProto.step? (words line)).getD "BAD"
def main : IO Unit := loop step
