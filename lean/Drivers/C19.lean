import EmsModel.Core.Plot
import EmsModel.Core.PlotHistory
import EmsModel.Core.GeomProto
import EmsModel.Gen.PlotSrc   -- [B7]
/-! Line-protocol driver for C19 (plot artists).
`collection <rings> <values|none|extra> <array 0|1> <clim lo,hi|->`
     → `P=<rings> A=<values|-> C=<lo,hi|->` | `TypeError` | `ValueError`
`quiver <centres x,y;x,y…> <u values> <v values>` → `x,y,u,v;…`
`history <rings> <step&step…>` with steps `b:<values|none|extra>:<array 0|1>:<clim lo,hi|->` (a call) and
     `e:<i>:shift:<dx>,<dy>` | `e:<i>:scale:<k>` | `e:<i>:clim:<lo>,<hi>` | `e:<i>:vals:<x>` (the caller changes the i-th artist it holds)
     → every artist held at the end, in the `collection` form, joined by ` ## ` -/
open Ems Ems.Proto Ems.GeomProto

def parseRings? (s : String) : Option (List (Option Poly)) :=
  Proto.allSome ((s.splitOn "|").map fun r => if r == "-" then some none else (parseRing? r).map some)

def showVals (l : List (Option Rat)) : String :=
  if l.isEmpty then "(empty)" else joinWith "," (l.map showOptRat)

def showClim : Option (Rat × Rat) → String
  | some (a, b) => s!"{showRat a},{showRat b}"
  | none => "-"

-- [strengthen-6: histories of artists] ---------------------------------------------------------------
def showPlotResult : PlotResult → String
  | .typeError => "TypeError"
  | .valueError => "ValueError"
  | .ok paths array clim =>
    let a := match array with
      | some v => showVals v
      | none => "-"
    s!"P={if paths.isEmpty then "(none)" else joinWith "|" (paths.map showRing)} A={a} C={showClim clim}"

def parseClim? (clim : String) : Option (Option (Rat × Rat)) :=
  if clim == "-" then some none else
  match clim.splitOn "," with
  | [a, b] => match parseRat? a, parseRat? b with
    | some a, some b => some (some (a, b))
    | _, _ => none
  | _ => none

def parsePlotStep? (s : String) : Option PlotStep :=
  match s.splitOn ":" with
  | ["b", vals, arr, clim] =>
    let data : Option (Option (Option (List (Option Rat)))) :=
      if vals == "none" then some none
      else if vals == "extra" then some (some none)
      else (parseOptRats? vals).map fun v => some (some v)
    match data, parseClim? clim, (arr == "0" || arr == "1") with
    | some d, some c, true => some (.build d { array := arr == "1", clim := c })
    | _, _, _ => none
  | ["e", i, what, arg] =>
    match parseNat? i, what, (arg.splitOn ",").map parseRat? with
    | some i, "shift", [some dx, some dy] => some (.edit i (ArtistEdit.shift dx dy).apply)
    | some i, "scale", [some k] => some (.edit i (ArtistEdit.scale k).apply)
    | some i, "clim", [some lo, some hi] => some (.edit i (ArtistEdit.clim lo hi).apply)
    | some i, "vals", [some x] => some (.edit i (ArtistEdit.vals x).apply)
    | _, _, _ => none
  | _ => none
-- [/strengthen-6] -------------------------------------------------------------------------------------

def step (line : String) : String :=
  match words line with
  | ["collection", rings, vals, arr, clim] =>
    match parseRings? rings with
    | none => "BAD"
    | some ps =>
      let data : Option (Option (Option (List (Option Rat)))) :=
        if vals == "none" then some none
        else if vals == "extra" then some (some none)
        else (parseOptRats? vals).map fun v => some (some v)
      let cl : Option (Option (Rat × Rat)) :=
        if clim == "-" then some none else
        match clim.splitOn "," with
        | [a, b] => match parseRat? a, parseRat? b with
          | some a, some b => some (some (a, b))
          | _, _ => none
        | _ => none
      match data, cl with
      | some d, some c =>
        match makePolyCollection ps d { array := arr == "1", clim := c } with
        | .typeError => "TypeError"
        | .valueError => "ValueError"
        | .ok paths array clim =>
          let a := match array with
            | some v => showVals v
            | none => "-"
          s!"P={if paths.isEmpty then "(none)" else joinWith "|" (paths.map showRing)} A={a} C={showClim clim}"
      | _, _ => "BAD"
  | ["history", rings, steps] =>     -- [strengthen-6]
    match parseRings? rings, Proto.allSome ((steps.splitOn "&").map parsePlotStep?) with
    | some ps, some h => joinWith " ## " ((playPlot ps h).map showPlotResult)
    | _, _ => "BAD"
  | ["srccollection", rings, vals, arr, clim] =>     -- [B7] the program generated from the source of make_poly_collection
    match parseRings? rings, parseClim? clim with
    | some ps, some c =>
      let data : Option (Option (NArr (Option Rat))) :=
        if vals == "none" then some none
        else if vals == "extra" then some (some ⟨[("time", 2), ("face", ps.length)], List.replicate (2 * ps.length) none⟩)
        else (parseOptRats? vals).map fun v => some ⟨[("face", v.length)], v⟩
      match data with
      | some d =>
        match psPolyResult (psRun ⟨ps, [], ["face"], d, none, none⟩ Ems.Gen.plotSrcMakePolyCollection
            (psInitKw { array := arr == "1", clim := c } none)) with
        | some (r, _) => showPlotResult r
        | none => "STUCK"
      | none => "BAD"
    | _, _ => "BAD"
  | ["quiver", centres, u, v] =>
    match parseOptRats? u, parseOptRats? v with
    | some us, some vs =>
      let cs := (centres.splitOn ";")
      joinWith ";" ((makeQuiver cs us vs).map fun a => s!"{a.1},{showOptRat a.2.1},{showOptRat a.2.2}")
    | _, _ => "BAD"
  | _ => "BAD"

def main : IO Unit := loop step
