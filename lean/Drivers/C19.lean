import EmsModel.Core.Plot
import EmsModel.Core.GeomProto
/-! Line-protocol driver for C19 (plot artists).
`collection <rings> <values|none|extra> <array 0|1> <clim lo,hi|->`
     → `P=<rings> A=<values|-> C=<lo,hi|->` | `TypeError` | `ValueError`
`quiver <centres x,y;x,y…> <u values> <v values>` → `x,y,u,v;…` -/
open Ems Ems.Proto Ems.GeomProto

def parseRings? (s : String) : Option (List (Option Poly)) :=
  Proto.allSome ((s.splitOn "|").map fun r => if r == "-" then some none else (parseRing? r).map some)

def showVals (l : List (Option Rat)) : String :=
  if l.isEmpty then "(empty)" else joinWith "," (l.map showOptRat)

def showClim : Option (Rat × Rat) → String
  | some (a, b) => s!"{showRat a},{showRat b}"
  | none => "-"

def step (line : String) : String :=
  match words line with
  | ["collection", rings, vals, arr, clim] =>
    match parseRings? rings with
    | none => "BAD"
    | some ps =>
      let data : Option (Option (Option (List (Option Rat)))) :=
        if vals == "none" then some none
        else if vals == "extra" then some (some none)
        else (parseOptRats? vals).map fun v => some (some v)
      let cl : Option (Option (Rat × Rat)) :=
        if clim == "-" then some none else
        match clim.splitOn "," with
        | [a, b] => match parseRat? a, parseRat? b with
          | some a, some b => some (some (a, b))
          | _, _ => none
        | _ => none
      match data, cl with
      | some d, some c =>
        match makePolyCollection ps d { array := arr == "1", clim := c } with
        | .typeError => "TypeError"
        | .valueError => "ValueError"
        | .ok paths array clim =>
          let a := match array with
            | some v => showVals v
            | none => "-"
          s!"P={if paths.isEmpty then "(none)" else joinWith "|" (paths.map showRing)} A={a} C={showClim clim}"
      | _, _ => "BAD"
  | ["quiver", centres, u, v] =>
    match parseOptRats? u, parseOptRats? v with
    | some us, some vs =>
      let cs := (centres.splitOn ";")
      joinWith ";" ((makeQuiver cs us vs).map fun a => s!"{a.1},{showOptRat a.2.1},{showOptRat a.2.2}")
    | _, _ => "BAD"
  | _ => "BAD"

def main : IO Unit := loop step
