import EmsModel.Core.DepthProto
import EmsModel.Props.C12
import EmsModel.Gen.DepthSrc
/-! Line-protocol driver for C12 (ocean floor).
`floor <kb:0|1> <DS> <coords|-> <ns|-> [<order>]` → `OK <DS'>` | `ERR`
      kb=1: the code as written (`extract_vars(..., keep_bounds=True)`); kb=0: no foreign bounds
      variable in a group's subset.  `order`: the order in which the depth dimensions are visited
      (default: the order of the coordinates)
`hyp <kb:0|1> <DS> <coords|-> <ns|->` → `1` iff the hypotheses of the dataset-level theorems (`Ems.C12.Setting`,
      decided by `Ems.C12.settingB`, sound by `settingB_sound`) hold for this input
`fidx <column of v/n>` → `<floorIndex>`            (`_find_ocean_floor_indexes` on one column)
`propcheck <column of v/n>` → `1` iff floorIndex = index of the last `v` (0 if none)
`srcfidx <column 1,n,-3/2>` → `<index>` | `ERR`   the term GENERATED from the source of `_find_ocean_floor_indexes`
      (`Gen.depthFindFloorIndexes`) evaluated on one column of numbers / NaN (`n`)
`srcop cumsum|argmax|indicator <column>` → values | index | `ERR`   one construct of the expression language by itself
      (`x.cumsum(dim)`, `x.argmax(dim)`, `x * 0 + 1` with xarray's semantics) -/
open Ems Ems.Proto Ems.Depth Ems.Depth.Proto

def parseCol? (s : String) : Option (List (Option Unit)) :=
  if s == "-" then some [] else
  Ems.Proto.allSome (s.toList.map fun c => if c == 'v' then some (some ()) else if c == 'n' then some none else none)

def lastSomeIdx {α} (c : List (Option α)) : Nat :=
  ((List.range c.length).filter fun i => (c[i]?).join.isSome).getLast?.getD 0

def step (line : String) : String :=
  match words line with
  | "floor" :: kb :: dss :: coords :: ns :: rest =>
    match parseDataset? dss, (if kb == "0" then some false else if kb == "1" then some true else none) with
    | some ds, some kb =>
      let r := match rest with
        | [] => some (oceanFloor kb ds (parseNames coords) (parseNames ns))
        | [order] => some (oceanFloorOrd kb ds (parseNames coords) (parseNames ns) (parseNames order))
        | _ => none
      match r with
      | some (some out) => s!"OK {showDataset out}"
      | some none => "ERR"
      | none => "BAD"
    | _, _ => "BAD"
  | ["hyp", kb, dss, coords, ns] =>
    match parseDataset? dss, (if kb == "0" then some false else if kb == "1" then some true else none) with
    | some ds, some kb => if Ems.C12.settingB kb ds (parseNames coords) (parseNames ns) then "1" else "0"
    | _, _ => "BAD"
  | ["fidx", col] =>
    match parseCol? col with
    | some c => toString (floorIndex c)
    | none => "BAD"
  | ["propcheck", col] =>
    match parseCol? col with
    | some c => if floorIndex c == lastSomeIdx c then "1" else "0"
    | none => "BAD"
  | ["srcfidx", col] =>
    match parseVals? col with
    | some c =>
      match Ems.Gen.depthFindFloorIndexes.eval c with
      | some (.idx n) => toString n
      | some (.col l) => "COL " ++ showNames (l.map showVal)
      | none => "ERR"
    | none => "BAD"
  | ["srcop", op, col] =>
    let e? : Option Ems.DepthSrc.FExpr :=
      if op == "cumsum" then some (.cumsum .input .depthParam)
      else if op == "argmax" then some (.argmax .input .depthParam)
      else if op == "indicator" then some (.addConst (.mulConst .input 0) 1)
      else none
    match e?, parseVals? col with
    | some e, some c =>
      match e.eval c with
      | some (.idx n) => toString n
      | some (.col l) => showNames (l.map showVal)
      | none => "ERR"
    | _, _ => "BAD"
  | _ => "BAD"

def main : IO Unit := loop step
