import EmsModel.Core.CacheKeyDataset
import EmsModel.Core.CacheKeyMarshal
import EmsModel.Core.CacheKeyScalars
import EmsModel.Core.Proto
/-! Line-protocol driver for C16 (cache key byte stream).

Strings travel as the hex of their UTF-8 (`-` = empty), byte strings as hex (`-` = empty).

`int <v>`                                  → hex of `hash_int` | `ERR`
`str <cp,cp,…|->`                          → hex of `hash_string` of the code points | `ERR`
`attrs <count> <blob>`                     → hex of `hash_attributes` | `ERR`
`inv <spec> <vars>`                        → inventory names `hex,hex,…` (`-` = none) | `ERR`
`stream <spec> <module> <class> <version> <vars>` → hex of the whole stream | `ERR` | `ERR:omitted`
`pos <spec> <vars> <i> <k>`                → absolute stream position of data byte k of inventory variable i | `ERR`
`diff <spec> <module> <class> <version> <vars> <spec'> <module'> <class'> <version'> <vars'>`
                                           → `same` | `pos:<first differing position>` | `len:<a>,<b>` (one stream is a prefix of the other) | `ERR`

`marshal <0|1> <items>`                    → hex of the F10 quirk model `marshalStrDict` (dict shared?; items `,`-separated
                                             `ktext/i/s/id~vtext/i/s/id`, i = interned, s = shared, 0|1) | `UNSUPPORTED` (not short ASCII)

`mscalar <0|1> <none|bool|int|float|buffer> <payload>` → hex of `wScalar` (round 6): what `marshal.dumps(v, 4)` writes for a scalar
                                             attribute value; the flag = more than one reference; payload `-` (none), `0|1` (bool), a decimal
                                             (int), the hex of the 8-byte IEEE image (float), the hex of the raw bytes (buffer) | `UNSUPPORTED`

spec:  `cf:<lat|->:<lon|->`  `shoc_simple`  `arakawa:<kind>=<lat>/<lon>,…`  `ugrid:<role,role|->`
vars:  `;`-separated, each `name:dims:c|d:valuedtype:encdtype|-:shape:data|*:count:blob:attrs`
       dims `hex,hex|-`, shape `2x3|-`, attrs `khex=vhex,…|-`; data `*` = omitted by the harness
       (a variable the generator knows is not geometry); if the model needs it, the answer is `ERR:omitted`.
-/
open Ems Ems.Proto Ems.CacheKey

def hexVal (c : Char) : Option Nat :=
  if '0' ≤ c ∧ c ≤ '9' then some (c.toNat - '0'.toNat)
  else if 'a' ≤ c ∧ c ≤ 'f' then some (c.toNat - 'a'.toNat + 10)
  else none

def parseHexChars : List Char → Option Bytes
  | [] => some []
  | [_] => none
  | a :: b :: rest =>
    match hexVal a, hexVal b, parseHexChars rest with
    | some x, some y, some r => some (UInt8.ofNat (16 * x + y) :: r)
    | _, _, _ => none

def parseHex? (s : String) : Option Bytes :=
  if s == "-" then some [] else if s.isEmpty then none else parseHexChars s.toList

def hexDigit (n : Nat) : Char := if n < 10 then Char.ofNat (48 + n) else Char.ofNat (87 + n)

def showHex (b : Bytes) : String :=
  if b.isEmpty then "-" else
    String.ofList (b.flatMap fun x => [hexDigit (x.toNat / 16), hexDigit (x.toNat % 16)])

def parseStr? (s : String) : Option String :=
  (parseHex? s).bind fun b => String.fromUTF8? b.toByteArray

def showStr (s : String) : String := showHex (utf8 s)

def parseStrList? (s : String) : Option (List String) :=
  if s == "-" then some [] else allSome ((s.splitOn ",").map parseStr?)

def parseAttrs? (s : String) : Option (List (String × String)) :=
  if s == "-" then some [] else
    allSome ((s.splitOn ",").map fun kv =>
      match kv.splitOn "=" with
      | [k, v] => match parseStr? k, parseStr? v with
        | some k, some v => some (k, v)
        | _, _ => none
      | _ => none)

/-- a variable, and whether its data was omitted by the harness -/
def parseVar? (s : String) : Option (DVar × Bool) :=
  match s.splitOn ":" with
  | [nameR, dimsR, cd, vdtR, edtR, shapeR, dataR, countR, blobR, attrsR] =>
    match parseStr? nameR, parseStrList? dimsR, parseStr? vdtR,
          (if edtR == "-" then some none else (parseStr? edtR).map some),
          parseNatList? shapeR "x", (if dataR == "*" then some [] else parseHex? dataR),
          parseNat? countR, parseHex? blobR, parseAttrs? attrsR with
    | some name, some dims, some vdt, some edt, some shape, some data, some count, some blob, some attrs =>
      if cd == "c" || cd == "d" then
        some ({ view := { name := name, dims := dims, isCoord := cd == "c", strAttrs := attrs },
                valueDtype := vdt, encDtype := edt, shape := shape, data := data,
                attrCount := count, attrBlob := blob }, dataR == "*")
      else none
    | _, _, _, _, _, _, _, _, _ => none
  | _ => none

def parseVars? (s : String) : Option (List (DVar × Bool)) :=
  if s == "-" then some [] else allSome ((s.splitOn ";").map parseVar?)

def parseSpec? (s : String) : Option ConvSpec :=
  match s.splitOn ":" with
  | ["cf", lat, lon] =>
    match (if lat == "-" then some none else (parseStr? lat).map some),
          (if lon == "-" then some none else (parseStr? lon).map some) with
    | some lat, some lon => some (.cfGrid lat lon)
    | _, _ => none
  | ["shoc_simple"] => some .shocSimple
  | ["arakawa", coords] =>
    (allSome ((coords.splitOn ",").map fun kc =>
      match kc.splitOn "=" with
      | [k, ll] => match ll.splitOn "/" with
        | [lat, lon] => match parseStr? lat, parseStr? lon with
          | some lat, some lon => some (k, [lat, lon])
          | _, _ => none
        | _ => none
      | _ => none)).map ConvSpec.arakawaC
  | ["ugrid", roles] => some (.ugrid (if roles == "-" then [] else roles.splitOn ","))
  | _ => none

def mkDataset (vars : List (DVar × Bool)) : Dataset :=
  { vars := vars.map (·.1), attrs := [], dims := [] }

/-- does the inventory name a variable whose data the harness left out? -/
def needsOmitted (spec : ConvSpec) (vars : List (DVar × Bool)) : Bool :=
  match inventory spec (mkDataset vars) with
  | some names => vars.any fun (v, om) => om && names.contains v.view.name
  | none => false

def streamOf (spec : ConvSpec) (m c v : String) (vars : List (DVar × Bool)) : Except String Bytes :=
  if needsOmitted spec vars then .error "ERR:omitted" else
    match datasetStream spec { module := m, className := c } v (mkDataset vars) with
    | some s => .ok s
    | none => .error "ERR"

def firstDiff : Bytes → Bytes → Nat → String
  | [], [], _ => "same"
  | [], _ :: _, _ => "len"
  | _ :: _, [], _ => "len"
  | a :: as, b :: bs, k => if a == b then firstDiff as bs (k + 1) else s!"pos:{k}"

def parsePyStr? (s : String) : Option PyStr :=
  match s.splitOn "/" with
  | [t, i, sh, id] =>
    match parseStr? t, parseNat? id with
    | some t, some id =>
      if (i == "0" || i == "1") && (sh == "0" || sh == "1") then
        some { text := t, interned := i == "1", shared := sh == "1", ident := id }
      else none
    | _, _ => none
  | _ => none

def parseItems? (s : String) : Option (List (PyStr × PyStr)) :=
  if s == "-" then some [] else
    allSome ((s.splitOn ",").map fun kv =>
      match kv.splitOn "~" with
      | [k, v] => match parsePyStr? k, parsePyStr? v with
        | some k, some v => some (k, v)
        | _, _ => none
      | _ => none)

def shortAscii (s : PyStr) : Bool := s.text.length < 256 && s.text.toList.all (·.toNat < 128)

def step (line : String) : String :=
  match words line with
  | ["int", v] =>
    match parseInt? v with
    | some v => match hashInt v with
      | some b => showHex b
      | none => "ERR"
    | none => "BAD"
  | ["str", cps] =>
    match parseNatList? cps with
    | some cps => match hashCodePoints cps with
      | some b => showHex b
      | none => "ERR"
    | none => "BAD"
  | ["attrs", count, blob] =>
    match parseNat? count, parseHex? blob with
    | some c, some b => match hashAttrs c b with
      | some b => showHex b
      | none => "ERR"
    | _, _ => "BAD"
  | ["marshal", sh, items] =>
    match parseItems? items with
    | some items =>
      if !(sh == "0" || sh == "1") then "BAD"
      else if items.all (fun (k, v) => shortAscii k && shortAscii v) then showHex (marshalStrDict (sh == "1") items)
      else "UNSUPPORTED"
    | none => "BAD"
  | ["mscalar", ref, kind, payload] =>
    if !(ref == "0" || ref == "1") then "BAD" else
    let v : Option PyScalar :=
      match kind with
      | "none" => if payload == "-" then some .none else none
      | "bool" => if payload == "1" then some (.bool true) else if payload == "0" then some (.bool false) else none
      | "int" => (parseInt? payload).map .int
      | "float" => (parseHex? payload).map .float
      | "buffer" => (parseHex? payload).map .buffer
      | _ => none
    match v with
    | some v => match wScalar (ref == "1") v with
      | some b => showHex b
      | none => "UNSUPPORTED"
    | none => "BAD"
  | ["inv", spec, vars] =>
    match parseSpec? spec, parseVars? vars with
    | some spec, some vars =>
      match inventory spec (mkDataset vars) with
      | some names => if names.isEmpty then "-" else joinWith "," (names.map showStr)
      | none => "ERR"
    | _, _ => "BAD"
  | ["stream", spec, m, c, v, vars] =>
    match parseSpec? spec, parseStr? m, parseStr? c, parseStr? v, parseVars? vars with
    | some spec, some m, some c, some v, some vars =>
      match streamOf spec m c v vars with
      | .ok s => showHex s
      | .error e => e
    | _, _, _, _, _ => "BAD"
  | ["pos", spec, vars, i, k] =>
    match parseSpec? spec, parseVars? vars, parseNat? i, parseNat? k with
    | some spec, some vars, some i, some k =>
      match geomRecords spec (mkDataset vars) with
      | some rs => if i < rs.length then toString (valuePos rs i k) else "ERR"
      | none => "ERR"
    | _, _, _, _ => "BAD"
  | ["diff", spec, m, c, v, vars, spec', m', c', v', vars'] =>
    match parseSpec? spec, parseStr? m, parseStr? c, parseStr? v, parseVars? vars,
          parseSpec? spec', parseStr? m', parseStr? c', parseStr? v', parseVars? vars' with
    | some spec, some m, some c, some v, some vars, some spec', some m', some c', some v', some vars' =>
      match streamOf spec m c v vars, streamOf spec' m' c' v' vars' with
      | .ok s, .ok s' =>
        let d := firstDiff s s' 0
        if d == "len" then s!"len:{s.length},{s'.length}" else d
      | _, _ => "ERR"
    | _, _, _, _, _, _, _, _, _, _ => "BAD"
  | _ => "BAD"

def main : IO Unit := loop step
