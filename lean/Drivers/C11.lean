import EmsModel.Core.Registry
import EmsModel.Core.Binding
import EmsModel.Core.Proto
/-! Line-protocol driver for C11 (convention detection and binding).

Strings (names, attribute values) are percent-encoded: every character outside
`[A-Za-z0-9_]` is written `%XX`.

```
<attr>  := -            absent
         | s:<enc>      a str
         | i:<int>      a number equal to that integer
         | o            another hashable value
         | u            a list (unhashable)
<var>   := <name>,<D|C>,<dim.dim…|->,<units>,<standard_name>,<axis>,<cf_role>,<topology_dimension>
<F>     := <str(Conventions)>;<0|1 ems_version present>;<var>|<var>…   (or `-` for no variable)
<cls>   := ArakawaC | CFGrid1D | CFGrid2D | ShocSimple | ShocStandard | UGrid | S<id>
<reg>   := reg=<cls>,<cls>… | reg=-
<syn>   := syn=<id>:c<spec|->,<id>:l<Builtin>@<spec>,<id>:r … | syn=-
<op>    := a<d> | n<d>:<cls> | b<k> | c<d>:<cls> | y<d> | r:<cls>

check <cls> <syn> F=<F>                 → `30` | `-` | `ERR`
convs <reg>                             → class names in `registry.conventions` order
match <reg> <syn> F=<F>                 → `ShocSimple:30,CFGrid2D:10` | `-` | `ERR`
detect <reg> <syn> F=<F>                → class name | `NONE` | `ERR`
scan eps=<cls|!load|!notconv>,…         → classes `entry_point_conventions()` yields (`-` if none)
matchep <reg> <eps> <syn> F=<F>         → as `match`, for a registry whose entry points are <eps>
detectep <reg> <eps> <syn> F=<F>        → as `detect`, for a registry whose entry points are <eps>
hist <reg> <syn> D=<F>#<F>… ops=<op>,…   → one output per op: `o<k>` `d<d>` `ok` `E:noconv` `E:bound` `E:check` `E:construct` `INVALID`
propcheck detect <reg> <syn> F=<F>      → `OK` | `FAIL:<clause>`   (conclusions of the detection theorems, evaluated)
propcheck hist <reg> <syn> D=… ops=…    → `OK` | `FAIL:<clause>@<step>`   (conclusions of the binding theorems, evaluated)
```
-/
open Ems Ems.Proto Ems.Reg Ems.Bind

def hexVal (c : Char) : Option Nat :=
  if '0' ≤ c ∧ c ≤ '9' then some (c.toNat - '0'.toNat)
  else if 'A' ≤ c ∧ c ≤ 'F' then some (c.toNat - 'A'.toNat + 10)
  else none

def safeChar (c : Char) : Bool := c.isAlphanum || c == '_'

def decodeChars : List Char → Option (List Char)
  | [] => some []
  | '%' :: a :: b :: rest => do
    let x ← hexVal a
    let y ← hexVal b
    let r ← decodeChars rest
    some (Char.ofNat (16 * x + y) :: r)
  | c :: rest => if safeChar c then (decodeChars rest).map (c :: ·) else none

def decodeStr? (s : String) : Option String := (decodeChars s.toList).map String.ofList

def parseAttr? (s : String) : Option (Option AttrVal) :=
  if s == "-" then some none
  else if s == "o" then some (some .other)
  else if s == "u" then some (some .unhashable)
  else if s.startsWith "s:" then (decodeStr? (s.drop 2).toString).map (fun t => some (.str t))
  else if s.startsWith "i:" then (parseInt? (s.drop 2).toString).map (fun n => some (.int n))
  else none

def parseDims? (s : String) : Option (List String) :=
  if s == "-" then some [] else allSome ((s.splitOn ".").map decodeStr?)

def parseVar? (s : String) : Option VarFeat :=
  match s.splitOn "," with
  | [name, kind, dims, units, std, axis, role, topdim] => do
    let name ← decodeStr? name
    let isData ← (if kind == "D" then some true else if kind == "C" then some false else none)
    let dims ← parseDims? dims
    let units ← parseAttr? units
    let std ← parseAttr? std
    let axis ← parseAttr? axis
    let role ← parseAttr? role
    let topdim ← parseAttr? topdim
    some { name := name, isData := isData, dims := dims, units := units, standardName := std,
           axis := axis, cfRole := role, topologyDimension := topdim }
  | _ => none

def parseFeatures? (s : String) : Option Features :=
  match s.splitOn ";" with
  | [conv, ems, vars] => do
    let conv ← decodeStr? conv
    let ems ← (if ems == "1" then some true else if ems == "0" then some false else none)
    let vars ← (if vars == "-" then some [] else allSome ((vars.splitOn "|").map parseVar?))
    some { conventions := conv, hasEmsVersion := ems, vars := vars }
  | _ => none

def parseCls? (s : String) : Option Cls :=
  if s.startsWith "S" ∧ s.length > 1 ∧ ((s.drop 1).toString.toNat?).isSome then
    ((s.drop 1).toString.toNat?).map Cls.synth
  else (Builtin.ofName? s).map Cls.builtin

def showCls : Cls → String
  | .builtin b => b.name
  | .synth i => s!"S{i}"

def stripPrefix? (pre s : String) : Option String :=
  if s.startsWith pre then some (s.drop pre.length).toString else none

def parseClsList? (s : String) : Option (List Cls) :=
  if s == "-" then some [] else allSome ((s.splitOn ",").map parseCls?)

def parseSynthSpec? (s : String) : Option SynthSpec :=
  if s == "r" then some .raises
  else if s.startsWith "c" then
    let r := (s.drop 1).toString
    if r == "-" then some (.const none) else (parseNat? r).map (fun n => .const (some n))
  else if s.startsWith "l" then
    match ((s.drop 1).toString).splitOn "@" with
    | [b, n] => do
      let b ← Builtin.ofName? b
      let n ← parseNat? n
      some (.like b n)
    | _ => none
  else none

def parseSyn? (s : String) : Option (List (Nat × SynthSpec)) :=
  if s == "-" then some [] else
  allSome ((s.splitOn ",").map fun e =>
    match e.splitOn ":" with
    | [i, sp] => do
      let i ← parseNat? i
      let sp ← parseSynthSpec? sp
      some (i, sp)
    | _ => none)

def envOf (tbl : List (Nat × SynthSpec)) : SynthEnv := fun i => (tbl.lookup i).getD (.const none)

/-- every synthetic class that is mentioned must be declared (never default) -/
def declared (tbl : List (Nat × SynthSpec)) : Cls → Bool
  | .builtin _ => true
  | .synth i => (tbl.lookup i).isSome

def parseOp? (s : String) : Option Op :=
  if s.startsWith "r:" then (parseCls? (s.drop 2).toString).map Op.register
  else
    let body := (s.drop 1).toString
    if s.startsWith "a" then (parseNat? body).map Op.access
    else if s.startsWith "b" then (parseNat? body).map Op.bind
    else if s.startsWith "y" then (parseNat? body).map Op.copy
    else if s.startsWith "n" ∨ s.startsWith "c" then
      match body.splitOn ":" with
      | [d, c] => do
        let d ← parseNat? d
        let c ← parseCls? c
        some (if s.startsWith "n" then Op.new d c else Op.cbind d c)
      | _ => none
    else none

def opClasses : Op → List Cls
  | .new _ c => [c] | .cbind _ c => [c] | .register c => [c] | _ => []

def showOut : Out → String
  | .obj k => s!"o{k}"
  | .ds d => s!"d{d}"
  | .ok => "ok"
  | .errNoConvention => "E:noconv"
  | .errAlreadyBound => "E:bound"
  | .errCheck => "E:check"
  | .errConstruct => "E:construct"
  | .invalid => "INVALID"

structure Setup where
  reg : List Cls
  tbl : List (Nat × SynthSpec)

def parseSetup? (reg syn : String) : Option Setup := do
  let reg ← (stripPrefix? "reg=" reg) >>= parseClsList?
  let tbl ← (stripPrefix? "syn=" syn) >>= parseSyn?
  if reg.all (declared tbl) then some { reg := reg, tbl := tbl } else none

def parseF? (s : String) : Option Features := (stripPrefix? "F=" s) >>= parseFeatures?

def parseHist? (reg syn ds ops : String) : Option (Setup × List Features × List Op) := do
  let su ← parseSetup? reg syn
  let ds ← stripPrefix? "D=" ds
  let dss ← (if ds == "-" then some [] else allSome ((ds.splitOn "#").map parseFeatures?))
  let ops ← stripPrefix? "ops=" ops
  let opl ← (if ops == "-" then some [] else allSome ((ops.splitOn ",").map parseOp?))
  if opl.all (fun o => (opClasses o).all (declared su.tbl)) then some (su, dss, opl) else none

def parseEntryPoint? (s : String) : Option EntryPoint :=
  if s == "!load" then some .loadError
  else if s == "!notconv" then some .notConvention
  else (parseCls? s).map EntryPoint.cls

def parseEps? (s : String) : Option (List EntryPoint) := do
  let s ← stripPrefix? "eps=" s
  if s == "-" then some [] else allSome ((s.splitOn ",").map parseEntryPoint?)

def showClsList (l : List Cls) : String := if l.isEmpty then "-" else joinWith "," (l.map showCls)

def showMatches (l : List (Cls × Nat)) : String :=
  if l.isEmpty then "-" else joinWith "," (l.map fun (c, s) => s!"{showCls c}:{s}")

/-! ### evaluated conclusions of the property theorems -/

/-- conclusions of `guess_spec`, `manual_wins_ties`, `shoc_over_cf`, `ugrid_needs_marker_and_mesh2d`
on one concrete input, recomputed without `mergeSort` -/
def propDetect (env : SynthEnv) (reg : List Cls) (f : Features) : String :=
  let cs := conventions reg entryPointClasses
  let chk := fun c => clsCheck env c f
  let anyErr := cs.any fun c => match chk c with | .error _ => true | .ok _ => false
  match detect env reg f with
  | .error _ => if anyErr then "OK" else "FAIL:spurious-error"
  | .ok r =>
    if anyErr then "FAIL:error-swallowed" else
    let ms : List (Cls × Nat) := cs.filterMap fun c =>
      match chk c with | .ok (some s) => some (c, s) | _ => none
    if r ≠ (firstMax ms).map (·.1) then "FAIL:guess_spec" else
    match r with
    | none => if ms.isEmpty then "OK" else "FAIL:none-but-matches"
    | some c =>
      let s := ((ms.lookup c).getD 0)
      -- a registered class of the same specificity would have won
      if !(reg.contains c) && ms.any (fun m => reg.contains m.1 && m.2 ≥ s) then "FAIL:manual_wins_ties"
      else if (c == .builtin .CFGrid1D || c == .builtin .CFGrid2D)
          && ((shocSimpleCheck f).isSome || (shocStandardCheck f).isSome) then "FAIL:shoc_over_cf"
      else if c == .builtin .UGrid && !(containsSub "UGRID" f.conventions
          && f.vars.any (fun v => v.isData && eqStr v.cfRole "mesh_topology"
                                  && v.topologyDimension == some (.int 2))) then "FAIL:ugrid_needs_marker_and_mesh2d"
      else "OK"

/-- conclusions of `bound_stable`, `rebind_refused`, `copies_independent` along one history -/
def propHist (env : SynthEnv) (w0 : World) (ops : List Op) : String :=
  let rec go (w : World) (i : Nat) : List Op → String
    | [] => "OK"
    | op :: rest =>
      let (w', out) := step (detect env) w op
      let dsIds := List.range w'.nDs
      -- bound_stable: what was bound stays bound to the same instance; access returns it
      let stable := (List.range w.nDs).all fun d =>
        match w.bound d with
        | some k => w'.bound d == some k
        | none => true
      let accessOk := match op with
        | .access d => (match w.bound d with | some k => out == .obj k | none => true)
        | _ => true
      -- rebind_refused
      let refused := match op with
        | .bind k => (match w.obj k with
            | some o => (match w.bound o.ds with
                | some _ => out == .errAlreadyBound && dsIds.all (fun d => w'.bound d == w.bound d)
                | none => true)
            | none => true)
        | .cbind d c => if constructible c && (w.bound d).isSome
            then out == .errAlreadyBound && dsIds.all (fun d => w'.bound d == w.bound d) else true
        | _ => true
      -- copies_independent: nothing but the target changes; a copy starts unbound with equal content;
      -- no instance is shared between two datasets
      let tgt := op.target w
      let frame := (List.range w.nDs).all fun d =>
        (tgt == some d) || (w'.bound d == w.bound d && w'.feat d == w.feat d)
      let copyFresh := match op, out with
        | .copy d, .ds d' => d' == w.nDs && w'.bound d' == none && w'.feat d' == w.feat d
                              && w'.bound d == w.bound d
        | .copy _, o => o == .invalid
        | _, _ => true
      let noShare := dsIds.all fun d => dsIds.all fun d' =>
        d == d' || w'.bound d == none || w'.bound d != w'.bound d'
      if !stable then s!"FAIL:bound_stable@{i}"
      else if !accessOk then s!"FAIL:access@{i}"
      else if !refused then s!"FAIL:rebind_refused@{i}"
      else if !frame then s!"FAIL:frame@{i}"
      else if !copyFresh then s!"FAIL:copy@{i}"
      else if !noShare then s!"FAIL:shared@{i}"
      else go w' (i + 1) rest
  go w0 0 ops

def step (line : String) : String :=
  match words line with
  | ["check", cls, syn, f] =>
    match parseCls? cls, (stripPrefix? "syn=" syn) >>= parseSyn?, parseF? f with
    | some c, some tbl, some f =>
      if !declared tbl c then "BAD" else
      match clsCheck (envOf tbl) c f with
      | .error _ => "ERR"
      | .ok none => "-"
      | .ok (some s) => toString s
    | _, _, _ => "BAD"
  | ["convs", reg] =>
    match (stripPrefix? "reg=" reg) >>= parseClsList? with
    | some reg => joinWith "," ((conventions reg entryPointClasses).map showCls)
    | none => "BAD"
  | ["match", reg, syn, f] =>
    match parseSetup? reg syn, parseF? f with
    | some su, some f =>
      match matchDataset (envOf su.tbl) su.reg f with
      | .error _ => "ERR"
      | .ok l => showMatches l
    | _, _ => "BAD"
  | ["detect", reg, syn, f] =>
    match parseSetup? reg syn, parseF? f with
    | some su, some f =>
      match detect (envOf su.tbl) su.reg f with
      | .error _ => "ERR"
      | .ok none => "NONE"
      | .ok (some c) => showCls c
    | _, _ => "BAD"
  | ["hist", reg, syn, ds, ops] =>
    match parseHist? reg syn ds ops with
    | some (su, dss, opl) =>
      let outs := outputs (detect (envOf su.tbl)) (World.init dss su.reg) opl
      if outs.isEmpty then "-" else joinWith "," (outs.map showOut)
    | none => "BAD"
  | ["scan", eps] =>
    match parseEps? eps with
    | some eps => showClsList (scanEntryPoints eps)
    | none => "BAD"
  | ["matchep", reg, eps, syn, f] =>
    match parseSetup? reg syn, parseEps? eps, parseF? f with
    | some su, some eps, some f =>
      if !(eps.all fun e => (e.cls?.map (declared su.tbl)).getD true) then "BAD" else
      match matchConventions (fun c => clsCheck (envOf su.tbl) c f) (conventions su.reg (scanEntryPoints eps)) with
      | .error _ => "ERR"
      | .ok l => showMatches l
    | _, _, _ => "BAD"
  | ["detectep", reg, eps, syn, f] =>
    match parseSetup? reg syn, parseEps? eps, parseF? f with
    | some su, some eps, some f =>
      if !(eps.all fun e => (e.cls?.map (declared su.tbl)).getD true) then "BAD" else
      match guess (fun c => clsCheck (envOf su.tbl) c f) (conventions su.reg (scanEntryPoints eps)) with
      | .error _ => "ERR"
      | .ok none => "NONE"
      | .ok (some c) => showCls c
    | _, _, _ => "BAD"
  | ["propcheck", "detect", reg, syn, f] =>
    match parseSetup? reg syn, parseF? f with
    | some su, some f => propDetect (envOf su.tbl) su.reg f
    | _, _ => "BAD"
  | ["propcheck", "hist", reg, syn, ds, ops] =>
    match parseHist? reg syn ds ops with
    | some (su, dss, opl) => propHist (envOf su.tbl) (World.init dss su.reg) opl
    | none => "BAD"
  | _ => "BAD"

def main : IO Unit := loop step
