import EmsModel.Core.ClipProto
import EmsModel.Core.ClipSurvivors
/-! Line-protocol driver for C09 / C08 (applying clip masks); see `Core/ClipProto.lean`, and
`Core/ClipSurvivors.lean` for the `survivors` op (which nodes / edges a clipped mesh keeps). -/
open Ems Ems.Proto
def step (line : String) : String :=
  ((Ems.ClipProto.step? (words line)).orElse fun _ => Ems.SurvivorsProto.step? (words line)).getD "BAD"
def main : IO Unit := loop step
