import EmsModel.Core.TriangulateGeom
import EmsModel.Core.Proto
import EmsModel.Core.TriFanSrc
import EmsModel.Gen.TriFanSrc
import EmsModel.Core.TriDatasetSrc
import EmsModel.Gen.TriDatasetSrc
/-! Line-protocol driver for C14 (triangulation).

ring  : `x,y;x,y;…` (exact rationals `p/q`), closing vertex not repeated
cells : rings or `-` (no geometry) joined by `|`

`tri <cells>`        → `OK n=<#triangles> V=<sorted vertex table> T=<k:tri+tri…|k:…>` | `ERR:noear` | `ERR:short`
                       (triangle = its three vertices sorted, `x,y;x,y;x,y`; triangles of a cell sorted;
                       cells in index order; oracles = `isStrictConvex`, `isEarExact` of Core/TriangulateGeom)
`ears <ring>`        → bit string of `isEarExact ring i`, i = 0 … n-3
`convex <ring>`      → `1` | `0`   (`isConvexExact`)
`fansorted <ring>`   → `1` | `0`   (hypothesis of `fan_oriented` / `fan_no_overlap`, either orientation)
`convexcell <ring>`  → `1` | `0`   (hypothesis of `fan_inside`, either orientation)
`strictconvex <ring>`→ `1` | `0`   (hypotheses of `fan_partition`: no repeated vertex, ≥ 3 vertices, StrictConvex, either orientation)
`prop <ring> <tris>` → `OK` | `FAIL:<clause>`: conclusions of the C14 theorems evaluated on a
                       triangle list (tris = `x,y;x,y;x,y` joined by `+`): count = n-2,
                       Σ signed area = shoelace area, Σ |area| = |shoelace area|
`fanpipe <n> <L> <coords>` → `d0,d1,d2,d3:v,v,…` (shape and C-order values) | `ERR`: the term GENERATED FROM THE SOURCE of
                       `_triangulate_polygons_by_length` (`Gen.triFanTriangles`) evaluated on `n` closed rings of `L`
                       coordinates each (coords = the `n * L` rows `x,y` joined by `;`, closing coordinates included)
`tdfaces <cells>`    → `total=<rows pre-allocated> blocks=<face>:<#triangles>,…` (in the order written) | `ERR`: the bookkeeping
                       GENERATED FROM THE SOURCE of `triangulate_dataset` (`Gen.triDatasetLoops`, `Gen.triDatasetTotal`) run on
                       the cells, hull test = `isStrictConvex`, ear test = `isEarExact`
-/
-- `Pt` is the vertex type of Core/Triangulate (`Ems.Tri.Pt`); Core/NpExpr (imported for `fanpipe`) also has an `Ems.Pt`
open Ems hiding Pt
open Ems.Proto Ems.Tri

def parsePt? (s : String) : Option Pt :=
  match s.splitOn "," with
  | [a, b] => do
      let x ← parseRat? a
      let y ← parseRat? b
      some ⟨x, y⟩
  | _ => none

def parseRing? (s : String) : Option (List Pt) :=
  if s == "" then none else allSome ((s.splitOn ";").map parsePt?)

def parseCells? (s : String) : Option (List (Option (List Pt))) :=
  allSome ((s.splitOn "|").map fun c =>
    if c == "-" then some none else (parseRing? c).map some)

def parseTri? (s : String) : Option Tri :=
  match parseRing? s with
  | some [a, b, c] => some ⟨a, b, c⟩
  | _ => none

def parseTris? (s : String) : Option (List Tri) :=
  if s == "-" then some [] else allSome ((s.splitOn "+").map parseTri?)

def showPt (p : Pt) : String := s!"{showRat p.x},{showRat p.y}"

def ptLe (a b : Pt) : Bool := a.x < b.x || (a.x == b.x && a.y ≤ b.y)

def keyLe : List Pt → List Pt → Bool
  | [], _ => true
  | _ :: _, [] => false
  | a :: as, b :: bs => if a == b then keyLe as bs else ptLe a b

def canonTri (t : Tri) : List Pt := [t.a, t.b, t.c].mergeSort ptLe

def showCanonTri (k : List Pt) : String := joinWith ";" (k.map showPt)

def showCellTris (ts : List Tri) : String :=
  joinWith "+" (((ts.map canonTri).mergeSort keyLe).map showCanonTri)

def bit (b : Bool) : String := if b then "1" else "0"

def step (line : String) : String :=
  match words line with
  | ["tri", cs] =>
    match parseCells? cs with
    | none => "BAD"
    | some cells =>
      match triangulateDataset isStrictConvex isEarExact cells with
      | .error .noEar => "ERR:noear"
      | .error .fuel => "ERR:fuel"
      | .error .tooShort => "ERR:short"
      | .ok out =>
        let decoded := (out.tris.zip out.index).all fun (kt, ix) =>
          match ix with
          | (some i, some j, some l) =>
            out.vertices[i]? == some kt.2.a && out.vertices[j]? == some kt.2.b && out.vertices[l]? == some kt.2.c
          | _ => false
        if !decoded || out.index.length != out.tris.length || out.tris.length != totalTriangles cells then "ERR:index" else
        let v := joinWith ";" ((out.vertices.mergeSort ptLe).map showPt)
        let perCell := (List.range cells.length).filterMap fun k =>
          let ts := (out.tris.filter (·.1 == k)).map (·.2)
          if ts.isEmpty then none else some s!"{k}:{showCellTris ts}"
        s!"OK n={out.tris.length} V={v} T={joinWith "|" perCell}"
  | ["ears", r] =>
    match parseRing? r with
    | none => "BAD"
    | some p => showBits ((List.range (p.length - 2)).map (isEarExact p))
  | ["convex", r] =>
    match parseRing? r with
    | none => "BAD"
    | some p => bit (isConvexExact p)
  | ["fansorted", r] =>
    match parseRing? r with
    | none => "BAD"
    | some p => bit (decide (FanSorted 1 p) || decide (FanSorted (-1) p))
  | ["strictconvex", r] =>
    match parseRing? r with
    | none => "BAD"
    | some p => bit (isStrictConvex p)
  | ["convexcell", r] =>
    match parseRing? r with
    | none => "BAD"
    | some p =>
      let ok (s : Rat) : Bool := p.all fun v => (edges p).all fun e => decide (0 ≤ s * cross e.1 e.2 v)
      bit (ok 1 || ok (-1))
  | ["prop", r, ts] =>
    match parseRing? r, parseTris? ts with
    | some p, some tris =>
      if tris.length + 2 != p.length then "FAIL:count"
      else if sumArea2 tris != shoelace2 p then "FAIL:area"
      else if sumAbsArea2 tris != absR (shoelace2 p) then "FAIL:absarea"
      else "OK"
    | _, _ => "BAD"
  | ["fanpipe", ns, ls, cs] =>
    match parseNat? ns, parseNat? ls, parseRing? cs with
    | some n, some L, some pts =>
      if pts.length != n * L then "BAD" else
      match eval (triFanEnv (pts.map fun q => (q.x, q.y)) n L) Gen.triFanTriangles with
      | some a =>
        let vals := a.data.map fun v => match v with
          | some r => showRat r
          | none => "-"
        s!"{joinWith "," (a.shape.map toString)}:{joinWith "," vals}"
      | none => "ERR"
    | _, _, _ => "BAD"
  | ["tdfaces", cs] =>
    match parseCells? cs with
    | none => "BAD"
    | some cells =>
      -- number of hull coordinates: that of the cell where the exact test says strictly convex, fewer otherwise
      let hull : List Pt → Nat := fun p => if isStrictConvex p then p.length + 1 else p.length
      let env : TdEnv := ⟨cells, hull, isEarExact, []⟩
      match tdRun env Gen.triDatasetLoops, tdEval env Gen.triDatasetTotal with
      | some blocks, some (.nat total) =>
        let parts := blocks.map fun b => match b.2 with
          | .ok ts => s!"{b.1}:{ts.length}"
          | .error _ => s!"{b.1}:ERR"
        s!"total={total} blocks={joinWith "," parts}"
      | _, _ => "ERR"
  | _ => "BAD"

def main : IO Unit := loop step
