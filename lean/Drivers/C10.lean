import EmsModel.Core.MeshDataset
import EmsModel.Core.Proto
/-! Line-protocol driver for C10 (UGRID mesh topology).

`startindex <attr>`                              → `0` | `1` | `0!` | `1!` (warned) | `ERR:convention`
`encode base=<b> sp=<i|s|o> fill=<nan|attr:F|none> tr=<0|1> w=<n> faces=<rows>`
                                                 → the stored variable: `dims=f,m|shape=3x4|F:<rows>|<start>`
`roundtrip <same arguments>`                     → `_to_index_array(encode …)`: `<rows>` | `ERR:…`
`decode dims=<a,b> shape=<n>x<m> <payload> <start> primary=<dim>` → `<rows>` | `ERR:…`
`topo A=<attrs> S=<sizes> V=<var> … N=<numbering> [Q=<c|t|ct>]` (Q: reproduce a recorded deviation)
                                                 → `fn=…|en=…|fe=…|ef=…|ff=…|hv=…|dims=…|poly=…|fc=…`
`edgenode <same arguments as topo>`              → `fn=…|en=…|fe=…` only (datasets whose supplied tables do not describe the
      mesh: what the derivations further down do with such a table is not all modelled)
`propcheck w=<n> faces=<rows>`                   → `ok` | `FAIL:<conclusion>`
`followcheck w=<n> faces=<rows> fe=<table> ef=<table>` (a face-edge and an edge-face table of the mesh in some
      numbering of its edges)                    → `ok` | `FAIL:<conclusion>`: the conclusions of
      `edge_node_follows_face_edge`, `edge_node_follows_edge_face`, `derived_numbering_consistent` on the model

rows: `;` between rows, `,` between cells, `-` a masked / NaN cell, `e` an empty table,
empty string between `;` an empty row.
attr: `-` absent, `i<int>`, `s<string>`, `o` other.
payload: `F:<rows>` float storage, `I:<rows>:<fill|->` integer storage, `C:<rationals>` 1-D values, `X` none.
var: `name~c|d~dim,dim~payload~attr~encfill`.
-/
open Ems Ems.Proto Ems.Mesh

def strDrop (s : String) (n : Nat) : String := String.ofList (s.toList.drop n)

def parseCell? (s : String) : Option (Option Int) :=
  if s == "-" then some none else (parseInt? s).map some

def parseRowsWith? {α} (cell : String → Option α) (s : String) : Option (List (List α)) :=
  if s == "e" then some []
  else allSome ((s.splitOn ";").map fun row =>
    if row == "" then some [] else allSome ((row.splitOn ",").map cell))

def parseTable? : String → Option Table := parseRowsWith? parseCell?
def parseIntRows? : String → Option (List (List Int)) := parseRowsWith? parseInt?
def parseNatRows? : String → Option (List (List Nat)) := parseRowsWith? parseNat?

def showCell : Option Int → String
  | none => "-"
  | some v => toString v

def showRows {α} (cell : α → String) (t : List (List α)) : String :=
  if t.isEmpty then "e" else joinWith ";" (t.map fun row => joinWith "," (row.map cell))

def showTable : Table → String := showRows showCell

def showErr : Err → String
  | .key => "ERR:key"
  | .noEdgeDim => "ERR:noedge"
  | .convention => "ERR:convention"
  | .index => "ERR:index"
  | .value => "ERR:value"
  | .unmodelled => "UNMODELLED"

def showExcept {α} (f : α → String) : Except Err α → String
  | .ok v => f v
  | .error e => showErr e

def parseAttr? (s : String) : Option AttrVal :=
  if s == "-" then some .absent
  else if s == "o" then some .other
  else if s.startsWith "i" then (parseInt? (strDrop s 1)).map .int
  else if s.startsWith "s" then some (.str (strDrop s 1))
  else none

def showAttr : AttrVal → String
  | .absent => "-"
  | .other => "o"
  | .int n => s!"i{n}"
  | .str s => s!"s{s}"

def parsePayload? (s : String) : Option Payload :=
  match s.splitOn ":" with
  | ["F", rows] => (parseTable? rows).map .float
  | ["I", rows, fill] => do
      let r ← parseIntRows? rows
      let f ← if fill == "-" then some none else (parseInt? fill).map some
      pure (.int r f)
  | _ => none

def showPayload : Payload → String
  | .float rows => "F:" ++ showTable rows
  | .int rows fill => "I:" ++ showRows toString rows ++ ":" ++ (match fill with | none => "-" | some f => toString f)

def parseShape? (s : String) : Option (Nat × Nat) :=
  match s.splitOn "x" with
  | [a, b] => do pure (← parseNat? a, ← parseNat? b)
  | _ => none

def parseDims2? (s : String) : Option (String × String) :=
  match s.splitOn "," with
  | [a, b] => some (a, b)
  | _ => none

/-- `key=value` arguments of a line -/
def kv (ws : List String) : List (String × String) :=
  ws.filterMap fun w =>
    match w.splitOn "=" with
    | k :: rest@(_ :: _) => some (k, joinWith "=" rest)
    | _ => none

def parseEnc? (args : List (String × String)) : Option (Enc × Nat × List (List Nat)) := do
  let base ← (args.lookup "base").bind parseInt?
  let sp ← match args.lookup "sp" with
    | some "i" => some Spelling.int | some "s" => some Spelling.str | some "o" => some Spelling.omitted | _ => none
  let fill ← match (args.lookup "fill").map (·.splitOn ":") with
    | some ["nan"] => some FillRep.nan
    | some ["none"] => some FillRep.none
    | some ["attr", f] => (parseInt? f).map FillRep.attr
    | _ => none
  let tr ← match args.lookup "tr" with | some "0" => some false | some "1" => some true | _ => none
  let w ← (args.lookup "w").bind parseNat?
  let faces ← (args.lookup "faces").bind parseNatRows?
  pure ({ base := base, spelling := sp, fill := fill, transposed := tr }, w, faces)

def showStored (st : Stored) : String :=
  s!"dims={st.dims.1},{st.dims.2}|shape={st.shape.1}x{st.shape.2}|{showPayload st.payload}|{showAttr st.startIndex}"

def parsePair? (s : String) : Option Pair :=
  match s.splitOn "." with
  | [a, b] => do pure (← parseInt? a, ← parseInt? b)
  | _ => none

def parseVar? (s : String) : Option Var :=
  match s.splitOn "~" with
  | [name, cd, dims, payload, attr, encfill] => do
    let isCoord ← if cd == "c" then some true else if cd == "d" then some false else none
    let dimList := if dims == "" then [] else dims.splitOn ","
    let start ← parseAttr? attr
    let ef ← if encfill == "-" then some none else (parseInt? encfill).map some
    if payload == "X" then
      pure { name := name, isCoord := isCoord, dims := dimList, conn := none, encFill := ef, vals := [] }
    else if payload.startsWith "C:" then
      let body := strDrop payload 2
      let vals ← if body == "" then some [] else allSome ((body.splitOn ",").map parseRat?)
      pure { name := name, isCoord := isCoord, dims := dimList, conn := none, encFill := ef, vals := vals }
    else
      let p ← parsePayload? payload
      let (d1, d2) ← match dimList with | [a, b] => some (a, b) | _ => none
      -- the shape is that of the payload: rows × width of the first row (0 if there is none)
      let (n, m) := match p with
        | .float rows => (rows.length, (rows.head?.map List.length).getD 0)
        | .int rows _ => (rows.length, (rows.head?.map List.length).getD 0)
      pure { name := name, isCoord := isCoord, dims := dimList,
             conn := some { dims := (d1, d2), shape := (n, m), payload := p, startIndex := start },
             encFill := ef, vals := [] }
  | _ => none

def parseDS? (ws : List String) : Option (DS × Option (List Pair) × Quirks) := do
  let args := kv ws
  let a ← args.lookup "A"
  let attrs ← if a == "-" then some [] else allSome ((a.splitOn ";").map fun kvs =>
    match kvs.splitOn ":" with
    | [k, v] => some (k, v.replace "+" " ")
    | _ => none)
  let s ← args.lookup "S"
  let sizes ← if s == "-" then some [] else allSome ((s.splitOn ",").map fun kvs =>
    match kvs.splitOn ":" with
    | [k, v] => (parseNat? v).map (fun n => (k, n))
    | _ => none)
  let vars0 ← allSome ((args.filter (·.1 == "V")).map fun (_, v) => parseVar? v)
  -- the shape of a connectivity variable is given by the sizes of its dimensions
  let vars ← allSome (vars0.map fun v =>
    match v.conn with
    | none => some v
    | some st => do
      let n ← sizes.lookup st.dims.1
      let m ← sizes.lookup st.dims.2
      pure { v with conn := some { st with shape := (n, m) } })
  let n ← args.lookup "N"
  let numbering ← if n == "-" then some none
    else if n == "e" then some (some [])
    else (allSome ((n.splitOn ",").map parsePair?)).map some
  let q ← match args.lookup "Q" with
    | none => some ({} : Quirks)
    | some "-" => some {}
    | some "c" => some { coordsInDataVars := true }
    | some "t" => some { twoDimGuess := true }
    | some "ct" => some { coordsInDataVars := true, twoDimGuess := true }
    | _ => none
  pure ({ attrs := attrs, vars := vars, sizes := sizes }, numbering, q)

def showRing (r : List (Rat × Rat)) : String :=
  joinWith ";" (r.map fun (x, y) => s!"{showRat x},{showRat y}")

def topoLine (ds : DS) (numbering : Option (List Pair)) (q : Quirks) : String :=
  let dims := joinWith "," [showExcept id ds.faceDim, showExcept id (ds.nodeDim q),
                            showExcept id ds.edgeDim, showExcept id ds.maxNodeDim, ds.twoDim q]
  let poly := showExcept (fun rings => if rings.isEmpty then "e" else joinWith "/" (rings.map showRing)) (ds.polygonRings q)
  let fc := match ds.storedFaceCentres q with
    | none => "-"
    | some cs => showRing cs
  let tabs := match ds.topoIn numbering q with
    | .error e => s!"fn={showErr e}|en={showErr e}|fe={showErr e}|ef={showErr e}|ff={showErr e}"
    | .ok t =>
      s!"fn={showExcept showTable t.faceNode}|en={showExcept showTable t.edgeNodeArrayN}|fe={showExcept showTable t.faceEdgeArrayN}|ef={showExcept showTable t.edgeFaceArrayN}|ff={showExcept showTable t.faceFaceArrayN}"
  let hv := String.join ((ds.hasValid numbering q).map fun
    | .ok true => "1"
    | .ok false => "0"
    | .error _ => "E")
  s!"{tabs}|hv={hv}|dims={dims}|poly={poly}|fc={fc}"

/-! decidable forms of the conclusions of the property theorems, evaluated on the model -/

def cellAt (t : Table) (r c : Nat) : Option (Option Int) := (t[r]?).bind (·[c]?)

def propcheck (w : Nat) (facesN : List (List Nat)) : String :=
  let faces : List (List Int) := facesN.map (·.map Int.ofNat)
  let en := makeEdgeNode faces
  let pairs := (allPairs faces).map normPair
  -- edges_spec
  if !(decide en.Nodup && en.all (fun e => pairs.contains e) && pairs.all (fun p => en.contains p)
        && en.all (fun e => decide (e.1 ≤ e.2))) then "FAIL:edges_spec" else
  match makeFaceEdge w en faces with
  | .error e => if faces.all (fun f => decide (f.length ≤ w)) then s!"FAIL:face_edge:{showErr e}" else "ok"
  | .ok fe =>
    -- face_edge_spec
    let feOk := (faces.zipIdx).all fun (f, i) =>
      ((facePairs f).zipIdx).all (fun (p, c) =>
        match cellAt fe i c with
        | some (some k) => decide (0 ≤ k) && (en[k.toNat]?.map normPair == some (normPair p))
        | _ => false)
      && (List.range w).all (fun c => decide (c < f.length) || cellAt fe i c == some none)
    if !feOk then "FAIL:face_edge_spec" else
    let manifold := en.all fun e => decide (pairs.count e ≤ 2)
    match makeEdgeFace en.length (fe.map compress) with
    | .error e => if manifold then s!"FAIL:edge_face:{showErr e}" else "ok"
    | .ok ef =>
      if !manifold then "FAIL:edge_face_accepts_nonmanifold" else
      -- edge_face_spec
      let efOk := (List.range en.length).all fun k =>
        (List.range faces.length).all fun f =>
          let listed := ((ef[k]?).getD []).contains (some (f : Int))
          let contains := ((faces[f]?).getD []) |> facePairs |>.any (fun p => some (normPair p) == en[k]?)
          listed == contains
      if !efOk then "FAIL:edge_face_spec" else
      match makeFaceFace faces.length w ef with
      | .error .unmodelled => "ok"
      | .error e => s!"FAIL:face_face:{showErr e}"
      | .ok ff =>
        let ffOk := (List.range faces.length).all fun f =>
          (List.range faces.length).all fun g =>
            let fg := ((ff[f]?).getD []).contains (some (g : Int))
            let gf := ((ff[g]?).getD []).contains (some (f : Int))
            let pf := (facePairs ((faces[f]?).getD [])).map normPair
            let pg := (facePairs ((faces[g]?).getD [])).map normPair
            let shared := f != g && pf.any (pg.contains ·)
            fg == gf && fg == shared
        if ffOk then "ok" else "FAIL:face_face_spec"

/-- the conclusions of the theorems about a derived edge table that follows a supplied one -/
def followcheck (w : Nat) (facesN : List (List Nat)) (fe ef : Table) : String :=
  let faces : List (List Int) := facesN.map (·.map Int.ofNat)
  let own := makeEdgeNode faces
  let sidesOk (en : List Pair) : Bool := (faces.zipIdx).all fun (f, i) =>
    ((facePairs f).zipIdx).all fun (p, c) =>
      match cellOf fe i c with
      | some (some k) => decide (0 ≤ k) && (en[k.toNat]? == some (normPair p))
      | _ => false
  -- edge_node_follows_face_edge
  if !faceEdgeDescribes faces fe then "FAIL:face_edge-does-not-describe-the-faces" else
  match makeEdgeNodeFollowingFaceEdge faces fe with
  | .error e => s!"FAIL:follow_face_edge:{showErr e}"
  | .ok tab =>
    match pairsOfTable tab with
    | none => "FAIL:follow_face_edge:masked-row"
    | some en =>
      if !isRenumbering en own then "FAIL:follow_face_edge:not-a-renumbering" else
      if !sidesOk en then "FAIL:follow_face_edge:row-is-not-the-side" else
      -- derived_numbering_consistent: the supplied table is the one derived from the derived edges
      if faceEdgeShaped w faces fe && !(makeFaceEdge w en faces == Except.ok fe) then "FAIL:numbering_consistent:face_edge" else
      -- edge_node_follows_edge_face
      if !edgeFaceDescribes faces ef then "FAIL:edge_face-does-not-describe-the-sides" else
      match makeEdgeNodeFollowingEdgeFace faces ef with
      | none => "FAIL:follow_edge_face:fell-back"
      | some tab2 =>
        match pairsOfTable tab2 with
        | none => "FAIL:follow_edge_face:masked-row"
        | some en2 =>
          if !isRenumbering en2 own then "FAIL:follow_edge_face:not-a-renumbering" else
          let rowsOk := (List.range en2.length).all fun k =>
            (List.range faces.length).all fun i =>
              let listed := (rowOf ef k).contains (i : Int)
              let has := (facePairs ((faces[i]?).getD [])).any fun p => some (normPair p) == en2[k]?.map normPair
              listed == has
          if !rowsOk then "FAIL:follow_edge_face:row-is-not-the-faces-of-the-edge" else
          -- the two supplied tables describe one numbering up to interchangeable sides: same face sets per row
          if (List.range en.length).all (fun k => sameFaces (sideFaces faces (en[k]?.getD (0, 0))) (sideFaces faces (en2[k]?.getD (0, 0))))
          then "ok" else "FAIL:follow:the-two-numberings-differ-beyond-interchangeable-sides"

def step (line : String) : String :=
  match words line with
  | ["startindex", a] =>
    match parseAttr? a with
    | none => "BAD"
    | some av =>
      match getStartIndex av with
      | .ok (n, warned) => toString n ++ (if warned then "!" else "")
      | .error e => showErr e
  | "encode" :: rest =>
    match parseEnc? (kv rest) with
    | none => "BAD"
    | some (e, w, faces) => showStored (encode e "f" "m" w faces)
  | "roundtrip" :: rest =>
    match parseEnc? (kv rest) with
    | none => "BAD"
    | some (e, w, faces) => showExcept showTable (toIndexArray (encode e "f" "m" w faces) "f")
  | "decode" :: rest =>
    let args := kv rest
    match (args.lookup "dims").bind parseDims2?, (args.lookup "shape").bind parseShape?,
          (args.lookup "payload").bind parsePayload?, (args.lookup "start").bind parseAttr?,
          args.lookup "primary" with
    | some dims, some shape, some p, some st, some primary =>
      showExcept showTable (toIndexArray { dims := dims, shape := shape, payload := p, startIndex := st } primary)
    | _, _, _, _, _ => "BAD"
  | "topo" :: rest =>
    match parseDS? rest with
    | none => "BAD"
    | some (ds, numbering, q) => topoLine ds numbering q
  | "followcheck" :: rest =>
    let args := kv rest
    match (args.lookup "w").bind parseNat?, (args.lookup "faces").bind parseNatRows?,
          (args.lookup "fe").bind parseTable?, (args.lookup "ef").bind parseTable? with
    | some w, some faces, some fe, some ef => followcheck w faces fe ef
    | _, _, _, _ => "BAD"
  | "edgenode" :: rest =>
    match parseDS? rest with
    | none => "BAD"
    | some (ds, numbering, q) =>
      match ds.topoIn numbering q with
      | .error e => s!"fn={showErr e}|en={showErr e}|fe={showErr e}"
      | .ok t => s!"fn={showExcept showTable t.faceNode}|en={showExcept showTable t.edgeNodeArrayN}|fe={showExcept showTable t.faceEdgeArrayN}"
  | "propcheck" :: rest =>
    let args := kv rest
    match (args.lookup "w").bind parseNat?, (args.lookup "faces").bind parseNatRows? with
    | some w, some faces => propcheck w faces
    | _, _ => "BAD"
  | _ => "BAD"

def main : IO Unit := loop step
