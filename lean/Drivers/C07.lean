import EmsModel.Core.Mask
import EmsModel.Core.MeshMask
import EmsModel.Core.Proto
import EmsModel.Core.NpMask
import EmsModel.Gen.Pipelines
import EmsModel.Core.UgridSrc
import EmsModel.Gen.UgridSrc
/-! Line-protocol driver for C07.

arrays: `<ny>x<nx> <bits>` (C order); printed as `<ny>x<nx>:<bits>` (`-` for no bits)
`blur <shape> <bits> <size>`            → array | `ERR` (negative size: numpy.pad raises)
`blurall <shape> <bits> <maxsize>`      → arrays for size 0..maxsize joined by `|`
`smear <shape> <bits> <py><px>`         → array
`smearall <shape> <bits>`               → arrays for 00,01,10,11 joined by `|`
`cmask <shape> <bits>`                  → `face=…;back=…;left=…;node=…`
`pipe blur <shape> <bits> <size>` / `pipe blurall <shape> <bits> <max>` → as `blur` / `blurall`, from the term GENERATED
                                          FROM THE SOURCE of `blur_mask` (`Gen.blurMask`); a negative size is `ERR`
`pipe cmask <shape> <bits>`             → the same line, back / left / node coming from the terms GENERATED FROM THE SOURCE
                                          of `c_mask_from_centres` + `smear_mask` (`Gen.cMaskBack/Left/Node`), or `ERR`
`gridmask <shape> <truth> <hits> <buffer>`     → array   (truth = GEOS table per cell,
`arakawamask <shape> <truth> <hits> <buffer>`  → cmask    hits = the true cells in any order;
                                                          `BAD` if hits is not exactly that set)
mesh: `n=<nNodes>;f=<a.b.c/d.e.f>;e=-` or `e=<nEdges>:<a.b.c/…>` (face_edge rows)
`bufferfaces <mesh> <faces>`            → face list
`maskfrom <mesh> <faces>`               → `face=0,_,1;edge=-;node=…`
`ugridmask <mesh> <truth> <hits> <buffer>`          → mesh mask (model the property demands)
`ugridmask-current <mesh> <truth> <hits> <buffer>`  → mesh mask numbered in hit order (pinned tree, F1)
`kept <mesh> <truth> <hits> <buffer>`   → kept face list
`propcheck-blur <shape> <bits> <size>`  → `OK`/`FAIL`: conclusion of blur_spec by brute force
source-level mesh (B5, `Gen/UgridSrc.lean`): as `mesh`, rows of equal width with `_` for a masked entry (`f=0.1.2._/1.3.2._`)
`bufferfaces-src <srcmesh> <faces>`     → face list | `ERR`, from the term GENERATED FROM THE SOURCE of `buffer_faces`
`maskfrom-src <srcmesh> <faces>`        → mesh mask | `ERR`, from the program GENERATED FROM THE SOURCE of `mask_from_face_indexes`
`ugridmask-src <srcmesh> <truth> <hits> <buffer>` → mesh mask | `ERR`, from the program GENERATED FROM THE SOURCE of `UGrid.make_clip_mask`
`propcheck-renumber <mesh> <truth> <hits> <buffer>` / `propcheck-renumber-current …` → `OK`/`FAIL`
`propcheck-loose <mesh> <truth> <hits> <buffer>` → `OK loose-nodes=<k> loose-edges=<j>` / `FAIL …`: the rows of the node / edge table that
                                          no face uses (counted from the mesh) are all masked in the demanded mask, which is numbered in order
-/
open Ems Ems.Clip Ems.Proto

def parseShape? (s : String) : Option (Nat × Nat) :=
  match s.splitOn "x" with
  | [a, b] => do
      let a ← parseNat? a
      let b ← parseNat? b
      some (a, b)
  | _ => none

def parseMask? (shape bits : String) : Option Mask := do
  let (ny, nx) ← parseShape? shape
  let bs ← if bits == "-" then some [] else parseBits? bits
  if bs.length ≠ ny * nx then none else some (Mask.reshape ny nx bs)

def showMask (m : Mask) : String :=
  let f := m.flat
  s!"{m.ny}x{m.nx}:" ++ (if f.isEmpty then "-" else showBits f)

def showCMask (c : CMask) : String :=
  s!"face={showMask c.face};back={showMask c.back};left={showMask c.left};node={showMask c.node}"

def parseRows? (s : String) : Option (List (List Nat)) :=
  if s == "" || s == "-" then some [] else
  allSome ((s.splitOn "/").map fun r => if r == "" then some [] else parseNatList? r ".")

def parseMesh? (s : String) : Option FaceMesh :=
  match s.splitOn ";" with
  | [n, f, e] =>
    match n.splitOn "=", f.splitOn "=", e.splitOn "=" with
    | ["n", n], ["f", f], ["e", e] => do
        let n ← parseNat? n
        let f ← parseRows? f
        if e == "-" then some { nNodes := n, faces := f, nEdges := none, faceEdges := [] }
        else match e.splitOn ":" with
          | [ne, fe] => do
              let ne ← parseNat? ne
              let fe ← parseRows? fe
              if fe.length ≠ f.length then none
              else some { nNodes := n, faces := f, nEdges := some ne, faceEdges := fe }
          | _ => none
    | _, _, _ => none
  | _ => none

def showTable (t : List (Option Nat)) : String :=
  if t.isEmpty then "-" else joinWith "," (t.map fun | none => "_" | some v => toString v)

def showMeshMask (m : MeshMask) : String :=
  let e := match m.newEdge with
    | none => "absent"
    | some t => showTable t
  s!"face={showTable m.newFace};edge={e};node={showTable m.newNode}"

/-- indices of the true bits -/
def trueCells (bs : List Bool) : List Nat :=
  (List.range bs.length).filter fun n => bs.getD n false

/-- the hit list must be exactly the set of true cells of the truth table (any order) -/
def parseHits? (truth hits : String) (size : Nat) : Option (List Nat) := do
  let t ← if truth == "-" then some [] else parseBits? truth
  if t.length ≠ size then none else
  let h ← parseNatList? hits
  if sortU h == trueCells t && h.length == (trueCells t).length then some h else none

/-- brute-force statement of blur_spec's right-hand side -/
def blurSpecRhs (m : Mask) (s j i : Nat) : Bool :=
  decide (j < m.ny) && decide (i < m.nx) &&
  (List.range m.ny).any fun j' => (List.range m.nx).any fun i' =>
    decide (j' ≤ j + s) && decide (j ≤ j' + s) && decide (i' ≤ i + s) && decide (i ≤ i' + s) && m.get j' i'

def propBlur (m : Mask) (s : Nat) : Bool :=
  let b := m.blur s
  b.ny == m.ny && b.nx == m.nx &&
  (List.range (m.ny + 1)).all fun j => (List.range (m.nx + 1)).all fun i =>
    b.get j i == blurSpecRhs m s j i

def propRenumber (k : MeshMask) : Bool :=
  rankOK k.newFace && rankOK k.newNode && (match k.newEdge with | none => true | some t => rankOK t)

def okfail (b : Bool) : String := if b then "OK" else "FAIL"

/-- strengthening round 6 (loose rows): rows of the node / edge table used by no face, and the decidable form of
`C07.loose_node_never_kept` / `loose_edge_never_kept` + contiguous numbering on one mask -/
def propLoose (m : FaceMesh) (k : MeshMask) : String :=
  let usedN := m.faces.flatten
  let usedE := m.faceEdges.flatten
  let looseN := (List.range m.nNodes).filter fun n => !usedN.contains n
  let looseE := match m.nEdges with
    | none => []
    | some ne => (List.range ne).filter fun e => !usedE.contains e
  let masked (t : List (Option Nat)) (e : Nat) : Bool := t[e]? == some none
  let ok := looseN.all (masked k.newNode) &&
    (match k.newEdge with | none => looseE.isEmpty | some t => looseE.all (masked t)) && propRenumber k
  s!"{okfail ok} loose-nodes={looseN.length} loose-edges={looseE.length}"

/-! source-level ops (B5): the terms of `Gen/UgridSrc.lean` evaluated on masked tables -/

def parseMRows? (s : String) : Option UgridSrc.MTable :=
  if s == "" || s == "-" then some [] else
  allSome ((s.splitOn "/").map fun r =>
    if r == "" then some [] else
    allSome ((r.splitOn ".").map fun w => if w == "_" then some none else (parseNat? w).map some))

/-- (face_node table, face_edge table, node count, edge count if there is an edge dimension) -/
def parseSrcMesh? (s : String) : Option (UgridSrc.MTable × UgridSrc.MTable × Nat × Option Nat) :=
  match s.splitOn ";" with
  | [n, f, e] =>
    match n.splitOn "=", f.splitOn "=", e.splitOn "=" with
    | ["n", n], ["f", f], ["e", e] => do
        let n ← parseNat? n
        let f ← parseMRows? f
        if e == "-" then some (f, [], n, none)
        else match e.splitOn ":" with
          | [ne, fe] => do
              let ne ← parseNat? ne
              let fe ← parseMRows? fe
              if fe.length ≠ f.length then none else some (f, fe, n, some ne)
          | _ => none
    | _, _, _ => none
  | _ => none

def showSrcMask (r : Option (List UgridSrc.UOutVar)) : String :=
  match r.bind UgridSrc.toMeshMask with
  | some k => showMeshMask k
  | none => "ERR"

def step (line : String) : String :=
  match words line with
  | ["blur", sh, bits, size] =>
    match parseMask? sh bits, parseInt? size with
    | some m, some s => match m.blur? s with | some r => showMask r | none => "ERR"
    | _, _ => "BAD"
  | ["blurall", sh, bits, mx] =>
    match parseMask? sh bits, parseNat? mx with
    | some m, some mx => joinWith "|" ((List.range (mx + 1)).map fun s =>
        match m.blur? (Int.ofNat s) with | some r => showMask r | none => "ERR")
    | _, _ => "BAD"
  | ["smear", sh, bits, ax] =>
    match parseMask? sh bits, parseBits? ax with
    | some m, some [py, px] => showMask (m.smear py px)
    | _, _ => "BAD"
  | ["smearall", sh, bits] =>
    match parseMask? sh bits with
    | some m => joinWith "|" ([(false, false), (false, true), (true, false), (true, true)].map
        fun (py, px) => showMask (m.smear py px))
    | _ => "BAD"
  | ["cmask", sh, bits] =>
    match parseMask? sh bits with
    | some m => showCMask (cMaskFromCentres m)
    | _ => "BAD"
  | ["pipe", "blur", sh, bits, size] =>
    match parseMask? sh bits, parseInt? size with
    | some m, some s =>
      if s < 0 then "ERR" else
      match eval (blurEnv m s.toNat) Gen.blurMask with | some r => showMaskArr r | none => "ERR"
    | _, _ => "BAD"
  | ["pipe", "blurall", sh, bits, mx] =>
    match parseMask? sh bits, parseNat? mx with
    | some m, some mx => joinWith "|" ((List.range (mx + 1)).map fun s =>
        match eval (blurEnv m s) Gen.blurMask with | some r => showMaskArr r | none => "ERR")
    | _, _ => "BAD"
  | ["pipe", "cmask", sh, bits] =>
    match parseMask? sh bits with
    | some m =>
      let env := cMaskEnv m
      match eval env Gen.cMaskBack, eval env Gen.cMaskLeft, eval env Gen.cMaskNode with
      | some b, some l, some n =>
        s!"face={showMask m};back={showMaskArr b};left={showMaskArr l};node={showMaskArr n}"
      | _, _, _ => "ERR"
    | _ => "BAD"
  | ["gridmask", sh, truth, hits, buffer] =>
    match parseShape? sh, parseInt? buffer with
    | some (ny, nx), some b =>
      match parseHits? truth hits (ny * nx) with
      | some h => showMask (gridClipMask ny nx h b)
      | none => "BAD"
    | _, _ => "BAD"
  | ["arakawamask", sh, truth, hits, buffer] =>
    match parseShape? sh, parseInt? buffer with
    | some (ny, nx), some b =>
      match parseHits? truth hits (ny * nx) with
      | some h => showCMask (arakawaClipMask ny nx h b)
      | none => "BAD"
    | _, _ => "BAD"
  | ["bufferfaces", mesh, fs] =>
    match parseMesh? mesh, parseNatList? fs with
    | some m, some F => showNatList (m.bufferFaces F)
    | _, _ => "BAD"
  | ["maskfrom", mesh, fs] =>
    match parseMesh? mesh, parseNatList? fs with
    | some m, some F => showMeshMask (maskFromFaceIndexes m F)
    | _, _ => "BAD"
  | ["bufferfaces-src", mesh, fs] =>
    match parseSrcMesh? mesh, parseNatList? fs with
    | some (t, e, n, ne), some F =>
      match UgridSrc.eval { UgridSrc.meshEnv t e n ne [] 0 with arg := .list F } Gen.UgridSrc.bufferFaces with
      | .list l => showNatList l
      | _ => "ERR"
    | _, _ => "BAD"
  | ["maskfrom-src", mesh, fs] =>
    match parseSrcMesh? mesh, parseNatList? fs with
    | some (t, e, n, ne), some F =>
      showSrcMask (UgridSrc.evalProg { UgridSrc.meshEnv t e n ne [] 0 with arg := .list F } Gen.UgridSrc.maskFromFaceIndexes)
    | _, _ => "BAD"
  | ["ugridmask-src", mesh, truth, hits, buffer] =>
    match parseSrcMesh? mesh, parseInt? buffer with
    | some (t, e, n, ne), some b =>
      match parseHits? truth hits t.length with
      | some h => showSrcMask (UgridSrc.evalProg (UgridSrc.meshEnv t e n ne h b) Gen.UgridSrc.makeClipMask)
      | none => "BAD"
    | _, _ => "BAD"
  | [op, mesh, truth, hits, buffer] =>
    match parseMesh? mesh, parseInt? buffer with
    | some m, some b =>
      match parseHits? truth hits m.nFaces with
      | some h =>
        if op == "ugridmask" then showMeshMask (ugridClipMask m h b)
        else if op == "ugridmask-current" then showMeshMask (ugridClipMaskCurrent m h b)
        else if op == "kept" then showNatList (keptFaces m h b)
        else if op == "propcheck-renumber" then okfail (propRenumber (ugridClipMask m h b))
        else if op == "propcheck-renumber-current" then okfail (propRenumber (ugridClipMaskCurrent m h b))
        else if op == "propcheck-loose" then propLoose m (ugridClipMask m h b)
        else "BAD"
      | none => "BAD"
    | _, _ => "BAD"
  | ["propcheck-blur", sh, bits, size] =>
    match parseMask? sh bits, parseNat? size with
    | some m, some s => okfail (propBlur m s)
    | _, _ => "BAD"
  | _ => "BAD"

def main : IO Unit := loop step
