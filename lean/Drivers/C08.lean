import EmsModel.Core.ClipProto
import EmsModel.Core.MaskingSrc
import EmsModel.Gen.MaskingSrc
/-! Line-protocol driver for C08 / C09 (applying clip masks); see `Core/ClipProto.lean`.

Ops evaluating the terms GENERATED from the source text of `emsarray.masking` (`Gen/MaskingSrc.lean`), cross-check of
`harness/trans_masking.py`:
  `srcfill <masked 0|1> <attrs name=value,…|-> <encoding names ,|-> <promoted fill NAN|NAT|-> <floating 0|1>`
        → `MASKED` | `VAL:<value>` | `NAN` | `NAT` | `ERR` (ValueError) | `NONE` | `UNKNOWN`
  `srcbounds <name=arr;…> <dims d,d,…>`  → `d=lo:hi,…` in the order asked | `ERR`
  `srcclip <name=arr;…> <m|u> <arr>`     → array | `ERR` (same meaning as `gridclip`, computed by the generated programs) -/
open Ems Ems.Proto

namespace Ems.MaskingSrcProto
open Ems.ArrProto Ems.ClipProto

def parseAttrs? (s : String) : Option (List (String × String)) :=
  if s == "-" then some [] else
  Proto.allSome ((s.splitOn ",").map fun kv =>
    match kv.splitOn "=" with
    | [k, v] => some (k, v)
    | _ => none)

def parseBit? (s : String) : Option Bool :=
  if s == "0" then some false else if s == "1" then some true else none

def showOutcome (attrs : List (String × String)) (promo : String) : Option MsOutcome → String
  | some .maskedConstant => "MASKED"
  | some (.attrValue n) => match attrs.lookup n with
    | some v => s!"VAL:{v}"
    | none => "KEYERROR"
  | some .promotedFill => promo
  | some .nan => "NAN"
  | some .raiseValueError => "ERR"
  | some .returnNone => "NONE"
  | some (.unsupported _) => "UNKNOWN"
  | none => "UNKNOWN"

def step? (ws : List String) : Option String :=
  match ws with
  | ["srcfill", masked, attrs, enc, promo, floating] =>
    some (match parseBit? masked, parseAttrs? attrs, parseBit? floating with
    | some m, some ats, some fl =>
      let f : MsFeatures := { isMasked := m, attrs := ats.map (·.1), encoding := parseNames enc,
                              selfPromotes := promo != "-", floating := fl }
      showOutcome ats promo (msDecide f Gen.msFindFillValue)
    | _, _, _ => "BAD")
  | ["srcbounds", masks, dims] =>
    some (match parseMasks? masks with
    | some ms =>
      match Gen.msBoundsProg.run ms with
      | some bs => joinWith "," ((parseNames dims).map fun d =>
          match bs.lookup d with
          | some b => s!"{d}={b.1}:{b.2}"
          | none => s!"{d}=-")
      | none => "ERR"
    | none => "BAD")
  | ["srcclip", masks, fill, arr] =>
    some (match parseMasks? masks, parseArr? arr with
    | some ms, some a =>
      let fk := if fill == "m" then FillKind.maskable else FillKind.unmaskable
      match Gen.msBoundsProg.run ms, Gen.msApplyProg.run ms fk a.names with
      | some bounds, some .unchanged => showArr (a.crop bounds)
      | some bounds, some (.masked m) => showArr ((a.crop bounds).whereMask (m.crop bounds))
      | none, some _ => "ERR"
      | _, none => "UNKNOWN"
    | _, _ => "BAD")
  | _ => none

end Ems.MaskingSrcProto

def step (line : String) : String :=
  match Ems.MaskingSrcProto.step? (words line) with
  | some s => s
  | none => (Ems.ClipProto.step? (words line)).getD "BAD"
def main : IO Unit := loop step
