import EmsModel.Core.ClipProto
/-! Line-protocol driver for C08 / C09 (applying clip masks); see `Core/ClipProto.lean`. -/
open Ems Ems.Proto
def step (line : String) : String := (Ems.ClipProto.step? (words line)).getD "BAD"
def main : IO Unit := loop step
