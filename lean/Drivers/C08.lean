import EmsModel.Core.ClipProto
import EmsModel.Core.MaskingSrc
import EmsModel.Gen.MaskingSrc
import EmsModel.Core.CGridClip
/-! Line-protocol driver for C08 / C09 (applying clip masks); see `Core/ClipProto.lean`.

Ops evaluating the terms GENERATED from the source text of `emsarray.masking` (`Gen/MaskingSrc.lean`), cross-check of
`harness/trans_masking.py`:
  `srcfill <masked 0|1> <attrs name=value,…|-> <encoding names ,|-> <promoted fill NAN|NAT|-> <floating 0|1>`
        → `MASKED` | `VAL:<value>` | `NAN` | `NAT` | `ERR` (ValueError) | `NONE` | `UNKNOWN`
  `srcbounds <name=arr;…> <dims d,d,…>`  → `d=lo:hi,…` in the order asked | `ERR`
  `srcclip <name=arr;…> <m|u> <arr>`     → array | `ERR` (same meaning as `gridclip`, computed by the generated programs) -/
open Ems Ems.Proto

/-! S6 — one clip of an Arakawa C dataset from the hit cells to the clipped variable (`Core/CGridClip.lean`):
  `cclip <ny>x<nx> <bits of the cells whose polygon meets the geometry> <buffer> <jf,if;jb,ib;jl,il;jn,in> <m|u> <arr>`
        → array | `ERR`   (face / back / left / node dimension names; `make_clip_mask` + `mask_grid_dataset`) -/
namespace Ems.CGridProto
open Ems.ArrProto Ems.ClipProto

def parsePair? (s : String) : Option (String × String) :=
  match s.splitOn "," with
  | [a, b] => some (a, b)
  | _ => none

def parseDims4? (s : String) : Option CGridDims :=
  match (s.splitOn ";").map parsePair? with
  | [some f, some b, some l, some n] => some { face := f, back := b, left := l, node := n }
  | _ => none

def parseShape2? (s : String) : Option (Nat × Nat) :=
  match (s.splitOn "x").map String.toNat? with
  | [some ny, some nx] => some (ny, nx)
  | _ => none

def step? (ws : List String) : Option String :=
  match ws with
  | ["cclip", shape, hitbits, buffer, dims, fill, arr] =>
    some (match parseShape2? shape, parseBits? hitbits, buffer.toNat?, parseDims4? dims, parseArr? arr with
    | some (ny, nx), some hb, some b, some d, some a =>
      if hb.length ≠ ny * nx then "BAD" else
      let hits := (List.range (ny * nx)).filter fun n => hb.getD n false
      let fk := if fill == "m" then FillKind.maskable else FillKind.unmaskable
      match arakawaClipVar d ny nx hits (Int.ofNat b) fk a with
      | some r => showArr r
      | none => "ERR"
    | _, _, _, _, _ => "BAD")
  | _ => none

end Ems.CGridProto

namespace Ems.MaskingSrcProto
open Ems.ArrProto Ems.ClipProto

def parseAttrs? (s : String) : Option (List (String × String)) :=
  if s == "-" then some [] else
  Proto.allSome ((s.splitOn ",").map fun kv =>
    match kv.splitOn "=" with
    | [k, v] => some (k, v)
    | _ => none)

def parseBit? (s : String) : Option Bool :=
  if s == "0" then some false else if s == "1" then some true else none

def showOutcome (attrs : List (String × String)) (promo : String) : Option MsOutcome → String
  | some .maskedConstant => "MASKED"
  | some (.attrValue n) => match attrs.lookup n with
    | some v => s!"VAL:{v}"
    | none => "KEYERROR"
  | some .promotedFill => promo
  | some .nan => "NAN"
  | some .raiseValueError => "ERR"
  | some .returnNone => "NONE"
  | some (.unsupported _) => "UNKNOWN"
  | none => "UNKNOWN"

def step? (ws : List String) : Option String :=
  match ws with
  | ["srcfill", masked, attrs, enc, promo, floating] =>
    some (match parseBit? masked, parseAttrs? attrs, parseBit? floating with
    | some m, some ats, some fl =>
      let f : MsFeatures := { isMasked := m, attrs := ats.map (·.1), encoding := parseNames enc,
                              selfPromotes := promo != "-", floating := fl }
      showOutcome ats promo (msDecide f Gen.msFindFillValue)
    | _, _, _ => "BAD")
  | ["srcbounds", masks, dims] =>
    some (match parseMasks? masks with
    | some ms =>
      match Gen.msBoundsProg.run ms with
      | some bs => joinWith "," ((parseNames dims).map fun d =>
          match bs.lookup d with
          | some b => s!"{d}={b.1}:{b.2}"
          | none => s!"{d}=-")
      | none => "ERR"
    | none => "BAD")
  | ["srcclip", masks, fill, arr] =>
    some (match parseMasks? masks, parseArr? arr with
    | some ms, some a =>
      let fk := if fill == "m" then FillKind.maskable else FillKind.unmaskable
      match Gen.msBoundsProg.run ms, Gen.msApplyProg.run ms fk a.names with
      | some bounds, some .unchanged => showArr (a.crop bounds)
      | some bounds, some (.masked m) => showArr ((a.crop bounds).whereMask (m.crop bounds))
      | none, some _ => "ERR"
      | _, none => "UNKNOWN"
    | _, _ => "BAD")
  | _ => none

end Ems.MaskingSrcProto

def step (line : String) : String :=
  match Ems.MaskingSrcProto.step? (words line) with
  | some s => s
  | none =>
    match Ems.CGridProto.step? (words line) with   -- S6
    | some s => s
    | none => (Ems.ClipProto.step? (words line)).getD "BAD"
def main : IO Unit := loop step
