import EmsModel.Core.SelProto
import EmsModel.Gen.SelectSrc
/-! Line-protocol driver for C05 (index and point selection): `select`, `extract`, `extractfill`,
`isel`, `selvar` (see `Core/SelProto.lean`) and the array ops of `Core/ArrProto.lean`. -/
open Ems Ems.Proto
/-- [B8] `selectsrc <grids> <geometry> <indexDim> <idx> <var=arr>…`: the arguments of `select`, answered by running the programs
generated from the source text (`Gen/SelectSrc.lean`, evaluators of `Core/SelectSrc.lean`) instead of the hand model -/
def selectSrcStep? (ws : List String) : Option String :=
  match ws with
  | "selectsrc" :: gs :: geom :: idim :: idx :: vars =>
    some (match Ems.ArrProto.parseGrids? gs, Ems.SelProto.parseNatives? idx, Ems.SelProto.parseVars? vars with
    | some grids, some ix, some ds =>
      match Ems.Gen.SelectSrc.selIdxSrc.run Ems.Gen.SelectSrc.selectorSrc Ems.Gen.SelectSrc.dropGeomSrc grids ds
          (Ems.ArrProto.parseNames geom) [] ix (some idim) true with
      | some out => Ems.SelProto.showDSet out
      | none => "ERR"
    | _, _, _ => "BAD")
  | _ => none
def step (line : String) : String :=
  let ws := words line
  (((selectSrcStep? ws).orElse fun _ => Ems.SelProto.step? ws).orElse fun _ => Ems.ArrProto.step? ws).getD "BAD"
def main : IO Unit := loop step
