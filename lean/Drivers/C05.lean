import EmsModel.Core.SelProto
/-! Line-protocol driver for C05 (index and point selection): `select`, `extract`, `extractfill`,
`isel`, `selvar` (see `Core/SelProto.lean`) and the array ops of `Core/ArrProto.lean`. -/
open Ems Ems.Proto
def step (line : String) : String :=
  let ws := words line
  ((Ems.SelProto.step? ws).orElse fun _ => Ems.ArrProto.step? ws).getD "BAD"
def main : IO Unit := loop step
