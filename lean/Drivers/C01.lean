import EmsModel.Core.Index
import EmsModel.Core.Proto
/-! Line-protocol driver for C01.
`wind  <grids> <default> <kind|-> <n>`      → `kind:j,i` | `ERR`
`ravel <grids> <default> <kind> <comps>`    → `n` | `ERR`
`size  <grids> <default> <kind>`            → `n` | `ERR`
grids: `face=3x5,left=3x6` -/
open Ems Ems.Proto

def parseGrids? (s : String) : Option (List (Kind × List Nat)) :=
  allSome ((s.splitOn ",").map fun g =>
    match g.splitOn "=" with
    | [k, sh] => (parseNatList? sh "x").map (fun l => (k, l))
    | _ => none)

def step (line : String) : String :=
  match words line with
  | ["wind", gs, dflt, kind, n] =>
    match parseGrids? gs, parseInt? n with
    | some grids, some n =>
      let c : Conv := { grids := grids, default := dflt }
      match c.windIndex (if kind == "-" then none else some kind) n with
      | some (k, idx) => s!"{k}:{showNatList idx}"
      | none => "ERR"
    | _, _ => "BAD"
  | ["ravel", gs, dflt, kind, comps] =>
    match parseGrids? gs, parseIntList? comps with
    | some grids, some comps =>
      let c : Conv := { grids := grids, default := dflt }
      match c.ravelIndex (kind, comps) with
      | some n => toString n
      | none => "ERR"
    | _, _ => "BAD"
  | ["size", gs, dflt, kind] =>
    match parseGrids? gs with
    | some grids =>
      let c : Conv := { grids := grids, default := dflt }
      match c.gridSize? kind with
      | some n => toString n
      | none => "ERR"
    | _ => "BAD"
  | _ => "BAD"

def main : IO Unit := loop step
