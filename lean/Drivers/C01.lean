import EmsModel.Core.Index
import EmsModel.Core.IndexSpelling
import EmsModel.Core.Proto
/-! Line-protocol driver for C01.
`wind  <grids> <default> <kind|-> <n>`      → `kind:j,i` | `ERR`
`ravel <grids> <default> <kind> <comps>`    → `n` | `ERR`
`size  <grids> <default> <kind>`            → `n` | `ERR`
grids: `face=3x5,left=3x6`
-- sixth round (Core/IndexSpelling.lean): the integer type an index is spelt in; conventions under a names table
`ravelt <grids> <default> <kind> <comps> <dtype>`   → as `ravel`; `BAD` when a component is no value of the type
`windt  <grids> <default> <kind|-> <n> <dtype>`     → as `wind`;  `BAD` when `n` is no value of the type
`nsize  <vars> <names> <kind>`                      → `grid_size[kind]` of `ArakawaC(ds, coordinate_names=names)` | `ERR`
`nwind  <vars> <names> <kind|-> <n>` / `nravel <vars> <names> <kind> <comps>`
vars: `y_centre:j_centre=3:i_centre=5;x_centre:…`   names: `face=y_centre:x_centre,left=…` -/
open Ems Ems.Proto

def parseGrids? (s : String) : Option (List (Kind × List Nat)) :=
  allSome ((s.splitOn ",").map fun g =>
    match g.splitOn "=" with
    | [k, sh] => (parseNatList? sh "x").map (fun l => (k, l))
    | _ => none)

-- >>> sixth round: spellings
def parseVars? (s : String) : Option DsVars :=
  allSome ((s.splitOn ";").map fun v =>
    match v.splitOn ":" with
    | name :: dims =>
      (allSome (dims.map fun d =>
        match d.splitOn "=" with
        | [dn, sz] => (parseNat? sz).map (fun n => (dn, n))
        | _ => none)).map (fun ds => (name, ds))
    | _ => none)

def parseNames? (s : String) : Option NameTable :=
  allSome ((s.splitOn ",").map fun e =>
    match e.splitOn "=" with
    | [k, pair] =>
      match pair.splitOn ":" with
      | [lat, lon] => some (k, lat, lon)
      | _ => none
    | _ => none)

def showWind : Option (Kind × List Nat) → String
  | some (k, idx) => s!"{k}:{showNatList idx}"
  | none => "ERR"

def showOptN : Option Nat → String
  | some n => toString n
  | none => "ERR"

def stepSpelling (line : String) : Option String :=
  match words line with
  | ["ravelt", gs, dflt, kind, comps, dt] =>
    some <| match parseGrids? gs, parseIntList? comps, IntType.parse? dt with
    | some grids, some comps, some t =>
      let c : Conv := { grids := grids, default := dflt }
      match c.ravelIndexTyped t (kind, comps) with
      | some r => showOptN r
      | none => "BAD"
    | _, _, _ => "BAD"
  | ["windt", gs, dflt, kind, n, dt] =>
    some <| match parseGrids? gs, parseInt? n, IntType.parse? dt with
    | some grids, some n, some t =>
      let c : Conv := { grids := grids, default := dflt }
      match c.windIndexTyped t (if kind == "-" then none else some kind) n with
      | some r => showWind r
      | none => "BAD"
    | _, _, _ => "BAD"
  | ["nsize", vs, ns, kind] =>
    some <| match parseVars? vs, parseNames? ns with
    | some vars, some names =>
      match arakawaConv vars names with
      | some c => showOptN (c.gridSize? kind)
      | none => "ERR"
    | _, _ => "BAD"
  | ["nwind", vs, ns, kind, n] =>
    some <| match parseVars? vs, parseNames? ns, parseInt? n with
    | some vars, some names, some n =>
      match arakawaConv vars names with
      | some c => showWind (c.windIndex (if kind == "-" then none else some kind) n)
      | none => "ERR"
    | _, _, _ => "BAD"
  | ["nravel", vs, ns, kind, comps] =>
    some <| match parseVars? vs, parseNames? ns, parseIntList? comps with
    | some vars, some names, some comps =>
      match arakawaConv vars names with
      | some c => showOptN (c.ravelIndex (kind, comps))
      | none => "ERR"
    | _, _, _ => "BAD"
  | _ => none
-- <<< sixth round

def step (line : String) : String :=
  if let some out := stepSpelling line then out else
  match words line with
  | ["wind", gs, dflt, kind, n] =>
    match parseGrids? gs, parseInt? n with
    | some grids, some n =>
      let c : Conv := { grids := grids, default := dflt }
      match c.windIndex (if kind == "-" then none else some kind) n with
      | some (k, idx) => s!"{k}:{showNatList idx}"
      | none => "ERR"
    | _, _ => "BAD"
  | ["ravel", gs, dflt, kind, comps] =>
    match parseGrids? gs, parseIntList? comps with
    | some grids, some comps =>
      let c : Conv := { grids := grids, default := dflt }
      match c.ravelIndex (kind, comps) with
      | some n => toString n
      | none => "ERR"
    | _, _ => "BAD"
  | ["size", gs, dflt, kind] =>
    match parseGrids? gs with
    | some grids =>
      let c : Conv := { grids := grids, default := dflt }
      match c.gridSize? kind with
      | some n => toString n
      | none => "ERR"
    | _ => "BAD"
  | _ => "BAD"

def main : IO Unit := loop step
