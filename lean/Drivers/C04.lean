import EmsModel.Core.Lookup
import EmsModel.Core.LookupSession
import EmsModel.Core.GeomProto
/-! Line-protocol driver for C04 (point lookup).
`hits   <rings> <pt>`                          → sorted positions whose polygon intersects the point (exact test)
`lookup <grids> <default> <rings> <pt> <hits|auto>` → `n kind:j,i ring` | `-`
  (`hits`: the spatial-index result in the order it was reported, `auto`: exact hit set)
`cf1dhits lon=… lat=… [lonb=… latb=…] pt=<pt>` → the hits on a CF 1-D grid from the bounds alone (`Ems.cf1dHits`,
  the interval-containment specification proved equal to the exact hit set: `C04.cf1d_hits_eq`)
`session <grids> <default> <q;q;…|-> <rings> <pt> <hits|auto>` → the replies of ONE convention object to the questions
  `w:<kind>:<n>` (wind_index) / `r:<kind>:<j,i>` (ravel_index) put in that order and then to the lookup
  (`Ems.lookupSession`), joined with `;` (`kind:j,i` | `n` | `ERR`, the lookup as above)
plus the geometry ops of `Core/GeomProto.lean` (`pip`, `valid`, `polys`). -/
open Ems Ems.Proto Ems.GeomProto

def parseGrids? (s : String) : Option (List (Kind × List Nat)) :=
  Proto.allSome ((s.splitOn ",").map fun g =>
    match g.splitOn "=" with
    | [k, sh] => (parseNatList? sh "x").map (fun l => (k, l))
    | _ => none)

def parseRings? (s : String) : Option (List (Option Poly)) :=
  Proto.allSome ((s.splitOn "|").map fun r => if r == "-" then some none else (parseRing? r).map some)

def exactIntersects (p : Poly) (q : Pt) : Bool := pointInPoly q p

-- ---- round 6: sessions (C04Hist) -------------------------------------------------------------------------------
def parseQuestion? (s : String) : Option LookupQuestion :=
  match s.splitOn ":" with
  | ["w", k, n] => (parseInt? n).map (fun n => .wind k n)
  | ["r", k, idx] => (parseIntList? idx).map (fun idx => .ravel k idx)
  | _ => none

def showReply : LookupReply → String
  | .native (some (k, idx)) => s!"{k}:{showNatList idx}"
  | .native none => "ERR"
  | .linear (some n) => toString n
  | .linear none => "ERR"
  | .item none => "-"
  | .item (some item) =>
    let nat := match item.native with
      | some (k, idx) => s!"{k}:{showNatList idx}"
      | none => "ERR"
    s!"{item.linear} {nat} {showOptRing item.polygon}"

def sessionStep (gs dflt qs rings pt hits : String) : String :=
  match parseGrids? gs, parseRings? rings, parsePt? pt with
  | some grids, some ps, some q =>
    let hs := if hits == "auto" then some (hitSet exactIntersects ps q) else parseNatList? hits
    let qs? := if qs == "-" then some [] else Proto.allSome ((qs.splitOn ";").map parseQuestion?)
    match hs, qs? with
    | some hs, some qs =>
      joinWith ";" ((lookupSession { grids := grids, default := dflt } ps (qs ++ [.lookup hs])).map showReply)
    | _, _ => "BAD"
  | _, _, _ => "BAD"
-- ---- end round 6 -------------------------------------------------------------------------------------------------

def step (line : String) : String :=
  let ws := words line
  match ws with
  | ["hits", rings, pt] =>
    match parseRings? rings, parsePt? pt with
    | some ps, some q => showNatList (hitSet exactIntersects ps q)
    | _, _ => "BAD"
  | ["lookup", gs, dflt, rings, pt, hits] =>
    match parseGrids? gs, parseRings? rings, parsePt? pt with
    | some grids, some ps, some q =>
      let hs := if hits == "auto" then some (hitSet exactIntersects ps q) else parseNatList? hits
      match hs with
      | none => "BAD"
      | some hs =>
        match getIndexForPoint { grids := grids, default := dflt } ps hs with
        | none => "-"
        | some item =>
          let nat := match item.native with
            | some (k, idx) => s!"{k}:{showNatList idx}"
            | none => "ERR"
          s!"{item.linear} {nat} {showOptRing item.polygon}"
    | _, _, _ => "BAD"
  | ["session", gs, dflt, qs, rings, pt, hits] => sessionStep gs dflt qs rings pt hits
  | "cf1dhits" :: args =>
    let r : Option (List Nat) := do
      let lon ← parseRats? (← kv args "lon")
      let lat ← parseRats? (← kv args "lat")
      let lonb ← match kv args "lonb" with
        | none | some "-" => midBounds lon
        | some s => parsePairs? s
      let latb ← match kv args "latb" with
        | none | some "-" => midBounds lat
        | some s => parsePairs? s
      let q ← parsePt? (← kv args "pt")
      some (cf1dHits lonb latb q)
    match r with
    | some hs => showNatList hs
    | none => "BAD"
  | _ => (Ems.GeomProto.step? ws).getD "BAD"

def main : IO Unit := loop step
