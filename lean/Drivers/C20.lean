import EmsModel.Core.CliSpec
import EmsModel.Core.CliHist
import EmsModel.Core.Proto
import EmsModel.Gen.Tables
/-! Line-protocol driver for C20.  Text arguments travel as decimal code points joined by
`.` (`-` = empty text), so that blanks, newlines and non-ASCII characters survive.

`bounds <text>`                               → `BOX x,y;x,y;x,y;x,y` | `ERR:not-bounds`
`exact <text>`                                → `a b c d` exact rationals | `-`
`geom <text> <nojson|geometry|notgeometry> <exists:0|1> <file name text> <loads:0|1>`
                                              → `BOX …` | `JSON` | `FILE` | `ERR:<kind>`
`suffix <name text>`                          → suffix as text
`guess <name text>`                           → format | `ERR:command`
`format <fmt> <name text> <w1,w2,…>`          → `writer:<fmt>` | `ERR:usage` | `ERR:command`
`exit <usage|os|command:<n>|command|uncaught|interrupt>` → `EXIT:<n> msg:<0|1>`
`run <command> <-|step name> <failure>`       → `EXIT:<n> msg:<0|1> out:<0|1>`
`steps <command>`                             → step names
`classes <lo> <hi>`                           → `cp=d<val>` / `cp=s` for every digit / blank code point in [lo, hi), or `-`
`cmdname <module name text>`                  → sub-command name as text
`accepts <text>`                              → `0` | `1` (the text, in its entirety, is in the language of `bounds_re`)
`choices <format|missing-points>`             → the option's choices, comma separated
`digit <code point>`                          → value | `-`
`space <code point>`                          → `0` | `1`
`double <p/q>`                                → nearest binary64 as `p/q`
`propcheck <text>`                            → `ok` | `FAIL:<why>` (decidable consequences of the theorems)
`fshist <text> <nojson|geometry|notgeometry> <path text> <file name text> <event>*`
        event = `<path text>=a` (removed) | `=d` (a directory) | `=f<ver>:<loads 0|1>` (the ver-th text written), oldest first
                                              → `BOX …` | `JSON` | `FILE:<ver>` | `ERR:<kind>` (what the path holds NOW decides)
-/
open Ems Ems.Proto Ems.Cli

def parseText? (s : String) : Option (List Char) :=
  if s == "-" then some [] else
  allSome ((s.splitOn ".").map fun w =>
    match w.toNat? with
    | some n => if h : n.isValidChar then some (Char.ofNatAux n h) else none
    | none => none)

def showText (cs : List Char) : String :=
  if cs.isEmpty then "-" else joinWith "." (cs.map fun c => toString c.toNat)

def showPt (p : Rat × Rat) : String := s!"{showRat (toDouble p.1)},{showRat (toDouble p.2)}"

def ptLe (p q : Rat × Rat) : Bool := decide (p.1 < q.1) || (decide (p.1 = q.1) && decide (p.2 ≤ q.2))

/-- a proper box: its ring; a box that collapses to a segment or a point once the numbers are
binary64 (GEOS then drops repeated vertices): the sorted distinct corners -/
def showBox (b : Bounds) : String :=
  let ring := (boxRing b).map fun p => (toDouble p.1, toDouble p.2)
  let (x0, y0, x1, y1) := b
  let show2 := fun (p : Rat × Rat) => s!"{showRat p.1},{showRat p.2}"
  if toDouble x0 = toDouble x1 ∨ toDouble y0 = toDouble y1 then
    "BOXD " ++ joinWith ";" (((ring.mergeSort ptLe).eraseDups).map show2)
  else "BOX " ++ joinWith ";" (ring.map show2)

def showUsage : UsageError → String
  | .notBounds => "ERR:not-bounds"
  | .invalidGeojson => "ERR:invalid-geojson"
  | .notFound => "ERR:not-found"
  | .badFile => "ERR:bad-file"
  | .unsupportedFile => "ERR:unsupported-file"

def showGeom : Except UsageError Geom → String
  | .ok (.box b) => showBox b
  | .ok .ofJson => "JSON"
  | .ok .ofFile => "FILE"
  | .error e => showUsage e

def parseJson? : String → Option JsonOutcome
  | "nojson" => some .notJson
  | "geometry" => some .geometry
  | "notgeometry" => some .notGeometry
  | _ => none

def parseBool? : String → Option Bool
  | "0" => some false
  | "1" => some true
  | _ => none

def parseFailure? (s : String) : Option Failure :=
  match s.splitOn ":" with
  | ["usage"] => some .usage
  | ["os"] => some .osError
  | ["command"] => some (.command defaultCommandCode)
  | ["command", n] => (parseNat? n).map .command
  | ["uncaught"] => some .uncaught
  | ["interrupt"] => some .interrupt
  | _ => none

def b2s (b : Bool) : String := if b then "1" else "0"

-- ---- round 6: histories of the scratch directory ------------------------------------------
def parseFsEntry? (s : String) : Option FsEntry :=
  if s == "a" then some .absent
  else if s == "d" then some .dir
  else if s.startsWith "f" then
    match (s.drop 1).toString.splitOn ":" with
    | [v, l] => match parseNat? v, parseBool? l with
      | some v, some l => some (.file v l)
      | _, _ => none
    | _ => none
  else none

def parseFsEvent? (s : String) : Option FsEvent :=
  match s.splitOn "=" with
  | [p, e] => match parseText? p, parseFsEntry? e with
    | some p, some e => some ⟨p, e⟩
    | _, _ => none
  | _ => none

def showGeomV : Except UsageError GeomV → String
  | .ok (.box b) => showBox b
  | .ok .ofJson => "JSON"
  | .ok (.ofFile v) => s!"FILE:{v}"
  | .error e => showUsage e

/-- decidable consequences of `parseBounds_iff` / `geometry_argument_order` on one text -/
def propcheck (s : List Char) : String :=
  match parseBounds s with
  | none =>
    -- a text that is not bounds is never turned into a box
    match geometryArgument s .notJson ⟨false, [], false⟩, boundsArgument s with
    | .error .notFound, .error .notBounds => "ok"
    | _, _ => "FAIL:non-bounds text accepted"
  | some b =>
    let fields := splitOn ',' s
    if fields.length ≠ 4 then "FAIL:field count"
    else if s.any (fun c => !(isDigit c || isSpace c || c == ',' || c == '.' || c == '_' || c == '-')) then
      "FAIL:foreign character accepted"
    else
      -- the four values are the values of the four fields, each taken in full
      let vals := fields.map (fun f => decimal? (trimRight (trimLeft f)))
      if vals ≠ [some b.1, some b.2.1, some b.2.2.1, some b.2.2.2] then "FAIL:values"
      else match geometryArgument s .geometry ⟨true, ".json".toList, true⟩ with
        | .ok (.box b') => if b' = b then "ok" else "FAIL:order"
        | _ => "FAIL:order"

def step (line : String) : String :=
  match words line with
  | ["bounds", t] =>
    match parseText? t with
    | some s => showGeom (boundsArgument s)
    | none => "BAD"
  | ["exact", t] =>
    match parseText? t with
    | some s =>
      match parseBounds s with
      | some (a, b, c, d) => s!"{showRat a} {showRat b} {showRat c} {showRat d}"
      | none => "-"
    | none => "BAD"
  | ["geom", t, j, ex, nm, ld] =>
    match parseText? t, parseJson? j, parseBool? ex, parseText? nm, parseBool? ld with
    | some s, some j, some ex, some nm, some ld => showGeom (geometryArgument s j ⟨ex, nm, ld⟩)
    | _, _, _, _, _ => "BAD"
  | ["suffix", nm] =>
    match parseText? nm with
    | some nm => showText (pathSuffix nm)
    | none => "BAD"
  | ["guess", nm] =>
    match parseText? nm with
    | some nm => match guessFormat nm with
      | some f => f
      | none => "ERR:command"
    | none => "BAD"
  | ["format", fmt, nm, ws] =>
    match parseText? nm with
    | some nm =>
      match resolveFormat (if ws == "-" then [] else ws.splitOn ",") fmt nm with
      | .writer f => s!"writer:{f}"
      | .usage => "ERR:usage"
      | .commandError => "ERR:command"
    | none => "BAD"
  | ["exit", f] =>
    match parseFailure? f with
    | some f => s!"EXIT:{exitStatus f} msg:{b2s (failureMessage f)}"
    | none => "BAD"
  | ["run", cmd, stepName, f] =>
    match handlers.lookup cmd with
    | none => "BAD"
    | some steps =>
      if stepName == "-" then
        let o := run steps (fun _ => none)
        s!"EXIT:{o.status} msg:{b2s o.message} out:{b2s (o.writes > 0)}"
      else
        match steps.findIdx? (fun st => st.name == stepName), parseFailure? f with
        | some k, some f =>
          -- a failure inside a write step is reported after the step was started
          let o := run steps (fun i => if i = k then some f else none)
          let out := if (steps[k]?.map (·.kind)) = some .write then "?" else b2s (o.writes > 0)
          s!"EXIT:{o.status} msg:{b2s o.message} out:{out}"
        | _, _ => "BAD"
  | ["steps", cmd] =>
    match handlers.lookup cmd with
    | some steps => joinWith "," (steps.map fun st => st.name ++ (if st.kind = .write then "!" else ""))
    | none => "BAD"
  | ["digit", n] =>
    match parseNat? n with
    | some n => if h : n.isValidChar then
        (match digitVal? (Char.ofNatAux n h) with | some d => toString d | none => "-") else "BAD"
    | none => "BAD"
  | ["space", n] =>
    match parseNat? n with
    | some n => if h : n.isValidChar then b2s (isSpace (Char.ofNatAux n h)) else "BAD"
    | none => "BAD"
  | ["classes", lo, hi] =>
    match parseNat? lo, parseNat? hi with
    | some lo, some hi =>
      let cps := (List.range (hi - lo)).map (· + lo)
      let parts := cps.filterMap fun n =>
        if h : n.isValidChar then
          let c := Char.ofNatAux n h
          match digitVal? c with
          | some d => some s!"{n}=d{d}"
          | none => if isSpace c then some s!"{n}=s" else none
        else none
      if parts.isEmpty then "-" else joinWith "," parts
    | _, _ => "BAD"
  | ["cmdname", t] =>
    match parseText? t with
    | some m => showText (commandName m)
    | none => "BAD"
  | ["accepts", t] =>
    match parseText? t with
    | some s => b2s (parseBounds s).isSome
    | none => "BAD"
  | ["double", r] =>
    match parseRat? r with
    | some r => showRat (toDouble r)
    | none => "BAD"
  | ["propcheck", t] =>
    match parseText? t with
    | some s => propcheck s
    | none => "BAD"
  | "fshist" :: t :: j :: pth :: nm :: evs =>
    match parseText? t, parseJson? j, parseText? pth, parseText? nm, allSome (evs.map parseFsEvent?) with
    | some s, some j, some pth, some nm, some evs => showGeomV (geometryArgumentAfter evs s j pth nm)
    | _, _, _, _, _ => "BAD"
  | ["choices", "format"] => joinWith "," formatChoices
  | ["choices", "missing-points"] => joinWith "," missingPointPolicies
  | ["pattern"] => s!"{boundsAst.pattern} flags={boundsFlags}"
  | _ => "BAD"

def main : IO Unit := loop step
