import EmsModel.Core.DepthProto
import EmsModel.Lemmas.DepthHyp
import EmsModel.Lemmas.DepthSignOnlyHyp
import EmsModel.Gen.DepthSrc
/-! Line-protocol driver for C13 (depth normalisation) and depth-coordinate discovery.
`norm <DS> <coords|-> <opt>[,<opt>…]`  → `OK <DS'> W=<warnings of pass 1>/<pass 2>…` | `ERR`
      opt = two letters of N/T/F: positive_down, deep_to_shallow; the passes are applied in
      sequence, each to the result of the one before, with the same coordinate names
`disc generic <grid dims: a+b,c+d | -> <metas>` → names in order | `-`
`disc named <names> <metas>`                    → names in order | `-`
`small <name=size,…>`                           → name | `ERR`     (Convention.depth_coordinate)
`coordfor <name:d1+d2,…|-> <dims a+b|->`        → name | `ERR`     (get_depth_coordinate_for_data_array)
`hyp <DS> <coords|->` → `1` iff the hypotheses of the theorems (`Ems.Depth.Valid`, decided by `validB`,
      sound by `validB_sound`) hold for this input
`hypsign <DS> <coords|->` → `1` iff the hypotheses of the sign-only theorems (`Ems.Depth.ValidSign` + no coordinate
      is its own bounds; decided by `validSignB`, sound by `validSignB_sound`) hold: one-dimensional coordinates on
      pairwise different dimensions, any number of levels (one level: a surface-only extract), any values
`srcnorm <DS> <coords> <opt>[,<opt>…]` → as `norm`, computed by running the loop body GENERATED from the source of
      `normalize_depth_variables` (`Gen.depthNormalizeBody`) with the interpreter of `Core/DepthSrc.lean`
`propcheck <DS> <coords> <opt>` → `s<0|1> i<0|1>`: the call succeeds; a second application with
      the same options returns the same dataset (decidable conclusions used by the failing-input search) -/
open Ems Ems.Proto Ems.Depth Ems.Depth.Proto

def runPasses (coords : List String) : Dataset → List (Option Bool × Option Bool) → List String →
    Option (Dataset × List String)
  | ds, [], ws => some (ds, ws)
  | ds, (pd, dts) :: rest, ws =>
    match normalize ds coords pd dts with
    | none => none
    | some (ds', w) => runPasses coords ds' rest (ws ++ [showNames w])

def runSrcPasses (coords : List String) : Dataset → List (Option Bool × Option Bool) → List String →
    Option (Dataset × List String)
  | ds, [], ws => some (ds, ws)
  | ds, (pd, dts) :: rest, ws =>
    match Ems.DepthSrc.runNormalize Ems.Gen.depthNormalizeBody ds coords pd dts with
    | none => none
    | some (ds', w) => runSrcPasses coords ds' rest (ws ++ [showNames w])

def step (line : String) : String :=
  match words line with
  | ["srcnorm", dss, coords, opts] =>
    match parseDataset? dss, Ems.Proto.allSome ((opts.splitOn ",").map parseOpt?) with
    | some ds, some os =>
      match runSrcPasses (parseNames coords) ds os [] with
      | some (out, ws) => s!"OK {showDataset out} W={joinWith "/" ws}"
      | none => "ERR"
    | _, _ => "BAD"
  | ["norm", dss, coords, opts] =>
    match parseDataset? dss, Ems.Proto.allSome ((opts.splitOn ",").map parseOpt?) with
    | some ds, some os =>
      match runPasses (parseNames coords) ds os [] with
      | some (out, ws) => s!"OK {showDataset out} W={joinWith "/" ws}"
      | none => "ERR"
    | _, _ => "BAD"
  | ["disc", "generic", grids, metas] =>
    match parseMetas? metas with
    | some ms =>
      let gs := if grids == "-" then [] else (grids.splitOn ",").map (·.splitOn "+")
      showNames (depthCoordsGeneric gs ms)
    | none => "BAD"
  | ["disc", "named", names, metas] =>
    match parseMetas? metas with
    | some ms => showNames (depthCoordsNamed (parseNames names) ms)
    | none => "BAD"
  | ["small", sized] =>
    match parseSizes? sized with
    | some l => match smallestFirst l with
      | some n => n
      | none => "ERR"
    | none => "BAD"
  | ["coordfor", cs, dims] =>
    let parsed := if cs == "-" then some [] else Ems.Proto.allSome ((cs.splitOn ",").map fun c =>
      match c.splitOn ":" with
      | [n, d] => some (n, if d == "-" then [] else d.splitOn "+")
      | _ => none)
    match parsed with
    | some l => match depthCoordFor l (if dims == "-" then [] else dims.splitOn "+") with
      | some n => n
      | none => "ERR"
    | none => "BAD"
  | ["hyp", dss, coords] =>
    match parseDataset? dss with
    | some ds => if validB ds (parseNames coords) then "1" else "0"
    | none => "BAD"
  | ["hypsign", dss, coords] =>
    match parseDataset? dss with
    | some ds => if validSignB ds (parseNames coords) then "1" else "0"
    | none => "BAD"
  | ["propcheck", dss, coords, opt] =>
    match parseDataset? dss, parseOpt? opt with
    | some ds, some (pd, dts) =>
      match normalize ds (parseNames coords) pd dts with
      | none => "s0 i0"
      | some (out, _) =>
        match normalize out (parseNames coords) pd dts with
        | some (out2, _) => if out2 == out then "s1 i1" else "s1 i0"
        | none => "s1 i0"
    | _, _ => "BAD"
  | _ => "BAD"

def main : IO Unit := loop step
