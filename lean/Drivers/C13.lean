import EmsModel.Core.DepthProto
/-! Line-protocol driver for C13 (depth normalisation) and depth-coordinate discovery.
`norm <DS> <coords|-> <opt>[,<opt>…]`  → `OK <DS'> W=<warnings of pass 1>/<pass 2>…` | `ERR`
      opt = two letters of N/T/F: positive_down, deep_to_shallow; the passes are applied in
      sequence, each to the result of the one before, with the same coordinate names
`disc generic <grid dims: a+b,c+d | -> <metas>` → names in order | `-`
`disc named <names> <metas>`                    → names in order | `-`
`small <name=size,…>`                           → name | `ERR`     (Convention.depth_coordinate)
`propcheck <DS> <coords> <opt>` → `s<0|1> i<0|1>`: the call succeeds; a second application with
      the same options returns the same dataset (decidable conclusions used by the failing-input search) -/
open Ems Ems.Proto Ems.Depth Ems.Depth.Proto

def runPasses (coords : List String) : Dataset → List (Option Bool × Option Bool) → List String →
    Option (Dataset × List String)
  | ds, [], ws => some (ds, ws)
  | ds, (pd, dts) :: rest, ws =>
    match normalize ds coords pd dts with
    | none => none
    | some (ds', w) => runPasses coords ds' rest (ws ++ [showNames w])

def step (line : String) : String :=
  match words line with
  | ["norm", dss, coords, opts] =>
    match parseDataset? dss, Ems.Proto.allSome ((opts.splitOn ",").map parseOpt?) with
    | some ds, some os =>
      match runPasses (parseNames coords) ds os [] with
      | some (out, ws) => s!"OK {showDataset out} W={joinWith "/" ws}"
      | none => "ERR"
    | _, _ => "BAD"
  | ["disc", "generic", grids, metas] =>
    match parseMetas? metas with
    | some ms =>
      let gs := if grids == "-" then [] else (grids.splitOn ",").map (·.splitOn "+")
      showNames (depthCoordsGeneric gs ms)
    | none => "BAD"
  | ["disc", "named", names, metas] =>
    match parseMetas? metas with
    | some ms => showNames (depthCoordsNamed (parseNames names) ms)
    | none => "BAD"
  | ["small", sized] =>
    match parseSizes? sized with
    | some l => match smallestFirst l with
      | some n => n
      | none => "ERR"
    | none => "BAD"
  | ["propcheck", dss, coords, opt] =>
    match parseDataset? dss, parseOpt? opt with
    | some ds, some (pd, dts) =>
      match normalize ds (parseNames coords) pd dts with
      | none => "s0 i0"
      | some (out, _) =>
        match normalize out (parseNames coords) pd dts with
        | some (out2, _) => if out2 == out then "s1 i1" else "s1 i0"
        | none => "s1 i0"
    | _, _ => "BAD"
  | _ => "BAD"

def main : IO Unit := loop step
