import EmsModel.Core.SelProto
import EmsModel.Core.GeomProto
/-! Line-protocol driver for C02: geometry ops (`polys`, `centres`), array ops (`ravel`),
selection ops (`isel`). -/
open Ems Ems.Proto
def step (line : String) : String :=
  let ws := words line
  ((Ems.GeomProto.step? ws).orElse fun _ => (Ems.ArrProto.step? ws).orElse fun _ => Ems.SelProto.step? ws).getD "BAD"
def main : IO Unit := loop step
