import EmsModel.Core.Export
import EmsModel.Core.GeomProto
/-! Line-protocol driver for C15 (geometry export).
`features <grids> <default> <bare|kinded> <rings>` → `n;[idx json];ring|…` (`(none)` if empty)
`dbf      <grids> <default> <bare|kinded> <rings>` → `name;n;[idx json]|…`
`members  <rings>`                                 → `ring|…` -/
open Ems Ems.Proto Ems.GeomProto

def parseGrids? (s : String) : Option (List (Kind × List Nat)) :=
  Proto.allSome ((s.splitOn ",").map fun g =>
    match g.splitOn "=" with
    | [k, sh] => (parseNatList? sh "x").map (fun l => (k, l))
    | _ => none)

def parseRings? (s : String) : Option (List (Option Poly)) :=
  Proto.allSome ((s.splitOn "|").map fun r => if r == "-" then some none else (parseRing? r).map some)

def showJ (j : J) : String :=
  "[" ++ joinWith "," (j.map fun a => match a with
    | .str s => "\"" ++ s ++ "\""
    | .num n => toString n) ++ "]"

def showIdx (style : IndexStyle) : Option (Kind × List Nat) → String
  | some i => showJ (encodeIndex style i)
  | none => "ERR"

def parseStyle? (s : String) : Option IndexStyle :=
  if s == "bare" then some .bare else if s == "kinded" then some .kinded else none

def step (line : String) : String :=
  match words line with
  | ["features", gs, dflt, style, rings] =>
    match parseGrids? gs, parseStyle? style, parseRings? rings with
    | some grids, some st, some ps =>
      let fs := features { grids := grids, default := dflt } ps
      if fs.isEmpty then "(none)" else
      joinWith "|" (fs.map fun f => s!"{f.linear};{showIdx st f.index};{showRing f.polygon}")
    | _, _, _ => "BAD"
  | ["dbf", gs, dflt, style, rings] =>
    match parseGrids? gs, parseStyle? style, parseRings? rings with
    | some grids, some st, some ps =>
      let rs := dbfRecords st { grids := grids, default := dflt } ps
      if rs.isEmpty then "(none)" else
      joinWith "|" (rs.map fun r => s!"{r.name};{showOptNat r.linear};{match r.index with | some j => showJ j | none => "ERR"}")
    | _, _, _ => "BAD"
  | ["members", rings] =>
    match parseRings? rings with
    | some ps => let m := multipolygon ps; if m.isEmpty then "(none)" else joinWith "|" (m.map showRing)
    | none => "BAD"
  | _ => "BAD"

def main : IO Unit := loop step
