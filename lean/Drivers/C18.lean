import EmsModel.Core.Transect
import EmsModel.Core.Proto
/-! Line-protocol driver for C18 (transects, path-parameter model).
`segments <n=a:b,a:b;n=a:b…|->`            → `n,start,stop|…` in path order | `(none)`
`columns  <layers v,v;v,v…> <linear idx,>` → rows `v,v;v,v` -/
open Ems Ems.Proto

def parsePieces? (s : String) : Option (List (Nat × List (Rat × Rat))) :=
  if s == "-" then some [] else
  Proto.allSome ((s.splitOn ";").map fun c =>
    match c.splitOn "=" with
    | [n, ps] => do
        let n ← parseNat? n
        let ps ← Proto.allSome ((ps.splitOn ",").map fun p =>
          match p.splitOn ":" with
          | [a, b] => do some ((← parseRat? a), (← parseRat? b))
          | _ => none)
        some (n, ps)
    | _ => none)

def step (line : String) : String :=
  match words line with
  | ["segments", pieces] =>
    match parsePieces? pieces with
    | some ps =>
      let segs := segments ps
      if segs.isEmpty then "(none)" else
      joinWith "|" (segs.map fun s => s!"{s.linear},{showRat s.start},{showRat s.stop}")
    | none => "BAD"
  | ["columns", layers, idx] =>
    match Proto.allSome ((layers.splitOn ";").map (parseIntList? ·)), parseNatList? idx with
    | some ls, some ix =>
      let segs : List Segment := ix.map fun n => { start := 0, stop := 0, linear := n }
      joinWith ";" ((transectColumns ls segs).map fun row =>
        joinWith "," (row.map fun v => match v with | some x => toString x | none => "ERR"))
    | _, _ => "BAD"
  | _ => "BAD"

def main : IO Unit := loop step
