import EmsModel.Core.Transect
import EmsModel.Core.PathClip
import EmsModel.Core.GeomProto
import EmsModel.Core.Proto
/-! Line-protocol driver for C18 (transects, path-parameter model).
`segments <n=a:b,a:b;n=a:b…|->`            → `n,start,stop|…` in path order | `(none)`
`columns  <layers v,v;v,v…> <linear idx,>` → rows `v,v;v,v`
`clip <ring> <path>`                       → `a:b,a:b…` | `-`: the stretches of the path inside the cell
                                             (`clipPathConvex` for a convex ring, which must then agree with
                                             `clipPathSimple`; `clipPathSimple` otherwise)
`convex <ring>`                            → `1` | `0`
`transect <path> <n=ring|n=ring…|->`       → as `segments`, the pieces being the Lean clips of the path
                                             against every listed cell
`propcheck <ring> <path>`                  → `ok` | `FAIL …`: ends and midpoint of every returned piece are
                                             points of the path inside the closed ring (exact point-in-polygon)
rings and paths: `x,y;x,y;…` -/
open Ems Ems.Proto Ems.GeomProto

def parsePieces? (s : String) : Option (List (Nat × List (Rat × Rat))) :=
  if s == "-" then some [] else
  Proto.allSome ((s.splitOn ";").map fun c =>
    match c.splitOn "=" with
    | [n, ps] => do
        let n ← parseNat? n
        let ps ← Proto.allSome ((ps.splitOn ",").map fun p =>
          match p.splitOn ":" with
          | [a, b] => do some ((← parseRat? a), (← parseRat? b))
          | _ => none)
        some (n, ps)
    | _ => none)

def parseCells? (s : String) : Option (List (Nat × Poly)) :=
  if s == "-" then some [] else
  Proto.allSome ((s.splitOn "|").map fun c =>
    match c.splitOn "=" with
    | [n, r] => do some ((← parseNat? n), (← parseRing? r))
    | _ => none)

def showPieces (ps : List (Rat × Rat)) : String :=
  if ps.isEmpty then "-" else joinWith "," (ps.map fun p => s!"{showRat p.1}:{showRat p.2}")

def showSegments (segs : List Segment) : String :=
  if segs.isEmpty then "(none)" else
  joinWith "|" (segs.map fun s => s!"{s.linear},{showRat s.start},{showRat s.stop}")

/-- the clip of the path against one cell, or the two answers when the proved convex clipper and
the event-based one differ on a convex ring -/
def clipChecked (poly : Poly) (path : List Pt) : Except String (List (Rat × Rat)) :=
  if convex poly then
    let c := clipPathConvex poly path
    let s := clipPathSimple poly path
    if c == s then .ok c else .error s!"DISAGREE convex={showPieces c} simple={showPieces s}"
  else .ok (clipPathSimple poly path)

/-- the point of the path at parameter `t` (`none` outside `[0, n-1]`) -/
def pathPointAt (path : List Pt) (t : Rat) : Option Pt :=
  if t < 0 then none else
  let k := min t.floor.toNat (path.length - 2)
  match path[k]?, path[k + 1]? with
  | some a, some b => if t - (k : Rat) ≤ 1 then some (legPoint a b (t - (k : Rat))) else none
  | _, _ => none

def step (line : String) : String :=
  match words line with
  | ["segments", pieces] =>
    match parsePieces? pieces with
    | some ps => showSegments (segments ps)
    | none => "BAD"
  | ["columns", layers, idx] =>
    match Proto.allSome ((layers.splitOn ";").map (parseIntList? ·)), parseNatList? idx with
    | some ls, some ix =>
      let segs : List Segment := ix.map fun n => { start := 0, stop := 0, linear := n }
      joinWith ";" ((transectColumns ls segs).map fun row =>
        joinWith "," (row.map fun v => match v with | some x => toString x | none => "ERR"))
    | _, _ => "BAD"
  | ["clip", ring, path] =>
    match parseRing? ring, parseRing? path with
    | some poly, some pts =>
      match clipChecked poly pts with
      | .ok ps => showPieces ps
      | .error e => e
    | _, _ => "BAD"
  | ["convex", ring] =>
    match parseRing? ring with
    | some poly => if convex poly then "1" else "0"
    | none => "BAD"
  | ["transect", path, cells] =>
    match parseRing? path, parseCells? cells with
    | some pts, some cs =>
      let clipped := cs.map fun c => (c.1, clipChecked c.2 pts)
      match clipped.find? (fun c => match c.2 with | .error _ => true | .ok _ => false) with
      | some (n, .error e) => s!"cell {n}: {e}"
      | _ =>
        showSegments (segments (clipped.map fun c => (c.1, match c.2 with | .ok ps => ps | .error _ => [])))
    | _, _ => "BAD"
  | ["propcheck", ring, path] =>
    match parseRing? ring, parseRing? path with
    | some poly, some pts =>
      match clipChecked poly pts with
      | .error e => e
      | .ok ps =>
        let bad := ps.filter fun p =>
          !(p.1 < p.2) ||
          !([p.1, (p.1 + p.2) / 2, p.2].all fun t =>
              match pathPointAt pts t with
              | some q => pointInPoly q poly && (!(convex poly) || insideConvexB poly q)
              | none => false)
        if bad.isEmpty then "ok" else s!"FAIL {showPieces bad}"
    | _, _ => "BAD"
  | _ => "BAD"

def main : IO Unit := loop step
