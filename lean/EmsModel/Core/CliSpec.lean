import EmsModel.Core.Cli
/-
Core/CliSpec.lean — the declarative reading of the bounds grammar
(`NUMBER`, `DECIMAL`, `bounds_re` of `emsarray/cli/utils.py`), against which the
deterministic parser `parseBounds` is proved correct, and a small regular-expression
syntax with its Python spelling, used to tie the grammar to the live pattern text.
-/
namespace Ems.Cli

/-- `\d+` : `cs` is a non-empty run of digit characters whose values are `ds`. -/
inductive IsDigitRun : List Char → List Nat → Prop
  | one {c d} : digitVal? c = some d → IsDigitRun [c] [d]
  | cons {c d cs ds} : digitVal? c = some d → IsDigitRun cs ds → IsDigitRun (c :: cs) (d :: ds)

/-- `NUMBER = \d+(?:_\d+)*` : digit runs joined by single underscores; `ds` are the values of
all the digits in order. -/
inductive IsNumber : List Char → List Nat → Prop
  | run {cs ds} : IsDigitRun cs ds → IsNumber cs ds
  | more {cs ds cs' ds'} : IsDigitRun cs ds → IsNumber cs' ds' →
      IsNumber (cs ++ '_' :: cs') (ds ++ ds')

/-- `NUMBER | NUMBER\. | \.NUMBER | NUMBER\.NUMBER` with its value. -/
inductive IsUnsigned : List Char → Rat → Prop
  | int {cs ds} : IsNumber cs ds → IsUnsigned cs (intValue ds)
  | intDot {cs ds} : IsNumber cs ds → IsUnsigned (cs ++ ['.']) (intValue ds)
  | frac {cs ds} : IsNumber cs ds → IsUnsigned ('.' :: cs) (fracValue ds)
  | intFrac {cs ds cs' ds'} : IsNumber cs ds → IsNumber cs' ds' →
      IsUnsigned (cs ++ '.' :: cs') (intValue ds + fracValue ds')

/-- `DECIMAL = -?(?:…)` with its value. -/
inductive IsDecimal : List Char → Rat → Prop
  | pos {cs v} : IsUnsigned cs v → IsDecimal cs v
  | neg {cs v} : IsUnsigned cs v → IsDecimal ('-' :: cs) (-v)

/-- `\s*` -/
def Blank (w : List Char) : Prop := ∀ c ∈ w, isSpace c = true

/-- The text `s`, in its entirety, is four numerals of the grammar separated by commas with
optional blanks on either side of each comma, and `b` holds their values. -/
def IsBounds (s : List Char) (b : Bounds) : Prop :=
  ∃ n1 n2 n3 n4 w1 w2 w3 w4 w5 w6 : List Char,
    s = n1 ++ w1 ++ ',' :: w2 ++ n2 ++ w3 ++ ',' :: w4 ++ n3 ++ w5 ++ ',' :: w6 ++ n4
    ∧ Blank w1 ∧ Blank w2 ∧ Blank w3 ∧ Blank w4 ∧ Blank w5 ∧ Blank w6
    ∧ IsDecimal n1 b.1 ∧ IsDecimal n2 b.2.1 ∧ IsDecimal n3 b.2.2.1 ∧ IsDecimal n4 b.2.2.2


/-! ## The regular expression as a syntax tree

Only the constructs the live pattern uses.  `pattern` spells a tree in Python's `re` syntax;
it adds no parentheses of its own, so only trees obeying the precedence discipline
`WellFormed` (alternation only directly inside a group, postfix operators only on atoms) are
spelled unambiguously. -/

inductive Re
  | digit                 -- `\d`
  | space                 -- `\s`
  | chr (c : Char)        -- a literal character (`.` is spelled `\.`)
  | seq (a b : Re)        -- `ab`
  | alt (a b : Re)        -- `a|b`
  | star (a : Re)         -- `a*`
  | plus (a : Re)         -- `a+`
  | opt (a : Re)          -- `a?`
  | group (a : Re)        -- `(a)`   capturing
  | ncgroup (a : Re)      -- `(?:a)` non-capturing
  deriving DecidableEq, Repr

namespace Re

def pattern : Re → String
  | digit => "\\d"
  | space => "\\s"
  | chr c => if c = '.' then "\\." else String.singleton c
  | seq a b => a.pattern ++ b.pattern
  | alt a b => a.pattern ++ "|" ++ b.pattern
  | star a => a.pattern ++ "*"
  | plus a => a.pattern ++ "+"
  | opt a => a.pattern ++ "?"
  | group a => "(" ++ a.pattern ++ ")"
  | ncgroup a => "(?:" ++ a.pattern ++ ")"

def isAtom : Re → Bool
  | digit | space | chr _ | group _ | ncgroup _ => true
  | _ => false

/-- `top = true`: an alternation is allowed here (top level or directly inside a group) -/
def wf : Bool → Re → Bool
  | _, digit | _, space => true
  | _, chr c => !(c = '\\' || c = '(' || c = ')' || c = '|' || c = '*' || c = '+' || c = '?'
      || c = '[' || c = ']' || c = '{' || c = '}' || c = '^' || c = '$')
  | _, seq a b => wf false a && wf false b
  | top, alt a b => top && wf false a && wf true b
  | _, star a | _, plus a | _, opt a => a.isAtom && wf false a
  | _, group a | _, ncgroup a => wf true a

/-- the language of a tree (standard semantics; a full match of the text) -/
inductive Matches : Re → List Char → Prop
  | digit {c} : isDigit c = true → Matches .digit [c]
  | space {c} : isSpace c = true → Matches .space [c]
  | chr {c} : Matches (.chr c) [c]
  | seq {a b s t} : Matches a s → Matches b t → Matches (.seq a b) (s ++ t)
  | altL {a b s} : Matches a s → Matches (.alt a b) s
  | altR {a b s} : Matches b s → Matches (.alt a b) s
  | starNil {a} : Matches (.star a) []
  | starCons {a s t} : Matches a s → Matches (.star a) t → Matches (.star a) (s ++ t)
  | plus {a s t} : Matches a s → Matches (.star a) t → Matches (.plus a) (s ++ t)
  | optNone {a} : Matches (.opt a) []
  | optSome {a s} : Matches a s → Matches (.opt a) s
  | group {a s} : Matches a s → Matches (.group a) s
  | ncgroup {a s} : Matches a s → Matches (.ncgroup a) s

end Re

open Re in
/-- `NUMBER = \d+(?:_\d+)*` -/
def numberRe : Re := .seq (.plus .digit) (.star (.ncgroup (.seq (.chr '_') (.plus .digit))))

open Re in
/-- `DECIMAL = (-?(?:NUMBER|NUMBER\.|\.NUMBER|NUMBER\.NUMBER))` -/
def decimalRe : Re :=
  .group (.seq (.opt (.chr '-')) (.ncgroup
    (.alt numberRe (.alt (.seq numberRe (.chr '.')) (.alt (.seq (.chr '.') numberRe)
      (.seq numberRe (.seq (.chr '.') numberRe)))))))

open Re in
/-- `\s*,\s*` -/
def sepRe : Re := .seq (.star .space) (.seq (.chr ',') (.star .space))

open Re in
/-- `r'\s*,\s*'.join([DECIMAL] * 4)` -/
def boundsAst : Re :=
  .seq decimalRe (.seq sepRe (.seq decimalRe (.seq sepRe (.seq decimalRe (.seq sepRe decimalRe)))))

/-- flags of a compiled `str` pattern without explicit flags: `re.UNICODE` -/
def boundsFlags : Nat := 32

end Ems.Cli
