import EmsModel.Core.Cli
/-
Core/CliSpec.lean — the declarative reading of the bounds grammar
(`NUMBER`, `DECIMAL`, `bounds_re` of `emsarray/cli/utils.py`), against which the
deterministic parser `parseBounds` is proved correct, and a small regular-expression
syntax with its Python spelling, used to tie the grammar to the live pattern text.
-/
namespace Ems.Cli

/-- `\d+` : `cs` is a non-empty run of digit characters whose values are `ds`. -/
inductive IsDigitRun : List Char → List Nat → Prop
  | one {c d} : digitVal? c = some d → IsDigitRun [c] [d]
  | cons {c d cs ds} : digitVal? c = some d → IsDigitRun cs ds → IsDigitRun (c :: cs) (d :: ds)

/-- `NUMBER = \d+(?:_\d+)*` : digit runs joined by single underscores; `ds` are the values of
all the digits in order. -/
inductive IsNumber : List Char → List Nat → Prop
  | run {cs ds} : IsDigitRun cs ds → IsNumber cs ds
  | more {cs ds cs' ds'} : IsDigitRun cs ds → IsNumber cs' ds' →
      IsNumber (cs ++ '_' :: cs') (ds ++ ds')

/-- `NUMBER | NUMBER\. | \.NUMBER | NUMBER\.NUMBER` with its value. -/
inductive IsUnsigned : List Char → Rat → Prop
  | int {cs ds} : IsNumber cs ds → IsUnsigned cs (intValue ds)
  | intDot {cs ds} : IsNumber cs ds → IsUnsigned (cs ++ ['.']) (intValue ds)
  | frac {cs ds} : IsNumber cs ds → IsUnsigned ('.' :: cs) (fracValue ds)
  | intFrac {cs ds cs' ds'} : IsNumber cs ds → IsNumber cs' ds' →
      IsUnsigned (cs ++ '.' :: cs') (intValue ds + fracValue ds')

/-- `DECIMAL = -?(?:…)` with its value. -/
inductive IsDecimal : List Char → Rat → Prop
  | pos {cs v} : IsUnsigned cs v → IsDecimal cs v
  | neg {cs v} : IsUnsigned cs v → IsDecimal ('-' :: cs) (-v)

/-- `\s*` -/
def Blank (w : List Char) : Prop := ∀ c ∈ w, isSpace c = true

/-- The text `s`, in its entirety, is four numerals of the grammar separated by commas with
optional blanks on either side of each comma, and `b` holds their values. -/
def IsBounds (s : List Char) (b : Bounds) : Prop :=
  ∃ n1 n2 n3 n4 w1 w2 w3 w4 w5 w6 : List Char,
    s = n1 ++ w1 ++ ',' :: w2 ++ n2 ++ w3 ++ ',' :: w4 ++ n3 ++ w5 ++ ',' :: w6 ++ n4
    ∧ Blank w1 ∧ Blank w2 ∧ Blank w3 ∧ Blank w4 ∧ Blank w5 ∧ Blank w6
    ∧ IsDecimal n1 b.1 ∧ IsDecimal n2 b.2.1 ∧ IsDecimal n3 b.2.2.1 ∧ IsDecimal n4 b.2.2.2

end Ems.Cli
