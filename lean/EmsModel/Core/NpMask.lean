import EmsModel.Core.NpExpr
import EmsModel.Core.Mask
/-
Core/NpMask.lean — two-dimensional boolean masks (`Ems.Clip.Mask`, rows of `Bool`) as arrays of the numpy
expression language (`NpArr`, `0` / `1`), so that the masks `arakawa_c.c_mask_from_centres` builds with
`masking.smear_mask` — translated from the source into `Gen.cMaskLeft`, `Gen.cMaskBack`, `Gen.cMaskNode` — can be
compared with `Ems.Clip.cMaskFromCentres`.  Core Lean only.
-/
namespace Ems
open Ems.Clip

/-- the `(ny, nx)` boolean array of a mask: element `[j, i]` is `m[j, i]` as `0` / `1` -/
def maskArr (m : Mask) : NpArr :=
  NpArr.tabulate [m.ny, m.nx] fun idx => boolVal (m.get (idx.getD 0 0) (idx.getD 1 0))

/-- `arakawa_c.c_mask_from_centres`: the boolean `face_mask` -/
def cMaskEnv (face : Mask) : NpEnv :=
  { arrs := [("face_mask", maskArr face)], sizes := [] }

/-- `masking.blur_mask(arr, size)`: the boolean array and the kernel size -/
def blurEnv (m : Mask) (size : Nat) : NpEnv :=
  { arrs := [("arr", maskArr m)], sizes := [("size", size)] }

/-- a boolean array as `<ny>x<nx>:0110…` (the way the C07 driver prints a mask; `-` for no element); an element
that is not `0` / `1` shows as `?`, an array of another rank as `RANK` -/
def showMaskArr (a : NpArr) : String :=
  match a.shape with
  | [ny, nx] =>
    let bit (v : Option Rat) : String := if v == some 0 then "0" else if v == some 1 then "1" else "?"
    s!"{ny}x{nx}:" ++ (if a.data.isEmpty then "-" else String.join (a.data.map bit))
  | _ => "RANK"

end Ems
