import EmsModel.Core.Shape
/-
Core/CacheKey.lean — the byte stream that `emsarray.operations.cache.make_cache_key`
feeds to its hash object.

Models (src/emsarray/operations/cache.py, src/emsarray/conventions/_base.py):
  `hash_int`         range check, then the 4 little-endian bytes of `numpy.int32(value)`
  `hash_string`      `hash_int(len(value))` (number of code points) then the UTF-8 bytes
  `hash_attributes`  `hash_int(4)`, `hash_int(len(attrs))`, `hash_int(len(blob))`, `blob`
                     where `blob = marshal.dumps(attrs, 4)` is an OPAQUE byte string here
  `Convention.hash_geometry`  per geometry variable, in inventory order:
                     name, dtype name, size, shape (int32 each, NOT length-prefixed),
                     raw C-order bytes, attributes
  `make_cache_key`   geometry, then module, class name, package version as strings

`none` = the Python call raises (OverflowError / UnicodeEncodeError).
The hash function itself (blake2b) is a parameter `H`.
Total, computable, core Lean only.
-/
namespace Ems.CacheKey

abbrev Bytes := List UInt8

/-- The four little-endian bytes of `n mod 2^32` — `numpy.int32(v).tobytes()` for the
two's-complement residue `n` of `v`. -/
def le32 (n : Nat) : Bytes :=
  [UInt8.ofNat (n % 256), UInt8.ofNat (n / 256 % 256),
   UInt8.ofNat (n / 65536 % 256), UInt8.ofNat (n / 16777216 % 256)]

def int32Min : Int := -2147483648
def int32Max : Int := 2147483647

/-- `hash_int(hash, value)`: values outside `numpy.int32` raise `OverflowError`
(`none`); they are never wrapped. -/
def hashInt (v : Int) : Option Bytes :=
  if int32Min ≤ v ∧ v ≤ int32Max then some (le32 (v % 4294967296).toNat) else none

/-- Reads a 4-byte little-endian two's-complement integer back. -/
def decode32 : Bytes → Option Int
  | [a, b, c, d] =>
    let n := a.toNat + 256 * b.toNat + 65536 * c.toNat + 16777216 * d.toNat
    some (if n < 2147483648 then (n : Int) else (n : Int) - 4294967296)
  | _ => none

/-- `str.encode('utf-8')` of a string of Unicode scalar values. -/
def utf8Chars (cs : List Char) : Bytes := cs.flatMap String.utf8EncodeChar

def utf8 (s : String) : Bytes := utf8Chars s.toList

/-- `hash_string(hash, value)`: the number of code points, then the UTF-8 bytes. -/
def hashChars (cs : List Char) : Option Bytes :=
  (hashInt cs.length).map (· ++ utf8Chars cs)

def hashString (s : String) : Option Bytes := hashChars s.toList

/-- A Python `str` is a sequence of code points that may contain lone surrogates,
which `encode('utf-8')` refuses (`UnicodeEncodeError`).  `none` = not encodable. -/
def charsOfCodePoints : List Nat → Option (List Char)
  | [] => some []
  | n :: ns =>
    if h : n.isValidChar then (charsOfCodePoints ns).map (Char.ofNatAux n h :: ·) else none

/-- `hash_string` on a raw code point sequence. -/
def hashCodePoints (cps : List Nat) : Option Bytes :=
  match charsOfCodePoints cps with
  | none => none
  | some cs => hashChars cs

/-- `hash_attributes(hash, attrs)` with `count = len(attrs)`, `blob = marshal.dumps(attrs, 4)`. -/
def hashAttrs (count : Nat) (blob : Bytes) : Option Bytes :=
  match hashInt 4, hashInt count, hashInt blob.length with
  | some v, some c, some l => some (v ++ c ++ l ++ blob)
  | _, _, _ => none

/-- `numpy.array(shape, dtype='int32').tobytes('C')`: every extent as int32,
no length prefix.  (numpy ≥ 2 raises `OverflowError` for an extent outside int32.) -/
def shapeBytes : List Nat → Option Bytes
  | [] => some []
  | d :: ds =>
    match hashInt d, shapeBytes ds with
    | some a, some b => some (a ++ b)
    | _, _ => none

/-- What `hash_geometry` reads of one geometry variable. -/
structure GeomRec where
  name : String
  /-- `data_array.encoding.get('dtype', data_array.values.dtype).name` -/
  dtype : String
  shape : List Nat
  /-- `data_array.to_numpy().tobytes('C')` -/
  data : Bytes
  /-- `len(data_array.attrs)` -/
  attrCount : Nat
  /-- `marshal.dumps(data_array.attrs, 4)` -/
  attrBlob : Bytes
deriving DecidableEq, Repr

/-- The bytes one geometry variable contributes (one pass of the loop in `hash_geometry`). -/
def hashVar (r : GeomRec) : Option Bytes :=
  match hashString r.name, hashString r.dtype, hashInt (Ems.size r.shape),
        shapeBytes r.shape, hashAttrs r.attrCount r.attrBlob with
  | some n, some t, some s, some sh, some a => some (n ++ (t ++ (s ++ (sh ++ (r.data ++ a)))))
  | _, _, _, _, _ => none

/-- `Convention.hash_geometry`: the geometry variables in inventory order. -/
def hashGeometry : List GeomRec → Option Bytes
  | [] => some []
  | r :: rs =>
    match hashVar r, hashGeometry rs with
    | some a, some b => some (a ++ b)
    | _, _ => none

/-- Identity of the convention class: `__module__` and `__name__`. -/
structure ConvId where
  module : String
  className : String
deriving DecidableEq, Repr

/-- The three strings `make_cache_key` appends after the geometry. -/
def trailer (c : ConvId) (version : String) : Option Bytes :=
  match hashString c.module, hashString c.className, hashString version with
  | some m, some n, some v => some (m ++ (n ++ v))
  | _, _, _ => none

/-- Everything `make_cache_key` feeds to the hash object, in order. -/
def cacheStream (rs : List GeomRec) (c : ConvId) (version : String) : Option Bytes :=
  match hashGeometry rs, trailer c version with
  | some g, some t => some (g ++ t)
  | _, _ => none

/-- `make_cache_key(dataset, hash)`: the digest `H` of the stream. -/
def cacheKey {D : Type} (H : Bytes → D) (rs : List GeomRec) (c : ConvId) (version : String) :
    Option D :=
  (cacheStream rs c version).map H

/-! ### The order of the fields, declared (tied to the source by T)

`harness/tables.py` reads the statements of `hash_geometry`, `make_cache_key`, `hash_string`, `hash_attributes` and
`hash_int` off their ASTs as (hash function, text of what is hashed) and regenerates them into `Gen/Tables.lean`.
Below, the model says in the same vocabulary which fields it hashes in which order; `Props/C16.lean` proves that
these declarations equal the generated lists, and that `hashVar`, `trailer`, `hashChars`, `hashAttrs`,
`hashGeometry` and `cacheStream` ARE the concatenation of the declared pieces in the declared order. -/

/-- concatenation of the pieces of a stream in order; `none` as soon as one piece raises -/
def seqBytes : List (Option Bytes) → Option Bytes
  | [] => some []
  | p :: ps =>
    match p, seqBytes ps with
    | some a, some b => some (a ++ b)
    | _, _ => none

/-- the things `hash_geometry` hashes of one geometry variable -/
inductive VarField
  | name | dtype | size | shape | data | attrs
  deriving DecidableEq, Repr

/-- how the loop body of `hash_geometry` spells the field: (hash function, argument), with `name` the loop
variable and `var` the data array `self.dataset[name]` -/
def VarField.source : VarField → String × String
  | .name => ("hash_string", "str(name)")
  | .dtype => ("hash_string", "var.encoding.get('dtype', var.values.dtype).name")
  | .size => ("hash_int", "var.size")
  | .shape => ("update", "numpy.array(var.shape, dtype='int32').tobytes('C')")
  | .data => ("update", "var.to_numpy().tobytes('C')")
  | .attrs => ("hash_attributes", "var.attrs")

/-- the bytes the field contributes -/
def VarField.bytes (r : GeomRec) : VarField → Option Bytes
  | .name => hashString r.name
  | .dtype => hashString r.dtype
  | .size => hashInt (Ems.size r.shape)
  | .shape => shapeBytes r.shape
  | .data => some r.data
  | .attrs => hashAttrs r.attrCount r.attrBlob

def VarField.all : List VarField := [.name, .dtype, .size, .shape, .data, .attrs]

/-- the order in which `hashVar` hashes the fields -/
def hashVarOrder : List VarField := [.name, .dtype, .size, .shape, .data, .attrs]

/-- the loop body of `hash_geometry` as the model has it: (hash function, what is hashed), in order -/
def hashVarFields : List (String × String) := hashVarOrder.map VarField.source

/-- the bytes of a field given by its spelling; a spelling the model does not know contributes an error -/
def fieldBytes (r : GeomRec) (f : String × String) : Option Bytes :=
  match VarField.all.find? (fun v => v.source = f) with
  | some v => v.bytes r
  | none => none

/-- what the loop of `hash_geometry` runs over, and what `var` stands for -/
def hashGeometryOver : List (String × String) :=
  [("for", "self.get_all_geometry_names()"), ("var", "self.dataset[name]")]

/-- the three strings of the trailer -/
inductive TrailerField
  | module | className | version
  deriving DecidableEq, Repr

def TrailerField.source : TrailerField → String × String
  | .module => ("hash_string", "dataset.ems.__class__.__module__")
  | .className => ("hash_string", "dataset.ems.__class__.__name__")
  | .version => ("hash_string", "emsarray.__version__")

def TrailerField.bytes (c : ConvId) (version : String) : TrailerField → Option Bytes
  | .module => hashString c.module
  | .className => hashString c.className
  | .version => hashString version

def TrailerField.all : List TrailerField := [.module, .className, .version]

/-- the order in which `trailer` hashes them -/
def trailerOrder : List TrailerField := [.module, .className, .version]

/-- what `make_cache_key` hashes after the geometry, as the model has it -/
def trailerFields : List (String × String) := trailerOrder.map TrailerField.source

def trailerFieldBytes (c : ConvId) (version : String) (f : String × String) : Option Bytes :=
  match TrailerField.all.find? (fun v => v.source = f) with
  | some v => v.bytes c version
  | none => none

/-- `make_cache_key` as the model has it: the geometry, the trailer, the digest -/
def makeCacheKeyFields : List (String × String) :=
  ("hash_geometry", "dataset.ems") :: trailerFields ++ [("return", "hash.hexdigest()")]

/-- `hash_string` as `hashChars` has it: the number of code points, then the UTF-8 bytes -/
def hashStringFields : List (String × String) :=
  [("hash_int", "len(value)"), ("update", "value.encode('utf-8')")]

/-- `hash_attributes` as `hashAttrs` has it: marshal version 4, number of attributes, length of the blob, the blob -/
def hashAttrsFields : List (String × String) :=
  [("hash_int", "4"), ("hash_int", "len(attributes)"), ("hash_int", "len(marshal.dumps(attributes, 4))"),
   ("update", "marshal.dumps(attributes, 4)")]

/-- `hash_int` as `hashInt` has it: inside the int32 range the bytes of `numpy.int32(value)`, outside it an error -/
def hashIntFields : List (String × String) :=
  [("with", "numpy.errstate(over='raise')"),
   ("if", "numpy.iinfo('int32').min <= value <= numpy.iinfo('int32').max"),
   ("update", "numpy.int32(value).tobytes()"), ("else", ""), ("raise", "OverflowError"), ("endif", "")]

/-! ### Positions inside the stream (for "a byte at a computable position") -/

/-- Offset of the raw data bytes inside one variable's contribution:
`4 + |utf8 name| + 4 + |utf8 dtype| + 4 + 4·ndim`. -/
def dataOffset (r : GeomRec) : Nat :=
  4 + (utf8 r.name).length + (4 + (utf8 r.dtype).length + (4 + 4 * r.shape.length))

/-- Number of bytes one variable contributes:
header, data, then `12 + |blob|` for the attributes. -/
def varLength (r : GeomRec) : Nat :=
  dataOffset r + r.data.length + (12 + r.attrBlob.length)

def geomLength (rs : List GeomRec) : Nat := (rs.map varLength).sum

/-- Absolute position in the stream of byte `k` of the data of variable number `i`. -/
def valuePos (rs : List GeomRec) (i k : Nat) : Nat :=
  geomLength (rs.take i) + (match rs[i]? with | some r => dataOffset r | none => 0) + k

/-! ### hypotheses of the injectivity theorem -/

/-- Same number of variables, pairwise the same rank. -/
def SameRanks (rs rs' : List GeomRec) : Prop :=
  rs.map (·.shape.length) = rs'.map (·.shape.length)

/-- The data of a variable has `size · itemsize(dtype name)` bytes. -/
def WellFormed (itemsize : String → Nat) (r : GeomRec) : Prop :=
  r.data.length = Ems.size r.shape * itemsize r.dtype

/-- Two variables that differ in rank and contribute the same bytes (the witness of
`stream_not_injective`): int32 `[1, 4]` of shape `(2,)` with four attributes whose blob is
`00 00 00 00`, and int32 `[4, 4]` of shape `(2, 1)` with four attributes and an empty blob. -/
def witnessA : GeomRec :=
  { name := "a", dtype := "i", shape := [2], data := le32 1 ++ le32 4, attrCount := 4, attrBlob := [0, 0, 0, 0] }
def witnessB : GeomRec :=
  { name := "a", dtype := "i", shape := [2, 1], data := le32 4 ++ le32 4, attrCount := 4, attrBlob := [] }

end Ems.CacheKey
