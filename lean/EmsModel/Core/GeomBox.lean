/-
`CFGrid1D.geometry`: the overall geometry of an axis-aligned grid is taken to be the box spanned by
its bounds, provided neighbouring cells leave no gap (each cell starts where the previous one ended);
otherwise it is the union of the cell polygons.
-/
namespace Ems

/-- `numpy.array_equal(bounds[1:, 0], bounds[:-1, 1])` -/
def contiguous (b : List (Rat × Rat)) : Bool :=
  (b.drop 1).map Prod.fst == b.dropLast.map Prod.snd

/-- all stored bound values of an axis -/
def boundEnds (b : List (Rat × Rat)) : List Rat := b.flatMap fun c => [c.1, c.2]

def ratMin (a b : Rat) : Rat := if a ≤ b then a else b
def ratMax (a b : Rat) : Rat := if a ≤ b then b else a

/-- `numpy.nanmin` of a list without missing values -/
def minL : List Rat → Option Rat
  | [] => none
  | x :: xs => some (match minL xs with | none => x | some m => ratMin x m)

def maxL : List Rat → Option Rat
  | [] => none
  | x :: xs => some (match maxL xs with | none => x | some m => ratMax x m)

/-- what `CFGrid1D.geometry` returns: `some (minx, miny, maxx, maxy)` = that box; `none` = the union of the cells -/
def cf1dGeometryBox (lonb latb : List (Rat × Rat)) : Option (Rat × Rat × Rat × Rat) :=
  if contiguous lonb && contiguous latb then
    match minL (boundEnds lonb), minL (boundEnds latb), maxL (boundEnds lonb), maxL (boundEnds latb) with
    | some x0, some y0, some x1, some y1 => some (x0, y0, x1, y1)
    | _, _, _, _ => none
  else none

/-- a coordinate lies in a cell's interval, whichever way round the two bounds are stored -/
def inCell (p : Rat) (c : Rat × Rat) : Prop := (c.1 ≤ p ∧ p ≤ c.2) ∨ (c.2 ≤ p ∧ p ≤ c.1)

end Ems
