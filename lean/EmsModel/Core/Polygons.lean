import EmsModel.Core.Geom
/-
Core/Polygons.lean — cell polygons of every convention, in linear (row-major) order.

Models
* `CFGrid1DTopology._get_or_make_bounds` (`midBounds`) and `CFGrid1D._make_polygons` (`cf1dPolys`)
* `CFGrid2DTopology._get_or_make_bounds` (`derived2d`) and `CFGrid2D._make_polygons` (`cf2dPolys`)
* `ArakawaC._make_polygons` (`arakawaPolys`)
* `UGrid._make_polygons` (`ugridPolys`)
* `utils.make_polygons_with_holes` (a cell with any missing corner has no polygon)
* `Convention.polygons` (`keepValid`: invalid → none), `mask`, `bounds`, face centres.
A missing value (NaN) is `none`.
-/
namespace Ems

/-- all-or-nothing -/
def allSomeL {β : Type} : List (Option β) → Option (List β)
  | [] => some []
  | none :: _ => none
  | some x :: xs => (allSomeL xs).map (x :: ·)

/-! ### CF 1-D -/

/-- midpoints with half-gap extrapolation; needs at least two values (the code indexes `values[1]`) -/
def midBounds (vals : List Rat) : Option (List (Rat × Rat)) :=
  match vals with
  | v0 :: v1 :: _ =>
    let n := vals.length
    let last := vals.getD (n - 1) 0
    let prev := vals.getD (n - 2) 0
    let mids := [v0 - (v1 - v0) / 2] ++ (vals.zip (vals.drop 1)).map (fun p => (p.2 + p.1) / 2) ++ [last + (last - prev) / 2]
    some (mids.zip (mids.drop 1))
  | _ => none

/-- corner order of a 1-D grid cell: (x0,y0) (x1,y0) (x1,y1) (x0,y1) -/
def rect (xb yb : Rat × Rat) : Poly := [(xb.1, yb.1), (xb.2, yb.1), (xb.2, yb.2), (xb.1, yb.2)]

/-- cell (j, i) at linear position `j * nx + i` -/
def cf1dPolys (lonb latb : List (Rat × Rat)) : List (Option Poly) :=
  latb.flatMap fun yb => lonb.map fun xb => some (rect xb yb)

def cf1dCentres (lon lat : List Rat) : List Pt :=
  lat.flatMap fun y => lon.map fun x => (x, y)

/-! ### 2-D grids -/

abbrev Grid (β : Type) := List (List β)

def Grid.get {β : Type} (g : Grid β) (j i : Nat) : Option β := (g[j]?).bind (·[i]?)

/-- `grid[j][i]` with out-of-array treated as the padding value -/
def Grid.getPad (g : Grid (Option Rat)) (j i : Int) : Option Rat :=
  if j < 0 || i < 0 then none else (g.get j.toNat i.toNat).join

def isNanAt (g : Grid (Option Rat)) (j i : Int) : Bool :=
  if j < 0 || i < 0 then false else
    match g.get j.toNat i.toNat with
    | some none => true
    | _ => false

/-- `numpy.nanmean` of a list: mean of the present values, `none` if there is none -/
def nanmean (l : List (Option Rat)) : Option Rat :=
  let xs := l.filterMap id
  if xs.isEmpty then none else some (xs.foldl (· + ·) 0 / xs.length)

/-- `CFGrid2DTopology._get_or_make_bounds` without stored bounds, for one coordinate:
discard cells bound by NaN on both sides along an axis, average the up-to-four surrounding
centres onto the `(ny+1) x (nx+1)` corner grid, then give each cell its four corners
`(j,i) (j,i+1) (j+1,i+1) (j+1,i)` — all four or nothing. -/
def derived2d (c : Grid (Option Rat)) (ny nx : Nat) : Grid (Option (List Rat)) :=
  let vals : Grid (Option Rat) := (List.range ny).map fun (j : Nat) => (List.range nx).map fun (i : Nat) =>
    let jb := isNanAt c ((j : Int) - 1) (i : Int) && isNanAt c ((j : Int) + 1) (i : Int)
    let ib := isNanAt c (j : Int) ((i : Int) - 1) && isNanAt c (j : Int) ((i : Int) + 1)
    if jb || ib then none else (c.get j i).join
  let corner (gj gi : Nat) : Option Rat :=
    nanmean [vals.getPad ((gj : Int) - 1) ((gi : Int) - 1), vals.getPad ((gj : Int) - 1) (gi : Int),
             vals.getPad (gj : Int) ((gi : Int) - 1), vals.getPad (gj : Int) (gi : Int)]
  (List.range ny).map fun j => (List.range nx).map fun i =>
    allSomeL [corner j i, corner j (i + 1), corner (j + 1) (i + 1), corner (j + 1) i]

/-- polygons from per-cell corner lists of the two coordinates (stored or derived bounds):
a cell with any missing corner in either coordinate has no polygon -/
def cf2dPolys (lonb latb : Grid (Option (List Rat))) : List (Option Poly) :=
  (lonb.zip latb).flatMap fun (xr, yr) => (xr.zip yr).map fun (xs, ys) =>
    match xs, ys with
    | some xs, some ys => some (xs.zip ys)
    | _, _ => none

/-- stored `(ny, nx, 4)` bounds of one coordinate: all four corners or nothing -/
def storedCorners (b : Grid (List (Option Rat))) : Grid (Option (List Rat)) :=
  b.map fun row => row.map allSomeL

def gridCentres (lon lat : Grid (Option Rat)) : List (Option Rat × Option Rat) :=
  (lon.zip lat).flatMap fun (xr, yr) => xr.zip yr

/-- `ArakawaC._make_polygons`: cell (j,i) from nodes (j,i) (j,i+1) (j+1,i+1) (j+1,i) -/
def arakawaPolys (xg yg : Grid (Option Rat)) (ny nx : Nat) : List (Option Poly) :=
  (List.range ny).flatMap fun j => (List.range nx).map fun i =>
    let nd (jj ii : Nat) : Option Pt :=
      match (xg.get jj ii).join, (yg.get jj ii).join with
      | some x, some y => some (x, y)
      | _, _ => none
    allSomeL [nd j i, nd j (i + 1), nd (j + 1) (i + 1), nd (j + 1) i]

/-! ### UGRID -/

/-- `UGrid._make_polygons`: a face's nodes in listed order -/
def ugridPolys (nodes : List Pt) (faces : List (List Nat)) : List (Option Poly) :=
  faces.map fun f => allSomeL (f.map fun n => nodes[n]?)

/-! ### validity, mask, extent -/

/-- `Convention.polygons`: an invalid polygon is dropped (replaced by `None`) -/
def keepValid (isValid : Poly → Bool) (raw : List (Option Poly)) : List (Option Poly) :=
  raw.map fun p => p.bind fun q => if isValid q then some q else none

/-- `Convention.mask` -/
def polyMask (polys : List (Option Poly)) : List Bool := polys.map Option.isSome

/-- a warning is emitted iff some polygon was dropped for invalidity -/
def invalidDropped (isValid : Poly → Bool) (raw : List (Option Poly)) : Bool :=
  raw.any fun p => match p with
    | some q => !isValid q
    | none => false

/-- bounding box of all vertices of the kept polygons -/
def polysBounds (polys : List (Option Poly)) : Option (Rat × Rat × Rat × Rat) :=
  bbox (polys.filterMap id).flatten

end Ems
