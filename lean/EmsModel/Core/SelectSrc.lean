import EmsModel.Core.Select
/-
Core/SelectSrc.lean — the language the index-selection functions of `conventions/_base.py` are translated into
(harness/trans_selectsrc.py → Gen/SelectSrc.lean), with total evaluators.

* `Selector`  = `DimensionConvention.selector_for_indexes`: the default dimension name, the refusals as a decision list in
  source order, where the grid kind comes from, the dimensions enumerated, and which slice of the index array each selector
  variable holds.
* `SelIdx`    = `Convention.select_indexes`: which dataset is the base (by `drop_geometry`), the kept-variables test, `isel`.
* `DropGeom`  = `Convention.drop_geometry`;  `SelOne` = `select_index`;  `SelPoint` = `select_point`.

Trusted meanings (not read from emsarray): `selIselBy` (xarray's vectorised `Dataset.isel` by a dataset of 1-d indexers along a
shared dimension: range check per row, an indexer for a dimension no variable has is refused, every variable sliced by
`NArr.selectVar`), `numpy.array` of the index tuples having shape `(len(indexes), len(dimensions))` (tuples of another length
count as an error, `unpack_index` never yields them), `drop_vars` as a filter on names.
-/
namespace Ems
namespace SelectSrc

/-- the integer quantities the refusals test -/
inductive Qty
  | lenIndexes                 -- `len(indexes)`
  | numKinds                   -- `len(set(grid_kinds))` of the unpacked indexes
  | unknown (py : String)
deriving Repr, DecidableEq

inductive Cmp | eq | ne | gt | ge | lt | le | unknown
deriving Repr, DecidableEq

/-- `if <q> <cmp> <n>: raise ValueError(...)` -/
structure Guard where
  q : Qty
  cmp : Cmp
  n : Nat
deriving Repr, DecidableEq

/-- the iterable handed to `enumerate` -/
inductive DimOrder
  | asIs                       -- `enumerate(dimensions)`
  | reversed                   -- `enumerate(reversed(dimensions))` / `dimensions[::-1]`
  | unknown (py : String)
deriving Repr, DecidableEq

/-- the slice of `index_array` (shape `(len(indexes), len(dimensions))`) a selector variable holds; `i` is the loop counter -/
inductive Slice
  | colLoop                    -- `index_array[:, i]`
  | rowLoop                    -- `index_array[i, :]` / `index_array[i]`
  | colConst (k : Nat)         -- `index_array[:, k]`
  | unknown (py : String)
deriving Repr, DecidableEq

structure Selector where
  /-- `if index_dimension is None: index_dimension = utils.find_unused_dimension(self.dataset, <prefix>)` -/
  defaultPrefix : Option String
  /-- the refusals, in source order -/
  guards : List Guard
  /-- `grid_kinds, index_tuples = zip(*[self.unpack_index(index) for index in indexes])` -/
  unpacksAll : Bool
  /-- `grid_kind = grid_kinds[k]` -/
  kindFrom : Option Nat
  /-- `dimensions = self.grid_dimensions[grid_kind]` -/
  dimsOfKind : Bool
  /-- `index_array = numpy.array(index_tuples)` -/
  arrayOfTuples : Bool
  order : DimOrder
  /-- the comprehension's key is the enumerated dimension -/
  keyIsDim : Bool
  /-- every variable lies along `index_dimension` -/
  alongIndexDim : Bool
  slice : Slice
deriving Repr, DecidableEq

/-- `len(set(l))` -/
def numDistinct : List String → Nat
  | [] => 0
  | x :: xs => if xs.contains x then numDistinct xs else numDistinct xs + 1

def Qty.eval : Qty → List (String × List Nat) → Option Nat
  | .lenIndexes, ix => some ix.length
  | .numKinds, ix => some (numDistinct (ix.map (·.1)))
  | .unknown _, _ => none

def Cmp.eval : Cmp → Nat → Nat → Option Bool
  | .eq, a, b => some (a == b)
  | .ne, a, b => some (a != b)
  | .gt, a, b => some (decide (a > b))
  | .ge, a, b => some (decide (a ≥ b))
  | .lt, a, b => some (decide (a < b))
  | .le, a, b => some (decide (a ≤ b))
  | .unknown, _, _ => none

/-- does the guard raise? `none` = the test is not understood -/
def Guard.fires (g : Guard) (ix : List (String × List Nat)) : Option Bool :=
  match g.q.eval ix with
  | none => none
  | some v => g.cmp.eval v g.n

/-- all guards pass (in order; an unknown one counts as raising) -/
def guardsPass : List Guard → List (String × List Nat) → Bool
  | [], _ => true
  | g :: gs, ix => match g.fires ix with
    | some false => guardsPass gs ix
    | _ => false

def DimOrder.apply : DimOrder → List Dim → Option (List Dim)
  | .asIs, l => some l
  | .reversed, l => some l.reverse
  | .unknown _, _ => none

def Slice.known : Slice → Bool
  | .unknown _ => false
  | _ => true

def Slice.eval : Slice → List (String × List Nat) → Nat → List Nat
  | .colLoop, ix, i => ix.map (·.2.getD i 0)
  | .rowLoop, ix, i => ((ix[i]?).map (·.2)).getD []
  | .colConst k, ix, _ => ix.map (·.2.getD k 0)
  | .unknown _, _, _ => []

/-- the selector dataset: the index dimension's name, and per grid dimension (with its size) the indexer values along it -/
abbrev SelVal := String × List (Dim × List Nat)

/-- run `selector_for_indexes(indexes, index_dimension=indexDim)`; `none` = an exception.
`grids` = `grid_dimensions` with sizes, `dsDims` = the dataset's dimension names. -/
def Selector.run (s : Selector) (grids : List (String × List Dim)) (dsDims : List String)
    (indexes : List (String × List Nat)) (indexDim : Option String) : Option SelVal :=
  match (match indexDim with
         | some d => some d
         | none => s.defaultPrefix.map (fun p => NArr.findUnused dsDims p)) with
  | none => none
  | some along =>
    if !guardsPass s.guards indexes then none else
    if !(s.unpacksAll && s.dimsOfKind && s.arrayOfTuples && s.keyIsDim && s.alongIndexDim && s.slice.known) then none else
    match s.kindFrom.bind (indexes[·]?) with
    | none => none
    | some kind =>
      match (grids.find? (fun g => g.1 == kind.1)).map (·.2) with
      | none => none
      | some gd =>
        if !indexes.all (fun i => i.2.length == gd.length) then none else
        match s.order.apply gd with
        | none => none
        | some dims =>
          some (along, (List.range dims.length).map fun i => (dims.getD i ("", 0), s.slice.eval indexes i))

/-- xarray's `Dataset.isel(selector)` with `selector` a dataset of 1-d indexers along `along` (length `n`). -/
def selIselBy {α : Type} [Inhabited α] (ds : DSet α) (along : String) (n : Nat) (sel : List (Dim × List Nat)) :
    Option (DSet α) :=
  let rows := (List.range n).map fun k => sel.map (·.2.getD k 0)
  let names := sel.map (·.1.1)
  if rows.any (fun r => !decide (InRange (sel.map (·.1.2)) r)) then none else
  if names.any (fun d => !ds.any (fun v => v.2.names.contains d)) then none else
  some (ds.map fun v => (v.1, v.2.selectVar names rows along))

/-- `Convention.drop_geometry`: `self.dataset.drop_vars(self.get_all_geometry_names())` -/
structure DropGeom where
  ofDataset : Bool
  dropsAllGeometryNames : Bool
deriving Repr, DecidableEq

def DropGeom.run {α : Type} (d : DropGeom) (ds : DSet α) (geometry : List String) : Option (DSet α) :=
  if d.ofDataset && d.dropsAllGeometryNames then some (ds.filter fun v => !geometry.contains v.1) else none

/-- the dataset the variables are taken from -/
inductive Base
  | dropGeometry               -- `self.drop_geometry()`
  | dataset                    -- `self.dataset`
  | unknown (py : String)
deriving Repr, DecidableEq

def Base.eval {α : Type} (dg : DropGeom) : Base → DSet α → List String → Option (DSet α)
  | .dropGeometry, ds, geometry => dg.run ds geometry
  | .dataset, ds, _ => some ds
  | .unknown _, _, _ => none

/-- the test that keeps a variable, on the selector's dimensions and the variable's -/
inductive KeepTest
  | anyShared                  -- `dims.intersection(data_array.dims)` is non-empty
  | allShared                  -- every dimension of the variable is among the selector's
  | always
  | unknown (py : String)
deriving Repr, DecidableEq

def KeepTest.known : KeepTest → Bool
  | .unknown _ => false
  | _ => true

def KeepTest.eval : KeepTest → List String → List String → Bool
  | .anyShared, sel, v => v.any (sel.contains ·)
  | .allShared, sel, v => v.all (sel.contains ·)
  | .always, _, _ => true
  | .unknown _, _, _ => false

structure SelIdx where
  /-- `selector = self.selector_for_indexes(indexes, index_dimension=index_dimension)` -/
  selectorCall : Bool
  /-- the dataset when `drop_geometry` is true / false -/
  baseIfDrop : Base
  baseElse : Base
  /-- `dims = set(selector.variables.keys())` -/
  dimsAreSelectorVars : Bool
  /-- the names are collected over `dataset.items()` of the base -/
  iteratesBase : Bool
  keep : KeepTest
  /-- `dataset = utils.extract_vars(dataset, names)` -/
  extractsNames : Bool
  /-- `return dataset.isel(selector)` -/
  returnsIsel : Bool
deriving Repr, DecidableEq

/-- run `select_indexes(indexes, index_dimension=indexDim, drop_geometry=dropGeometry)` -/
def SelIdx.run {α : Type} [Inhabited α] (p : SelIdx) (sp : Selector) (dg : DropGeom)
    (grids : List (String × List Dim)) (ds : DSet α) (geometry dsDims : List String)
    (indexes : List (String × List Nat)) (indexDim : Option String) (dropGeometry : Bool) : Option (DSet α) :=
  if !(p.selectorCall && p.dimsAreSelectorVars && p.iteratesBase && p.extractsNames && p.returnsIsel && p.keep.known)
  then none else
  match sp.run grids dsDims indexes indexDim with
  | none => none
  | some (along, sel) =>
    match (if dropGeometry then p.baseIfDrop else p.baseElse).eval dg ds geometry with
    | none => none
    | some base =>
      selIselBy (base.filter fun v => p.keep.eval (sel.map (·.1.1)) v.2.names) along indexes.length sel

/-- `Convention.select_index(index, drop_geometry)` -/
structure SelOne where
  /-- `index_dimension = utils.find_unused_dimension(self.dataset, <prefix>)` -/
  dimPrefix : Option String
  /-- `self.select_indexes([index], index_dimension=index_dimension, drop_geometry=drop_geometry)` -/
  callsSelectIndexesOnSingleton : Bool
  /-- `dataset.squeeze(dim=index_dimension, drop=False)` is returned -/
  squeezesIndexDim : Bool
deriving Repr, DecidableEq

/-- `select_index` up to the final `squeeze`: the one-request selection and the dimension to squeeze -/
def SelOne.run {α : Type} [Inhabited α] (o : SelOne) (p : SelIdx) (sp : Selector) (dg : DropGeom)
    (grids : List (String × List Dim)) (ds : DSet α) (geometry dsDims : List String)
    (index : String × List Nat) (dropGeometry : Bool) : Option (String × DSet α) :=
  if !(o.callsSelectIndexesOnSingleton && o.squeezesIndexDim) then none else
  match o.dimPrefix with
  | none => none
  | some pfx =>
    (p.run sp dg grids ds geometry dsDims [index] (some (NArr.findUnused dsDims pfx)) dropGeometry).map
      fun r => (NArr.findUnused dsDims pfx, r)

/-- `Convention.select_point(point)` -/
structure SelPoint where
  /-- `index = self.get_index_for_point(point)` -/
  looksUpPoint : Bool
  /-- `if index is None: raise ValueError` comes before the selection -/
  missRaises : Bool
  /-- `return self.select_index(index.index)` -/
  selectsHitIndex : Bool
deriving Repr, DecidableEq

def SelPoint.run {α : Type} [Inhabited α] (q : SelPoint) (o : SelOne) (p : SelIdx) (sp : Selector) (dg : DropGeom)
    (grids : List (String × List Dim)) (ds : DSet α) (geometry dsDims : List String)
    (hit : Option (String × List Nat)) : Option (String × DSet α) :=
  if !(q.looksUpPoint && q.missRaises && q.selectsHitIndex) then none else
  match hit with
  | none => none
  | some index => o.run p sp dg grids ds geometry dsDims index true

end SelectSrc
end Ems
