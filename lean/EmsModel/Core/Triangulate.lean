/-
Core/Triangulate.lean — model of `emsarray.operations.triangulate`.

Coordinates are exact rationals (`Rat`, core Lean).  The generators only produce
integers and dyadic rationals, on which every float operation of the modelled code is
exact, so `Fraction(float)` on the Python side is the same number.

Modelled functions
* `_triangulate_polygons_by_length`  → `fan`          (fan from vertex 0)
* `_triangulate_concave_polygon`     → `earClip`      (ear clipping, scan i = 0 .. n-3,
                                                       first ear is clipped, repeat)
* the convex / concave split in `triangulate_dataset` (number of convex-hull
  coordinates = number of polygon coordinates)        → oracle parameter `isConvex`
* the ear test (`diagonal.covered_by(polygon) and
  exterior.intersection(diagonal).equals(multipoint)`, both GEOS) → oracle parameter `isEar`
* `triangulate_dataset`              → `triangulateDataset` (cell index per triangle,
  `None` cells skipped, vertex de-duplication `MultiIndex.drop_duplicates`, index join
  `DataFrame.join`)

Not modelled: the order in which `triangulate_dataset` emits the triangles of different
cells (convex cells batched by size first, concave cells afterwards).  The property does
not constrain it and the correspondence compares per cell.  The model emits in cell order.

Total, computable, core Lean only.
-/
namespace Ems.Tri

/-- A vertex `(x, y)`. -/
structure Pt where
  x : Rat
  y : Rat
deriving DecidableEq, Repr, Inhabited

/-- A triangle as three vertices, in the order the code writes them. -/
structure Tri where
  a : Pt
  b : Pt
  c : Pt
deriving DecidableEq, Repr, Inhabited

/-- `(a - o) × (b - o)`: twice the signed area of the triangle `o a b`;
positive iff `o → a → b` turns anticlockwise. -/
def cross (o a b : Pt) : Rat :=
  (a.x - o.x) * (b.y - o.y) - (a.y - o.y) * (b.x - o.x)

/-- `a × b` (the shoelace term of the directed edge `a → b`). -/
def det (a b : Pt) : Rat := a.x * b.y - a.y * b.x

/-- Twice the signed area of a triangle. -/
def Tri.area2 (t : Tri) : Rat := cross t.a t.b t.c

/-- Sum of the doubled signed areas of a list of triangles. -/
def sumArea2 : List Tri → Rat
  | [] => 0
  | t :: ts => t.area2 + sumArea2 ts

/-- `|r|` on `Rat` (core only). -/
def absR (r : Rat) : Rat := if 0 ≤ r then r else -r

/-- Sum of the doubled unsigned areas. -/
def sumAbsArea2 : List Tri → Rat
  | [] => 0
  | t :: ts => absR t.area2 + sumAbsArea2 ts

/-- Shoelace sum along an open vertex path. -/
def pathSum : List Pt → Rat
  | a :: b :: rest => det a b + pathSum (b :: rest)
  | _ => 0

/-- Twice the signed (shoelace) area of the closed polygon with vertex list `p`
(the closing vertex is *not* repeated in `p`; shapely's ring is `p ++ [p₀]`). -/
def shoelace2 (p : List Pt) : Rat := pathSum (p ++ p.take 1)

/-! ### Fan triangulation (`_triangulate_polygons_by_length`) -/

/-- `stack([v0, coords[1:-1], coords[2:]])` for one polygon: the triangles
`(v0, l[k], l[k+1])`. -/
def fanFrom (v0 : Pt) : List Pt → List Tri
  | a :: b :: rest => ⟨v0, a, b⟩ :: fanFrom v0 (b :: rest)
  | _ => []

/-- `_triangulate_polygons_by_length` for one polygon with vertex list `p`. -/
def fan : List Pt → List Tri
  | [] => []
  | v0 :: rest => fanFrom v0 rest

/-! ### Ear clipping (`_triangulate_concave_polygon`) -/

inductive Err where
  /-- `ValueError("Could not find interior diagonal for polygon!")` -/
  | noEar
  /-- the model's fuel ran out (proved unreachable with fuel = number of vertices) -/
  | fuel
  /-- fewer than three vertices: no such shapely polygon exists -/
  | tooShort
deriving DecidableEq, Repr

/-- Clip the ear whose first vertex has position `i`: the triangle
`coords[i:i+3]` and the remaining polygon `coords[:i+1] + coords[i+2:]`. -/
def clipAt : List Pt → Nat → Option (Tri × List Pt)
  | a :: b :: c :: rest, 0 => some (⟨a, b, c⟩, a :: c :: rest)
  | a :: rest, i + 1 => (clipAt rest i).map (fun tr => (tr.1, a :: tr.2))
  | _, _ => none

/-- `for i in range(len(coords) - 2): if <ear test>: … break`: the first position
accepted by the ear oracle.  No wrap-around: ears centred on vertex 0 or n-1 are never
considered, exactly as in the code. -/
def findEar (isEar : List Pt → Nat → Bool) (p : List Pt) : Option Nat :=
  (List.range (p.length - 2)).find? (isEar p)

/-- `_triangulate_concave_polygon`.  `isEar p i` stands for the GEOS test on the
*current* polygon `p` and the diagonal `p[i] — p[i+2]`.
The `while len(coords) > 3` loop is bounded by `fuel`. -/
def earClip (isEar : List Pt → Nat → Bool) : Nat → List Pt → Except Err (List Tri)
  | fuel, p =>
    match p with
    | [a, b, c] => .ok [⟨a, b, c⟩]
    | _ =>
      if p.length < 3 then .error .tooShort else
      match fuel with
      | 0 => .error .fuel
      | fuel + 1 =>
        match findEar isEar p with
        | none => .error .noEar
        | some i =>
          match clipAt p i with
          | none => .error .noEar
          | some (t, p') =>
            match earClip isEar fuel p' with
            | .ok ts => .ok (t :: ts)
            | .error e => .error e

/-- One cell: fan if the hull test says convex, ear clipping otherwise
(fuel = number of vertices). -/
def triangulateCell (isConvex : List Pt → Bool) (isEar : List Pt → Nat → Bool)
    (p : List Pt) : Except Err (List Tri) :=
  if isConvex p then .ok (fan p) else earClip isEar p.length p

/-! ### `triangulate_dataset` -/

/-- Triangles of the cells `cells[0..]` numbered from `k`: every triangle is paired
with the linear index of its cell; `none` cells (no geometry) are skipped; an error in
any cell is an error of the whole call. -/
def cellTriangles (isConvex : List Pt → Bool) (isEar : List Pt → Nat → Bool) :
    Nat → List (Option (List Pt)) → Except Err (List (Nat × Tri))
  | _, [] => .ok []
  | k, none :: rest => cellTriangles isConvex isEar (k + 1) rest
  | k, some p :: rest =>
    match triangulateCell isConvex isEar p with
    | .error e => .error e
    | .ok ts =>
      match cellTriangles isConvex isEar (k + 1) rest with
      | .error e => .error e
      | .ok more => .ok (ts.map (fun t => (k, t)) ++ more)

/-- `total_triangles = numpy.sum(polygon_length[nonzero] - 3)`: the number of rows the code
pre-allocates (`polygon_length` counts the closing coordinate, so this is Σ (n - 2)).
The code asserts `current_face == total_triangles` after filling the rows. -/
def totalTriangles : List (Option (List Pt)) → Nat
  | [] => 0
  | none :: rest => totalTriangles rest
  | some p :: rest => (p.length - 2) + totalTriangles rest

/-- `shapely.get_coordinates(polygons)` (without the repeated closing coordinate, which
de-duplication removes anyway). -/
def allCoords : List (Option (List Pt)) → List Pt
  | [] => []
  | none :: rest => allCoords rest
  | some p :: rest => p ++ allCoords rest

/-- `MultiIndex.drop_duplicates()`: keep the first occurrence of every coordinate pair. -/
def dedup : List Pt → List Pt
  | [] => []
  | a :: rest => a :: (dedup rest).filter (fun b => b ≠ a)

/-- The index join: position of `v` in the vertex table (`none` is the NaN a failed
join would produce). -/
def indexOf? (v : Pt) : List Pt → Option Nat
  | [] => none
  | a :: rest => if a = v then some 0 else (indexOf? v rest).map (· + 1)

structure Output where
  /-- `vertices` -/
  vertices : List Pt
  /-- (`cell_indices[k]`, coordinates of triangle `k`) -/
  tris : List (Nat × Tri)
  /-- `triangles[k]` -/
  index : List (Option Nat × Option Nat × Option Nat)
deriving Repr

/-- `triangulate_dataset(dataset)` on `polygons = cells`. -/
def triangulateDataset (isConvex : List Pt → Bool) (isEar : List Pt → Nat → Bool)
    (cells : List (Option (List Pt))) : Except Err Output :=
  match cellTriangles isConvex isEar 0 cells with
  | .error e => .error e
  | .ok tris =>
    let table := dedup (allCoords cells)
    .ok { vertices := table
          tris := tris
          index := tris.map (fun kt =>
            (indexOf? kt.2.a table, indexOf? kt.2.b table, indexOf? kt.2.c table)) }

/-! ### Statements used by the theorems -/

/-- `q` is a convex combination of the vertices of `t` (a point of the closed triangle). -/
def InTri (t : Tri) (q : Pt) : Prop :=
  ∃ l1 l2 l3 : Rat, 0 ≤ l1 ∧ 0 ≤ l2 ∧ 0 ≤ l3 ∧ l1 + l2 + l3 = 1 ∧
    q.x = l1 * t.a.x + l2 * t.b.x + l3 * t.c.x ∧
    q.y = l1 * t.a.y + l2 * t.b.y + l3 * t.c.y

/-- Directed edges of the closed polygon, the closing edge included. -/
def edges (p : List Pt) : List (Pt × Pt) := p.zip (p.tail ++ p.take 1)

/-- `q` satisfies every edge half-plane of the cell (`s = 1` anticlockwise cell,
`s = -1` clockwise cell).  For a convex cell this is the closed cell itself. -/
def InCell (s : Rat) (p : List Pt) (q : Pt) : Prop :=
  ∀ e ∈ edges p, 0 ≤ s * cross e.1 e.2 q

/-- Every vertex of the cell satisfies every edge half-plane: the cell is convex with
orientation `s` (collinear vertices allowed). -/
def ConvexCell (s : Rat) (p : List Pt) : Prop :=
  ∀ v ∈ p, InCell s p v

/-- Strictly convex cell with orientation `s`: every vertex lies strictly on the inner
side of every edge it is not an end of (no collinear vertices).  For simple polygons this
is the hull test of `triangulate_dataset` (hull vertex count = polygon vertex count). -/
def StrictConvex (s : Rat) (p : List Pt) : Prop :=
  ∀ e ∈ edges p, ∀ v ∈ p, v ≠ e.1 → v ≠ e.2 → 0 < s * cross e.1 e.2 v

instance (s : Rat) (p : List Pt) : Decidable (StrictConvex s p) :=
  inferInstanceAs (Decidable (∀ e ∈ edges p, ∀ v ∈ p, v ≠ e.1 → v ≠ e.2 → 0 < s * cross e.1 e.2 v))

/-- *fan-sorted*: seen from vertex 0 the other vertices are angularly ordered,
`s · cross v0 vi vj ≥ 0` for `1 ≤ i < j`. -/
def FanSorted (s : Rat) : List Pt → Prop
  | [] => True
  | v0 :: rest => rest.Pairwise (fun a b => 0 ≤ s * cross v0 a b)

instance (s : Rat) : (p : List Pt) → Decidable (FanSorted s p)
  | [] => isTrue trivial
  | v0 :: rest => inferInstanceAs (Decidable (rest.Pairwise (fun a b => 0 ≤ s * cross v0 a b)))

end Ems.Tri
