import EmsModel.Core.GeomProto
/-
Core/ConvReads.lean — ONE convention object read through its cached accessors, in any order (C06).

Models `Convention.polygons`, `Convention.mask`, `Convention.geometry`, `Convention.strtree`, `Convention.bounds`
and `Convention.face_centres` as the `functools.cached_property`s of one object: the first read of an accessor
computes its value — `mask`, `geometry`, `strtree` and `bounds` from `polygons`, which is read (built, validated
with a warning for the dropped cells, and cached) on the way — and every later read answers from the cache.
The history of reads is an input; the behaviour the property demands is that what an accessor answers does not
depend on it (`Ems.C06.reads_order_independent`).  The `reads <accessors> polys …` operation runs a history and
prints what `polygons` / `mask` / `bounds` answer afterwards; the C06 correspondence compares it with one real
convention object read in that order.
-/
namespace Ems

/-- the cached accessors of a convention object that look at the cell polygons -/
inductive Accessor
  | mask | polygons | geometry | bounds | faceCentres | strtree
  deriving DecidableEq, Repr

def Accessor.parse? : String → Option Accessor
  | "mask" => some .mask
  | "polygons" => some .polygons
  | "geometry" => some .geometry
  | "bounds" => some .bounds
  | "face_centres" => some .faceCentres
  | "strtree" => some .strtree
  | _ => none

/-- what building the polygons of the dataset gives: the kept polygons (`Convention.polygons`) and whether an
`InvalidPolygonWarning` was emitted -/
abbrev Built := List (Option Poly) × Bool

/-- the part of the object's `__dict__` the accessors fill; `warned` = a warning has been emitted so far -/
structure ConvCache where
  polygons : Option (List (Option Poly)) := none
  mask : Option (List Bool) := none
  bounds : Option (Option (Rat × Rat × Rat × Rat)) := none
  warned : Bool := false

/-- read `polygons`: built on the first read (the warning is emitted then), cached afterwards -/
def ConvCache.readPolygons (b : Built) (c : ConvCache) : ConvCache × List (Option Poly) :=
  match c.polygons with
  | some p => (c, p)
  | none => ({ c with polygons := some b.1, warned := c.warned || b.2 }, b.1)

/-- read one accessor; the value a first read caches is computed from `polygons` -/
def ConvCache.read (b : Built) (c : ConvCache) : Accessor → ConvCache
  | .polygons | .geometry | .strtree => (c.readPolygons b).1
  | .mask =>
    match c.mask with
    | some _ => c
    | none => let r := c.readPolygons b; { r.1 with mask := some (polyMask r.2) }
  | .bounds =>
    match c.bounds with
    | some _ => c
    | none => let r := c.readPolygons b; { r.1 with bounds := some (polysBounds r.2) }
  | .faceCentres => c

/-- what `polygons`, `mask`, `bounds` answer now, and whether a warning has been emitted by then -/
def ConvCache.observe (b : Built) (c : ConvCache) :
    List (Option Poly) × List Bool × Option (Rat × Rat × Rat × Rat) × Bool :=
  let c := ((c.read b .polygons).read b .mask).read b .bounds
  (c.polygons.getD [], c.mask.getD [], c.bounds.getD none, c.warned)

/-- a fresh object read through the history `hs`, then observed -/
def observeAfter (b : Built) (hs : List Accessor) :
    List (Option Poly) × List Bool × Option (Rat × Rat × Rat × Rat) × Bool :=
  (hs.foldl (ConvCache.read b) {}).observe b

namespace GeomProto
open Ems.Proto

/-- `reads <accessor,accessor,…> polys <conv> key=value…` → `<rings> M=<mask> B=<bbox> W=<warned>` of one object
after the accessors were read in that order -/
def stepReads (hist conv : String) (args : List String) : String :=
  match allSome ((hist.splitOn ",").map Accessor.parse?) with
  | none => "BAD"
  | some hs =>
    match rawPolys conv args, validityOf (kv args "valid") with
    | some raw, some f =>
      let (kept, mask, bb, warned) := observeAfter (f raw) hs
      let b := if kv args "nob" == some "1" then "skip" else showBBox bb
      s!"{showRings kept} M={showBits mask} B={b} W={if warned then 1 else 0}"
    | none, _ => "ERR"
    | _, none => "BAD"

def readsStep? (ws : List String) : Option String :=
  match ws with
  | "reads" :: hist :: "polys" :: conv :: args => some (stepReads hist conv args)
  | _ => none

end GeomProto
end Ems
