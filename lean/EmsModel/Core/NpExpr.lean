import EmsModel.Core.Shape
import EmsModel.Core.Polygons
/-
Core/NpExpr.lean — a small deep-embedded expression language for the numpy array pipelines of
`CFGrid1D._make_polygons`, `CFGrid2D._make_polygons`, `ArakawaC._make_polygons`,
`CFGrid1DTopology._get_or_make_bounds` (derived-bounds branch), `CFGrid1D.face_centres`,
`CFGrid2DTopology._get_or_make_bounds` (derived-bounds branch: `isnan`, `pad`, `& |`, boolean-mask assignment,
`nanmean`, `any`), `masking.smear_mask` as `arakawa_c.c_mask_from_centres` calls it, and `masking.blur_mask`
(`padAll`, and the `nditer` / `fromiter` idiom as the dedicated constructor `windowAny`).

The terms themselves are NOT written by hand: `harness/pipelines.py` translates the source text of
those functions (read from the working tree on every run) into `Gen/Pipelines.lean`.  This file only
gives the language its meaning.

Arrays are positional: a shape and the C-order (row-major) flattening of the values; `none` = NaN.
Boolean arrays live in the same type: `False` is `0`, `True` is `1` (`boolVal`), and an element is read as a
boolean by numpy's truthiness (`truthy`: everything but `0`).  The language has no dtypes: that `&`, `|` and a
boolean-mask assignment are applied to boolean operands is checked by the translator, which emits them only
for operands it knows to be boolean.
Every operation is total; `none` as a result means numpy would raise (bad axis, shapes that do not
agree, not broadcastable, reshape size mismatch) or that the construct is outside the modelled
fragment (`unsupported`).  Index arithmetic is `Ems.ravel / unravel / size` of Core/Shape.lean.
Core Lean only.
-/
namespace Ems

/-- a numpy array of floats: `shape` and the C-order flattening of its values (`none` = NaN) -/
structure NpArr where
  shape : List Nat
  data : List (Option Rat)
deriving Repr, DecidableEq

namespace NpArr

/-- `a[idx]` for a full multi-index; out of range (numpy: IndexError) reads as missing -/
def get (a : NpArr) (idx : List Nat) : Option Rat :=
  match ravel a.shape idx with
  | some n => (a.data[n]?).join
  | none => none

/-- as many values as the shape says -/
def WF (a : NpArr) : Prop := a.data.length = size a.shape

/-- the array of shape `s` whose element at multi-index `idx` is `f idx`, laid out in C order -/
def tabulate (s : List Nat) (f : List Nat → Option Rat) : NpArr :=
  { shape := s
    data := (List.range (size s)).map fun n =>
      match unravel s n with
      | some idx => f idx
      | none => none }

end NpArr

/-! ### the pieces of numpy syntax that appear in the pipelines -/

/-- an `axis=` argument: `pos n` is `n`, `neg n` is `-n` (so `neg 1` is the last axis) -/
inductive Axis where
  | pos (n : Nat)
  | neg (n : Nat)
deriving Repr, DecidableEq

/-- position of the axis in a result of rank `rank`; `none` = numpy AxisError -/
def Axis.norm : Axis → Nat → Option Nat
  | .pos n, rank => if n < rank then some n else none
  | .neg n, rank => if 0 < n ∧ n ≤ rank then some (rank - n) else none

/-- one entry of a shape argument: a literal, a symbolic size (`y_size`, `x_size`) or `-1` -/
inductive DimTerm where
  | lit (n : Nat)
  | sym (name : String)
  | infer
deriving Repr, DecidableEq

/-- an end of a slice `a:b`: absent, a non-negative literal or a negative literal (`neg 1` is `-1`) -/
inductive Bound where
  | none
  | pos (n : Nat)
  | neg (n : Nat)
deriving Repr, DecidableEq

/-- numpy clamps slice ends to the axis: `Bound.resolve b d dflt` is the position `b` stands for on an
axis of length `d` (`dflt` when the end is absent) -/
def Bound.resolve : Bound → Nat → Nat → Nat
  | .none, _, dflt => dflt
  | .pos n, d, _ => min n d
  | .neg n, d, _ => d - n

/-- one entry of a subscript: an integer index (drops the axis; `idxEnd k` is the index `-k`),
or a slice `a:b` with unit step (`range .none .none` is `:`) -/
inductive SliceTerm where
  | idx (i : Nat)
  | idxEnd (k : Nat)
  | range (a b : Bound)
deriving Repr, DecidableEq

/-- a non-negative integer expression over the integer parameters of the modelled function (`size`, `size * 2 + 1`) -/
inductive ScalarTerm where
  | lit (n : Nat)
  | sym (name : String)
  | add (a b : ScalarTerm)
  | mul (a b : ScalarTerm)
deriving Repr, DecidableEq

/-- value of an integer expression; `none` = unknown parameter -/
def ScalarTerm.val (sizes : List (String × Nat)) : ScalarTerm → Option Nat
  | .lit n => some n
  | .sym name => List.lookup name sizes
  | .add a b => (a.val sizes).bind fun x => (b.val sizes).map fun y => x + y
  | .mul a b => (a.val sizes).bind fun x => (b.val sizes).map fun y => x * y

/-- the numpy expressions of the modelled functions -/
inductive NpExpr where
  /-- an input array: `self.topology.longitude_bounds.values`, `coordinate.values`, … -/
  | var (name : String)
  /-- `numpy.stack(xs, axis=axis)`; a Python list display `[a, b]` of arrays is `stack [a, b] (pos 0)` -/
  | stack (xs : List NpExpr) (axis : Axis)
  /-- `numpy.expand_dims(x, axis)` -/
  | expandDims (x : NpExpr) (axis : Axis)
  /-- `numpy.broadcast_to(x, shape)` -/
  | broadcastTo (x : NpExpr) (shape : List DimTerm)
  /-- `numpy.transpose(x, perm)` -/
  | transpose (x : NpExpr) (perm : List Nat)
  /-- `x.reshape(shape)`, `-1` allowed once -/
  | reshape (x : NpExpr) (shape : List DimTerm)
  /-- `x[ix]`: basic indexing; axes not mentioned are kept whole -/
  | slice (x : NpExpr) (ix : List SliceTerm)
  /-- `numpy.concatenate(xs)` (along the first axis) -/
  | concat (xs : List NpExpr)
  /-- `a + b`, `a - b` for arrays of one shape -/
  | add (a b : NpExpr)
  | sub (a b : NpExpr)
  /-- `a / c` for a numeric literal `c` -/
  | divConst (a : NpExpr) (c : Rat)
  /-- `numpy.pad(x, widths, constant_values=fill)`: `widths` has one `(before, after)` pair per axis -/
  | pad (x : NpExpr) (widths : List (Nat × Nat)) (fill : Option Rat)
  /-- `numpy.isnan(x)`: a boolean array -/
  | isnan (x : NpExpr)
  /-- `a & b`, `a | b` for boolean arrays of one shape -/
  | band (a b : NpExpr)
  | bor (a b : NpExpr)
  /-- the value of `x` after `x[mask] = value`: `mask` is a boolean array whose shape is a prefix of the shape
  of `x` (the trailing axes are assigned as a whole), `value` a scalar (`none` = NaN) -/
  | whereSet (x mask : NpExpr) (value : Option Rat)
  /-- `numpy.nanmean(x, axis=axis)`: mean of the values present along the axis, NaN where there is none -/
  | nanmeanAxis (x : NpExpr) (axis : Axis)
  /-- `x.any(axis=axis)` -/
  | anyAxis (x : NpExpr) (axis : Axis)
  /-- `numpy.pad(x, width, constant_values=fill)` for one integer `width`: that many elements before and after
  every axis -/
  | padAll (x : NpExpr) (width : ScalarTerm) (fill : Option Rat)
  /-- the `nditer` / `fromiter` idiom of `masking.blur_mask`, for boolean `x` and `padded` of one rank:
  `numpy.fromiter((x[index] or numpy.any(padded[tuple(slice(i, i + extent) for i in index)]) for index in I),
  count=x.size, dtype=x.dtype).reshape(x.shape)` where `I` are the multi-indexes of `x` in C order -/
  | windowAny (x padded : NpExpr) (extent : ScalarTerm)
  /-- something the translator could not render: carries the Python text, evaluates to `none` -/
  | unsupported (python : String)
deriving Repr

/-- values of the input arrays and of the symbolic sizes -/
structure NpEnv where
  arrs : List (String × NpArr)
  sizes : List (String × Nat)

/-! ### index maps -/

/-- insert `v` at position `k` -/
def insertAt : Nat → Nat → List Nat → List Nat
  | 0, v, l => v :: l
  | _ + 1, v, [] => [v]
  | k + 1, v, x :: l => x :: insertAt k v l

/-- drop position `k` -/
def removeAt : Nat → List Nat → List Nat
  | _, [] => []
  | 0, _ :: l => l
  | k + 1, x :: l => x :: removeAt k l

/-- shapes `s` (source) and `t` (target, same rank) are compatible for broadcasting -/
def bcastOk : List Nat → List Nat → Bool
  | [], [] => true
  | d :: ds, e :: es => (d == e || d == 1) && bcastOk ds es
  | _, _ => false

/-- source index of a broadcast element: an axis of length 1 is read at 0 (`i % 1`), any other at `i` -/
def bcastIdx : List Nat → List Nat → List Nat
  | d :: ds, i :: is => (i % d) :: bcastIdx ds is
  | _, _ => []

/-- `perm` is a permutation of `0 … r-1` -/
def permOk (perm : List Nat) (r : Nat) : Bool :=
  perm.length == r && (List.range r).all fun a => perm.contains a

/-- source index of element `idx` of a transposed array: `src[perm[k]] = idx[k]` -/
def transposeIdx (perm : List Nat) (idx : List Nat) : List Nat :=
  (List.range perm.length).map fun a => idx.getD (perm.idxOf a) 0

/-- shape of `x[ix]`; `none` = IndexError (index out of range, too many indices) -/
def sliceShape : List SliceTerm → List Nat → Option (List Nat)
  | [], s => some s
  | _ :: _, [] => none
  | .idx i :: ts, d :: s => if i < d then sliceShape ts s else none
  | .idxEnd k :: ts, d :: s => if 0 < k ∧ k ≤ d then sliceShape ts s else none
  | .range a b :: ts, d :: s =>
      (sliceShape ts s).map fun r => (b.resolve d d - a.resolve d 0) :: r

/-- source index of element `idx` of `x[ix]` -/
def sliceIdx : List SliceTerm → List Nat → List Nat → List Nat
  | [], _, idx => idx
  | .idx i :: ts, _ :: s, idx => i :: sliceIdx ts s idx
  | .idxEnd k :: ts, d :: s, idx => (d - k) :: sliceIdx ts s idx
  | .range a _ :: ts, d :: s, i :: idx => (a.resolve d 0 + i) :: sliceIdx ts s idx
  | _, _, _ => []

/-- value of a shape entry: `some none` is `-1` -/
def DimTerm.val (env : NpEnv) : DimTerm → Option (Option Nat)
  | .lit n => some (some n)
  | .sym name => (List.lookup name env.sizes).map some
  | .infer => some none

/-- the shape a `reshape` / `broadcast_to` argument denotes for an array of `total` elements;
`none` = unknown symbol, more than one `-1`, or sizes that do not match -/
def resolveDims (env : NpEnv) (total : Nat) (dims : List DimTerm) : Option (List Nat) :=
  match allSomeL (dims.map (·.val env)) with
  | none => none
  | some ds =>
    let known := size (ds.filterMap id)
    match (ds.filter Option.isNone).length with
    | 0 => if known = total then some (ds.filterMap id) else none
    | 1 => if known ≠ 0 ∧ total % known = 0 then some (ds.map (·.getD (total / known))) else none
    | _ => none

/-- a literal / symbolic shape with no `-1` -/
def plainDims (env : NpEnv) (dims : List DimTerm) : Option (List Nat) :=
  match allSomeL (dims.map (·.val env)) with
  | none => none
  | some ds => allSomeL ds

/-- shape of `numpy.pad(x, widths)` -/
def padShape : List (Nat × Nat) → List Nat → List Nat
  | w :: ws, d :: s => (w.1 + d + w.2) :: padShape ws s
  | _, _ => []

/-- does element `idx` of a padded array come from the original array? -/
def padIn : List (Nat × Nat) → List Nat → List Nat → Bool
  | w :: ws, d :: s, i :: idx => decide (w.1 ≤ i) && (decide (i < w.1 + d) && padIn ws s idx)
  | _, _, _ => true

/-- source index of element `idx` of a padded array (where `padIn` holds) -/
def padSrc : List (Nat × Nat) → List Nat → List Nat
  | w :: ws, i :: idx => (i - w.1) :: padSrc ws idx
  | _, _ => []

/-- `False` is `0`, `True` is `1` -/
def boolVal (b : Bool) : Option Rat := some (if b then 1 else 0)

/-- numpy truthiness of an element: everything but `0` (NaN included) -/
def truthy : Option Rat → Bool
  | some r => r != 0
  | none => true

/-- `numpy.isnan` of an element -/
def isnanV (v : Option Rat) : Option Rat := boolVal v.isNone

def bandV (a b : Option Rat) : Option Rat := boolVal (truthy a && truthy b)

def borV (a b : Option Rat) : Option Rat := boolVal (truthy a || truthy b)

/-- `any` of the values along an axis -/
def anyV (l : List (Option Rat)) : Option Rat := boolVal (l.any truthy)

/-- the offsets `(d_0, …, d_{r-1})`, every `d_k < n`, of a window of extent `n` along each of `r` axes -/
def windowOffsets : Nat → Nat → List (List Nat)
  | 0, _ => [[]]
  | r + 1, n => (List.range n).flatMap fun d => (windowOffsets r n).map (d :: ·)

/-- `idx + off`, component by component -/
def addIdx (idx off : List Nat) : List Nat := List.zipWith (· + ·) idx off

/-- `numpy.any(p[idx_0 : idx_0 + n, idx_1 : idx_1 + n, …])` for an array of shape `shape` read by `read`:
basic slices clip at the end of the array, so only positions inside it count -/
def anyWindowAt (shape : List Nat) (read : List Nat → Option Rat) (idx : List Nat) (n : Nat) : Bool :=
  (windowOffsets idx.length n).any fun off =>
    (ravel shape (addIdx idx off)).isSome && truthy (read (addIdx idx off))

/-! ### the operations on arrays -/

/-- `numpy.stack(xs, axis)`: all of one shape; element `idx` is element `idx` without position `k`
of the `idx[k]`-th operand -/
def stackArr (xs : List NpArr) (ax : Axis) : Option NpArr :=
  match xs with
  | [] => none
  | x :: _ =>
    if xs.all (fun y => y.shape == x.shape) then
      (ax.norm (x.shape.length + 1)).map fun k =>
        NpArr.tabulate (insertAt k xs.length x.shape) fun idx =>
          match xs[idx.getD k 0]? with
          | some y => y.get (removeAt k idx)
          | none => none
    else none

/-- `numpy.expand_dims(x, axis)` -/
def expandDimsArr (x : NpArr) (ax : Axis) : Option NpArr :=
  (ax.norm (x.shape.length + 1)).map fun k =>
    NpArr.tabulate (insertAt k 1 x.shape) fun idx => x.get (removeAt k idx)

/-- `numpy.broadcast_to(x, t)`: trailing axes aligned, each source axis equal to the target or 1 -/
def broadcastArr (x : NpArr) (t : List Nat) : Option NpArr :=
  let m := t.length - x.shape.length
  if x.shape.length ≤ t.length ∧ bcastOk x.shape (t.drop m) then
    some (NpArr.tabulate t fun idx => x.get (bcastIdx x.shape (idx.drop m)))
  else none

/-- `numpy.transpose(x, perm)`: result axis `k` is source axis `perm[k]` -/
def transposeArr (x : NpArr) (perm : List Nat) : Option NpArr :=
  if permOk perm x.shape.length then
    some (NpArr.tabulate (perm.map fun a => x.shape.getD a 0) fun idx => x.get (transposeIdx perm idx))
  else none

/-- `x.reshape(s)`: the C-order data is kept as it is, only the shape changes -/
def reshapeArr (x : NpArr) (s : List Nat) : Option NpArr :=
  if size s = size x.shape then some { shape := s, data := x.data } else none

/-- `x[ix]` -/
def sliceArr (x : NpArr) (ix : List SliceTerm) : Option NpArr :=
  (sliceShape ix x.shape).map fun s =>
    NpArr.tabulate s fun idx => x.get (sliceIdx ix x.shape idx)

/-- element `i :: r` of the concatenation along the first axis -/
def concatGet : List NpArr → Nat → List Nat → Option Rat
  | [], _, _ => none
  | x :: xs, i, r =>
    if i < x.shape.headD 0 then x.get (i :: r) else concatGet xs (i - x.shape.headD 0) r

/-- `numpy.concatenate(xs)`: rank ≥ 1, the same shape after the first axis -/
def concatArr (xs : List NpArr) : Option NpArr :=
  match xs with
  | [] => none
  | x :: _ =>
    match x.shape with
    | [] => none
    | _ :: tl =>
      if xs.all (fun y => y.shape.drop 1 == tl && y.shape.length == tl.length + 1) then
        some (NpArr.tabulate ((xs.map fun y => y.shape.headD 0).sum :: tl) fun idx =>
          match idx with
          | i :: r => concatGet xs i r
          | [] => none)
      else none

def lift2 (f : Rat → Rat → Rat) : Option Rat → Option Rat → Option Rat
  | some x, some y => some (f x y)
  | _, _ => none

/-- elementwise arithmetic on arrays of one shape (NaN is absorbing) -/
def zipArr (f : Rat → Rat → Rat) (a b : NpArr) : Option NpArr :=
  if a.shape = b.shape then some { shape := a.shape, data := List.zipWith (lift2 f) a.data b.data } else none

/-- `a / c`, `c` a non-zero literal -/
def divArr (a : NpArr) (c : Rat) : Option NpArr :=
  if c = 0 then none else some { shape := a.shape, data := a.data.map fun v => v.map (· / c) }

/-- `numpy.pad(x, widths, constant_values=fill)` with one `(before, after)` pair per axis -/
def padArr (x : NpArr) (ws : List (Nat × Nat)) (fill : Option Rat) : Option NpArr :=
  if ws.length = x.shape.length then
    some (NpArr.tabulate (padShape ws x.shape) fun idx =>
      if padIn ws x.shape idx then x.get (padSrc ws idx) else fill)
  else none

/-- an elementwise function (`numpy.isnan`) -/
def mapArr (f : Option Rat → Option Rat) (x : NpArr) : NpArr :=
  NpArr.tabulate x.shape fun idx => f (x.get idx)

/-- an elementwise binary function on arrays of one shape (`&`, `|`) -/
def zipWithArr (f : Option Rat → Option Rat → Option Rat) (a b : NpArr) : Option NpArr :=
  if a.shape = b.shape then some (NpArr.tabulate a.shape fun idx => f (a.get idx) (b.get idx)) else none

/-- `x[m] = v` for a boolean array `m` of shape `x.shape[:m.ndim]` (numpy: IndexError otherwise):
every element whose leading indexes select a true entry of `m` becomes `v` -/
def whereSetArr (x m : NpArr) (v : Option Rat) : Option NpArr :=
  if m.shape = x.shape.take m.shape.length then
    some (NpArr.tabulate x.shape fun idx => if truthy (m.get (idx.take m.shape.length)) then v else x.get idx)
  else none

/-- a reduction along an axis: element `idx` of the result is `f` of the values `x[idx with t inserted at the axis]`,
`t = 0 … length of the axis - 1` -/
def reduceArr (f : List (Option Rat) → Option Rat) (x : NpArr) (ax : Axis) : Option NpArr :=
  (ax.norm x.shape.length).map fun k =>
    NpArr.tabulate (removeAt k x.shape) fun idx =>
      f ((List.range (x.shape.getD k 0)).map fun t => x.get (insertAt k t idx))

/-- the value of `NpExpr.windowAny`: element `idx` is `x[idx] or any(padded[window of extent n at idx])` -/
def windowAnyArr (a p : NpArr) (n : Nat) : Option NpArr :=
  if p.shape.length = a.shape.length then
    -- `pa[k]?` is `p.data[k]?`: the padded array is read many times, through an `Array` for constant-time access
    let pa := p.data.toArray
    some (NpArr.tabulate a.shape fun idx => boolVal (truthy (a.get idx) ||
      anyWindowAt p.shape (fun i => match ravel p.shape i with
        | some k => (pa[k]?).join
        | none => none) idx n))
  else none

/-! ### evaluation -/

mutual
/-- value of an expression; `none` = numpy raises / not modelled -/
def eval (env : NpEnv) : NpExpr → Option NpArr
  | .var name => List.lookup name env.arrs
  | .stack xs ax => (evalList env xs).bind fun l => stackArr l ax
  | .expandDims x ax => (eval env x).bind fun a => expandDimsArr a ax
  | .broadcastTo x dims =>
      (eval env x).bind fun a => (plainDims env dims).bind fun t => broadcastArr a t
  | .transpose x perm => (eval env x).bind fun a => transposeArr a perm
  | .reshape x dims =>
      (eval env x).bind fun a => (resolveDims env (size a.shape) dims).bind fun s => reshapeArr a s
  | .slice x ix => (eval env x).bind fun a => sliceArr a ix
  | .concat xs => (evalList env xs).bind concatArr
  | .add a b => (eval env a).bind fun x => (eval env b).bind fun y => zipArr (· + ·) x y
  | .sub a b => (eval env a).bind fun x => (eval env b).bind fun y => zipArr (· - ·) x y
  | .divConst a c => (eval env a).bind fun x => divArr x c
  | .pad x ws fill => (eval env x).bind fun a => padArr a ws fill
  | .isnan x => (eval env x).map fun a => mapArr isnanV a
  | .band a b => (eval env a).bind fun x => (eval env b).bind fun y => zipWithArr bandV x y
  | .bor a b => (eval env a).bind fun x => (eval env b).bind fun y => zipWithArr borV x y
  | .whereSet x m v => (eval env x).bind fun a => (eval env m).bind fun b => whereSetArr a b v
  | .nanmeanAxis x ax => (eval env x).bind fun a => reduceArr nanmean a ax
  | .anyAxis x ax => (eval env x).bind fun a => reduceArr anyV a ax
  | .padAll x w fill => (eval env x).bind fun a => (w.val env.sizes).bind fun n =>
      padArr a (List.replicate a.shape.length (n, n)) fill
  | .windowAny x p e => (eval env x).bind fun a => (eval env p).bind fun b => (e.val env.sizes).bind fun n =>
      windowAnyArr a b n
  | .unsupported _ => none
def evalList (env : NpEnv) : List NpExpr → Option (List NpArr)
  | [] => some []
  | x :: xs =>
    match eval env x, evalList env xs with
    | some a, some l => some (a :: l)
    | _, _ => none
end

/-- a point, if both coordinates are present -/
def optPt : Option Rat → Option Rat → Option Pt
  | some x, some y => some (x, y)
  | _, _ => none

/-- `utils.make_polygons_with_holes(points)` on an `(n, m, 2)` array: row `p` becomes the polygon of its
`m` points; a row with any missing value has no polygon (`None`), and keeps its slot -/
def pointsToPolys (a : NpArr) : Option (List (Option Poly)) :=
  match a.shape with
  | [n, m, 2] => some ((List.range n).map fun p => allSomeL ((List.range m).map fun k =>
      optPt (a.get [p, k, 0]) (a.get [p, k, 1])))
  | _ => none

/-- an `(n, 2)` array as a list of points (`CFGrid1D.face_centres`) -/
def pointsToPairs (a : NpArr) : Option (List (Option Rat × Option Rat)) :=
  match a.shape with
  | [n, 2] => some ((List.range n).map fun p => (a.get [p, 0], a.get [p, 1]))
  | _ => none

/-- polygons of a pipeline: evaluate the `points` expression, then `make_polygons_with_holes` -/
def evalPolys (env : NpEnv) (e : NpExpr) : Option (List (Option Poly)) :=
  (eval env e).bind pointsToPolys

/-! ### input arrays from the values the datasets are described by -/

/-- a 1-D array -/
def vecArr (l : List (Option Rat)) : NpArr := { shape := [l.length], data := l }

/-- an `(n, 2)` bounds array -/
def pairsArr (l : List (Rat × Rat)) : NpArr :=
  { shape := [l.length, 2], data := l.flatMap fun p => [some p.1, some p.2] }

/-- an `(ny, nx)` array from its rows -/
def gridArr (g : List (List (Option Rat))) (nx : Nat) : NpArr :=
  { shape := [g.length, nx], data := g.flatten }

/-- an `(ny, nx, m)` array from its rows of cells -/
def grid3Arr (g : List (List (List (Option Rat)))) (nx m : Nat) : NpArr :=
  { shape := [g.length, nx, m], data := (g.map List.flatten).flatten }

/-- the four stored values of a cell: its corners, or four NaNs -/
def cornerCell : Option (List Rat) → List (Option Rat)
  | some l => l.map some
  | none => [none, none, none, none]

/-- the `(ny, nx, 4)` bounds array of one coordinate from per-cell corner lists (`derived2d`): a cell without
corners holds four NaNs -/
def cornersArr (g : List (List (Option (List Rat)))) (nx : Nat) : NpArr :=
  grid3Arr (g.map fun row => row.map cornerCell) nx 4

/-! ### environments of the modelled functions -/

/-- `CFGrid1D._make_polygons`: the two `(n, 2)` bounds arrays and `y_size, x_size = self.topology.shape` -/
def cf1dEnv (lonb latb : List (Rat × Rat)) (ny nx : Nat) : NpEnv :=
  { arrs := [("lon_bounds", pairsArr lonb), ("lat_bounds", pairsArr latb)]
    sizes := [("y_size", ny), ("x_size", nx)] }

/-- `CFGrid2D._make_polygons`: the two `(ny, nx, 4)` bounds arrays -/
def cf2dEnv (blon blat : List (List (List (Option Rat)))) (nx : Nat) : NpEnv :=
  { arrs := [("lon_bounds", grid3Arr blon nx 4), ("lat_bounds", grid3Arr blat nx 4)]
    sizes := [] }

/-- `ArakawaC._make_polygons`: the `(ny+1, nx+1)` node coordinate arrays -/
def arakawaEnv (xg yg : List (List (Option Rat))) (nx : Nat) : NpEnv :=
  { arrs := [("node_longitude", gridArr xg (nx + 1)), ("node_latitude", gridArr yg (nx + 1))]
    sizes := [] }

/-- `CFGrid1DTopology._get_or_make_bounds`: the coordinate values -/
def midEnv (vals : List (Option Rat)) : NpEnv :=
  { arrs := [("values", vecArr vals)], sizes := [] }

/-- the derived-bounds branch of `CFGrid2DTopology._get_or_make_bounds`: the `(ny, nx)` coordinate values -/
def derived2dEnv (c : List (List (Option Rat))) (nx : Nat) : NpEnv :=
  { arrs := [("values", gridArr c nx)], sizes := [] }

/-- `CFGrid1D.face_centres`: the two coordinate vectors and the topology shape -/
def centresEnv (lon lat : List (Option Rat)) : NpEnv :=
  { arrs := [("longitude", vecArr lon), ("latitude", vecArr lat)]
    sizes := [("y_size", lat.length), ("x_size", lon.length)] }

end Ems
