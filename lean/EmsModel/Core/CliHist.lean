import EmsModel.Core.Cli
/-!
Core/CliHist.lean — `geometry_argument` over a *history* of the scratch directory.

`Core/Cli.lean` takes what the file system says about the argument as a parameter (`FileInfo`).  A
command line tool is used many times in one process (`emsarray.cli.main` called from a script, a test
suite); between two uses a file may be rewritten, removed, replaced by a directory.  Here the file
system is a list of events, oldest first; what an argument denotes is decided by what its path holds
after the whole list — the last event on that path — and by nothing that was there before.

Core Lean only.
-/
namespace Ems.Cli

/-- what a path holds -/
inductive FsEntry
  | absent                               -- nothing there
  | dir                                  -- a directory
  | file (ver : Nat) (loads : Bool)      -- the `ver`-th text written in this history; `shape(json.load(f))` succeeds or not
  deriving DecidableEq, Repr

/-- one change of the directory: `path` now holds `entry` -/
structure FsEvent where
  path : List Char
  entry : FsEntry
  deriving DecidableEq

/-- what `path` holds after the events `h` (oldest first): the entry of the last event on it -/
def fsLast (h : List FsEvent) (p : List Char) : FsEntry :=
  match h.reverse.find? (fun e => e.path = p) with
  | some e => e.entry
  | none => .absent

/-- the same, written as a left-to-right replay: a map that every event overwrites -/
def fsReplay (h : List FsEvent) (p : List Char) : FsEntry :=
  h.foldl (fun cur e => if e.path = p then e.entry else cur) .absent

/-- `FileInfo` of `Core/Cli.lean` for an entry -/
def FsEntry.info (name : List Char) : FsEntry → FileInfo
  | .absent => ⟨false, name, false⟩
  | .dir => ⟨true, name, false⟩
  | .file _ l => ⟨true, name, l⟩

/-- a geometry, with the version of the text it was read from when it comes from a file -/
inductive GeomV
  | box (b : Bounds)
  | ofJson
  | ofFile (ver : Nat)
  deriving DecidableEq

instance : DecidableEq (Except UsageError GeomV)
  | .ok a, .ok b => if h : a = b then isTrue (by rw [h]) else isFalse (by intro e; cases e; exact h rfl)
  | .error a, .error b => if h : a = b then isTrue (by rw [h]) else isFalse (by intro e; cases e; exact h rfl)
  | .ok _, .error _ => isFalse (by intro e; cases e)
  | .error _, .ok _ => isFalse (by intro e; cases e)

/-- `geometry_argument` given what the path of the argument holds at this moment -/
def geometryArgumentOn (s : List Char) (json : JsonOutcome) (name : List Char) (entry : FsEntry) :
    Except UsageError GeomV :=
  match geometryArgument s json (entry.info name) with
  | .ok (.box b) => .ok (.box b)
  | .ok .ofJson => .ok .ofJson
  | .ok .ofFile =>
    match entry with
    | .file v _ => .ok (.ofFile v)
    | _ => .error .badFile      -- unreachable: `.ofFile` needs `loads`, which only a file has
  | .error e => .error e

/-- `geometry_argument` evaluated after the events `h`; `path` identifies the file the argument text names
(two spellings of one file have one `path`), `name` is its final component -/
def geometryArgumentAfter (h : List FsEvent) (s : List Char) (json : JsonOutcome) (path name : List Char) :
    Except UsageError GeomV :=
  geometryArgumentOn s json name (fsReplay h path)

/-- forget the version -/
def GeomV.erase : GeomV → Geom
  | .box b => .box b
  | .ofJson => .ofJson
  | .ofFile _ => .ofFile

end Ems.Cli
