import EmsModel.Core.Clip
import EmsModel.Core.ArrProto
/-
Core/ClipProto.lean — clip operations of the line protocol (C08, C09 drivers).
  `gridclip <name=arr;name=arr…> <m|u> <arr>`      masks (0/1 data), fill kind, variable → array | `ERR`
  `meshrows <dim=0110;dim=10…|-> <arr>`             → array
  `bounds   <name=arr;…>`                            → `y=0:3,x=1:2` | `ERR`
  `renumber <bits>`                                  → `0,-,1,…`
  `updconn  <rows r;r (entries , with - missing)> <rowkeep bits> <colnew 0,-,1…>` → rows
-/
namespace Ems.ClipProto
open Ems Ems.Proto Ems.ArrProto

def toBoolArr (a : NArr (Option Int)) : NArr Bool :=
  { dims := a.dims, data := a.data.map fun v => v == some 1 }

def parseMasks? (s : String) : Option (List (String × NArr Bool)) :=
  if s == "-" then some [] else
  Proto.allSome ((s.splitOn ";").map fun m =>
    match m.splitOn "=" with
    | [n, arr] => (parseArr? arr).map fun a => (n, toBoolArr a)
    | _ => none)

def parseDimMasks? (s : String) : Option (List (String × List Bool)) :=
  if s == "-" then some [] else
  Proto.allSome ((s.splitOn ";").map fun m =>
    match m.splitOn "=" with
    | [d, bits] => (parseBits? bits).map fun b => (d, b)
    | _ => none)

def showOptNats (l : List (Option Nat)) : String :=
  if l.isEmpty then "" else joinWith "," (l.map showOptNat)

def parseOptNats? (s : String) : Option (List (Option Nat)) :=
  if s == "" then some [] else Proto.allSome ((s.splitOn ",").map parseOptNat?)

def step? (ws : List String) : Option String :=
  match ws with
  | ["gridclip", masks, fill, arr] =>
    some (match parseMasks? masks, parseArr? arr with
    | some ms, some a =>
      let fk := if fill == "m" then FillKind.maskable else FillKind.unmaskable
      match clipVar ms fk a with
      | some r => showArr r
      | none => "ERR"
    | _, _ => "BAD")
  | ["meshrows", dms, arr] =>
    some (match parseDimMasks? dms, parseArr? arr with
    | some dm, some a => showArr (meshRows dm a)
    | _, _ => "BAD")
  | ["bounds", masks] =>
    some (match parseMasks? masks with
    | some ms =>
      match allBounds ms with
      | some bs => joinWith "," (bs.map fun b => s!"{b.1}={b.2.1}:{b.2.2}")
      | none => "ERR"
    | none => "BAD")
  | ["renumber", bits] =>
    some (match parseBits? bits with
    | some b => showOptNats (renumber b)
    | none => "BAD")
  | ["updconn", rows, keep, colnew] =>
    some (match Proto.allSome ((rows.splitOn ";").map parseOptNats?), parseBits? keep, parseOptNats? colnew with
    | some t, some k, some c => joinWith ";" ((updateConnectivity t k c).map showOptNats)
    | _, _, _ => "BAD")
  | _ => none

end Ems.ClipProto
