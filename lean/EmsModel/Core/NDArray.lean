import EmsModel.Core.Shape
/-
Core/NDArray.lean — named N-d arrays (the data part of an `xarray.DataArray`).

`data` is the C-order flattening of the array, `dims` the `(name, size)` list in stored
order.  Reading is by *environment* (an assignment of an index to each dimension name),
which makes transposition statements independent of permutation algebra.

Models (emsarray.utils): `move_dimensions_to_end`, `ravel_dimensions`, `wind_dimension`,
`splice_tuple`, `find_unused_dimension`; (numpy) `transpose`, `reshape` on C-order data.
-/
namespace Ems

abbrev Dim := String × Nat
abbrev Env := List (String × Nat)

structure NArr (α : Type) where
  dims : List Dim
  data : List α
deriving Repr, DecidableEq

namespace NArr
variable {α : Type}

def names (a : NArr α) : List String := a.dims.map (·.1)
def shape (a : NArr α) : List Nat := a.dims.map (·.2)

/-- well formed: as many values as the shape says, and distinct dimension names -/
def WF (a : NArr α) : Prop := a.data.length = size a.shape ∧ a.names.Nodup

end NArr

/-- all-or-nothing sequencing of options -/
def allSome {β : Type} : List (Option β) → Option (List β)
  | [] => some []
  | none :: _ => none
  | some x :: xs => (allSome xs).map (x :: ·)

/-- the index an environment assigns to a dimension name -/
def Env.get (e : Env) (d : String) : Option Nat := List.lookup d e

/-- the multi-index an environment assigns to a list of dimension names -/
def Env.index (e : Env) (names : List String) : Option (List Nat) :=
  allSome (names.map e.get)

namespace NArr
variable {α : Type}

/-- read the value at an environment; `none` if a dimension is unassigned or out of range -/
def get? (a : NArr α) (e : Env) : Option α :=
  match e.index a.names with
  | none => none
  | some idx =>
    match ravel a.shape idx with
    | none => none
    | some n => a.data[n]?

/-- tabulate: the array with the given dims whose value at environment `e` is `f e` -/
def ofFn [Inhabited α] (dims : List Dim) (f : Env → Option α) : NArr α :=
  { dims := dims
    data := (List.range (size (dims.map (·.2)))).map fun n =>
      match unravel (dims.map (·.2)) n with
      | none => default
      | some idx => (f ((dims.map (·.1)).zip idx)).getD default }

/-- `DataArray.transpose(*order)`: same values, dimensions in the given order.
Names in `order` that the array lacks are ignored (the callers check first). -/
def transposeTo [Inhabited α] (a : NArr α) (order : List String) : NArr α :=
  ofFn (order.filterMap fun d => (List.lookup d a.dims).map fun s => (d, s)) a.get?

/-- `utils.move_dimensions_to_end(a, dims)`; `none` = ValueError (a named dimension is absent) -/
def moveToEnd [Inhabited α] (a : NArr α) (dims : List String) : Option (NArr α) :=
  if dims.all (a.names.contains ·) then
    some (a.transposeTo ((a.names.filter (fun d => !dims.contains d)) ++ dims))
  else none

/-- `utils.find_unused_dimension(a, prefix)` with the search bounded by the number of
existing names (one of `prefix, prefix_0 … prefix_k` with `k = |names|` must be free). -/
def findUnused (existing : List String) (pfx : String := "index") : String :=
  if !existing.contains pfx then pfx else
    let rec go (fuel k : Nat) : String :=
      match fuel with
      | 0 => s!"{pfx}_{k}"
      | fuel + 1 => if !existing.contains s!"{pfx}_{k}" then s!"{pfx}_{k}" else go fuel (k + 1)
    go existing.length 0

/-- `utils.ravel_dimensions(a, dims, linear_dimension)`.
`none` = error: a dimension is absent, or the requested linear name collides with a
remaining dimension (the property demands an error there, never silently wrong data). -/
def ravelDims [Inhabited α] (a : NArr α) (dims : List String) (lin : Option String) : Option (NArr α) :=
  match a.moveToEnd dims with
  | none => none
  | some m =>
    let others := m.dims.take (m.dims.length - dims.length)
    let grid := m.dims.drop (m.dims.length - dims.length)
    let name := lin.getD (findUnused m.names "index")
    if (others.map (·.1)).contains name then none
    else some { dims := others ++ [(name, size (grid.map (·.2)))], data := m.data }

/-- `utils.splice_tuple(t, index, values)` -/
def splice {β : Type} (t : List β) (index : Nat) (values : List β) : List β :=
  t.take index ++ values ++ (t.drop index).drop 1

/-- `utils.wind_dimension(a, dimensions, sizes, linear_dimension=lin)`.
`none` = error: no such dimension, or the sizes do not multiply to its length
(numpy `reshape` raises), or a new name collides with a remaining dimension. -/
def windDim (a : NArr α) (newDims : List Dim) (lin : String) : Option (NArr α) :=
  match a.names.idxOf? lin with
  | none => none
  | some k =>
    let rest := (a.dims.take k ++ (a.dims.drop k).drop 1).map (·.1)
    if (a.shape.getD k 0) ≠ size (newDims.map (·.2)) then none
    else if newDims.any (fun d => rest.contains d.1) then none
    else some { dims := splice a.dims k newDims, data := a.data }

end NArr
end Ems
