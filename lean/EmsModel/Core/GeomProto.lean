import EmsModel.Core.Polygons
import EmsModel.Core.GeomBox
import EmsModel.Core.Proto
/-
Core/GeomProto.lean — parsing / printing of geometry values for the line protocol and the
`polys` / `centres` / `valid` / `pip` operations shared by the C02, C04, C06, C15, C19 drivers.

number  : `3`, `-7/2`, `-` or `nan` for missing
numbers : comma separated
point   : `x,y`          ring : points joined by `;`      rings : joined by `|`, `-` = no polygon
pairs   : `a:b` joined by `,`
-/
namespace Ems.GeomProto
open Ems Ems.Proto

def parseOptRat? (s : String) : Option (Option Rat) :=
  if s == "-" || s == "nan" then some none else (parseRat? s).map some

def parseRats? (s : String) : Option (List Rat) :=
  if s == "" || s == "-" then some [] else Proto.allSome ((s.splitOn ",").map parseRat?)

def parseOptRats? (s : String) : Option (List (Option Rat)) :=
  if s == "" then some [] else Proto.allSome ((s.splitOn ",").map parseOptRat?)

def parsePt? (s : String) : Option Pt :=
  match s.splitOn "," with
  | [x, y] => do some ((← parseRat? x), (← parseRat? y))
  | _ => none

def parseRing? (s : String) : Option Poly :=
  if s == "" then some [] else Proto.allSome ((s.splitOn ";").map parsePt?)

def parsePairs? (s : String) : Option (List (Rat × Rat)) :=
  Proto.allSome ((s.splitOn ",").map fun p =>
    match p.splitOn ":" with
    | [a, b] => do some ((← parseRat? a), (← parseRat? b))
    | _ => none)

def showPt (p : Pt) : String := s!"{showRat p.1},{showRat p.2}"
/-- canonical ring: shapely does not add a closing vertex to a ring that is already closed -/
def canonRing (p : Poly) : Poly :=
  match p, p.getLast? with
  | v :: _ :: _, some l => if v == l then p.dropLast else p
  | _, _ => p
def showRing (p : Poly) : String := joinWith ";" ((canonRing p).map showPt)
def showOptRing : Option Poly → String
  | some p => showRing p
  | none => "-"
def showRings (ps : List (Option Poly)) : String := joinWith "|" (ps.map showOptRing)

def showBBox : Option (Rat × Rat × Rat × Rat) → String
  | some (a, b, c, d) => s!"{showRat a},{showRat b},{showRat c},{showRat d}"
  | none => "-"

/-- chunk a flat list into rows of length `n` -/
def chunk {β : Type} (n : Nat) (l : List β) : List (List β) :=
  if n = 0 then [] else
  let rec go (fuel : Nat) (l : List β) (acc : List (List β)) : List (List β) :=
    match fuel with
    | 0 => acc.reverse
    | fuel + 1 => if l.isEmpty then acc.reverse else go fuel (l.drop n) (l.take n :: acc)
  go (l.length + 1) l []

/-- `key=value` arguments -/
def kv (args : List String) (key : String) : Option String :=
  args.findSome? fun a =>
    match a.splitOn "=" with
    | [k, v] => if k == key then some v else none
    | _ => none

/-- apply the validity oracle: `valid=-` → exact `ringValid`; `valid=0110…` → GEOS truth table by linear index -/
def validityOf (arg : Option String) : Option (List (Option Poly) → List (Option Poly) × Bool) :=
  match arg with
  | none | some "-" => some fun raw => (keepValid ringValid raw, invalidDropped ringValid raw)
  | some bits =>
    (parseBits? bits).map fun bs => fun raw =>
      let kept := (raw.zip (bs ++ List.replicate raw.length true)).map fun (p, b) =>
        p.bind fun q => if b then some q else none
      let dropped := (raw.zip (bs ++ List.replicate raw.length true)).any fun (p, b) => p.isSome && !b
      (kept, dropped)

def rawPolys (conv : String) (args : List String) : Option (List (Option Poly)) :=
  match conv with
  | "cf1d" => do
      let lon ← parseRats? (← kv args "lon")
      let lat ← parseRats? (← kv args "lat")
      let lonb ← match kv args "lonb" with
        | none | some "-" => midBounds lon
        | some s => parsePairs? s
      let latb ← match kv args "latb" with
        | none | some "-" => midBounds lat
        | some s => parsePairs? s
      some (cf1dPolys lonb latb)
  | "cf2d" => do
      let ny ← parseNat? (← kv args "ny")
      let nx ← parseNat? (← kv args "nx")
      let lon ← parseOptRats? (← kv args "lon")
      let lat ← parseOptRats? (← kv args "lat")
      let lonG := chunk nx lon
      let latG := chunk nx lat
      let lonb ← match kv args "lonb" with
        | none | some "-" => some (derived2d lonG ny nx)
        | some s => (parseOptRats? s).map fun l => storedCorners ((chunk nx (chunk 4 l)))
      let latb ← match kv args "latb" with
        | none | some "-" => some (derived2d latG ny nx)
        | some s => (parseOptRats? s).map fun l => storedCorners ((chunk nx (chunk 4 l)))
      some (cf2dPolys lonb latb)
  | "ara" => do
      let ny ← parseNat? (← kv args "ny")
      let nx ← parseNat? (← kv args "nx")
      let xg ← parseOptRats? (← kv args "xg")
      let yg ← parseOptRats? (← kv args "yg")
      some (arakawaPolys (chunk (nx + 1) xg) (chunk (nx + 1) yg) ny nx)
  | "ugrid" => do
      let xs ← parseRats? (← kv args "nodex")
      let ys ← parseRats? (← kv args "nodey")
      let faces ← Proto.allSome (((← kv args "faces").splitOn ";").map (parseNatList? ·))
      some (ugridPolys (xs.zip ys) faces)
  | _ => none

/-- `polys <conv> key=value…` → `<rings> M=<mask> B=<bbox> W=<warned>` -/
def stepPolys (conv : String) (args : List String) : String :=
  match rawPolys conv args, validityOf (kv args "valid") with
  | some raw, some f =>
    let (kept, warned) := f raw
    let b := if kv args "nob" == some "1" then "skip" else showBBox (polysBounds kept)
    s!"{showRings kept} M={showBits (polyMask kept)} B={b} W={if warned then 1 else 0}"
  | none, _ => "ERR"
  | _, none => "BAD"

def showOptRat : Option Rat → String
  | some r => showRat r
  | none => "-"

def stepCentres (conv : String) (args : List String) : String :=
  match conv with
  | "cf1d" =>
    match (kv args "lon").bind parseRats?, (kv args "lat").bind parseRats? with
    | some lon, some lat => joinWith ";" ((cf1dCentres lon lat).map showPt)
    | _, _ => "BAD"
  | "grid" =>
    match (kv args "nx").bind parseNat?, (kv args "lon").bind parseOptRats?, (kv args "lat").bind parseOptRats? with
    | some nx, some lon, some lat =>
      joinWith ";" ((gridCentres (chunk nx lon) (chunk nx lat)).map fun p => s!"{showOptRat p.1},{showOptRat p.2}")
    | _, _, _ => "BAD"
  | _ => "BAD"

/-- `cf1dgeom lon=… lat=… [lonb=a:b,… latb=…]` → `box minx,miny,maxx,maxy` when `CFGrid1D.geometry` answers with
the box of its bounds, `union` when it falls back to the union of the cell polygons -/
def stepCf1dGeom (args : List String) : String :=
  let r : Option (Option (Rat × Rat × Rat × Rat)) := do
    let lon ← parseRats? (← kv args "lon")
    let lat ← parseRats? (← kv args "lat")
    let lonb ← match kv args "lonb" with
      | none | some "-" => midBounds lon
      | some s => parsePairs? s
    let latb ← match kv args "latb" with
      | none | some "-" => midBounds lat
      | some s => parsePairs? s
    some (cf1dGeometryBox lonb latb)
  match r with
  | none => "ERR"
  | some none => "union"
  | some (some b) => s!"box {showBBox (some b)}"

/-- geometry operations common to several drivers; `none` = not one of them -/
def step? (ws : List String) : Option String :=
  match ws with
  | "polys" :: conv :: args => some (stepPolys conv args)
  | "centres" :: conv :: args => some (stepCentres conv args)
  | "cf1dgeom" :: args => some (stepCf1dGeom args)
  | ["valid", ring] =>
    some (match parseRing? ring with
      | some p => if ringValid p then "1" else "0"
      | none => "BAD")
  | ["pip", ring, pt] =>
    some (match parseRing? ring, parsePt? pt with
      | some p, some q => if pointInPoly q p then "1" else "0"
      | _, _ => "BAD")
  | _ => none

end Ems.GeomProto
