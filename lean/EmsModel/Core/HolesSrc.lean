import EmsModel.Core.NpExpr
/-
Core/HolesSrc.lean — the *source text* of `utils.make_polygons_with_holes` as data, with an evaluator that gives it its
numpy / shapely meaning.  `harness/trans_holessrc.py` fills `Gen/HolesSrc.lean` from the working tree on every run;
`Props/C02Src.lean` proves that, evaluated, it is `Ems.pointsToPolys` (the function every grid convention's polygon
pipeline ends in: cells with a missing corner get no polygon and keep their slot).  Core Lean only.
-/
namespace Ems.HolesSrc

/-- `make_polygons_with_holes(points, out=None)` as read from the source -/
structure Src where
  /-- `out` is allocated as `numpy.full(points.shape[k], None, dtype=object)` when none is handed in; `k` -/
  allocAxis : Option Nat
  /-- the rows that get a polygon are `numpy.flatnonzero(numpy.isfinite(points).all(axis=AXES))`; AXES -/
  finiteAxes : Option (List Nat)
  /-- `shapely.polygons(points[rows], indices=rows, out=out)` with those same rows in both places -/
  polygonsAtRows : Bool
  /-- the function returns `out` -/
  returnsOut : Bool
deriving Repr, DecidableEq

/-- row `p` of an `(n, m, 2)` array has no missing value -/
def rowFinite (a : NpArr) (m p : Nat) : Bool :=
  (List.range m).all fun k => (a.get [p, k, 0]).isSome && (a.get [p, k, 1]).isSome

/-- the polygon `shapely.polygons` builds from row `p` (all of whose values are present) -/
def rowPolygon (a : NpArr) (m p : Nat) : Option Poly :=
  allSomeL ((List.range m).map fun k => optPt (a.get [p, k, 0]) (a.get [p, k, 1]))

/-- The meaning of the description on an `(n, m, 2)` array: a fresh array of `n` `None`s in which the rows selected by the
finiteness test over the axes named are overwritten by their polygons. `none` = the description says something else. -/
def eval (s : Src) (a : NpArr) : Option (List (Option Poly)) :=
  match a.shape with
  | [n, m, 2] =>
    if s.allocAxis = some 0 ∧ s.finiteAxes = some [1, 2] ∧ s.polygonsAtRows ∧ s.returnsOut then
      some ((List.range n).map fun p => if rowFinite a m p then rowPolygon a m p else none)
    else none
  | _ => none

end Ems.HolesSrc
