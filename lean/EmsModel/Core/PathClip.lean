import EmsModel.Core.Geom
/-
Core/PathClip.lean — exact clipping of a path (polyline) against a cell polygon, in the
path-parameter space of `Core/Transect.lean`.

This is the model of what `Transect._intersect_polygon` asks of GEOS
(`polygon.intersection(line)`, keeping only the line pieces): for one cell polygon and the
transect path, the maximal stretches of the path that lie inside the closed polygon, each
given by the path parameters of its two ends.  A position on the path is `k + s`: vertex
index `k`, fraction `s ∈ [0,1]` of leg `k` (the leg from vertex `k` to vertex `k+1`), exactly
as in `harness/gen/pathclip.py`.

Two clippers:

* `clipLegConvex` / `clipPathConvex` — Cyrus–Beck / Liang–Barsky for a *convex* ring: the leg
  is cut by one half-plane per polygon edge; every constraint is affine in the leg parameter,
  so the result is an intersection of 1-D intervals.  This one carries the theorems
  (`Lemmas/PathClip.lean`, `Props/C18.lean`): the piece is exactly the part of the leg inside
  the polygon.
* `clipLegSimple` / `clipPathSimple` — the event-based clipper of `gen/pathclip.py` for any
  simple ring (concave mesh faces): crossing parameters, sorted, midpoints tested with the
  exact closed point-in-polygon of `Core/Geom.lean`.  No theorem; the driver uses it for
  non-convex faces and, on convex faces, checks that both clippers agree.
-/
namespace Ems

/-- the point at fraction `s` of the leg `a → b`: `a + s (b - a)` -/
def legPoint (a b : Pt) (s : Rat) : Pt := (a.1 + s * (b.1 - a.1), a.2 + s * (b.2 - a.2))

/-- winding sign of a ring: `-1` for a clockwise ring (negative shoelace area), `+1` otherwise.
A degenerate ring of zero area gets `+1`; its half-planes then cut out (at most) a line or a
point, `convex` rejects it, and the theorems — which are about the half-plane set
`insideConvex` — hold for it all the same. -/
def orient (poly : Poly) : Rat := if area2 poly < 0 then -1 else 1

/-- signed distance-like quantity of `p` from the line of edge `e`, positive on the interior
side whatever the winding of the ring -/
def edgeSide (poly : Poly) (e : Pt × Pt) (p : Pt) : Rat := orient poly * cross e.1 e.2 p

/-- the closed convex polygon as an intersection of half-planes: `p` is on the inner side of
(or on) the line of every edge.  For a convex ring this is the polygon with its boundary. -/
def insideConvex (poly : Poly) (p : Pt) : Prop := ∀ e ∈ ringEdges poly, 0 ≤ edgeSide poly e p

/-- strictly on the inner side of every edge: the interior of the convex polygon -/
def strictInside (poly : Poly) (p : Pt) : Prop := ∀ e ∈ ringEdges poly, 0 < edgeSide poly e p

def insideConvexB (poly : Poly) (p : Pt) : Bool := (ringEdges poly).all fun e => decide (0 ≤ edgeSide poly e p)

def strictInsideB (poly : Poly) (p : Pt) : Bool := (ringEdges poly).all fun e => decide (0 < edgeSide poly e p)

/-- every turn of the ring goes the same way (collinear vertices allowed): the cross products
of consecutive edges are all ≥ 0 after normalising the winding -/
def convexTurns (poly : Poly) : Bool :=
  let es := ringEdges poly
  match es with
  | [] => true
  | e0 :: _ => (es.zip (es.drop 1 ++ [e0])).all fun ee => decide (0 ≤ edgeSide poly ee.1 ee.2.2)

/-- decidable convexity of a ring: it encloses area, and every vertex lies on the inner side of
(or on) the line of every edge.  Collinear vertices are allowed, either winding.  This implies
`convexTurns` and also rules out rings that turn one way but wind round more than once. -/
def convex (poly : Poly) : Bool :=
  decide (area2 poly ≠ 0) && poly.all (insideConvexB poly)

/-! ### one leg against a convex ring -/

/-- the half-plane of each edge, restricted to the leg `a → b`: pairs `(c, d)` standing for the
constraint `c + s * d ≥ 0` on the leg parameter `s` (the cross product is affine in `s`) -/
def edgeConstraints (poly : Poly) (a b : Pt) : List (Rat × Rat) :=
  (ringEdges poly).map fun e => (edgeSide poly e a, edgeSide poly e b - edgeSide poly e a)

/-- cut a closed interval by one constraint `c + s * d ≥ 0`; `none` is the empty set -/
def clipStep (iv : Option (Rat × Rat)) (cd : Rat × Rat) : Option (Rat × Rat) :=
  match iv with
  | none => none
  | some (lo, hi) =>
    if 0 < cd.2 then
      (if max lo (-cd.1 / cd.2) ≤ hi then some (max lo (-cd.1 / cd.2), hi) else none)
    else if cd.2 < 0 then
      (if lo ≤ min hi (-cd.1 / cd.2) then some (lo, min hi (-cd.1 / cd.2)) else none)
    else if 0 ≤ cd.1 then some (lo, hi) else none

/-- the closed interval of parameters `s ∈ [0,1]` whose point `legPoint a b s` is inside the
closed convex polygon; `none` when no point of the leg is.  `lo = hi` is a single-point touch. -/
def clipLegConvex (poly : Poly) (a b : Pt) : Option (Rat × Rat) :=
  (edgeConstraints poly a b).foldl clipStep (some (0, 1))

/-- only proper pieces: emsarray keeps the `LineString` parts of the intersection and drops
point touches (`Transect._intersect_polygon`) -/
def clipLegConvexPiece (poly : Poly) (a b : Pt) : Option (Rat × Rat) :=
  match clipLegConvex poly a b with
  | some (lo, hi) => if lo < hi then some (lo, hi) else none
  | none => none

/-! ### whole paths -/

/-- the legs of a path with their vertex index -/
def pathLegs (path : List Pt) : List (Nat × Pt × Pt) :=
  (List.range (path.length - 1)).filterMap fun k =>
    match path[k]?, path[k + 1]? with
    | some a, some b => some (k, a, b)
    | _, _ => none

/-- a leg-local interval as path parameters -/
def shiftPiece (k : Nat) (p : Rat × Rat) : Rat × Rat := ((k : Rat) + p.1, (k : Rat) + p.2)

/-- join a piece with the next one when it starts exactly where this one ends
(`k + 1 = (k+1) + 0`: the path goes on inside the cell across a vertex) -/
def mergePieces : List (Rat × Rat) → List (Rat × Rat)
  | [] => []
  | p :: rest =>
    match mergePieces rest with
    | [] => [p]
    | q :: qs => if p.2 = q.1 then (p.1, q.2) :: qs else p :: q :: qs

/-- per-leg pieces of the path inside a convex ring, as path parameters, before merging -/
def rawPathConvex (poly : Poly) (path : List Pt) : List (Rat × Rat) :=
  (pathLegs path).filterMap fun l => (clipLegConvexPiece poly l.2.1 l.2.2).map (shiftPiece l.1)

/-- the stretches of the path inside a convex cell: what `polygon.intersection(line)` must
return as line pieces, up to where a stretch is cut (contiguous pieces are merged) -/
def clipPathConvex (poly : Poly) (path : List Pt) : List (Rat × Rat) :=
  mergePieces (rawPathConvex poly path)

/-- `t` is a parameter of the path and `p` the point it denotes: `t = k + s` on leg `k` -/
def OnPath (path : List Pt) (t : Rat) (p : Pt) : Prop :=
  ∃ (k : Nat) (a b : Pt) (s : Rat), path[k]? = some a ∧ path[k + 1]? = some b ∧
    0 ≤ s ∧ s ≤ 1 ∧ t = (k : Rat) + s ∧ p = legPoint a b s

/-! ### one leg against any simple ring (mirror of `harness/gen/pathclip.py`) -/

/-- parameters `s ∈ [0,1]` where the leg `a → b` meets the edge `c → e`
(`leg_params`: a proper crossing, or the projections of the ends of a collinear edge) -/
def edgeEvents (a b c e : Pt) : List Rat :=
  let dx := b.1 - a.1; let dy := b.2 - a.2
  let fx := e.1 - c.1; let fy := e.2 - c.2
  let den := dx * fy - dy * fx
  if den ≠ 0 then
    let s := ((c.1 - a.1) * fy - (c.2 - a.2) * fx) / den
    let u := ((c.1 - a.1) * dy - (c.2 - a.2) * dx) / den
    if 0 ≤ s ∧ s ≤ 1 ∧ 0 ≤ u ∧ u ≤ 1 then [s] else []
  else if cross a b c = 0 then
    [c, e].filterMap fun q =>
      let s := if dx ≠ 0 then (q.1 - a.1) / dx else (q.2 - a.2) / dy
      if 0 ≤ s ∧ s ≤ 1 then some s else none
  else []

/-- drop repeated neighbours of a sorted list -/
def dedupSorted : List Rat → List Rat
  | [] => []
  | [x] => [x]
  | x :: y :: rest => if x = y then dedupSorted (y :: rest) else x :: dedupSorted (y :: rest)

/-- all event parameters of a leg, with `0` and `1`, ascending, without repeats -/
def legEvents (poly : Poly) (a b : Pt) : List Rat :=
  let evs := (0 : Rat) :: 1 :: (ringEdges poly).flatMap fun e => edgeEvents a b e.1 e.2
  dedupSorted (evs.mergeSort fun x y => decide (x ≤ y))

/-- the stretches between consecutive events whose midpoint is inside the closed polygon -/
def clipLegSimple (poly : Poly) (a b : Pt) : List (Rat × Rat) :=
  let ps := legEvents poly a b
  (ps.zip (ps.drop 1)).filter fun iv => pointInPoly (legPoint a b ((iv.1 + iv.2) / 2)) poly

/-- the stretches of the path inside any simple cell (contiguous ones merged) -/
def clipPathSimple (poly : Poly) (path : List Pt) : List (Rat × Rat) :=
  mergePieces ((pathLegs path).flatMap fun l => (clipLegSimple poly l.2.1 l.2.2).map (shiftPiece l.1))

/-- the clipper the driver runs for a cell: the proved one when the ring is convex -/
def clipPath (poly : Poly) (path : List Pt) : List (Rat × Rat) :=
  if convex poly then clipPathConvex poly path else clipPathSimple poly path

end Ems
