import EmsModel.Core.Polygons
import EmsModel.Core.Index
/-
Core/Export.lean — geometry export (`emsarray.operations.geometry`).

`to_geojson` / `write_geojson`, `write_shapefile` (record values), `_to_multipolygon`
(`write_wkt`, `write_wkb`), and the JSON encoding of native indexes
(tuples → arrays, `str`-enum grid kinds → strings).
-/
namespace Ems

/-- the fragment of JSON that native indexes use: a flat array of strings and integers -/
inductive JAtom
  | str (s : String)
  | num (n : Int)
deriving Repr, DecidableEq, Inhabited

abbrev J := List JAtom

/-- how a convention spells its native index: CF grids use `(y, x)`, the others `(kind, …)` -/
inductive IndexStyle
  | bare      -- CFGrid1D / CFGrid2D / ShocSimple: no grid kind in the index
  | kinded    -- ArakawaC / ShocStandard / UGrid
deriving Repr, DecidableEq

/-- `json.dumps(index)` -/
def encodeIndex (style : IndexStyle) (idx : Kind × List Nat) : J :=
  match style with
  | .bare => idx.2.map fun (n : Nat) => JAtom.num (Int.ofNat n)
  | .kinded => JAtom.str idx.1 :: idx.2.map fun (n : Nat) => JAtom.num (Int.ofNat n)

def decodeNums : List JAtom → Option (List Nat)
  | [] => some []
  | .num n :: rest => if n < 0 then none else (decodeNums rest).map (n.toNat :: ·)
  | _ :: _ => none

/-- reading a recorded index back (`json.loads`, grid kind string → enum) -/
def decodeIndex (style : IndexStyle) (bareKind : Kind) (l : J) : Option (Kind × List Nat) :=
  match style, l with
  | .bare, l => (decodeNums l).map fun c => (bareKind, c)
  | .kinded, .str k :: rest => (decodeNums rest).map fun c => (k, c)
  | .kinded, _ => none

/-- one exported feature -/
structure Feature where
  linear : Nat
  index : Option (Kind × List Nat)
  polygon : Poly
deriving Repr, DecidableEq

/-- `to_geojson`: one feature per cell that has a polygon, in linear order, each recording
its linear index and `wind_index(linear index)` -/
def features (c : Conv) (polys : List (Option Poly)) : List Feature :=
  (List.range polys.length).filterMap fun n =>
    match (polys[n]?).join with
    | some p => some { linear := n, index := c.windIndex none (n : Int), polygon := p }
    | none => none

/-- `_to_multipolygon`: the polygons that exist, in linear order -/
def multipolygon (polys : List (Option Poly)) : List Poly := polys.filterMap id

/-- a shapefile record: `name`, `linear_index`, `index` (JSON text of the native index) -/
structure DbfRecord where
  name : String
  linear : Option Nat
  index : Option J
deriving Repr, DecidableEq

def dbfRecords (style : IndexStyle) (c : Conv) (polys : List (Option Poly)) : List DbfRecord :=
  (features c polys).map fun f =>
    { name := s!"polygon{f.linear}", linear := some f.linear, index := f.index.map (encodeIndex style) }

end Ems
