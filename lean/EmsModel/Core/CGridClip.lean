import EmsModel.Core.Clip
import EmsModel.Core.Mask
import EmsModel.Lemmas.ClipCompose
/-
Core/CGridClip.lean — one clip of an Arakawa C (SHOC standard) dataset, from the cells the geometry hits to the
clipped variable.

Models the composition `ArakawaC.clip(geometry, work_dir, buffer)` performs for one data variable:
`ArakawaC.make_clip_mask` (`Clip.arakawaClipMask`: hit cells, `blur_mask`, `c_mask_from_centres`), the mask dataset
with its four variables in the order `c_mask_from_centres` declares them, `masking.mask_grid_dataset` (`clipVar`).
Total, computable, core Lean only.
-/
namespace Ems

/-- the `(y, x)` dimension names of the four grids of an Arakawa C dataset -/
structure CGridDims where
  face : String × String
  back : String × String
  left : String × String
  node : String × String
deriving Repr, DecidableEq

/-- the mask dataset `c_mask_from_centres` returns: `face_mask`, `back_mask`, `left_mask`, `node_mask`, each over the
two dimensions of its grid -/
def cMaskVars (d : CGridDims) (c : Clip.CMask) : List (String × NArr Bool) :=
  [("face_mask", faceMaskVar d.face.1 d.face.2 c.face),
   ("back_mask", faceMaskVar d.back.1 d.back.2 c.back),
   ("left_mask", faceMaskVar d.left.1 d.left.2 c.left),
   ("node_mask", faceMaskVar d.node.1 d.node.2 c.node)]

/-- `ArakawaC.clip(geometry, work_dir, buffer)` as far as one data variable is concerned: the cells whose polygon
intersects the geometry (`hits`, linear indices), the buffer, the variable -/
def arakawaClipVar {α : Type} [Inhabited α] (d : CGridDims) (ny nx : Nat) (hits : List Nat) (buffer : Int)
    (fill : FillKind) (a : NArr (Option α)) : Option (NArr (Option α)) :=
  clipVar (cMaskVars d (Clip.arakawaClipMask ny nx hits buffer)) fill a

end Ems
