import EmsModel.Core.TimeUnits
/-!
Core/SaveSession.lean — the `_FillValue` attributes of the files a *process* writes through
`Convention.to_netcdf(path, **kwargs)` (→ `utils.to_netcdf_with_fixes` → `disable_default_fill_value`,
`xarray.Dataset.to_netcdf(path, **kwargs)`), one save after another.

`Core/TimeUnits.lean` has the decision for ONE variable (`disableDefaultFill`, `writesFill`).  Here:

* a dataset is a list of variables of any rank — rank 0 is what `dataset.isel(k=0)` leaves of the coordinate of `k`,
  or a variable that never had a dimension.  The rank is carried along and never looked at: the decision is the same
  for a variable without dimensions as for any other;
* a save may be given `encoding={name: {...}}`.  For the variables it names xarray REPLACES the variable's own
  encoding by the caller's (so the `_FillValue: None` that `disable_default_fill_value` put there is gone for them),
  and refuses names the dataset does not have;
* a process is a list of such calls, oldest first.  The only thing the save method could keep between two calls is
  its default keyword arguments; the method the property demands builds the arguments of a call from them WITHOUT
  storing anything back (`stepSession`).  `stepLeaky` is the other machine, which stores the caller's arguments in
  the defaults; it is here so that the independence theorem can be seen to tell the two apart.

Core Lean only.
-/
namespace Ems.SaveSession
open Ems.TimeUnits

/-- one variable of a dataset that is saved -/
structure SVar where
  name : String
  rank : Nat          -- number of dimensions; 0 = no dimension at all
  desc : VarDesc
deriving DecidableEq, Repr

/-- `encoding={name: {...}}` for one variable: the dtype the variable is then written with and the `_FillValue`
slot of the caller's dict -/
structure EncArg where
  name : String
  disk : DKind
  slot : Slot
deriving DecidableEq, Repr

/-- one call of the save method: its `encoding=` (empty for a plain save) and the dataset -/
structure SaveCall where
  args : List EncArg
  vars : List SVar
deriving DecidableEq, Repr

/-- name ↦ has a `_FillValue` attribute in the file -/
abbrev File := List (String × Bool)

/-- the variable as xarray encodes it: `disable_default_fill_value` first, then the caller's encoding in place of the
variable's own when the call names the variable (the first entry for a name wins) -/
def effective (args : List EncArg) (v : SVar) : VarDesc :=
  let d := disableDefaultFill v.desc
  match args.find? (fun e => e.name == v.name) with
  | some e => { d with disk := e.disk, enc := e.slot }
  | none => d

/-- xarray refuses an `encoding=` that names a variable the dataset does not have -/
def argsOk (args : List EncArg) (vars : List SVar) : Bool :=
  args.all fun e => vars.any fun v => v.name == e.name

/-- one save with the keyword arguments `args`: the file, or `none` when the call raises -/
def saveWith (args : List EncArg) (vars : List SVar) : Option File :=
  if argsOk args vars then some (vars.map fun v => (v.name, writesFill (effective args v))) else none

def save (c : SaveCall) : Option File := saveWith c.args c.vars

/-- what the source says about each variable: had it a fill value of its own -/
def sourceFills (vars : List SVar) : File := vars.map fun v => (v.name, sourceHasFill v.desc)

/-- One call on the machine the property demands. The state is the method's default keyword arguments; the call
runs with the caller's arguments in front of them (they take precedence), the state goes on as it was. -/
def stepSession (st : List EncArg) (c : SaveCall) : List EncArg × Option File :=
  (st, saveWith (c.args ++ st) c.vars)

/-- The machine that stores the caller's arguments in the defaults (`options = defaults; options.update(kwargs)`
without a copy). -/
def stepLeaky (st : List EncArg) (c : SaveCall) : List EncArg × Option File :=
  (c.args ++ st, saveWith (c.args ++ st) c.vars)

/-- the files of a whole history, oldest call first, on a machine `step` started in state `st` -/
def runWith (step : List EncArg → SaveCall → List EncArg × Option File) :
    List EncArg → List SaveCall → List (Option File)
  | _, [] => []
  | st, c :: h => (step st c).2 :: runWith step (step st c).1 h

/-- a process started with no default arguments -/
def runSession (h : List SaveCall) : List (Option File) := runWith stepSession [] h

def runLeaky (h : List SaveCall) : List (Option File) := runWith stepLeaky [] h

end Ems.SaveSession
