import EmsModel.Core.PlotRavel
/-
Core/PlotSrc.lean — the small language into which `harness/trans_plotsrc.py` translates the statement / decision
structure of `Convention.make_poly_collection`, `Convention.make_quiver` (conventions/_base.py) and
`plot.polygons_to_collection` (plot.py) from their source text (`Gen/PlotSrc.lean`), with a total interpreter.

* operands `PsExpr`: the parameters, `self.ravel(·)`, `·.values`, `·[self.mask]`, `self.polygons`, `self.face_centres`,
  the columns of `numpy.transpose(·)`, `numpy.nanmin / nanmax`, a 2-tuple, `numpy.nan`, `self.data_crs`, and a choice on
  "these parameters were given" (a local that is re-assigned inside an `if … is not None`);
* tests `PsCond`: `· is not None`, `'k' in kwargs`, `len(·.dims) > n`, `·.dims != ·.dims`, `not`, `and`;
* a program is a flat list of guarded statements `PsStmt` in source order (the guards are the enclosing `if` tests,
  re-evaluated in the state the statement is reached in): `raise`, `kwargs['k'] = …`, and the two `return`s.

Locals are inlined by the translator.  Whatever it does not understand is an `unsupported "<python text>"` constructor, on
which the interpreter is stuck (`PsErr.stuck`), so no theorem of `Props/C19Src.lean` accepts it.  Core Lean only.
-/
namespace Ems

inductive PsExpr
  /-- the `data_array` parameter (after `utils.name_to_data_array(self.dataset, ·)`, which the model does not distinguish) -/
  | dataArg
  /-- the `u` / `v` parameters of `make_quiver` -/
  | uArg
  | vArg
  /-- `self.ravel(e)` -/
  | ravel (e : PsExpr)
  /-- `e.values` -/
  | values (e : PsExpr)
  /-- `e[self.mask]` -/
  | maskIndex (e : PsExpr)
  /-- `self.polygons` -/
  | polygons
  /-- `self.face_centres` -/
  | faceCentres
  /-- the `k`-th of `a, b = numpy.transpose(e)` -/
  | column (k : Nat) (e : PsExpr)
  /-- `numpy.nanmin(e)` / `numpy.nanmax(e)` -/
  | nanmin (e : PsExpr)
  | nanmax (e : PsExpr)
  /-- `(a, b)` -/
  | tuple2 (a b : PsExpr)
  /-- `numpy.nan` -/
  | nan
  /-- `self.data_crs` -/
  | dataCrs
  /-- `t if (a is not None and b is not None) else e`: a local re-assigned under that `if` -/
  | ifGiven2 (a b : PsExpr) (t e : PsExpr)
  | unsupported (py : String)
deriving Repr, DecidableEq

/-- runtime values -/
inductive PsV
  | arr (a : NArr (Option Rat))
  | vals (l : List (Option Rat))
  | polys (l : List (Option Poly))
  | paths (l : List Poly)
  | pts (l : List (Rat × Rat))
  | coords (l : List Rat)
  | num (x : Option Rat)
  | pair (a b : PsV)
  | crs
  /-- something the caller passed in a keyword -/
  | user (tag : Nat)

inductive PsErr
  | typeError
  | valueError
  /-- not understood / ill-typed: no theorem accepts it -/
  | stuck

/-- what the functions read -/
structure PsEnv where
  /-- `self.polygons` (`none` = no geometry; `self.mask` is "is some") -/
  polys : List (Option Poly)
  /-- `self.face_centres` rows `(x, y)` -/
  centres : List (Rat × Rat)
  /-- `self.grid_dimensions[self.default_grid_kind]` -/
  gridDims : List String
  data : Option (NArr (Option Rat))
  u : Option (NArr (Option Rat))
  v : Option (NArr (Option Rat))

abbrev PsKw := List (String × PsV)

/-- is this parameter expression given (not `None`)?  `none` = not a parameter -/
def PsExpr.given (env : PsEnv) : PsExpr → Option Bool
  | .dataArg => some env.data.isSome
  | .uArg => some env.u.isSome
  | .vArg => some env.v.isSome
  | _ => none

def PsExpr.eval (env : PsEnv) : PsExpr → Except PsErr PsV
  | .dataArg => match env.data with | some a => .ok (.arr a) | none => .error .stuck
  | .uArg => match env.u with | some a => .ok (.arr a) | none => .error .stuck
  | .vArg => match env.v with | some a => .ok (.arr a) | none => .error .stuck
  | .ravel e =>
    match e.eval env with
    | .ok (.arr a) =>
      (match a.ravelDims env.gridDims none with
      | some r => .ok (.arr r)
      | none => .error .valueError)
    | .ok _ => .error .stuck
    | .error x => .error x
  | .values e =>
    match e.eval env with
    | .ok (.arr a) => .ok (.vals a.data)
    | .ok _ => .error .stuck
    | .error x => .error x
  | .maskIndex e =>
    match e.eval env with
    | .ok (.vals l) => .ok (.vals (plottedValues env.polys l))
    | .ok (.polys l) => .ok (.paths (plottedPaths l))
    | .ok _ => .error .stuck
    | .error x => .error x
  | .polygons => .ok (.polys env.polys)
  | .faceCentres => .ok (.pts env.centres)
  | .column k e =>
    match e.eval env with
    | .ok (.pts l) =>
      if k = 0 then .ok (.coords (l.map (·.1))) else if k = 1 then .ok (.coords (l.map (·.2))) else .error .stuck
    | .ok _ => .error .stuck
    | .error x => .error x
  | .nanmin e =>
    match e.eval env with
    | .ok (.vals l) => if l.isEmpty then .error .valueError else .ok (.num ((defaultClim l).map (·.1)))
    | .ok _ => .error .stuck
    | .error x => .error x
  | .nanmax e =>
    match e.eval env with
    | .ok (.vals l) => if l.isEmpty then .error .valueError else .ok (.num ((defaultClim l).map (·.2)))
    | .ok _ => .error .stuck
    | .error x => .error x
  | .tuple2 a b =>
    match a.eval env with
    | .ok x => (match b.eval env with | .ok y => .ok (.pair x y) | .error e => .error e)
    | .error e => .error e
  | .nan => .ok (.num none)
  | .dataCrs => .ok .crs
  | .ifGiven2 a b t e =>
    match a.given env, b.given env with
    | some ga, some gb => if ga && gb then t.eval env else e.eval env
    | _, _ => .error .stuck
  | .unsupported _ => .error .stuck

inductive PsCond
  /-- `e is not None` -/
  | given (e : PsExpr)
  /-- `'k' in kwargs` -/
  | kwHas (k : String)
  /-- `len(e.dims) > n` -/
  | dimsLenGt (e : PsExpr) (n : Nat)
  /-- `a.dims != b.dims` -/
  | dimsNe (a b : PsExpr)
  | not (c : PsCond)
  | and (a b : PsCond)
  | unsupported (py : String)
deriving Repr, DecidableEq

def PsCond.eval (env : PsEnv) (kw : PsKw) : PsCond → Except PsErr Bool
  | .given e => match e.given env with | some b => .ok b | none => .error .stuck
  | .kwHas k => .ok (kw.lookup k).isSome
  | .dimsLenGt e n =>
    match e.eval env with
    | .ok (.arr a) => .ok (decide (n < a.dims.length))
    | .ok _ => .error .stuck
    | .error x => .error x
  | .dimsNe a b =>
    match a.eval env, b.eval env with
    | .ok (.arr x), .ok (.arr y) => .ok (decide (x.names ≠ y.names))
    | .error x, _ => .error x
    | _, .error x => .error x
    | _, _ => .error .stuck
  | .not c => match c.eval env kw with | .ok b => .ok (!b) | .error x => .error x
  | .and a b =>
    match a.eval env kw with
    | .ok true => b.eval env kw
    | .ok false => .ok false
    | .error x => .error x
  | .unsupported _ => .error .stuck

inductive PsAct
  /-- `raise <exc>(…)` -/
  | raise (exc : String)
  /-- `kwargs['k'] = e` -/
  | setKw (k : String) (e : PsExpr)
  /-- `return polygons_to_collection(p, **kwargs)` -/
  | retCollection (p : PsExpr)
  /-- `return Quiver(axes, x, y, *values, **kwargs)` -/
  | retQuiver (x y values : PsExpr)
  | unsupported (py : String)
deriving Repr, DecidableEq

structure PsStmt where
  guards : List PsCond
  act : PsAct
deriving Repr, DecidableEq

inductive PsOut
  | collection (paths : PsV) (kw : PsKw)
  | quiver (x y values : PsV) (kw : PsKw)

def psAll (env : PsEnv) (kw : PsKw) : List PsCond → Except PsErr Bool
  | [] => .ok true
  | c :: cs =>
    match c.eval env kw with
    | .ok true => psAll env kw cs
    | .ok false => .ok false
    | .error x => .error x

/-- run the statements in order; falling off the end (`return None`) is not an artist: stuck -/
def psRun (env : PsEnv) : List PsStmt → PsKw → Except PsErr PsOut
  | [], _ => .error .stuck
  | s :: rest, kw =>
    match psAll env kw s.guards with
    | .error x => .error x
    | .ok false => psRun env rest kw
    | .ok true =>
      match s.act with
      | .raise exc =>
        if exc = "TypeError" then .error .typeError else if exc = "ValueError" then .error .valueError else .error .stuck
      | .setKw k e =>
        (match e.eval env with
        | .ok v => psRun env rest ((k, v) :: kw)
        | .error x => .error x)
      | .retCollection p =>
        (match p.eval env with
        | .ok v => .ok (.collection v kw)
        | .error x => .error x)
      | .retQuiver x y vs =>
        (match x.eval env, y.eval env, vs.eval env with
        | .ok a, .ok b, .ok c => .ok (.quiver a b c kw)
        | .error e, _, _ => .error e
        | _, .error e, _ => .error e
        | _, _, .error e => .error e)
      | .unsupported _ => .error .stuck

/-! ### reading the outcome in the hand model's terms -/

/-- the keywords of a call `make_poly_collection(…, **kwargs)` that the model tracks: `array=` (content irrelevant),
`clim=`, `transform=` -/
def psInitKw (ov : PlotOverrides) (transform : Option Nat) : PsKw :=
  (if ov.array then [("array", PsV.user 0)] else []) ++
  (match ov.clim with
   | some c => [("clim", PsV.pair (.num (some c.1)) (.num (some c.2)))]
   | none => []) ++
  (match transform with
   | some t => [("transform", PsV.user t)]
   | none => [])

def psKwClim (kw : PsKw) : Option (Rat × Rat) :=
  match kw.lookup "clim" with
  | some (.pair (.num (some lo)) (.num (some hi))) => some (lo, hi)
  | _ => none

def psKwArray (kw : PsKw) : Option (List (Option Rat)) :=
  match kw.lookup "array" with
  | some (.vals l) => some l
  | _ => none

/-- outcome of the generated `make_poly_collection` as a `PlotResult` and the `transform` keyword the artist gets;
`none` = stuck -/
def psPolyResult : Except PsErr PsOut → Option (PlotResult × Option PsV)
  | .error .typeError => some (.typeError, none)
  | .error .valueError => some (.valueError, none)
  | .ok (.collection (.paths p) kw) => some (.ok p (psKwArray kw) (psKwClim kw), kw.lookup "transform")
  | _ => none

/-- outcome of the generated `make_quiver`: arrow `n` = `((x n, y n), (U n, V n))`; with `numpy.nan, numpy.nan` for the
components every arrow is `(nan, nan)` -/
def psQuiverResult : Except PsErr PsOut → Option (QuiverResult (Rat × Rat) × Option PsV)
  | .error .valueError => some (.valueError, none)
  | .ok (.quiver (.coords x) (.coords y) (.pair (.vals us) (.vals vs)) kw) =>
    some (.ok ((x.zip y).zip (us.zip vs)), kw.lookup "transform")
  | .ok (.quiver (.coords x) (.coords y) (.pair (.num none) (.num none)) kw) =>
    some (.ok ((x.zip y).map fun c => (c, none, none)), kw.lookup "transform")
  | _ => none

/-! ### `plot.polygons_to_collection` -/

inductive PsIter
  /-- the comprehension walks the first parameter (`polygons`) in order -/
  | polygonsParam
  | unsupported (py : String)
deriving Repr, DecidableEq

inductive PsVert
  /-- `numpy.asarray(<loop variable>.exterior.coords)` -/
  | exteriorCoords
  | unsupported (py : String)
deriving Repr, DecidableEq

/-- `return PolyCollection(verts=[<vert> for p in <iter>], closed=<closed>, **kwargs)` -/
structure PsCollectionProg where
  iter : PsIter
  vert : PsVert
  closed : Option Bool
  passesKwargs : Bool
deriving Repr, DecidableEq

/-- the vertex lists of the artist and its `closed` flag (a `Poly` of the model is its exterior ring) -/
def psCollectionRun (p : PsCollectionProg) (paths : List Poly) : Option (List Poly × Bool) :=
  match p.iter, p.vert, p.closed, p.passesKwargs with
  | .polygonsParam, .exteriorCoords, some c, true => some (paths.map id, c)
  | _, _, _, _ => none

end Ems
