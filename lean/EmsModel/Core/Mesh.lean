/-
Core/Mesh.lean — UGRID 2-D mesh topology: decoding of stored connectivity variables and
derivation of the optional connectivity tables.

Models `emsarray.conventions.ugrid`:
`_get_start_index`, `Mesh2DTopology._to_index_array`, `_face_and_node_pair_iter`,
`make_edge_node_array`, `make_face_edge_array`, `make_edge_face_array`,
`make_face_face_array` and the `*_array` properties that choose between a supplied and a
derived table.  The dataset level (attribute lookup, validity tests, dimension discovery)
is in `Core/MeshDataset.lean`.

Total, computable, core Lean only.
-/
namespace Ems.Mesh

/-- What the real code raises, as a small enum (the harness maps exception classes to it). -/
inductive Err
  | key          -- KeyError (variable / attribute / node pair not found)
  | noEdgeDim    -- NoEdgeDimensionException
  | convention   -- ConventionViolationError
  | index        -- IndexError (position outside an array)
  | value        -- ValueError
  | unmodelled   -- input outside what the model describes (never produced for generated inputs)
  deriving DecidableEq, Repr

instance instDecidableEqExcept {ε α} [DecidableEq ε] [DecidableEq α] : DecidableEq (Except ε α)
  | .ok a, .ok b => if h : a = b then isTrue (h ▸ rfl) else isFalse (fun h' => h (Except.ok.inj h'))
  | .error a, .error b => if h : a = b then isTrue (h ▸ rfl) else isFalse (fun h' => h (Except.error.inj h'))
  | .ok _, .error _ => isFalse (fun h => nomatch h)
  | .error _, .ok _ => isFalse (fun h => nomatch h)

/-- A masked integer table as returned by the `*_array` properties; `none` = masked. -/
abbrev Table := List (List (Option Int))

/-! ## rows: padding with masked cells, `MaskedArray.compressed()` -/

/-- a row of width `w`: the values first, masked cells after them -/
def pad {α} (w : Nat) (l : List α) : List (Option α) :=
  l.map some ++ List.replicate (w - l.length) none

/-- `numpy.ma.MaskedArray.compressed()` of one row -/
def compress {α} (row : List (Option α)) : List α := row.filterMap id

/-- `numpy.transpose` of a stored 2-D array with `m` columns, as a list of rows -/
def transpose {α} (m : Nat) (rows : List (List α)) : List (List α) :=
  (List.range m).map fun c => rows.filterMap (·[c]?)

/-- all entries present -/
def optAll {α} : List (Option α) → Option (List α)
  | [] => some []
  | none :: _ => none
  | some x :: xs => (optAll xs).map (x :: ·)

/-! ## `_get_start_index` -/

/-- the value of an attribute as far as `_get_start_index` can tell values apart -/
inductive AttrVal
  | absent
  | int (n : Int)        -- Python / numpy integer (`True`/`False` count as 1/0)
  | str (s : String)
  | other                -- anything else (list, None, non-integral float …)
  deriving DecidableEq, Repr

/-- `_get_start_index`: the base and whether a `ConventionViolationWarning` is emitted. -/
def getStartIndex : AttrVal → Except Err (Int × Bool)
  | .absent => .ok (0, false)
  | .int n => if n = 0 ∨ n = 1 then .ok (n, false) else .error .convention
  | .str s => if s = "0" then .ok (0, true) else if s = "1" then .ok (1, true) else .error .convention
  | .other => .error .convention

/-! ## stored connectivity variables and `_to_index_array` -/

/-- values of a stored connectivity variable.
`float`: float64 storage (what xarray gives for a variable with an encoded `_FillValue`, or a
file written with NaN), `none` = NaN.  `int`: integer storage with an optional `_FillValue`
*attribute* (dataset built in memory or opened with `mask_and_scale=False`). -/
inductive Payload
  | float (rows : List (List (Option Int)))
  | int (rows : List (List Int)) (fill : Option Int)
  deriving Repr

structure Stored where
  /-- dimension names in stored order -/
  dims : String × String
  /-- sizes in stored order -/
  shape : Nat × Nat
  payload : Payload
  startIndex : AttrVal
  deriving Repr

/-- the mask step of `_to_index_array` (`masked_invalid` / `masked_equal` / no mask) -/
def Payload.masked : Payload → Table
  | .float rows => rows
  | .int rows (some F) => rows.map (·.map fun v => if v = F then none else some v)
  | .int rows none => rows.map (·.map some)

/-- `Mesh2DTopology._to_index_array(data_array, primary_dimension)` -/
def toIndexArray (v : Stored) (primary : String) : Except Err Table :=
  if primary ≠ v.dims.1 ∧ primary ≠ v.dims.2 then .error .convention
  else
    let masked := v.payload.masked
    let oriented := if v.dims.1 ≠ primary then transpose v.shape.2 masked else masked
    match getStartIndex v.startIndex with
    | .error e => .error e
    | .ok (s, _) => .ok (oriented.map (·.map (·.map (· - s))))

/-- the faces of a normalised face-node table: per row the unmasked node indexes -/
def facesOf (t : Table) : List (List Int) := t.map compress

/-! ## the encodings a file may use (for the `normalise_encode` theorem) -/

inductive FillRep
  | nan                 -- float storage, missing = NaN
  | attr (F : Int)      -- integer storage, missing = F, `_FillValue = F` attribute
  | none                -- integer storage, no fill value (every face has the full width)
  deriving DecidableEq, Repr

inductive Spelling | int | str | omitted
  deriving DecidableEq, Repr

structure Enc where
  base : Int
  spelling : Spelling
  fill : FillRep
  transposed : Bool
  deriving Repr

def Enc.startAttr (e : Enc) : AttrVal :=
  match e.spelling with
  | .int => .int e.base
  | .str => .str (toString e.base)
  | .omitted => .absent

/-- the cells of the face-node variable before any storage choice: node index + base, `none` = missing -/
def encCells (e : Enc) (w : Nat) (faces : List (List Nat)) : Table :=
  faces.map fun f => pad w (f.map fun (v : Nat) => (v : Int) + e.base)

/-- the storage of those cells under the fill representation of `e` -/
def encPayload (e : Enc) (w : Nat) (faces : List (List Nat)) : Payload :=
  match e.fill with
  | .nan => .float (encCells e w faces)
  | .attr F => .int ((encCells e w faces).map (·.map (·.getD F))) (some F)
  | .none => .int (faces.map fun f => f.map fun (v : Nat) => (v : Int) + e.base) Option.none

/-- the same values stored with the other dimension first -/
def Payload.transpose (m : Nat) : Payload → Payload
  | .float rows => .float (Mesh.transpose m rows)
  | .int rows F => .int (Mesh.transpose m rows) F

/-- how a mesh (faces = node index lists) is written to a `face_node_connectivity`
variable of width `w` under encoding `e` -/
def encode (e : Enc) (fdim mdim : String) (w : Nat) (faces : List (List Nat)) : Stored :=
  if e.transposed then
    { dims := (mdim, fdim), shape := (w, faces.length), startIndex := e.startAttr,
      payload := (encPayload e w faces).transpose w }
  else
    { dims := (fdim, mdim), shape := (faces.length, w), startIndex := e.startAttr,
      payload := encPayload e w faces }

/-- the hypotheses under which an encoding can represent the mesh at all -/
def Enc.Admissible (e : Enc) (w : Nat) (faces : List (List Nat)) : Prop :=
  (e.base = 0 ∨ e.base = 1) ∧ (e.spelling = .omitted → e.base = 0) ∧
  (∀ f ∈ faces, f.length ≤ w) ∧
  (match e.fill with
    | .nan => True
    | .attr F => ∀ f ∈ faces, ∀ v ∈ f, (v : Int) + e.base ≠ F   -- the fill value is not a stored index
    | .none => ∀ f ∈ faces, f.length = w)                        -- no fill needed: every face is full width

/-! ## `_face_and_node_pair_iter` -/

abbrev Pair := Int × Int

/-- consecutive node pairs of one face, including the wrap-around pair
(`pairwise(append(nodes, nodes[0]))`) -/
def facePairs : List Int → List Pair
  | [] => []
  | a :: rest => List.zip (a :: rest) (rest ++ [a])

/-- an edge as an unordered pair: `sorted(pair)` / `frozenset(pair)` -/
def normPair (p : Pair) : Pair := if p.1 ≤ p.2 then p else (p.2, p.1)

/-- every consecutive pair of every face, faces in order, columns in order -/
def allPairs (faces : List (List Int)) : List Pair := faces.flatMap facePairs

/-- how many face sides have the undirected node pair `e` -/
def sideCount (faces : List (List Int)) (e : Pair) : Nat :=
  ((allPairs faces).map normPair).count (normPair e)

/-- the validity hypothesis of the derived tables, decidable: every undirected node pair is a
side of at most two faces (manifold mesh), and no face uses the same node pair for two of its
sides (true of every simple polygon with at least three distinct nodes) -/
def Manifold (faces : List (List Int)) : Prop :=
  (∀ p ∈ allPairs faces, sideCount faces p ≤ 2) ∧ ∀ f ∈ faces, ((facePairs f).map normPair).Nodup

instance (faces : List (List Int)) : Decidable (Manifold faces) := by
  unfold Manifold; infer_instance

/-! ## `make_edge_node_array` -/

/-- keep the first occurrence of every value -/
def dedup {α} [DecidableEq α] : List α → List α
  | [] => []
  | x :: xs => x :: (dedup xs).filter (· ≠ x)

/-- `make_edge_node_array`: the sorted node pairs, each once.  The numbering (here: first
seen) is unspecified in the real code (dict-of-sets iteration order). -/
def makeEdgeNode (faces : List (List Int)) : List Pair :=
  dedup ((allPairs faces).map normPair)

/-- `w` lists the same undirected edges as `own`, each once — in any order and with either
orientation of a pair.  The real code's edge numbering is an accident of dict / set iteration
order; the property leaves it free, so the model accepts any such numbering. -/
def isRenumbering (w own : List Pair) : Bool :=
  decide ((w.map normPair).Nodup) && w.all (fun e => own.contains (normPair e))
    && own.all (fun e => (w.map normPair).contains e)

def pairRow (p : Pair) : List (Option Int) := [some p.1, some p.2]

/-- an edge-node table → list of pairs; rows that are not two unmasked cells are outside the model -/
def pairsOfTable : Table → Option (List Pair)
  | [] => some []
  | [some a, some b] :: rest => (pairsOfTable rest).map ((a, b) :: ·)
  | _ :: _ => none

/-! ## `make_face_edge_array` -/

/-- `node_pair_to_edge_index[frozenset(pair)]`: the dict is built by enumerating the edge
table, so the *last* row with that node pair wins; `none` = KeyError -/
def edgeIndex? : List Pair → Pair → Option Nat
  | [], _ => none
  | e :: es, p =>
    match edgeIndex? es p with
    | some k => some (k + 1)
    | none => if normPair e = normPair p then some 0 else none

/-- `make_face_edge_array`: column `c` of face `f` is the index of the edge made of the `c`-th
consecutive node pair of `f`; the rest of the row is masked -/
def makeFaceEdge (w : Nat) (en : List Pair) (faces : List (List Int)) : Except Err Table :=
  match optAll (faces.map fun f => optAll ((facePairs f).map (edgeIndex? en))) with
  | none => .error .key
  | some rows =>
    if rows.any (fun ks => w < ks.length) then .error .index
    else .ok (rows.map fun ks => pad w (ks.map Int.ofNat))

/-! ## `make_edge_face_array`, `make_face_face_array`: filling rows by counting -/

/-- `table[key, count[key]] = value; count[key] += 1` for every event in order, starting from
`n` empty rows: row `i` collects, in order, the values of the events with key `i` -/
def accumulate {α} (n : Nat) (events : List (Nat × α)) : List (List α) :=
  events.foldl (fun st ev => st.modify ev.1 (· ++ [ev.2])) (List.replicate n [])

/-- (edge, face) incidences in the order `make_edge_face_array` visits them -/
def edgeFaceEvents (fe : List (List Int)) : List (Int × Nat) :=
  fe.zipIdx.flatMap fun (row, fi) => row.map fun k => (k, fi)

/-- the faces whose face-edge row contains edge `k`, in visiting order, once per occurrence -/
def incidences (fe : List (List Int)) (k : Int) : List Nat :=
  ((edgeFaceEvents fe).filter (fun ev => ev.1 == k)).map (·.2)

def inRange (n : Nat) (k : Int) : Bool := 0 ≤ k && k < (n : Int)

/-- `make_edge_face_array` from the compressed rows of the face-edge table.
IndexError where an edge index is outside the table or an edge has more than two faces. -/
def makeEdgeFace (nedges : Nat) (fe : List (List Int)) : Except Err Table :=
  let evs := edgeFaceEvents fe
  if evs.any (fun ev => !inRange nedges ev.1) then .error .index
  else
    let rows := accumulate nedges (evs.map fun ev => (ev.1.toNat, ev.2))
    if rows.any (fun r => 2 < r.length) then .error .index
    else .ok (rows.map fun r => pad 2 (r.map Int.ofNat))

/-- the two writes `make_face_face_array` makes for one edge-face row -/
def facePairEvents : List (Option Int) → List (Int × Int)
  | [some l, some r] => [(l, r), (r, l)]
  | _ => []

/-- every (face, neighbour) write of `make_face_face_array`, in order -/
def adjEvents (ef : Table) : List (Int × Int) := ef.flatMap facePairEvents

/-- rows `make_face_face_array` cannot process: no masked cell but not exactly two cells
(`left, right = face_indexes` raises ValueError) -/
def badEdgeFaceRow (row : List (Option Int)) : Bool :=
  row.all Option.isSome && row.length != 2

/-- `make_face_face_array`.  A row naming the same face twice makes the real code write one
cell twice and skip the next; that is outside the model. -/
def makeFaceFace (nfaces w : Nat) (ef : Table) : Except Err Table :=
  if ef.any badEdgeFaceRow then .error .value
  else
    let evs := adjEvents ef
    if evs.any (fun ev => ev.1 = ev.2) then .error .unmodelled
    else if evs.any (fun ev => !inRange nfaces ev.1) then .error .index
    else
      let rows := accumulate nfaces (evs.map fun ev => (ev.1.toNat, ev.2))
      if rows.any (fun r => w < r.length) then .error .index
      else .ok (rows.map (pad w))

/-- the unmasked entries of row `i` of a table (`[]` outside the table) -/
def rowOf (t : Table) (i : Nat) : List Int :=
  match t[i]? with
  | some row => compress row
  | none => []

/-! ## the `*_array` properties: supplied table if valid, derived otherwise -/

/-- what the dataset level hands over: the normalised face-node table, whether an edge
dimension exists and its size if the dataset has that dimension, and for each optional
table the supplied one if it passed its validity test (`none` otherwise), decoded by
`_to_index_array` (which may itself raise, hence `Except`) -/
structure TopoIn where
  /-- `face_node_array` (or the exception `_to_index_array` raises for it) -/
  faceNode : Except Err Table
  /-- `face_count`, `max_node_count`: sizes of the face and max-node dimensions -/
  nfaces : Nat
  width : Nat
  hasEdgeDim : Bool
  edgeDimSize : Option Nat
  edgeNode : Option (Except Err Table)
  faceEdge : Option (Except Err Table)
  edgeFace : Option (Except Err Table)
  faceFace : Option (Except Err Table)
  /-- a proposed numbering of the derived edges (the order the real code happened to choose);
  used only if it is a renumbering of the model's own derived edge list -/
  numbering : Option (List Pair) := none
  /-- the exception `sensible_fill_value` raises (it needs `node_count`, hence the node
  coordinate variables); the `make_*` functions evaluate it before anything else -/
  fillValueErr : Option Err := none
  deriving Repr

namespace TopoIn

/-- the faces `_face_and_node_pair_iter` walks over; it raises IndexError on a face without
nodes (`node_indexes[0]`) -/
def faces (t : TopoIn) : Except Err (List (List Int)) :=
  match t.faceNode with
  | .error e => .error e
  | .ok fn => if (facesOf fn).all (· ≠ []) then .ok (facesOf fn) else .error .index

/-- the derived edge list in the numbering in use -/
def derivedEdges (numbering : Option (List Pair)) (faces : List (List Int)) : List Pair :=
  match numbering with
  | some w => if isRenumbering w (makeEdgeNode faces) then w else makeEdgeNode faces
  | none => makeEdgeNode faces

/-- `edge_node_array` -/
def edgeNodeArray (t : TopoIn) : Except Err Table :=
  if !t.hasEdgeDim then .error .noEdgeDim
  else match t.edgeNode with
    | some tab => tab
    | none => match t.faces with
      | .error e => .error e
      | .ok faces => .ok ((derivedEdges t.numbering faces).map pairRow)

/-- `edge_count` -/
def edgeCount (t : TopoIn) : Except Err Nat :=
  if !t.hasEdgeDim then .error .noEdgeDim
  else match t.edgeDimSize with
    | some n => .ok n
    | none => t.edgeNodeArray.map List.length

/-- `face_edge_array` -/
def faceEdgeArray (t : TopoIn) : Except Err Table :=
  match t.faceEdge with
  | some tab => tab
  | none =>
    if let some e := t.fillValueErr then .error e else
    match t.edgeNodeArray with
    | .error e => .error e
    | .ok en =>
      match pairsOfTable en with
      | none => .error .unmodelled
      | some pairs => match t.faces with
        | .error e => .error e
        | .ok faces => makeFaceEdge t.width pairs faces

/-- `edge_face_array` -/
def edgeFaceArray (t : TopoIn) : Except Err Table :=
  match t.edgeFace with
  | some tab => tab
  | none =>
    match t.edgeCount with
    | .error e => .error e
    | .ok n =>
      if let some e := t.fillValueErr then .error e else
      match t.faceEdgeArray with
      | .error e => .error e
      | .ok fe => makeEdgeFace n (fe.map compress)

/-- `face_face_array` -/
def faceFaceArray (t : TopoIn) : Except Err Table :=
  match t.faceFace with
  | some tab => tab
  | none =>
    if let some e := t.fillValueErr then .error e else
    match t.edgeFaceArray with
    | .error e => .error e
    | .ok ef => makeFaceFace t.nfaces t.width ef

end TopoIn

/-! ## a derived edge table keeps the edge numbering of a supplied table

`Mesh2DTopology.edge_node_array` after the repairs `87d11e3` (a supplied `face_edge_connectivity`)
and `3f3bd50` (a supplied `edge_face_connectivity`): when the dataset has no valid
`edge_node_connectivity` the edges are derived from the faces, but a supplied table that already
numbers the edges decides which edge is which.  The two blocks are mirrored literally, with
their fall-backs.  Everything above stays as it was; the definitions below are additions. -/

/-- `renumbered[k]` on an array of `n` rows, numpy semantics: a negative index counts from the
end; `none` = IndexError -/
def numpyIndex (n : Nat) (k : Int) : Option Nat :=
  if 0 ≤ k ∧ k < (n : Int) then some k.toNat
  else if -(n : Int) ≤ k ∧ k < 0 then some (k + (n : Int)).toNat
  else none

/-- entry `(r, c)` of a table; `none` = outside the table -/
def cellOf (t : Table) (r c : Nat) : Option (Option Int) := (t[r]?).bind (·[c]?)

/-- the row `renumbered[face_edge[face, column]] = sorted(pair)` writes to: `none` where
`face_edge[face, column]` is outside the table, masked (a masked scalar is not an index), or
not a row of `renumbered` — IndexError in each case -/
def writeTarget (n : Nat) (faceEdge : Table) (fi c : Nat) : Option Nat :=
  match cellOf faceEdge fi c with
  | some (some k) => numpyIndex n k
  | _ => none

/-- the writes of one face: column by column, (row written, sorted node pair) -/
def faceWrites (n : Nat) (faceEdge : Table) (f : List Int) (fi : Nat) : List (Option (Nat × Pair)) :=
  (facePairs f).zipIdx.map fun pc => (writeTarget n faceEdge fi pc.2).map fun i => (i, normPair pc.1)

/-- every assignment `renumbered[face_edge[face, column]] = sorted(pair)` in the order the code
makes them (faces in order, columns in order); `none` = one of them raises IndexError -/
def faceEdgeWrites (n : Nat) (faces : List (List Int)) (faceEdge : Table) : Option (List (Nat × Pair)) :=
  optAll (faces.zipIdx.flatMap fun ff => faceWrites n faceEdge ff.1 ff.2)

/-- a row of `numpy.ma.masked_all_like(edge_node)` that was never written -/
def maskedRow : List (Option Int) := [none, none]

/-- the writes applied in order to `n` masked rows: a later write to the same row wins, a row
no write names stays masked -/
def applyWrites (n : Nat) (ws : List (Nat × Pair)) : Table :=
  ws.foldl (fun rows w => rows.set w.1 (pairRow w.2)) (List.replicate n maskedRow)

/-- `edge_node_array`, the block for a supplied `face_edge_connectivity` (repair `87d11e3`):
edge `face_edge[face, column]` is the `column`-th consecutive node pair of `face`, stored
(low, high).  The table has as many rows as the mesh has edges (`make_edge_node_array`).
There is no fall-back in the code: an entry that is masked where the face has a side, or
outside the edge range, raises IndexError; where the supplied table gives two different node
pairs the same number the later one stays and another row stays masked. -/
def makeEdgeNodeFollowingFaceEdge (faces : List (List Int)) (faceEdge : Table) : Except Err Table :=
  let n := (makeEdgeNode faces).length
  match faceEdgeWrites n faces faceEdge with
  | none => .error .index
  | some ws => .ok (applyWrites n ws)

/-- `sides[frozenset(pair)]`: the faces that have the undirected node pair `e` as a side (each
once, whatever the number of its sides with that pair), as face indexes -/
def sideFaces (faces : List (List Int)) (e : Pair) : List Int :=
  (faces.zipIdx.filter fun ff => ((facePairs ff.1).map normPair).contains (normPair e)).map
    fun ff => Int.ofNat ff.2

/-- equality of two `frozenset`s of face indexes given as lists -/
def sameFaces (a b : List Int) : Bool := a.all (b.contains ·) && b.all (a.contains ·)

/-- `by_faces[key].pop(0)` on the sides not used yet (kept in first-seen order, the insertion
order of the `sides` dict): the first remaining side whose set of faces is `key`, and the
rest; `none` = IndexError (pop from an empty list) -/
def takeSide (faces : List (List Int)) (key : List Int) : List Pair → Option (Pair × List Pair)
  | [] => none
  | e :: rest =>
    if sameFaces (sideFaces faces e) key then some (e, rest)
    else (takeSide faces key rest).map fun r => (r.1, e :: r.2)

/-- the loop over the rows of `edge_face`: each row takes the first unused side bordering
exactly its faces; `none` = IndexError at some row -/
def matchEdgeFace (faces : List (List Int)) : List Pair → List (List Int) → Option (List Pair)
  | _, [] => some []
  | unused, key :: keys =>
    match takeSide faces key unused with
    | none => none
    | some (e, rest) => (matchEdgeFace faces rest keys).map (e :: ·)

/-- `edge_node_array`, the block for a supplied `edge_face_connectivity` (repair `3f3bd50`):
edge `e` is a side of exactly the faces in row `e` (masked entries dropped, as a set).  Sides
with the same set of faces — the boundary sides of one face — are interchangeable as far as
the table goes; they are handed out in first-seen order.  `none`: the table does not describe
the sides of the faces (some row finds no unused side with its faces, in particular when there
are more rows than sides): the code catches the IndexError and returns its own numbering.
With fewer rows than sides the remaining rows stay masked. -/
def makeEdgeNodeFollowingEdgeFace (faces : List (List Int)) (edgeFace : Table) : Option Table :=
  let own := makeEdgeNode faces
  (matchEdgeFace faces own (edgeFace.map compress)).map fun w =>
    w.map pairRow ++ List.replicate (own.length - w.length) maskedRow

/-- **the supplied `face_edge` table describes the faces** (decidable): every side of every
face has an entry that is a row of the edge table, and two sides have the same entry exactly
when they are the same undirected node pair -/
def faceEdgeDescribes (faces : List (List Int)) (faceEdge : Table) : Bool :=
  match faceEdgeWrites (makeEdgeNode faces).length faces faceEdge with
  | none => false
  | some ws => ws.all fun a => ws.all fun b => decide (a.1 = b.1 ↔ a.2 = b.2)

/-- the supplied `face_edge` table has the layout of a derived one: a row per face, as wide as
the face-node table, a non-negative entry for every side of the face and masked cells after them -/
def faceEdgeShaped (w : Nat) (faces : List (List Int)) (faceEdge : Table) : Bool :=
  faceEdge.length == faces.length &&
  (faces.zip faceEdge).all fun fr =>
    fr.2.length == w && fr.2 == pad w (compress fr.2) && (compress fr.2).length == fr.1.length
      && (compress fr.2).all (0 ≤ ·)

/-- **the supplied `edge_face` table describes the sides** (decidable): it has as many rows as
the mesh has sides, and every row in turn finds a side, not taken by an earlier row, that
borders exactly the faces the row lists -/
def edgeFaceDescribes (faces : List (List Int)) (edgeFace : Table) : Bool :=
  edgeFace.length == (makeEdgeNode faces).length &&
    (matchEdgeFace faces (makeEdgeNode faces) (edgeFace.map compress)).isSome

namespace TopoIn

/-- the derived `edge_node_array`, in the code's order of precedence: a supplied valid
`face_edge` table is followed; else a supplied valid `edge_face` table is followed (own
numbering if it does not describe the sides); else the own numbering.  An exception raised
while testing or decoding the supplied table propagates. -/
def derivedEdgeTable (t : TopoIn) (faces : List (List Int)) : Except Err Table :=
  match t.faceEdge with
  | some (.error e) => .error e
  | some (.ok fe) => makeEdgeNodeFollowingFaceEdge faces fe
  | none =>
    match t.edgeFace with
    | some (.error e) => .error e
    | some (.ok ef) =>
      match makeEdgeNodeFollowingEdgeFace faces ef with
      | some tab => .ok tab
      | none => .ok ((derivedEdges t.numbering faces).map pairRow)
    | none => .ok ((derivedEdges t.numbering faces).map pairRow)

/-- `edge_node_array` as it is now: supplied valid `edge_node` → as given; else derived from
the faces (`make_edge_node_array` runs first, so its exceptions come first) in the numbering
of `derivedEdgeTable` -/
def edgeNodeArrayN (t : TopoIn) : Except Err Table :=
  if !t.hasEdgeDim then .error .noEdgeDim
  else match t.edgeNode with
    | some tab => tab
    | none => match t.faces with
      | .error e => .error e
      | .ok faces => t.derivedEdgeTable faces

/-- `edge_count` as it is now: the size of the edge dimension if the dataset has it, else the
number of rows of `make_edge_node_array()` -/
def edgeCountN (t : TopoIn) : Except Err Nat :=
  if !t.hasEdgeDim then .error .noEdgeDim
  else match t.edgeDimSize with
    | some n => .ok n
    | none => match t.faces with
      | .error e => .error e
      | .ok faces => .ok (makeEdgeNode faces).length

/-- `face_edge_array` over `edgeNodeArrayN` -/
def faceEdgeArrayN (t : TopoIn) : Except Err Table :=
  match t.faceEdge with
  | some tab => tab
  | none =>
    if let some e := t.fillValueErr then .error e else
    match t.edgeNodeArrayN with
    | .error e => .error e
    | .ok en =>
      match pairsOfTable en with
      | none => .error .unmodelled
      | some pairs => match t.faces with
        | .error e => .error e
        | .ok faces => makeFaceEdge t.width pairs faces

/-- `edge_face_array` over `edgeCountN`, `faceEdgeArrayN` -/
def edgeFaceArrayN (t : TopoIn) : Except Err Table :=
  match t.edgeFace with
  | some tab => tab
  | none =>
    match t.edgeCountN with
    | .error e => .error e
    | .ok n =>
      if let some e := t.fillValueErr then .error e else
      match t.faceEdgeArrayN with
      | .error e => .error e
      | .ok fe => makeEdgeFace n (fe.map compress)

/-- `face_face_array` over `edgeFaceArrayN` -/
def faceFaceArrayN (t : TopoIn) : Except Err Table :=
  match t.faceFace with
  | some tab => tab
  | none =>
    if let some e := t.fillValueErr then .error e else
    match t.edgeFaceArrayN with
    | .error e => .error e
    | .ok ef => makeFaceFace t.nfaces t.width ef

end TopoIn

/-! ## `UGrid._make_polygons` -/

/-- vertex ring of every face: coordinates of its nodes in order (`none` where a node index
is outside the coordinate arrays: IndexError) -/
def polygons {C} (coords : List C) (faces : List (List Int)) : Option (List (List C)) :=
  optAll (faces.map fun f => optAll (f.map fun v => if v < 0 then none else coords[v.toNat]?))

end Ems.Mesh
