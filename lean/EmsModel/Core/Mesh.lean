/-
Core/Mesh.lean — UGRID 2-D mesh topology: decoding of stored connectivity variables and
derivation of the optional connectivity tables.

Models `emsarray.conventions.ugrid`:
`_get_start_index`, `Mesh2DTopology._to_index_array`, `_face_and_node_pair_iter`,
`make_edge_node_array`, `make_face_edge_array`, `make_edge_face_array`,
`make_face_face_array` and the `*_array` properties that choose between a supplied and a
derived table.  The dataset level (attribute lookup, validity tests, dimension discovery)
is in `Core/MeshDataset.lean`.

Total, computable, core Lean only.
-/
namespace Ems.Mesh

/-- What the real code raises, as a small enum (the harness maps exception classes to it). -/
inductive Err
  | key          -- KeyError (variable / attribute / node pair not found)
  | noEdgeDim    -- NoEdgeDimensionException
  | convention   -- ConventionViolationError
  | index        -- IndexError (position outside an array)
  | value        -- ValueError
  | unmodelled   -- input outside what the model describes (never produced for generated inputs)
  deriving DecidableEq, Repr

instance instDecidableEqExcept {ε α} [DecidableEq ε] [DecidableEq α] : DecidableEq (Except ε α)
  | .ok a, .ok b => if h : a = b then isTrue (h ▸ rfl) else isFalse (fun h' => h (Except.ok.inj h'))
  | .error a, .error b => if h : a = b then isTrue (h ▸ rfl) else isFalse (fun h' => h (Except.error.inj h'))
  | .ok _, .error _ => isFalse (fun h => nomatch h)
  | .error _, .ok _ => isFalse (fun h => nomatch h)

/-- A masked integer table as returned by the `*_array` properties; `none` = masked. -/
abbrev Table := List (List (Option Int))

/-! ## rows: padding with masked cells, `MaskedArray.compressed()` -/

/-- a row of width `w`: the values first, masked cells after them -/
def pad {α} (w : Nat) (l : List α) : List (Option α) :=
  l.map some ++ List.replicate (w - l.length) none

/-- `numpy.ma.MaskedArray.compressed()` of one row -/
def compress {α} (row : List (Option α)) : List α := row.filterMap id

/-- `numpy.transpose` of a stored 2-D array with `m` columns, as a list of rows -/
def transpose {α} (m : Nat) (rows : List (List α)) : List (List α) :=
  (List.range m).map fun c => rows.filterMap (·[c]?)

/-- all entries present -/
def optAll {α} : List (Option α) → Option (List α)
  | [] => some []
  | none :: _ => none
  | some x :: xs => (optAll xs).map (x :: ·)

/-! ## `_get_start_index` -/

/-- the value of an attribute as far as `_get_start_index` can tell values apart -/
inductive AttrVal
  | absent
  | int (n : Int)        -- Python / numpy integer (`True`/`False` count as 1/0)
  | str (s : String)
  | other                -- anything else (list, None, non-integral float …)
  deriving DecidableEq, Repr

/-- `_get_start_index`: the base and whether a `ConventionViolationWarning` is emitted. -/
def getStartIndex : AttrVal → Except Err (Int × Bool)
  | .absent => .ok (0, false)
  | .int n => if n = 0 ∨ n = 1 then .ok (n, false) else .error .convention
  | .str s => if s = "0" then .ok (0, true) else if s = "1" then .ok (1, true) else .error .convention
  | .other => .error .convention

/-! ## stored connectivity variables and `_to_index_array` -/

/-- values of a stored connectivity variable.
`float`: float64 storage (what xarray gives for a variable with an encoded `_FillValue`, or a
file written with NaN), `none` = NaN.  `int`: integer storage with an optional `_FillValue`
*attribute* (dataset built in memory or opened with `mask_and_scale=False`). -/
inductive Payload
  | float (rows : List (List (Option Int)))
  | int (rows : List (List Int)) (fill : Option Int)
  deriving Repr

structure Stored where
  /-- dimension names in stored order -/
  dims : String × String
  /-- sizes in stored order -/
  shape : Nat × Nat
  payload : Payload
  startIndex : AttrVal
  deriving Repr

/-- the mask step of `_to_index_array` (`masked_invalid` / `masked_equal` / no mask) -/
def Payload.masked : Payload → Table
  | .float rows => rows
  | .int rows (some F) => rows.map (·.map fun v => if v = F then none else some v)
  | .int rows none => rows.map (·.map some)

/-- `Mesh2DTopology._to_index_array(data_array, primary_dimension)` -/
def toIndexArray (v : Stored) (primary : String) : Except Err Table :=
  if primary ≠ v.dims.1 ∧ primary ≠ v.dims.2 then .error .convention
  else
    let masked := v.payload.masked
    let oriented := if v.dims.1 ≠ primary then transpose v.shape.2 masked else masked
    match getStartIndex v.startIndex with
    | .error e => .error e
    | .ok (s, _) => .ok (oriented.map (·.map (·.map (· - s))))

/-- the faces of a normalised face-node table: per row the unmasked node indexes -/
def facesOf (t : Table) : List (List Int) := t.map compress

/-! ## the encodings a file may use (for the `normalise_encode` theorem) -/

inductive FillRep
  | nan                 -- float storage, missing = NaN
  | attr (F : Int)      -- integer storage, missing = F, `_FillValue = F` attribute
  | none                -- integer storage, no fill value (every face has the full width)
  deriving DecidableEq, Repr

inductive Spelling | int | str | omitted
  deriving DecidableEq, Repr

structure Enc where
  base : Int
  spelling : Spelling
  fill : FillRep
  transposed : Bool
  deriving Repr

def Enc.startAttr (e : Enc) : AttrVal :=
  match e.spelling with
  | .int => .int e.base
  | .str => .str (toString e.base)
  | .omitted => .absent

/-- the cells of the face-node variable before any storage choice: node index + base, `none` = missing -/
def encCells (e : Enc) (w : Nat) (faces : List (List Nat)) : Table :=
  faces.map fun f => pad w (f.map fun (v : Nat) => (v : Int) + e.base)

/-- the storage of those cells under the fill representation of `e` -/
def encPayload (e : Enc) (w : Nat) (faces : List (List Nat)) : Payload :=
  match e.fill with
  | .nan => .float (encCells e w faces)
  | .attr F => .int ((encCells e w faces).map (·.map (·.getD F))) (some F)
  | .none => .int (faces.map fun f => f.map fun (v : Nat) => (v : Int) + e.base) Option.none

/-- the same values stored with the other dimension first -/
def Payload.transpose (m : Nat) : Payload → Payload
  | .float rows => .float (Mesh.transpose m rows)
  | .int rows F => .int (Mesh.transpose m rows) F

/-- how a mesh (faces = node index lists) is written to a `face_node_connectivity`
variable of width `w` under encoding `e` -/
def encode (e : Enc) (fdim mdim : String) (w : Nat) (faces : List (List Nat)) : Stored :=
  if e.transposed then
    { dims := (mdim, fdim), shape := (w, faces.length), startIndex := e.startAttr,
      payload := (encPayload e w faces).transpose w }
  else
    { dims := (fdim, mdim), shape := (faces.length, w), startIndex := e.startAttr,
      payload := encPayload e w faces }

/-- the hypotheses under which an encoding can represent the mesh at all -/
def Enc.Admissible (e : Enc) (w : Nat) (faces : List (List Nat)) : Prop :=
  (e.base = 0 ∨ e.base = 1) ∧ (e.spelling = .omitted → e.base = 0) ∧
  (∀ f ∈ faces, f.length ≤ w) ∧
  (match e.fill with
    | .nan => True
    | .attr F => ∀ f ∈ faces, ∀ v ∈ f, (v : Int) + e.base ≠ F   -- the fill value is not a stored index
    | .none => ∀ f ∈ faces, f.length = w)                        -- no fill needed: every face is full width

/-! ## `_face_and_node_pair_iter` -/

abbrev Pair := Int × Int

/-- consecutive node pairs of one face, including the wrap-around pair
(`pairwise(append(nodes, nodes[0]))`) -/
def facePairs : List Int → List Pair
  | [] => []
  | a :: rest => List.zip (a :: rest) (rest ++ [a])

/-- an edge as an unordered pair: `sorted(pair)` / `frozenset(pair)` -/
def normPair (p : Pair) : Pair := if p.1 ≤ p.2 then p else (p.2, p.1)

/-- every consecutive pair of every face, faces in order, columns in order -/
def allPairs (faces : List (List Int)) : List Pair := faces.flatMap facePairs

/-- how many face sides have the undirected node pair `e` -/
def sideCount (faces : List (List Int)) (e : Pair) : Nat :=
  ((allPairs faces).map normPair).count (normPair e)

/-- the validity hypothesis of the derived tables, decidable: every undirected node pair is a
side of at most two faces (manifold mesh), and no face uses the same node pair for two of its
sides (true of every simple polygon with at least three distinct nodes) -/
def Manifold (faces : List (List Int)) : Prop :=
  (∀ p ∈ allPairs faces, sideCount faces p ≤ 2) ∧ ∀ f ∈ faces, ((facePairs f).map normPair).Nodup

instance (faces : List (List Int)) : Decidable (Manifold faces) := by
  unfold Manifold; infer_instance

/-! ## `make_edge_node_array` -/

/-- keep the first occurrence of every value -/
def dedup {α} [DecidableEq α] : List α → List α
  | [] => []
  | x :: xs => x :: (dedup xs).filter (· ≠ x)

/-- `make_edge_node_array`: the sorted node pairs, each once.  The numbering (here: first
seen) is unspecified in the real code (dict-of-sets iteration order). -/
def makeEdgeNode (faces : List (List Int)) : List Pair :=
  dedup ((allPairs faces).map normPair)

/-- `w` lists the same undirected edges as `own`, each once — in any order and with either
orientation of a pair.  The real code's edge numbering is an accident of dict / set iteration
order; the property leaves it free, so the model accepts any such numbering. -/
def isRenumbering (w own : List Pair) : Bool :=
  decide ((w.map normPair).Nodup) && w.all (fun e => own.contains (normPair e))
    && own.all (fun e => (w.map normPair).contains e)

def pairRow (p : Pair) : List (Option Int) := [some p.1, some p.2]

/-- an edge-node table → list of pairs; rows that are not two unmasked cells are outside the model -/
def pairsOfTable : Table → Option (List Pair)
  | [] => some []
  | [some a, some b] :: rest => (pairsOfTable rest).map ((a, b) :: ·)
  | _ :: _ => none

/-! ## `make_face_edge_array` -/

/-- `node_pair_to_edge_index[frozenset(pair)]`: the dict is built by enumerating the edge
table, so the *last* row with that node pair wins; `none` = KeyError -/
def edgeIndex? : List Pair → Pair → Option Nat
  | [], _ => none
  | e :: es, p =>
    match edgeIndex? es p with
    | some k => some (k + 1)
    | none => if normPair e = normPair p then some 0 else none

/-- `make_face_edge_array`: column `c` of face `f` is the index of the edge made of the `c`-th
consecutive node pair of `f`; the rest of the row is masked -/
def makeFaceEdge (w : Nat) (en : List Pair) (faces : List (List Int)) : Except Err Table :=
  match optAll (faces.map fun f => optAll ((facePairs f).map (edgeIndex? en))) with
  | none => .error .key
  | some rows =>
    if rows.any (fun ks => w < ks.length) then .error .index
    else .ok (rows.map fun ks => pad w (ks.map Int.ofNat))

/-! ## `make_edge_face_array`, `make_face_face_array`: filling rows by counting -/

/-- `table[key, count[key]] = value; count[key] += 1` for every event in order, starting from
`n` empty rows: row `i` collects, in order, the values of the events with key `i` -/
def accumulate {α} (n : Nat) (events : List (Nat × α)) : List (List α) :=
  events.foldl (fun st ev => st.modify ev.1 (· ++ [ev.2])) (List.replicate n [])

/-- (edge, face) incidences in the order `make_edge_face_array` visits them -/
def edgeFaceEvents (fe : List (List Int)) : List (Int × Nat) :=
  fe.zipIdx.flatMap fun (row, fi) => row.map fun k => (k, fi)

/-- the faces whose face-edge row contains edge `k`, in visiting order, once per occurrence -/
def incidences (fe : List (List Int)) (k : Int) : List Nat :=
  ((edgeFaceEvents fe).filter (fun ev => ev.1 == k)).map (·.2)

def inRange (n : Nat) (k : Int) : Bool := 0 ≤ k && k < (n : Int)

/-- `make_edge_face_array` from the compressed rows of the face-edge table.
IndexError where an edge index is outside the table or an edge has more than two faces. -/
def makeEdgeFace (nedges : Nat) (fe : List (List Int)) : Except Err Table :=
  let evs := edgeFaceEvents fe
  if evs.any (fun ev => !inRange nedges ev.1) then .error .index
  else
    let rows := accumulate nedges (evs.map fun ev => (ev.1.toNat, ev.2))
    if rows.any (fun r => 2 < r.length) then .error .index
    else .ok (rows.map fun r => pad 2 (r.map Int.ofNat))

/-- the two writes `make_face_face_array` makes for one edge-face row -/
def facePairEvents : List (Option Int) → List (Int × Int)
  | [some l, some r] => [(l, r), (r, l)]
  | _ => []

/-- every (face, neighbour) write of `make_face_face_array`, in order -/
def adjEvents (ef : Table) : List (Int × Int) := ef.flatMap facePairEvents

/-- rows `make_face_face_array` cannot process: no masked cell but not exactly two cells
(`left, right = face_indexes` raises ValueError) -/
def badEdgeFaceRow (row : List (Option Int)) : Bool :=
  row.all Option.isSome && row.length != 2

/-- `make_face_face_array`.  A row naming the same face twice makes the real code write one
cell twice and skip the next; that is outside the model. -/
def makeFaceFace (nfaces w : Nat) (ef : Table) : Except Err Table :=
  if ef.any badEdgeFaceRow then .error .value
  else
    let evs := adjEvents ef
    if evs.any (fun ev => ev.1 = ev.2) then .error .unmodelled
    else if evs.any (fun ev => !inRange nfaces ev.1) then .error .index
    else
      let rows := accumulate nfaces (evs.map fun ev => (ev.1.toNat, ev.2))
      if rows.any (fun r => w < r.length) then .error .index
      else .ok (rows.map (pad w))

/-- the unmasked entries of row `i` of a table (`[]` outside the table) -/
def rowOf (t : Table) (i : Nat) : List Int :=
  match t[i]? with
  | some row => compress row
  | none => []

/-! ## the `*_array` properties: supplied table if valid, derived otherwise -/

/-- what the dataset level hands over: the normalised face-node table, whether an edge
dimension exists and its size if the dataset has that dimension, and for each optional
table the supplied one if it passed its validity test (`none` otherwise), decoded by
`_to_index_array` (which may itself raise, hence `Except`) -/
structure TopoIn where
  /-- `face_node_array` (or the exception `_to_index_array` raises for it) -/
  faceNode : Except Err Table
  /-- `face_count`, `max_node_count`: sizes of the face and max-node dimensions -/
  nfaces : Nat
  width : Nat
  hasEdgeDim : Bool
  edgeDimSize : Option Nat
  edgeNode : Option (Except Err Table)
  faceEdge : Option (Except Err Table)
  edgeFace : Option (Except Err Table)
  faceFace : Option (Except Err Table)
  /-- a proposed numbering of the derived edges (the order the real code happened to choose);
  used only if it is a renumbering of the model's own derived edge list -/
  numbering : Option (List Pair) := none
  /-- the exception `sensible_fill_value` raises (it needs `node_count`, hence the node
  coordinate variables); the `make_*` functions evaluate it before anything else -/
  fillValueErr : Option Err := none
  deriving Repr

namespace TopoIn

/-- the faces `_face_and_node_pair_iter` walks over; it raises IndexError on a face without
nodes (`node_indexes[0]`) -/
def faces (t : TopoIn) : Except Err (List (List Int)) :=
  match t.faceNode with
  | .error e => .error e
  | .ok fn => if (facesOf fn).all (· ≠ []) then .ok (facesOf fn) else .error .index

/-- the derived edge list in the numbering in use -/
def derivedEdges (numbering : Option (List Pair)) (faces : List (List Int)) : List Pair :=
  match numbering with
  | some w => if isRenumbering w (makeEdgeNode faces) then w else makeEdgeNode faces
  | none => makeEdgeNode faces

/-- `edge_node_array` -/
def edgeNodeArray (t : TopoIn) : Except Err Table :=
  if !t.hasEdgeDim then .error .noEdgeDim
  else match t.edgeNode with
    | some tab => tab
    | none => match t.faces with
      | .error e => .error e
      | .ok faces => .ok ((derivedEdges t.numbering faces).map pairRow)

/-- `edge_count` -/
def edgeCount (t : TopoIn) : Except Err Nat :=
  if !t.hasEdgeDim then .error .noEdgeDim
  else match t.edgeDimSize with
    | some n => .ok n
    | none => t.edgeNodeArray.map List.length

/-- `face_edge_array` -/
def faceEdgeArray (t : TopoIn) : Except Err Table :=
  match t.faceEdge with
  | some tab => tab
  | none =>
    if let some e := t.fillValueErr then .error e else
    match t.edgeNodeArray with
    | .error e => .error e
    | .ok en =>
      match pairsOfTable en with
      | none => .error .unmodelled
      | some pairs => match t.faces with
        | .error e => .error e
        | .ok faces => makeFaceEdge t.width pairs faces

/-- `edge_face_array` -/
def edgeFaceArray (t : TopoIn) : Except Err Table :=
  match t.edgeFace with
  | some tab => tab
  | none =>
    match t.edgeCount with
    | .error e => .error e
    | .ok n =>
      if let some e := t.fillValueErr then .error e else
      match t.faceEdgeArray with
      | .error e => .error e
      | .ok fe => makeEdgeFace n (fe.map compress)

/-- `face_face_array` -/
def faceFaceArray (t : TopoIn) : Except Err Table :=
  match t.faceFace with
  | some tab => tab
  | none =>
    if let some e := t.fillValueErr then .error e else
    match t.edgeFaceArray with
    | .error e => .error e
    | .ok ef => makeFaceFace t.nfaces t.width ef

end TopoIn

/-! ## `UGrid._make_polygons` -/

/-- vertex ring of every face: coordinates of its nodes in order (`none` where a node index
is outside the coordinate arrays: IndexError) -/
def polygons {C} (coords : List C) (faces : List (List Int)) : Option (List (List C)) :=
  optAll (faces.map fun f => optAll (f.map fun v => if v < 0 then none else coords[v.toNat]?))

end Ems.Mesh
