import EmsModel.Core.Polygons
import EmsModel.Core.Triangulate
/-
Core/TriDatasetSrc.lean — a small deep-embedded language for the BOOKKEEPING of
`emsarray.operations.triangulate.triangulate_dataset`: which polygons go to the fan path and which to the ear path,
which cell index is recorded with each block of triangles, how many rows are pre-allocated, and how the vertex table
and the index join are wired.  The terms are NOT written by hand: `harness/trans_tridataset.py` translates the source
text of the function (read from the working tree on every run) into `Gen/TriDatasetSrc.lean`; this file gives the
language its meaning and declares the program the model stands for (`triDatasetLoops`, `triDatasetTotal`,
`triDatasetTable`, `triDatasetAddBody`).

Values are positional arrays over the cells of the dataset.  Every evaluation is total: `none` means numpy / shapely
would raise (index out of range, a batch handed to `_triangulate_polygons_by_length` that violates its contract) or that
the construct is outside the fragment (`unknown`).
Core Lean only.
-/
namespace Ems

/-! ### expressions -/

/-- the array expressions of `triangulate_dataset` (locals inlined by the translator) -/
inductive TdExpr where
  /-- `dataset.ems.polygons` -/
  | polygons
  /-- `shapely.get_num_coordinates(x)` -/
  | numCoords (x : TdExpr)
  /-- `shapely.convex_hull(x)` -/
  | convexHull (x : TdExpr)
  /-- `a != b`, `a == b` (arrays of one length, or an array and a scalar) -/
  | ne (a b : TdExpr)
  | eq (a b : TdExpr)
  /-- `numpy.flatnonzero(x)` -/
  | flatnonzero (x : TdExpr)
  /-- `numpy.nonzero(x)` used as an index of a 1-D array -/
  | nonzero (x : TdExpr)
  /-- the value of the array `a` after `a[idx] = v` -/
  | setAt (a idx : TdExpr) (v : Nat)
  /-- `a[idx]` for an index array or one integer -/
  | take (a idx : TdExpr)
  /-- `numpy.unique(a)` -/
  | unique (a : TdExpr)
  /-- `a - k` for an integer literal `k` -/
  | subLit (a : TdExpr) (k : Nat)
  /-- `numpy.sum(a)` -/
  | sum (a : TdExpr)
  /-- a loop variable, by nesting position (outermost binder first; a `zip` binds two) -/
  | loopVar (level : Nat)
  /-- `int(x)` -/
  | toInt (x : TdExpr)
  /-- `_triangulate_polygons_by_length(polys)` -/
  | fanBatch (polys : TdExpr)
  /-- `_triangulate_concave_polygon(poly)` -/
  | earOne (poly : TdExpr)
  /-- something the translator could not render -/
  | unknown (python : String)
deriving Repr, DecidableEq

/-- what encloses an `_add_triangles(…)` call, outermost first -/
inductive TdBinder where
  /-- `for v in e:` -/
  | each (e : TdExpr)
  /-- `for u, v in zip(a, b):` -/
  | zip (a b : TdExpr)
  /-- `if e == 0: continue` in front of the rest of the loop body -/
  | unlessZero (e : TdExpr)
  | unknown (python : String)
deriving Repr, DecidableEq

/-- one `_add_triangles(face, tris)` call with the loops and guards around it -/
structure TdLoop where
  binders : List TdBinder
  face : TdExpr
  tris : TdExpr
deriving Repr, DecidableEq

/-! ### values -/

inductive TdVal where
  | ints (l : List Nat)
  | bools (l : List Bool)
  | nat (k : Nat)
  /-- an array of polygons (`none` = no geometry) -/
  | geoms (l : List (Option (List Tri.Pt)))
  /-- the convex hulls of an array of polygons (only their coordinate counts are ever used) -/
  | hulls (l : List (Option (List Tri.Pt)))
  | geom (p : Option (List Tri.Pt))
  /-- the `(k, 3, 2)` triangle array of one polygon, or the exception raised while computing it -/
  | tris (r : Except Tri.Err (List Tri.Tri))
  /-- the `(n, k, 3, 2)` array of a batch -/
  | batches (l : List (List Tri.Tri))

/-- what the bookkeeping is run on: the cells, the two GEOS oracles, the values of the enclosing loop variables -/
structure TdEnv where
  cells : List (Option (List Tri.Pt))
  /-- number of coordinates of the convex hull of a polygon (`shapely.get_num_coordinates(shapely.convex_hull(p))`) -/
  hullLen : List Tri.Pt → Nat
  isEar : List Tri.Pt → Nat → Bool
  vars : List TdVal

/-- `shapely.get_num_coordinates` of a polygon: its vertices and the closing coordinate; 0 for no geometry -/
def tdPolyLen : Option (List Tri.Pt) → Nat
  | none => 0
  | some p => p.length + 1

def tdHullLen (h : List Tri.Pt → Nat) : Option (List Tri.Pt) → Nat
  | none => 0
  | some p => h p

/-- `numpy.flatnonzero` of a boolean array: the positions of its true entries, ascending -/
def tdFlatnonzero (bs : List Bool) : List Nat :=
  (List.range bs.length).filter fun i => bs.getD i false

/-- `a[idx] = v` on a copy of `a`; `none` = IndexError -/
def tdSetAt (l idx : List Nat) (v : Nat) : Option (List Nat) :=
  if idx.all (· < l.length) then some ((List.range l.length).map fun i => if idx.contains i then v else l.getD i 0)
  else none

/-- `numpy.unique`: the distinct values, ascending -/
def tdUnique (l : List Nat) : List Nat :=
  (List.range (l.foldl max 0 + 1)).filter fun v => l.contains v

/-- `a[idx]` for an index array; `none` = IndexError -/
def tdTake {β : Type} (l : List β) (idx : List Nat) : Option (List β) :=
  allSomeL (idx.map fun i => l[i]?)

/-- the contract of `_triangulate_polygons_by_length`: a non-empty batch of polygons that all have the same number
(≥ 3) of vertices.  On such a batch it returns the fans, in order — that is `C14.fan_pipeline_spec`, proved of the
term translated from its source; anything else is outside its contract (`none`). -/
def tdFanBatch (l : List (Option (List Tri.Pt))) : Option (List (List Tri.Tri)) :=
  match l with
  | some p :: _ =>
    if 3 ≤ p.length ∧ l.all (fun q => q.map (·.length) == some p.length) then
      some (l.map fun q => Tri.fan (q.getD []))
    else none
  | _ => none

def TdEnv.push (env : TdEnv) (v : TdVal) : TdEnv := { env with vars := env.vars ++ [v] }

/-- value of an expression -/
def tdEval (env : TdEnv) : TdExpr → Option TdVal
  | .polygons => some (.geoms env.cells)
  | .numCoords x =>
    match tdEval env x with
    | some (.geoms l) => some (.ints (l.map tdPolyLen))
    | some (.hulls l) => some (.ints (l.map (tdHullLen env.hullLen)))
    | _ => none
  | .convexHull x =>
    match tdEval env x with
    | some (.geoms l) => some (.hulls l)
    | _ => none
  | .ne a b =>
    match tdEval env a, tdEval env b with
    | some (.ints l), some (.ints m) => if l.length = m.length then some (.bools (List.zipWith (· != ·) l m)) else none
    | some (.ints l), some (.nat k) => some (.bools (l.map (· != k)))
    | _, _ => none
  | .eq a b =>
    match tdEval env a, tdEval env b with
    | some (.ints l), some (.ints m) => if l.length = m.length then some (.bools (List.zipWith (· == ·) l m)) else none
    | some (.ints l), some (.nat k) => some (.bools (l.map (· == k)))
    | _, _ => none
  | .flatnonzero x =>
    match tdEval env x with
    | some (.bools bs) => some (.ints (tdFlatnonzero bs))
    | some (.ints l) => some (.ints (tdFlatnonzero (l.map (· != 0))))
    | _ => none
  | .nonzero x =>
    match tdEval env x with
    | some (.bools bs) => some (.ints (tdFlatnonzero bs))
    | some (.ints l) => some (.ints (tdFlatnonzero (l.map (· != 0))))
    | _ => none
  | .setAt a idx v =>
    match tdEval env a, tdEval env idx with
    | some (.ints l), some (.ints ix) => (tdSetAt l ix v).map .ints
    | _, _ => none
  | .take a idx =>
    match tdEval env a, tdEval env idx with
    | some (.geoms l), some (.ints ix) => (tdTake l ix).map .geoms
    | some (.geoms l), some (.nat k) => (l[k]?).map .geom
    | some (.ints l), some (.ints ix) => (tdTake l ix).map .ints
    | _, _ => none
  | .unique a =>
    match tdEval env a with
    | some (.ints l) => some (.ints (tdUnique l))
    | _ => none
  | .subLit a k =>
    match tdEval env a with
    | some (.ints l) => some (.ints (l.map (· - k)))
    | _ => none
  | .sum a =>
    match tdEval env a with
    | some (.ints l) => some (.nat l.sum)
    | _ => none
  | .loopVar i => env.vars[i]?
  | .toInt x =>
    match tdEval env x with
    | some (.nat k) => some (.nat k)
    | _ => none
  | .fanBatch x =>
    match tdEval env x with
    | some (.geoms l) => (tdFanBatch l).map .batches
    | _ => none
  | .earOne x =>
    match tdEval env x with
    | some (.geom (some p)) => some (.tris (Tri.earClip env.isEar p.length p))
    | _ => none
  | .unknown _ => none

/-- a block of rows written by one `_add_triangles(face_index, triangles)` call -/
abbrev TdBlock := Nat × Except Tri.Err (List Tri.Tri)

/-- all iterations succeeded: their blocks one after the other -/
def tdCollect (l : List (Option (List TdBlock))) : Option (List TdBlock) := (allSomeL l).map List.flatten

/-- the blocks one `_add_triangles` call writes over all iterations of the loops around it, in order -/
def tdLoopRun (env : TdEnv) : List TdBinder → TdExpr → TdExpr → Option (List TdBlock)
  | [], f, t =>
    match tdEval env f, tdEval env t with
    | some (.nat k), some (.tris r) => some [(k, r)]
    | _, _ => none
  | .each e :: bs, f, t =>
    match tdEval env e with
    | some (.ints l) => tdCollect (l.map fun v => tdLoopRun (env.push (.nat v)) bs f t)
    | _ => none
  | .zip a b :: bs, f, t =>
    match tdEval env a, tdEval env b with
    | some (.ints l), some (.batches m) =>
      tdCollect ((l.zip m).map fun vt => tdLoopRun ((env.push (.nat vt.1)).push (.tris (.ok vt.2))) bs f t)
    | _, _ => none
  | .unlessZero e :: bs, f, t =>
    match tdEval env e with
    | some (.nat 0) => some []
    | some (.nat _) => tdLoopRun env bs f t
    | _ => none
  | .unknown _ :: _, _, _ => none

/-- the blocks written by the whole function: the `_add_triangles` calls in source order -/
def tdRun (env : TdEnv) (prog : List TdLoop) : Option (List TdBlock) :=
  tdCollect (prog.map fun lp => tdLoopRun env lp.binders lp.face lp.tris)

/-! ### the vertex table and the index join -/

/-- where a column of the triangle data frame comes from -/
inductive TdColumn where
  /-- `pandas.Series(face_indices)` -/
  | faces
  /-- `pandas.Series(triangle_coords[:, corner, coord])` -/
  | coord (corner coord : Nat)
  | unknown (python : String)
deriving Repr, DecidableEq

/-- the wiring of the vertex table and of the index join of `triangulate_dataset` -/
structure TdTable where
  /-- how `vertex_index` is made (canonical Python text, `POLYGONS` = `dataset.ems.polygons`) -/
  vertexIndex : String
  /-- how `vertex_series` (coordinate pair ↦ vertex number) is made, `VERTEX_INDEX` = the above -/
  vertexSeries : String
  /-- how the returned `vertices` array is made -/
  vertexCoords : String
  /-- the columns of the data frame, in order -/
  columns : List (String × TdColumn)
  /-- `.join(vertex_series.rename(name), on=[cx, cy])`, in order -/
  joins : List (String × List String)
  /-- the columns of the returned `triangles`, and the column of the returned cell indexes -/
  triangleColumns : List String
  faceColumn : String
  /-- the order of the returned tuple -/
  result : List String
deriving Repr, DecidableEq

/-- the join that makes column `name` looks up the `(x, y)` of corner `corner` -/
def tdJoinOk (t : TdTable) (name : String) (corner : Nat) : Bool :=
  match t.joins.lookup name with
  | some [cx, cy] => t.columns.lookup cx == some (.coord corner 0) && t.columns.lookup cy == some (.coord corner 1)
  | _ => false

/-- the wiring is sound: column `i` of the returned triangles is the vertex number looked up for corner `i` of the
triangle's coordinates, the returned cell indexes are the recorded face indexes, no column or join name is used twice,
and the tuple is `(vertices, triangles, cell indexes)` -/
def tdTableOk (t : TdTable) : Bool :=
  t.triangleColumns.length == 3 &&
  (List.range 3).all (fun i => tdJoinOk t (t.triangleColumns.getD i "") i) &&
  t.columns.lookup t.faceColumn == some .faces &&
  (t.columns.map (·.1) ++ t.joins.map (·.1)).Nodup &&
  t.result == ["vertices", "triangles", "faces"]

/-! ### the program the model stands for -/

/-- `polygon_length` after `polygon_length[polygon_is_concave] = 0` -/
def triDatasetLengths : TdExpr :=
  .setAt (.numCoords .polygons)
    (.flatnonzero (.ne (.numCoords (.convexHull .polygons)) (.numCoords .polygons))) 0

/-- the two loops of `triangulate_dataset`:
`for unique_length in numpy.unique(polygon_length): if unique_length == 0: continue; … for face_index, triangles in
zip(same_length_face_indices, _triangulate_polygons_by_length(polygons[same_length_face_indices])):
_add_triangles(int(face_index), triangles)` and
`for face_index in polygon_is_concave: _add_triangles(int(face_index), _triangulate_concave_polygon(polygons[face_index]))` -/
def triDatasetLoops : List TdLoop :=
  [ { binders := [.each (.unique triDatasetLengths), .unlessZero (.loopVar 0),
        .zip (.flatnonzero (.eq triDatasetLengths (.loopVar 0)))
          (.fanBatch (.take .polygons (.flatnonzero (.eq triDatasetLengths (.loopVar 0)))))]
      face := .toInt (.loopVar 1)
      tris := .loopVar 2 },
    { binders := [.each (.flatnonzero (.ne (.numCoords (.convexHull .polygons)) (.numCoords .polygons)))]
      face := .toInt (.loopVar 0)
      tris := .earOne (.take .polygons (.loopVar 0)) } ]

/-- `total_triangles = numpy.sum(polygon_length[numpy.nonzero(polygon_length)] - 3)` (before the concave polygons
are zeroed) -/
def triDatasetTotal : TdExpr :=
  .sum (.subLit (.take (.numCoords .polygons) (.nonzero (.numCoords .polygons))) 3)

/-- the pre-allocation (`F0` = `current_face`, `F1` = `face_indices`, `F2` = `triangle_coords`, `TOTAL` = the row count
`triDatasetTotal`) and the body of the local helper `_add_triangles(face_index, vertex_triangles)`, parameters `P0`, `P1`,
local `L0`: the rows `current_face … current_face + len(vertex_triangles)` get the face index and the triangles, then
`current_face` advances — i.e. one block `(face index, triangles)` is appended -/
def triDatasetAddBody : List String :=
  ["F0 = 0",
   "F1 = numpy.empty(TOTAL, dtype=int)",
   "F2 = numpy.empty((TOTAL, 3, 2), dtype=float)",
   "nonlocal F0",
   "L0 = len(P1)",
   "F1[F0:F0 + L0] = P0",
   "F2[F0:F0 + L0] = P1",
   "F0 += L0"]

/-- the vertex table (`Tri.dedup (Tri.allCoords cells)`: `drop_duplicates` keeps first occurrences) and the index join
(`Tri.indexOf?` of each corner) as the model has them -/
def triDatasetTable : TdTable :=
  { vertexIndex := "pandas.MultiIndex.from_arrays(shapely.get_coordinates(POLYGONS).T).drop_duplicates()"
    vertexSeries := "pandas.Series(numpy.arange(len(VERTEX_INDEX)), index=VERTEX_INDEX)"
    vertexCoords := "numpy.array(VERTEX_INDEX.to_list())"
    columns := [("face_indices", .faces), ("x0", .coord 0 0), ("y0", .coord 0 1), ("x1", .coord 1 0),
      ("y1", .coord 1 1), ("x2", .coord 2 0), ("y2", .coord 2 1)]
    joins := [("v0", ["x0", "y0"]), ("v1", ["x1", "y1"]), ("v2", ["x2", "y2"])]
    triangleColumns := ["v0", "v1", "v2"]
    faceColumn := "face_indices"
    result := ["vertices", "triangles", "faces"] }

end Ems
