import EmsModel.Core.NDArray
/-
Core/Clip.lean — applying a clip mask.

Models (emsarray.masking) `calculate_grid_mask_bounds`, `mask_grid_data_array`,
`find_fill_value`, the per-variable part of `mask_grid_dataset`; (emsarray.conventions.ugrid)
the data part of `UGrid.apply_clip_mask` (`dimension_masks`: boolean row selection per mesh
dimension), `update_connectivity`.
Stored values are `Option`: `none` is a missing value (NaN / `_FillValue`).
-/
namespace Ems

/-- how a variable can represent a missing value (`find_fill_value`) -/
inductive FillKind
  | maskable      -- float-like dtype, or a `_FillValue` / `missing_value` attribute
  | unmaskable    -- e.g. integers without a fill value: cropped, never altered
deriving Repr, DecidableEq

/-- `find_fill_value` as a decision table over what the code inspects -/
def fillDecision (isMaskedArray hasFillAttr hasMissingAttr dtypeIsFloatLike : Bool) : FillKind :=
  if isMaskedArray then .maskable
  else if hasFillAttr || hasMissingAttr then .maskable
  else if dtypeIsFloatLike then .maskable
  else .unmaskable

/-- first index holding `true` and one past the last, or `none` if there is none -/
def trueBounds (l : List Bool) : Option (Nat × Nat) :=
  match l.idxOf? true with
  | none => none
  | some lo => some (lo, l.length - (l.reverse.idxOf? true).getD 0)

namespace NArr
variable {α : Type}

/-- is any entry true along every other dimension, for each index of dimension `d` -/
def anyAlong (m : NArr Bool) (d : String) : List Bool :=
  match m.dims.find? (·.1 == d) with
  | none => []
  | some (_, n) =>
    (List.range n).map fun k =>
      (List.range m.data.length).any fun p =>
        match unravel m.shape p with
        | some idx => (((m.names.zip idx).lookup d) == some k) && m.data.getD p false
        | none => false

/-- `calculate_grid_mask_bounds` for one mask: a slice `[first marked, last marked + 1)` per
dimension; `none` = the mask is completely empty (ValueError) -/
def maskBounds (m : NArr Bool) : Option (List (String × Nat × Nat)) :=
  if !m.data.any id then none else
  some (m.names.filterMap fun d => (trueBounds (m.anyAlong d)).map fun b => (d, b))

/-- where index `x` of dimension `d` of a cropped array sits in the original -/
def cropShift (bounds : List (String × Nat × Nat)) (d : String) (x : Nat) : Nat :=
  match bounds.lookup d with
  | some (lo, _) => x + lo
  | none => x

/-- the length of dimension `d` (originally `n`) after cropping to `[lo, hi)` -/
def cropSize (bounds : List (String × Nat × Nat)) (d : String) (n : Nat) : Nat :=
  match bounds.lookup d with
  | some (lo, hi) => min hi n - lo
  | none => n

/-- `isel` with slices: dimension `d` keeps `[lo, hi)`; other dimensions intact -/
def crop [Inhabited α] (a : NArr α) (bounds : List (String × Nat × Nat)) : NArr α :=
  ofFn (a.dims.map fun d => (d.1, cropSize bounds d.1 d.2))
    fun e => a.get? (e.map fun p => (p.1, cropShift bounds p.1 p.2))

/-- `DataArray.where(mask, other=fill)` with the mask broadcast along the variable's other
dimensions -/
def whereMask [Inhabited α] (a : NArr (Option α)) (mask : NArr Bool) : NArr (Option α) :=
  ofFn a.dims fun e =>
    match mask.get? e with
    | some true => a.get? e
    | some false => some none
    | none => none

/-- the positions holding `true`, in increasing order -/
def keptRows (keep : List Bool) : List Nat :=
  (List.range keep.length).filter fun i => keep.getD i false

/-- boolean row selection along one dimension: keeps the rows whose flag is true, in order -/
def selectRows [Inhabited α] (a : NArr α) (d : String) (keep : List Bool) : NArr α :=
  ofFn (a.dims.map fun x => (x.1, if x.1 == d then (keptRows keep).length else x.2))
    fun e => a.get? (e.map fun p => (p.1, if p.1 == d then (keptRows keep).getD p.2 0 else p.2))

end NArr

/-- the mask that governs a variable: the first, in the mask dataset's order, all of whose
dimensions are dimensions of the variable -/
def governingMask (masks : List (String × NArr Bool)) (varNames : List String) : Option (NArr Bool) :=
  (masks.find? fun m => m.2.names.all (varNames.contains ·)).map (·.2)

/-- union of the slices of all masks, later masks overriding earlier ones per dimension
(`bounds[dimension] = …` in a loop) -/
def allBounds (masks : List (String × NArr Bool)) : Option (List (String × Nat × Nat)) :=
  masks.foldl (fun acc m =>
    match acc, m.2.maskBounds with
    | some bs, some nb => some (nb ++ bs.filter fun b => !(nb.map (·.1)).contains b.1)
    | _, _ => none) (some [])

/-- `mask_grid_dataset` for one data variable: crop to the bounds of the masks, then blank
what the governing mask does not mark — if the variable can represent a missing value. -/
def clipVar {α : Type} [Inhabited α] (masks : List (String × NArr Bool)) (fill : FillKind)
    (a : NArr (Option α)) : Option (NArr (Option α)) :=
  match allBounds masks with
  | none => none
  | some bounds =>
    let cropped := a.crop bounds
    match fill, governingMask masks a.names with
    | .maskable, some m => some (cropped.whereMask (m.crop bounds))
    | _, _ => some cropped

/-- the data part of `UGrid.apply_clip_mask`: for every mesh dimension the variable has,
keep exactly the kept rows, in original order -/
def meshRows {α : Type} [Inhabited α] (dimMasks : List (String × List Bool)) (a : NArr α) : NArr α :=
  dimMasks.foldl (fun acc dm => if acc.names.contains dm.1 then acc.selectRows dm.1 dm.2 else acc) a

/-! ### connectivity re-indexing (C09) -/

/-- order-preserving renumbering: the new index of a kept element is the number of kept
elements before it; dropped elements have none -/
def renumber (keep : List Bool) : List (Option Nat) :=
  (List.range keep.length).map fun i =>
    if keep.getD i false then some ((keep.take i).count true) else none

/-- `update_connectivity`: rows of kept primary elements, in order; every entry mapped through
the column renumbering; a missing entry or a reference to a dropped element becomes missing.
(`base`, dtype and dimension order are carried by the caller.) -/
def updateConnectivity (table : List (List (Option Nat))) (rowKeep : List Bool)
    (colNew : List (Option Nat)) : List (List (Option Nat)) :=
  ((List.range table.length).filter fun r => rowKeep.getD r false).map fun r =>
    (table.getD r []).map fun e => e.bind fun x => (colNew[x]?).join

end Ems
