import EmsModel.Core.Registry
/-
Core/RegistrySrc.lean — the *source text* of `ConventionRegistry.conventions`, `match_conventions` and
`guess_convention` as data, and an evaluator that gives that data its Python meaning.

`harness/trans_registrysrc.py` reads the three functions from the working tree on every run and writes what it
finds into `Gen/RegistrySrc.lean`; `Props/C11Src.lean` proves that, evaluated, the generated descriptions are the model
functions `Reg.conventions`, `Reg.matchConventions`, `Reg.guess` (the ones the C11 theorems are about).
Core Lean only.
-/
namespace Ems.RegSrc
open Ems.Reg

/-- list-valued expressions of the registry code -/
inductive L where
  /-- `self.registered_conventions` -/
  | registered
  /-- `self.entry_point_conventions` -/
  | entryPoints
  /-- `self.conventions` -/
  | selfConventions
  /-- `itertools.chain(a, b)` -/
  | chain (a b : L)
  /-- `out = []; seen = set(); for x in iter: if x not in seen: out.append(x); seen.add(x)`; the value of `out` -/
  | dedupLoop (iter : L)
  | unsupported (python : String)
deriving Repr, Inhabited

/-- how `sorted(...)` is called on the matches -/
structure SortSrc where
  /-- `key=lambda m: m[k]` -/
  keyIndex : Nat
  /-- `reverse=` -/
  reverse : Bool
deriving Repr, DecidableEq

/-- `match_conventions` as read from the source -/
structure MatchSrc where
  /-- what the loop runs over -/
  iter : L
  /-- the loop calls `convention.check_dataset(dataset)` once per class and appends `(convention, match)`
  exactly when the result `is not None` -/
  appendsPairWhenNotNone : Bool
  /-- the result is `sorted(matches, …)`; `none` = the matches are returned some other way -/
  sort : Option SortSrc
deriving Repr

/-- `guess_convention` as read from the source -/
structure GuessSrc where
  /-- `matches = self.match_conventions(dataset)` -/
  callsMatch : Bool
  /-- empty `matches` ⇒ `None` -/
  emptyGivesNone : Bool
  /-- non-empty ⇒ `matches[outer][inner]` -/
  outer : Int
  inner : Int
deriving Repr

section
variable {α : Type} [DecidableEq α]

/-- value of a list expression; `none` = unsupported -/
def evalL (reg ep convs : List α) : L → Option (List α)
  | .registered => some reg
  | .entryPoints => some ep
  | .selfConventions => some convs
  | .chain a b =>
      match evalL reg ep convs a, evalL reg ep convs b with
      | some x, some y => some (x ++ y)
      | _, _ => none
  | .dedupLoop it => (evalL reg ep convs it).map (dedupAux [])
  | .unsupported _ => none

/-- Python's stable `sorted` on `(class, specificity)` pairs by component `keyIndex`: only the specificity
(component 1) is an ordered key; sorting by the class object is not something the model can express. -/
def evalSort (s : SortSrc) (l : List (α × Nat)) : Option (List (α × Nat)) :=
  if s.keyIndex = 1 then
    some (l.mergeSort (fun a b => if s.reverse then decide (b.2 ≤ a.2) else decide (a.2 ≤ b.2)))
  else none

/-- `match_conventions`, from its description -/
def evalMatch {ε : Type} (m : MatchSrc) (reg ep convs : List α) (check : α → Except ε (Option Nat)) :
    Option (Except ε (List (α × Nat))) :=
  if m.appendsPairWhenNotNone then
    match evalL reg ep convs m.iter, m.sort with
    | some cs, some s =>
        match collect check cs with
        | .error e => some (.error e)
        | .ok l => (evalSort s l).map .ok
    | _, _ => none
  else none

/-- Python indexing `l[i]` with a literal index -/
def pyGet {β : Type} (l : List β) (i : Int) : Option β :=
  if 0 ≤ i then l[i.toNat]? else if (-i).toNat ≤ l.length then l[l.length - (-i).toNat]? else none

/-- `guess_convention`, from its description, given what `match_conventions` returned -/
def evalGuess {ε : Type} (g : GuessSrc) (found : Except ε (List (α × Nat))) : Option (Except ε (Option α)) :=
  if g.callsMatch && g.emptyGivesNone then
    match found with
    | .error e => some (.error e)
    | .ok [] => some (.ok none)
    | .ok l =>
        match pyGet l g.outer with
        | some pair => if g.inner = 0 then some (.ok (some pair.1)) else none
        | none => none
  else none

end
end Ems.RegSrc
