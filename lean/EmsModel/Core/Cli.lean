/-
Core/Cli.lean — model of the command line layer of emsarray
(`src/emsarray/cli/utils.py`, `cli/__init__.py`, `cli/command.py`, `cli/commands/*.py`).

Core Lean only.  Strings are `List Char`.

Contents
* character classes of Python's `re` for `str` patterns (`\d`, `\s` with `re.UNICODE`)
* `splitOn`, trimming
* `parseBounds` — a deterministic, hand-written parser for the numeral grammar of
  `emsarray.cli.utils.bounds_re`, applied to the text IN ITS ENTIRETY (the behaviour the
  property demands: `fullmatch`)
* `boundsArgument`, `geometryArgument` (bounds → JSON → file → usage error)
* `pathSuffix`, `guessFormat`, `resolveFormat` (export-geometry)
* `exitStatus` (`nice_console_errors`, argparse) and the step lists of the three handlers
* `toDouble` — correctly rounded decimal → binary64 conversion (Python `float(str)`), used by
  the driver to canonicalise values
-/
namespace Ems.Cli

/-! ## Character classes -/

/-- The code points `z` such that `z .. z+9` is a run of Unicode decimal digits (category Nd)
with values 0..9: what `\d` matches in a Python `str` pattern (unicodedata 15.0), and what
`float()` / `int()` accept as digits. -/
def ndZeros : List Nat := [
  0x30, 0x660, 0x6f0, 0x7c0, 0x966, 0x9e6, 0xa66, 0xae6, 0xb66, 0xbe6, 0xc66, 0xce6, 0xd66,
  0xde6, 0xe50, 0xed0, 0xf20, 0x1040, 0x1090, 0x17e0, 0x1810, 0x1946, 0x19d0, 0x1a80, 0x1a90,
  0x1b50, 0x1bb0, 0x1c40, 0x1c50, 0xa620, 0xa8d0, 0xa900, 0xa9d0, 0xa9f0, 0xaa50, 0xabf0,
  0xff10, 0x104a0, 0x10d30, 0x11066, 0x110f0, 0x11136, 0x111d0, 0x112f0, 0x11450, 0x114d0,
  0x11650, 0x116c0, 0x11730, 0x118e0, 0x11950, 0x11c50, 0x11d50, 0x11da0, 0x11f50, 0x16a60,
  0x16ac0, 0x16b50, 0x1d7ce, 0x1d7d8, 0x1d7e2, 0x1d7ec, 0x1d7f6, 0x1e140, 0x1e2f0, 0x1e4f0,
  0x1e950, 0x1fbf0]

/-- The code points `\s` matches in a Python `str` pattern (= `str.isspace`). -/
def spaceCodes : List Nat := [
  0x9, 0xa, 0xb, 0xc, 0xd, 0x1c, 0x1d, 0x1e, 0x1f, 0x20, 0x85, 0xa0, 0x1680,
  0x2000, 0x2001, 0x2002, 0x2003, 0x2004, 0x2005, 0x2006, 0x2007, 0x2008, 0x2009, 0x200a,
  0x2028, 0x2029, 0x202f, 0x205f, 0x3000]

/-- is code point `n` inside the digit run starting at `z` -/
def inRun (n z : Nat) : Bool := decide (z ≤ n) && decide (n < z + 10)

/-- value of a decimal digit character (`\d`), `none` for any other character -/
def digitVal? (c : Char) : Option Nat :=
  match ndZeros.find? (inRun c.toNat) with
  | some z => some (c.toNat - z)
  | none => none

/-- `\d` -/
def isDigit (c : Char) : Bool := (digitVal? c).isSome

/-- `\s` -/
def isSpace (c : Char) : Bool := spaceCodes.contains c.toNat

/-! ## Splitting and trimming -/

/-- Split at every occurrence of `sep` (like Python's `str.split(sep)`): always at least one
piece, pieces never contain `sep`. -/
def splitOn (sep : Char) : List Char → List (List Char)
  | [] => [[]]
  | x :: xs =>
    if x = sep then [] :: splitOn sep xs
    else match splitOn sep xs with
      | [] => [[x]]
      | p :: ps => (x :: p) :: ps

def trimLeft (cs : List Char) : List Char := cs.dropWhile isSpace
def trimRight (cs : List Char) : List Char := (cs.reverse.dropWhile isSpace).reverse

/-! ## The numeral grammar of `bounds_re`

```
NUMBER  = \d+(?:_\d+)*
DECIMAL = (-?(?:NUMBER|NUMBER\.|\.NUMBER|NUMBER\.NUMBER))
bounds_re = DECIMAL \s*,\s* DECIMAL \s*,\s* DECIMAL \s*,\s* DECIMAL
```
-/

/-- values of the characters of `\d+`: every character a digit, at least one -/
def digitsOf? : List Char → Option (List Nat)
  | [] => none
  | [c] => (digitVal? c).map (fun d => [d])
  | c :: cs =>
    match digitVal? c, digitsOf? cs with
    | some d, some ds => some (d :: ds)
    | _, _ => none

/-- digit groups separated by single underscores → all digit values in order -/
def numberOfGroups : List (List Char) → Option (List Nat)
  | [] => none
  | [g] => digitsOf? g
  | g :: gs =>
    match digitsOf? g, numberOfGroups gs with
    | some d, some ds => some (d ++ ds)
    | _, _ => none

/-- `NUMBER`, the whole of `cs` -/
def number? (cs : List Char) : Option (List Nat) := numberOfGroups (splitOn '_' cs)

/-- base-10 value of a digit list, most significant first -/
def natOfDigits (ds : List Nat) : Nat := ds.foldl (fun acc d => 10 * acc + d) 0

/-- value of the integer part -/
def intValue (ds : List Nat) : Rat := (natOfDigits ds : Rat)
/-- value of the digits after the point -/
def fracValue (ds : List Nat) : Rat := (natOfDigits ds : Rat) / ((10 ^ ds.length : Nat) : Rat)

/-- `NUMBER | NUMBER\. | \.NUMBER | NUMBER\.NUMBER`, the whole of `cs` -/
def unsigned? (cs : List Char) : Option Rat :=
  match splitOn '.' cs with
  | [ip] => (number? ip).map intValue
  | [ip, fp] =>
    match ip, fp with
    | [], [] => none
    | _ :: _, [] => (number? ip).map intValue
    | [], _ :: _ => (number? fp).map fracValue
    | _ :: _, _ :: _ =>
      match number? ip, number? fp with
      | some i, some f => some (intValue i + fracValue f)
      | _, _ => none
  | _ => none

/-- `DECIMAL`, the whole of `cs` -/
def decimal? : List Char → Option Rat
  | [] => none
  | c :: body => if c = '-' then (unsigned? body).map (fun v => -v) else unsigned? (c :: body)

abbrev Bounds := Rat × Rat × Rat × Rat

/-- `emsarray.cli.utils.bounds_re` applied to the ENTIRE text (the behaviour the property
demands; `re.fullmatch`): four `DECIMAL`s separated by commas, blanks allowed on either side
of a comma and nowhere else.  Returns the exact values of the four numerals. -/
def parseBounds (s : List Char) : Option Bounds :=
  match splitOn ',' s with
  | [f0, f1, f2, f3] =>
    match decimal? (trimRight f0), decimal? (trimRight (trimLeft f1)),
          decimal? (trimRight (trimLeft f2)), decimal? (trimLeft f3) with
    | some a, some b, some c, some d => some (a, b, c, d)
    | _, _, _, _ => none
  | _ => none

/-! ## Geometry arguments -/

/-- `shapely.geometry.box(minx, miny, maxx, maxy)` (ccw): the exterior ring without the
closing vertex -/
def boxRing (b : Bounds) : List (Rat × Rat) :=
  let (x0, y0, x1, y1) := b
  [(x1, y0), (x1, y1), (x0, y1), (x0, y0)]

inductive UsageError
  | notBounds          -- bounds_argument: "Expecting four comma separated numbers for bounds"
  | invalidGeojson     -- "Invalid geojson string"
  | notFound           -- "Argument can not be parsed as bounds, geojson, or a path to an existing geofile"
  | badFile            -- "File is not valid geojson"
  | unsupportedFile    -- "Unsupported file type"
  deriving DecidableEq, Repr

/-- What `json.loads` + `shapely.geometry.shape` do with the text (external, a parameter). -/
inductive JsonOutcome
  | notJson            -- json.loads raises
  | geometry           -- parses, and shape() builds a geometry
  | notGeometry        -- parses, shape() raises
  deriving DecidableEq, Repr

/-- The file system as seen through the argument (external, a parameter). -/
structure FileInfo where
  /-- `Path(arg).exists()` -/
  «exists» : Bool
  /-- final path component of the argument -/
  name : List Char
  /-- `shape(json.load(f))` succeeds -/
  loads : Bool

inductive Geom
  | box (b : Bounds)   -- the bounding box with exactly these four numbers
  | ofJson             -- the geometry the GeoJSON text denotes
  | ofFile             -- the geometry the GeoJSON file denotes
  deriving DecidableEq

instance : DecidableEq (Except UsageError Geom)
  | .ok a, .ok b => if h : a = b then isTrue (by rw [h]) else isFalse (by intro e; cases e; exact h rfl)
  | .error a, .error b => if h : a = b then isTrue (by rw [h]) else isFalse (by intro e; cases e; exact h rfl)
  | .ok _, .error _ => isFalse (by intro e; cases e)
  | .error _, .ok _ => isFalse (by intro e; cases e)

/-- `pathlib.PurePath.suffix` of a final path component: from the last dot, unless that dot
is the first or the last character. -/
def pathSuffix (name : List Char) : List Char :=
  match splitOn '.' name with
  | [] | [_] => []
  | first :: rest =>
    let last := rest.getLast!
    -- the last dot is the first character iff there are exactly two pieces and the first is empty
    if last = [] then []
    else if first = [] ∧ rest.length = 1 then []
    else '.' :: last

/-- `emsarray.cli.utils.bounds_argument` -/
def boundsArgument (s : List Char) : Except UsageError Geom :=
  match parseBounds s with
  | some b => .ok (.box b)
  | none => .error .notBounds

def geojsonSuffixes : List (List Char) := [".geojson".toList, ".json".toList]

/-- `emsarray.cli.utils.geometry_argument`: bounds, else GeoJSON text, else an existing
`.json` / `.geojson` file, else a usage error. -/
def geometryArgument (s : List Char) (json : JsonOutcome) (file : FileInfo) : Except UsageError Geom :=
  match parseBounds s with
  | some b => .ok (.box b)
  | none =>
    match json with
    | .geometry => .ok .ofJson
    | .notGeometry => .error .invalidGeojson
    | .notJson =>
      if !file.exists then .error .notFound
      else if geojsonSuffixes.contains (pathSuffix file.name) then
        (if file.loads then .ok .ofFile else .error .badFile)
      else .error .unsupportedFile

/-! ## export-geometry: format decision -/

/-- `Command.guess_format` of `commands/export_geometry.py`: extension → format -/
def guessTable : List (String × String) :=
  [(".json", "geojson"), (".geojson", "geojson"), (".wkt", "wkt"), (".wkb", "wkb"), (".shp", "shapefile")]

def guessFormat (name : List Char) : Option String :=
  (guessTable.find? (fun p => p.1.toList = pathSuffix name)).map (·.2)

/-- choices of `--format` (argparse) -/
def formatChoices : List String := ["auto", "geojson", "wkt", "wkb", "shapefile"]

/-- choices of `--missing-points` of `extract-points` (argparse); the default is the first -/
def missingPointPolicies : List String := ["error", "drop", "fill"]

inductive FormatResult
  | writer (fmt : String)       -- the writer registered under this name is called
  | usage                       -- argparse rejects the option value: exit status 2
  | commandError                -- CommandException: exit status 1
  deriving DecidableEq, Repr

/-- The decision `export-geometry` takes from `--format` and the output file name, given the
table of registered writers. -/
def resolveFormat (writers : List String) (fmt : String) (name : List Char) : FormatResult :=
  if !formatChoices.contains fmt then .usage
  else
    let chosen : Option String := if fmt = "auto" then guessFormat name else some fmt
    match chosen with
    | none => .commandError
    | some f => if writers.contains f then .writer f else .commandError

/-! ## Exit status -/

/-- How a command can fail. -/
inductive Failure
  | usage                       -- argparse error (bad option, type function raised ArgumentTypeError)
  | osError                     -- OSError (missing / unreadable / unwritable file)
  | command (code : Nat)        -- CommandException(message, code)
  | uncaught                    -- any other Exception
  | interrupt                   -- KeyboardInterrupt
  deriving DecidableEq, Repr

/-- `CommandException.__init__` default `code` -/
def defaultCommandCode : Nat := 1

/-- `nice_console_errors` + argparse: process exit status of a failure -/
def exitStatus : Failure → Nat
  | .usage => 2
  | .osError => 2
  | .command code => code
  | .uncaught => 3
  | .interrupt => 1

/-- every failure path logs an error (or argparse prints one) before exiting; an interrupt
only logs at INFO level, which the default verbosity does not show -/
def failureMessage : Failure → Bool
  | .interrupt => false
  | _ => true

/-- `BaseCommand.name`: the module name with underscores replaced by hyphens -/
def commandName (module : List Char) : List Char := module.map (fun c => if c = '_' then '-' else c)

/-! ## Handlers as step lists -/

inductive StepKind
  | validate      -- reads / computes / checks; may fail; writes nothing to the output path
  | write         -- creates the output file
  deriving DecidableEq, Repr

structure Step where
  name : String
  kind : StepKind
  deriving DecidableEq, Repr

/-- `commands/clip.py` (the work directory holds temporary files only) -/
def clipSteps : List Step := [
  ⟨"parse-arguments", .validate⟩, ⟨"open-dataset", .validate⟩, ⟨"clip", .validate⟩,
  ⟨"save-output", .write⟩]

/-- `commands/extract_points.py`; the demanded order: everything that can be refused —
including whether the time variable to be fixed exists in the result — precedes the write -/
def extractPointsSteps : List Step := [
  ⟨"parse-arguments", .validate⟩, ⟨"open-dataset", .validate⟩, ⟨"read-csv", .validate⟩,
  ⟨"extract-dataframe", .validate⟩, ⟨"time-coordinate", .validate⟩, ⟨"save-output", .write⟩]

/-- `commands/export_geometry.py` -/
def exportGeometrySteps : List Step := [
  ⟨"parse-arguments", .validate⟩, ⟨"open-dataset", .validate⟩, ⟨"guess-format", .validate⟩,
  ⟨"polygons", .validate⟩, ⟨"lookup-writer", .validate⟩, ⟨"write-geometry", .write⟩]

def handlers : List (String × List Step) :=
  [("clip", clipSteps), ("extract-points", extractPointsSteps), ("export-geometry", exportGeometrySteps)]

structure Outcome where
  status : Nat
  message : Bool
  /-- number of write steps that were started -/
  writes : Nat
  deriving DecidableEq, Repr

/-- Run a step list; `fails i` says whether (and how) step number `i` fails.  The run stops
at the first failing step. -/
def runFrom (fails : Nat → Option Failure) : Nat → List Step → Nat → Outcome
  | _, [], w => ⟨0, false, w⟩
  | i, st :: rest, w =>
    let w' := if st.kind = .write then w + 1 else w
    match fails i with
    | some f => ⟨exitStatus f, failureMessage f, w'⟩
    | none => runFrom fails (i + 1) rest w'

def run (steps : List Step) (fails : Nat → Option Failure) : Outcome := runFrom fails 0 steps 0

/-! ## The handlers as the ordered library calls of `Command.handle`

The step lists above are coarse (one step per thing that can fail on its own).  Below each handler is written out
call by call, in the order and in the spelling in which `harness/tables.py` reads the calls off the AST of
`Command.handle` (local variables replaced by what they hold, `options.<name>` kept, anything else `_`).
`Props/C20.lean` proves that these lists are the generated ones and that the step lists are these lists, grouped. -/

/-- what a library call of a handler does to the outside world -/
inductive CallRole
  | read          -- opens an input file
  | compute       -- library work on what was read; may raise
  | failCheck     -- refuses the request (`raise CommandException`, or a method whose only effect is to do so)
  | write         -- creates the output file
  deriving DecidableEq, Repr

/-- the tag `harness/tables.py` gives the role -/
def CallRole.tag : CallRole → String
  | .read => "read"
  | .compute => "compute"
  | .failCheck => "fail-check"
  | .write => "write"

/-- only a `write` call writes; the other three are validation in the sense of `StepKind` -/
def CallRole.kind : CallRole → StepKind
  | .write => .write
  | _ => .validate

structure HandlerCall where
  /-- the step of the coarse list the call belongs to -/
  step : String
  role : CallRole
  /-- the call as the translator spells it -/
  call : String
  deriving DecidableEq, Repr

/-- the (kind, call) pair of the generated table -/
def HandlerCall.entry (c : HandlerCall) : String × String := (c.role.tag, c.call)

def HandlerCall.toStep (c : HandlerCall) : Step := ⟨c.step, c.role.kind⟩

/-- `Command.handle` of `commands/clip.py` -/
def clipCalls : List HandlerCall := [
  ⟨"open-dataset", .read, "emsarray.open_dataset(options.input_path)"⟩,
  ⟨"clip", .compute, "dataset.ems.clip(options.clip_geometry, work_dir=_)"⟩,
  ⟨"save-output", .write, "clipped.ems.to_netcdf(options.output_path)"⟩]

/-- `Command.handle` of `commands/extract_points.py` -/
def extractPointsCalls : List HandlerCall := [
  ⟨"open-dataset", .read, "emsarray.open_dataset(options.input_path)"⟩,
  ⟨"read-csv", .read, "pandas.read_csv(options.points)"⟩,
  ⟨"extract-dataframe", .compute,
    "point_extraction.extract_dataframe(dataset, dataframe, options.coordinate_columns, point_dimension=options.point_dimension, missing_points=options.missing_points)"⟩,
  ⟨"extract-dataframe", .failCheck, "raise CommandException on point_extraction.NonIntersectingPoints"⟩,
  ⟨"time-coordinate", .compute, "dataset.ems.time_coordinate"⟩,
  ⟨"save-output", .write, "to_netcdf_with_fixes(points, options.output_path, time_variable=time_coordinate)"⟩]

/-- `Command.handle` of `commands/export_geometry.py` -/
def exportGeometryCalls : List HandlerCall := [
  ⟨"open-dataset", .read, "emsarray.open_dataset(options.input_path)"⟩,
  ⟨"guess-format", .failCheck, "self.guess_format(options.output_path)"⟩,
  ⟨"polygons", .compute, "dataset.ems.polygons"⟩,
  ⟨"polygons", .compute, "dataset.ems.mask"⟩,
  ⟨"lookup-writer", .compute, "format_writers[format]"⟩,
  ⟨"lookup-writer", .failCheck, "raise CommandException on KeyError"⟩,
  ⟨"write-geometry", .write, "writer(dataset, options.output_path)"⟩]

/-- drop every element equal to its successor: consecutive calls of one step become that step -/
def dedupAdjacent : List Step → List Step
  | [] => []
  | [a] => [a]
  | a :: b :: rest => if a = b then dedupAdjacent (b :: rest) else a :: dedupAdjacent (b :: rest)

/-- what runs before `handle`: argparse (`emsarray.cli.main` parses the arguments, then calls `options.func = Command.handle`) -/
def argparseStep : Step := ⟨"parse-arguments", .validate⟩

/-- the coarse step list of a handler, from its calls -/
def stepsOfCalls (cs : List HandlerCall) : List Step :=
  argparseStep :: dedupAdjacent (cs.map HandlerCall.toStep)

/-- In a generated `(kind, call)` list: every kind is one of the four known ones, there is exactly one `write`, and
nothing but a `write` comes after a `write`. -/
def WritesLast (l : List (String × String)) : Prop :=
  (∀ c ∈ l, c.1 ∈ ["read", "compute", "fail-check", "write"])
  ∧ (l.filter (fun c => c.1 = "write")).length = 1
  ∧ ∀ i, i < l.length → ∀ j, j < l.length →
      (l[i]?.map (·.1)) = some "write" → (l[j]?.map (·.1)) ≠ some "write" → j < i

instance (l : List (String × String)) : Decidable (WritesLast l) := by
  unfold WritesLast; infer_instance

/-! ## `float(str)`: correctly rounded decimal → binary64 -/

/-- round-half-even of `p / q` (`q > 0`) -/
def roundHalfEven (p q : Nat) : Nat :=
  let n := p / q
  let r := p % q
  if 2 * r < q then n else if 2 * r > q then n + 1 else if n % 2 = 0 then n else n + 1

/-- nearest binary64 to a non-negative rational `p / q`, as an exact rational (ties to even;
subnormals handled; overflow is not modelled — inputs stay far below 2^1024) -/
def toDoubleNat (p q : Nat) : Rat :=
  if p = 0 ∨ q = 0 then 0 else
  -- e with 2^e ≤ p/q < 2^(e+1)
  let e0 : Int := (Nat.log2 p : Int) - (Nat.log2 q : Int)
  let ge (e : Int) : Bool :=   -- 2^e ≤ p/q
    if e ≥ 0 then decide (q * 2 ^ e.toNat ≤ p) else decide (q ≤ p * 2 ^ (-e).toNat)
  let e : Int := if ge e0 then (if ge (e0 + 1) then e0 + 1 else e0) else e0 - 1
  let e := if e < -1022 then -1022 else e
  -- value = m * 2^(e-52), m = round(p/q * 2^(52-e))
  let sh : Int := 52 - e
  let m : Nat := if sh ≥ 0 then roundHalfEven (p * 2 ^ sh.toNat) q else roundHalfEven p (q * 2 ^ (-sh).toNat)
  if sh ≥ 0 then (m : Rat) / ((2 ^ sh.toNat : Nat) : Rat) else (m : Rat) * ((2 ^ (-sh).toNat : Nat) : Rat)

def toDouble (x : Rat) : Rat :=
  if x.num < 0 then - toDoubleNat x.num.natAbs x.den else toDoubleNat x.num.natAbs x.den

end Ems.Cli
