import EmsModel.Core.Polygons
import EmsModel.Core.Index
/-
Core/Lookup.lean — `Convention.get_index_for_point` / `select_point`.

The spatial index (`STRtree.query(point, predicate='intersects')`) is modelled by its
contract: it returns, in unspecified order, the positions of the polygons (non-`None`
entries of the polygon array) that intersect the point.  The code sorts the hits and takes
the first.
-/
namespace Ems

/-- positions whose polygon exists and intersects the point, in increasing order -/
def hitSet (intersects : Poly → Pt → Bool) (polys : List (Option Poly)) (pt : Pt) : List Nat :=
  (List.range polys.length).filter fun i =>
    match polys[i]? with
    | some (some p) => intersects p pt
    | _ => false

/-- `numpy.sort(hits)[0]` if there is any hit -/
def firstHit (hits : List Nat) : Option Nat := (hits.mergeSort (fun a b => decide (a ≤ b))).head?

/-- the `SpatialIndexItem` returned: linear index, native index, polygon -/
structure LookupItem where
  linear : Nat
  native : Option (Kind × List Nat)
  polygon : Option Poly
deriving Repr, DecidableEq

/-- `Convention.get_index_for_point(point)` given what the spatial index returned -/
def getIndexForPoint (c : Conv) (polys : List (Option Poly)) (hits : List Nat) : Option LookupItem :=
  (firstHit hits).map fun n =>
    { linear := n, native := c.windIndex none (n : Int), polygon := (polys[n]?).join }

/-- **Specification of the spatial-index hits on a CF 1-D grid, from the bounds alone**: the row-major
positions `j * nx + i` whose latitude bounds contain the point's y and whose longitude bounds contain its x
(closed intervals, either axis direction).  No polygon and no geometric predicate is involved;
`C04.cf1d_hits_eq` proves it equal to the hit set of the exact point-in-polygon test on the cell polygons. -/
def cf1dHits (lonb latb : List (Rat × Rat)) (pt : Pt) : List Nat :=
  (List.range (latb.length * lonb.length)).filter fun n =>
    match latb[n / lonb.length]?, lonb[n % lonb.length]? with
    | some yb, some xb => between pt.1 xb.1 xb.2 && between pt.2 yb.1 yb.2
    | _, _ => false

end Ems
