import EmsModel.Core.Index
/-
Core/IndexSrc.lean — a small deep-embedded language for the *source text* of the index
conversion functions, and its total evaluator.

`harness/trans_indexsrc.py` reads, on every run, the source of

  DimensionConvention.ravel_index / wind_index / grid_size        (conventions/_base.py)
  CFGrid.pack_index / unpack_index                                (conventions/grid.py)
  ArakawaC.pack_index / unpack_index                              (conventions/arakawa_c.py)
  UGrid.pack_index / unpack_index                                 (conventions/ugrid.py)

from the working tree and writes them as `IdxTerm`s into `Gen/IndexSrc.lean`.
`Props/C01Src.lean` proves that those terms compute `Conv.ravelIndex` / `Conv.windIndex` / `size`.

Python values are `PyV`; a native index is the Python tuple the convention documents:
CF grids `(y, x)`, Arakawa C `(kind, j, i)`, UGRID `(kind, i)`.
Core Lean only.
-/
namespace Ems.IdxSrc

/-- The Python values that occur in the index functions. -/
inductive PyV where
  | int (n : Int)
  | kind (k : String)          -- a member of the convention's grid-kind enumeration
  | none                       -- Python `None`
  | tup (xs : List PyV)
deriving Repr, Inhabited

/-- Terms: what the right-hand sides and `return` expressions of the translated functions are made of. -/
inductive IdxTerm where
  /-- a parameter of the function (`index`, `grid_kind`, `indexes`, `linear_index`, `shape`) -/
  | param (name : String)
  /-- `CFGridKind.face` and the like: a literal member of a grid-kind enumeration -/
  | kindConst (k : String)
  /-- `t[i]` with a literal `i ≥ 0` -/
  | item (t : IdxTerm) (i : Nat)
  /-- `t[i:]` with a literal `i ≥ 0` -/
  | sliceFrom (t : IdxTerm) (i : Nat)
  /-- the empty tuple display -/
  | tnil
  /-- a tuple display `(h, *rest…)`: `star = true` when the element is written `*h` -/
  | tcons (star : Bool) (h : IdxTerm) (rest : IdxTerm)
  /-- `self.unpack_index(t)` -/
  | unpackIndex (t : IdxTerm)
  /-- `self.pack_index(k, idxs)` -/
  | packIndex (k : IdxTerm) (idxs : IdxTerm)
  /-- `self.grid_shape[k]` -/
  | gridShape (k : IdxTerm)
  /-- `numpy.ravel_multi_index(idxs, shape)` with no further arguments (mode `raise`, C order) -/
  | ravelMulti (idxs : IdxTerm) (shape : IdxTerm)
  /-- `numpy.unravel_index(n, shape)` with no further arguments (C order) -/
  | unravelIndex (n : IdxTerm) (shape : IdxTerm)
  /-- the value of `grid_kind` after `if grid_kind is None: grid_kind = self.default_grid_kind` -/
  | orDefaultKind (t : IdxTerm)
  /-- `numpy.prod(t)` -/
  | prod (t : IdxTerm)
  /-- anything the translator could not render; evaluates to nothing, so no theorem accepts it -/
  | unsupported (python : String)
deriving Repr, Inhabited

def PyV.ints? : List PyV → Option (List Int)
  | [] => some []
  | .int n :: xs => (PyV.ints? xs).map (n :: ·)
  | _ :: _ => Option.none

def natsToTup (l : List Nat) : PyV := .tup (l.map (fun n => .int (Int.ofNat n)))

/-- The convention-specific part of an evaluation: the dataset's grids and the convention's own
`pack_index` / `unpack_index` as (generated) terms. -/
structure Env where
  conv : Conv
  pack : IdxTerm
  unpack : IdxTerm

/-- Evaluation of the convention-independent constructs; `self.pack_index` / `self.unpack_index`
are handed in as functions so that the recursion stays structural. `none` = the Python raises
(or the term is `unsupported`). -/
def evalWith (c : Conv) (packF : PyV → PyV → Option PyV) (unpackF : PyV → Option PyV)
    (params : String → Option PyV) : IdxTerm → Option PyV
  | .param n => params n
  | .kindConst k => some (.kind k)
  | .item t i =>
      match evalWith c packF unpackF params t with
      | some (.tup xs) => xs[i]?
      | _ => Option.none
  | .sliceFrom t i =>
      match evalWith c packF unpackF params t with
      | some (.tup xs) => some (.tup (xs.drop i))
      | _ => Option.none
  | .tnil => some (.tup [])
  | .tcons star h rest =>
      match evalWith c packF unpackF params h, evalWith c packF unpackF params rest with
      | some v, some (.tup vs) =>
          if star then
            match v with
            | .tup hs => some (.tup (hs ++ vs))
            | _ => Option.none
          else some (.tup (v :: vs))
      | _, _ => Option.none
  | .unpackIndex t => (evalWith c packF unpackF params t).bind unpackF
  | .packIndex k idxs =>
      match evalWith c packF unpackF params k, evalWith c packF unpackF params idxs with
      | some kv, some iv => packF kv iv
      | _, _ => Option.none
  | .gridShape k =>
      match evalWith c packF unpackF params k with
      | some (.kind kk) => (c.shape? kk).map natsToTup
      | _ => Option.none
  | .ravelMulti idxs shape =>
      match evalWith c packF unpackF params idxs, evalWith c packF unpackF params shape with
      | some (.tup is), some (.tup ss) =>
          match PyV.ints? is, (PyV.ints? ss).bind natList? with
          | some ints, some sh =>
              match natList? ints with
              | some comps => (ravel sh comps).map (fun n => .int (Int.ofNat n))
              | Option.none => Option.none
          | _, _ => Option.none
      | _, _ => Option.none
  | .unravelIndex n shape =>
      match evalWith c packF unpackF params n, evalWith c packF unpackF params shape with
      | some (.int m), some (.tup ss) =>
          match (PyV.ints? ss).bind natList? with
          | some sh => if m < 0 then Option.none else (unravel sh m.toNat).map natsToTup
          | Option.none => Option.none
      | _, _ => Option.none
  | .orDefaultKind t =>
      match evalWith c packF unpackF params t with
      | some .none => some (.kind c.default)
      | some v => some v
      | Option.none => Option.none
  | .prod t =>
      match evalWith c packF unpackF params t with
      | some (.tup ss) =>
          match (PyV.ints? ss).bind natList? with
          | some sh => some (.int (Int.ofNat (size sh)))
          | Option.none => Option.none
      | _ => Option.none
  | .unsupported _ => Option.none

/-- `pack_index` / `unpack_index` themselves call neither each other nor the generic functions:
inside them `self.pack_index` / `self.unpack_index` evaluate to nothing. -/
def evalSimple (c : Conv) (params : String → Option PyV) (t : IdxTerm) : Option PyV :=
  evalWith c (fun _ _ => Option.none) (fun _ => Option.none) params t

def params1 (n : String) (v : PyV) : String → Option PyV := fun s => if s == n then some v else Option.none
def params2 (n1 : String) (v1 : PyV) (n2 : String) (v2 : PyV) : String → Option PyV :=
  fun s => if s == n1 then some v1 else if s == n2 then some v2 else Option.none

/-- Evaluation of a generic function body (`ravel_index`, `wind_index`) of a convention whose
`pack_index` / `unpack_index` are the terms of `e`. -/
def eval (e : Env) (params : String → Option PyV) (t : IdxTerm) : Option PyV :=
  evalWith e.conv
    (fun k idxs => evalSimple e.conv (params2 "grid_kind" k "indexes" idxs) e.pack)
    (fun idx => evalSimple e.conv (params1 "index" idx) e.unpack)
    params t

/-- The three native index spellings. -/
inductive Family where
  | cf | arakawa | ugrid
deriving Repr, DecidableEq

/-- A native index `(kind, components)` of the uniform model as the Python tuple of its convention. -/
def encode : Family → Kind × List Int → PyV
  | .cf, (_, comps) => .tup (comps.map .int)
  | .arakawa, (k, comps) => .tup (.kind k :: comps.map .int)
  | .ugrid, (k, comps) => .tup (.kind k :: (comps.take 1).map .int)

def encodeNat (f : Family) (r : Kind × List Nat) : PyV := encode f (r.1, r.2.map Int.ofNat)

end Ems.IdxSrc
