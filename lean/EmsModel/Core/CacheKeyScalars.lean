import EmsModel.Core.CacheKey
/-
Core/CacheKeyScalars.lean — what `marshal.dumps(v, 4)` (CPython 3.12, Python/marshal.c `w_object`)
writes for a scalar attribute value, the values `hash_attributes` of emsarray.operations.cache
serialises for `valid_min`, `valid_max`, `missing_value`, … of a geometry variable.

  None / True / False      `N` (0x4e) / `T` (0x54) / `F` (0x46): singletons, never FLAG_REF
  exact `int`, int32 range `i` (0x69), 4 bytes little-endian two's complement
  exact `float`            `g` (0x67), the 8 bytes of the IEEE-754 binary64, little-endian
  anything else exporting  `s` (0x73), 4-byte length, the raw bytes: every numpy scalar — also
  a buffer                 `numpy.float64`, a subclass of `float`, because marshal asks for the EXACT type —
                           so the numpy type itself is not written (known finding `cache-key-attr-type-erased`)
  FLAG_REF                 0x80 is or-ed into the type byte when the object has more than one reference

Two values that compare equal in Python (`360 == 360.0`, `1 == True == numpy.int64(1)`, `0.0 == -0.0`) are
different `PyScalar`s; `Props/C16Equiv.lean` proves their bytes differ.
-/
namespace Ems.CacheKey

/-- A scalar attribute value as marshal sees it. -/
inductive PyScalar where
  | none
  | bool (b : Bool)
  /-- an exact `int` -/
  | int (v : Int)
  /-- an exact `float`, given by its 8-byte little-endian IEEE-754 image (`struct.pack('<d', v)`) -/
  | float (image : Bytes)
  /-- an object written through the buffer protocol (`v.tobytes()` of a numpy scalar) -/
  | buffer (raw : Bytes)
deriving DecidableEq, Repr

/-- `marshal.dumps(v, 4)`; `ref` = the object has more than one reference (ignored for the singletons).
`none`: outside the model (an `int` beyond int32 is written as a `long`, a float image is 8 bytes). -/
def wScalar (ref : Bool) : PyScalar → Option Bytes
  | .none => some [0x4e]
  | .bool true => some [0x54]
  | .bool false => some [0x46]
  | .int v => (hashInt v).map fun b => (if ref then 0xe9 else 0x69) :: b
  | .float image => if image.length = 8 then some ((if ref then 0xe7 else 0x67) :: image) else Option.none
  | .buffer raw =>
    if raw.length < 2147483648 then some ((if ref then 0xf3 else 0x73) :: (le32 raw.length ++ raw))
    else Option.none

end Ems.CacheKey
