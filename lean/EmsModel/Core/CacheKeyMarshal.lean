import EmsModel.Core.CacheKey
/-
Core/CacheKeyMarshal.lean — what `marshal.dumps(attrs, 4)` (CPython 3.12, Python/marshal.c)
writes for an attribute dictionary whose keys and values are short ASCII strings
(`len < 256`), the common case of CF attributes.  This is the *quirk* definition belonging to
finding F10: the bytes depend on the interning state and the reference count of every string
object, not only on the text.

  dict     `{` (0x7b), or 0xfb = `{`|FLAG_REF when the dict has more than one reference
           (then the dict itself takes slot 0 of the reference table); items; `0` (0x30)
  string   not interned, one reference:  `z` (0x7a), length byte, bytes
           interned or shared, first time: registered in the table and written with FLAG_REF:
             0xda (`Z`|0x80, interned) / 0xfa (`z`|0x80), length byte, bytes
           interned or shared, seen before: `r` (0x72) and the 4-byte table index
-/
namespace Ems.CacheKey

/-- A Python `str` object as marshal sees it. -/
structure PyStr where
  text : String
  /-- `PyUnicode_CHECK_INTERNED` -/
  interned : Bool
  /-- `Py_REFCNT(v) > 1` -/
  shared : Bool
  /-- object identity -/
  ident : Nat
deriving DecidableEq, Repr

/-- `w_object` on a short ASCII string, with the reference table so far. -/
def wStr (tbl : List Nat) (s : PyStr) : List Nat × Bytes :=
  let body := UInt8.ofNat s.text.length :: utf8 s.text
  if !(s.shared || s.interned) then (tbl, 0x7a :: body)
  else
    match tbl.findIdx? (· == s.ident) with
    | some i => (tbl, 0x72 :: le32 i)
    | none => (tbl ++ [s.ident], (if s.interned then 0xda else 0xfa) :: body)

def wItems : List Nat → List (PyStr × PyStr) → Bytes
  | _, [] => []
  | tbl, (k, v) :: rest =>
    let (t1, b1) := wStr tbl k
    let (t2, b2) := wStr t1 v
    b1 ++ b2 ++ wItems t2 rest

/-- `marshal.dumps(d, 4)` for `d : dict[str, str]` (short ASCII); the dict object has
identity `0`, which no string may share. -/
def marshalStrDict (dictShared : Bool) (items : List (PyStr × PyStr)) : Bytes :=
  (if dictShared then 0xfb else 0x7b) :: (wItems (if dictShared then [0] else []) items ++ [0x30])

/-- What the attributes ARE: the texts, in order. -/
def dictContent (items : List (PyStr × PyStr)) : List (String × String) :=
  items.map fun (k, v) => (k.text, v.text)

end Ems.CacheKey
