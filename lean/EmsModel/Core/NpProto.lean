import EmsModel.Core.GeomProto
import EmsModel.Gen.Pipelines
/-
Core/NpProto.lean — line-protocol operations that run the pipelines GENERATED FROM THE SOURCE
(`Gen/Pipelines.lean`) on the ground truth of a generated dataset.  They tie the translator
(`harness/pipelines.py`) to the running code: the C06 correspondence compares their output with what real
emsarray returns for the same dataset, so a mistake of the translator shows up as a disagreement.

`pipe cf1d|cf2d|ara <the arguments of the `polys` operation>`  →  the same canonical line as `polys`
      (`<rings> M=<mask> B=<bbox> W=<warned>`), the raw polygons coming from the generated term
`pipe mid vals=<numbers>`            →  `a:b,a:b,…` (derived bounds of a 1-D axis) or `ERR`
`pipe centres lon=<numbers> lat=<numbers>`  →  `x,y;x,y;…`
`pipe cf2dderived ny=<n> nx=<n> vals=<ny*nx numbers, - = NaN>`  →  `ny,nx,4:<the values in C order, - = NaN>`
      (derived bounds of one coordinate of a CF 2-D grid) or `ERR`
(`pipe cmask …`, the masks of `c_mask_from_centres`, is an operation of the C07 driver.)
-/
namespace Ems.NpProto
open Ems Ems.Proto Ems.GeomProto

/-- bounds array of a 1-D axis: stored pairs, or the generated derived-bounds pipeline on the values -/
def boundsArr (args : List String) (key valsKey : String) : Option NpArr :=
  match kv args key with
  | none | some "-" => do
      let vals ← parseRats? (← kv args valsKey)
      eval (midEnv (vals.map some)) Gen.cf1dMidBounds
  | some s => (parsePairs? s).map pairsArr

/-- raw polygons (before the validity filter) from the generated pipelines -/
def pipePolys (conv : String) (args : List String) : Option (List (Option Poly)) :=
  match conv with
  | "cf1d" => do
      let lonb ← boundsArr args "lonb" "lon"
      let latb ← boundsArr args "latb" "lat"
      let nx ← lonb.shape.head?
      let ny ← latb.shape.head?
      evalPolys { arrs := [("lon_bounds", lonb), ("lat_bounds", latb)], sizes := [("y_size", ny), ("x_size", nx)] }
        Gen.cf1dPolygonPoints
  | "cf2d" => do
      let nx ← parseNat? (← kv args "nx")
      let lonb ← parseOptRats? (← kv args "lonb")
      let latb ← parseOptRats? (← kv args "latb")
      evalPolys (cf2dEnv (chunk nx (chunk 4 lonb)) (chunk nx (chunk 4 latb)) nx) Gen.cf2dPolygonPoints
  | "ara" => do
      let nx ← parseNat? (← kv args "nx")
      let xg ← parseOptRats? (← kv args "xg")
      let yg ← parseOptRats? (← kv args "yg")
      evalPolys (arakawaEnv (chunk (nx + 1) xg) (chunk (nx + 1) yg) nx) Gen.arakawaPolygonPoints
  | _ => none

/-- `pipe <conv> key=value…` → `<rings> M=<mask> B=<bbox> W=<warned>`, exactly as `polys` prints it -/
def stepPipePolys (conv : String) (args : List String) : String :=
  match pipePolys conv args, validityOf (kv args "valid") with
  | some raw, some f =>
    let (kept, warned) := f raw
    let b := if kv args "nob" == some "1" then "skip" else showBBox (polysBounds kept)
    s!"{showRings kept} M={showBits (polyMask kept)} B={b} W={if warned then 1 else 0}"
  | none, _ => "ERR"
  | _, none => "BAD"

def showOptPair (p : Option Rat × Option Rat) : String := s!"{showOptRat p.1},{showOptRat p.2}"

/-- an `(n, 2)` array as `a:b,a:b,…` -/
def showPairsArr (a : NpArr) : String :=
  match pointsToPairs a with
  | some ps => joinWith "," (ps.map fun p => s!"{showOptRat p.1}:{showOptRat p.2}")
  | none => "ERR"

/-- an array as `d0,d1,…:v,v,…` (C order, `-` = NaN) -/
def showArr (a : NpArr) : String :=
  s!"{joinWith "," (a.shape.map toString)}:{joinWith "," (a.data.map showOptRat)}"

def stepPipe (ws : List String) : String :=
  match ws with
  | "cf2dderived" :: args =>
    match (kv args "ny").bind parseNat?, (kv args "nx").bind parseNat?, (kv args "vals").bind parseOptRats? with
    | some ny, some nx, some vals =>
      if vals.length ≠ ny * nx ∨ ny = 0 ∨ nx = 0 then "BAD" else
      match eval (derived2dEnv (chunk nx vals) nx) Gen.cf2dDerivedBounds with
      | some a => showArr a
      | none => "ERR"
    | _, _, _ => "BAD"
  | "mid" :: args =>
    match (kv args "vals").bind parseRats? with
    | none => "BAD"
    | some vals =>
      match eval (midEnv (vals.map some)) Gen.cf1dMidBounds with
      | some a => showPairsArr a
      | none => "ERR"
  | "centres" :: args =>
    match (kv args "lon").bind parseRats?, (kv args "lat").bind parseRats? with
    | some lon, some lat =>
      match (eval (centresEnv (lon.map some) (lat.map some)) Gen.cf1dFaceCentres).bind pointsToPairs with
      | some ps => joinWith ";" (ps.map showOptPair)
      | none => "ERR"
    | _, _ => "BAD"
  | conv :: args => stepPipePolys conv args
  | [] => "BAD"

/-- `pipe …` operations; `none` = not one of them -/
def step? (ws : List String) : Option String :=
  match ws with
  | "pipe" :: rest => some (stepPipe rest)
  | _ => none

end Ems.NpProto
