import EmsModel.Core.Shape
/-
Core/Index.lean — native ↔ linear index conversion of a convention.

Models `DimensionConvention.grid_shape / grid_size / ravel_index / wind_index`
together with the per-convention `pack_index` / `unpack_index`
(`CFGrid`: `(y, x)`; `ArakawaC`: `(kind, j, i)`; `UGrid`: `(kind, i)`).
A native index is represented uniformly as `(kind, components)`;
the three concrete spellings are handled by the driver's parser / printer.
-/
namespace Ems

abbrev Kind := String

/-- The grids of one dataset: `grid_shape` in declaration order, and the default kind. -/
structure Conv where
  grids : List (Kind × List Nat)
  default : Kind
deriving Repr

def Conv.shape? (c : Conv) (k : Kind) : Option (List Nat) :=
  (c.grids.find? (fun g => g.1 == k)).map (·.2)

/-- `grid_size[kind]` -/
def Conv.gridSize? (c : Conv) (k : Kind) : Option Nat := (c.shape? k).map size

/-- natural-number view of an integer list; `none` if any is negative -/
def natList? : List Int → Option (List Nat)
  | [] => some []
  | x :: xs => if x < 0 then none else (natList? xs).map (fun r => x.toNat :: r)

/-- `wind_index(n, grid_kind=kind)`; `none` = the call raises. -/
def Conv.windIndex (c : Conv) (kind : Option Kind) (n : Int) : Option (Kind × List Nat) :=
  let k := kind.getD c.default
  match c.shape? k with
  | none => none
  | some shape =>
    if n < 0 then none else (unravel shape n.toNat).map (fun idx => (k, idx))

/-- `ravel_index((kind, comps))`; `none` = the call raises. -/
def Conv.ravelIndex (c : Conv) (idx : Kind × List Int) : Option Nat :=
  match c.shape? idx.1 with
  | none => none
  | some shape =>
    match natList? idx.2 with
    | none => none
    | some comps => ravel shape comps

end Ems
