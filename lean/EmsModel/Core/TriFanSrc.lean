import EmsModel.Core.NpExpr
import EmsModel.Core.Triangulate
/-
Core/TriFanSrc.lean — the environment in which the term GENERATED FROM THE SOURCE of
`emsarray.operations.triangulate._triangulate_polygons_by_length` (`Gen/TriFanSrc.lean`, written by
`harness/trans_trifan.py` on every run) is evaluated, and the reading of its result as triangles.

Input of the function: an array of `n` shapely polygons that all have `vc` vertices.  What the numpy pipeline sees of
them is `shapely.get_coordinates(shapely.get_exterior_ring(polygons))`: the CLOSED exterior rings (`vc + 1`
coordinates each, the first one repeated at the end) one after the other, an `(n * (vc + 1), 2)` array — the input
variable `ring_coords` — and the two integers `len(polygons)` (`n_polygons`) and `len(polygons[0].exterior.coords)`
(`ring_len` = `vc + 1`).  Integer expressions `ring_len ± k` of the source (`vertex_count - 2` is `ring_len - 3`)
appear in the generated term as symbolic sizes named by their canonical form; `triFanEnv` gives them their value.
Core Lean only.
-/
namespace Ems

/-- the closed exterior ring of a polygon given by its vertex list: shapely repeats the first vertex at the end -/
def triFanCloseRing (p : List Tri.Pt) : List Tri.Pt := p ++ p.take 1

/-- `shapely.get_coordinates(shapely.get_exterior_ring(polygons))` as a list of `(x, y)` rows: the closed rings of the
polygons one after the other -/
def triFanCoords (polys : List (List Tri.Pt)) : List (Rat × Rat) :=
  (polys.flatMap triFanCloseRing).map fun q => (q.x, q.y)

/-- environment of `_triangulate_polygons_by_length`: `coords` are the rows of the `(n * L, 2)` coordinate array, `n` is
`len(polygons)`, `L` is `len(polygons[0].exterior.coords)`.  The sizes `ring_len-k` are the integer expressions
`ring_len - k` of the source (they are meaningful where `k ≤ L`; Python would have a negative number otherwise and numpy
raises on it) -/
def triFanEnv (coords : List (Rat × Rat)) (n L : Nat) : NpEnv :=
  { arrs := [("ring_coords", pairsArr coords)]
    sizes := [("n_polygons", n), ("ring_len", L), ("ring_len-1", L - 1), ("ring_len-2", L - 2), ("ring_len-3", L - 3)] }

/-- the point `a[p, t, c, :]` of a `(n, m, 3, 2)` array, if both coordinates are present -/
def triFanPt (a : NpArr) (p t c : Nat) : Option Tri.Pt :=
  match a.get [p, t, c, 0], a.get [p, t, c, 1] with
  | some x, some y => some ⟨x, y⟩
  | _, _ => none

/-- the triangle `a[p, t, :, :]` -/
def triFanTri (a : NpArr) (p t : Nat) : Option Tri.Tri :=
  match triFanPt a p t 0, triFanPt a p t 1, triFanPt a p t 2 with
  | some u, some v, some w => some ⟨u, v, w⟩
  | _, _, _ => none

/-- the result of `_triangulate_polygons_by_length`, an `(n, m, 3, 2)` array, as the list (per polygon) of the list of its
triangles; `none` for any other shape or a missing value -/
def triFanRead (a : NpArr) : Option (List (List Tri.Tri)) :=
  match a.shape with
  | [n, m, 3, 2] => allSomeL ((List.range n).map fun p => allSomeL ((List.range m).map fun t => triFanTri a p t))
  | _ => none

/-- which vertex of the polygon is corner `c` of fan triangle `t`: `0`, `t + 1`, `t + 2` -/
def triFanVertex (c t : Nat) : Nat :=
  match c with
  | 0 => 0
  | 1 => t + 1
  | _ => t + 2

end Ems
