import EmsModel.Core.Index
/-
Core/IndexSpelling.lean — two things a native index / a convention object may be *given as* without
that changing which cell is meant (C01):

* **the integer type of the components.**  A native index handed to `ravel_index` (a linear index handed to
  `wind_index`) may be spelt with Python ints or with numpy integers of any width (`int8` … `uint64`; what a row of
  a compact index array, or a netCDF `short` variable, gives).  The type is a representation: the index denotes the
  *values*.  `IntType` / `Conv.ravelIndexTyped` / `Conv.windIndexTyped` say so; `hornerFrom` is the row-major offset
  accumulated left to right (`acc ← acc * d + i`, the loop a hand-written `ravel_index` runs and the one the
  harness's oracle runs), `hornerModFrom` the same in an arithmetic with only `m` values.
* **the names of the coordinate variables.**  `ArakawaC(dataset, coordinate_names=…)` / `ShocStandard.coordinate_names`:
  the grid of a kind has the dimensions of the dataset variable the table names as that kind's latitude
  (`ArakawaC.grid_dimensions`: `self.dataset[coordinates[0]].dims`).  `arakawaConv` is the convention of a dataset
  under a names table; it is a function of these two and of nothing else (no other dataset, no other table).
Core Lean only.
-/
namespace Ems

/-- a fixed-width numpy integer type -/
structure IntType where
  bits : Nat
  signed : Bool
deriving Repr, DecidableEq

/-- the values a type can hold; `none` = Python `int` (unbounded) -/
def IntType.holds : Option IntType → Int → Bool
  | none, _ => true
  | some t, v =>
    if t.signed then decide (-((2 : Int) ^ (t.bits - 1)) ≤ v) && decide (v < (2 : Int) ^ (t.bits - 1))
    else decide (0 ≤ v) && decide (v < (2 : Int) ^ t.bits)

/-- `int`, `int8` … `uint64` -/
def IntType.parse? : String → Option (Option IntType)
  | "int" => some none
  | "int8" => some (some ⟨8, true⟩)
  | "int16" => some (some ⟨16, true⟩)
  | "int32" => some (some ⟨32, true⟩)
  | "int64" => some (some ⟨64, true⟩)
  | "uint8" => some (some ⟨8, false⟩)
  | "uint16" => some (some ⟨16, false⟩)
  | "uint32" => some (some ⟨32, false⟩)
  | "uint64" => some (some ⟨64, false⟩)
  | _ => none

/-- `ravel_index` of a native index whose components are spelt in the integer type `t`.
Outer `none`: a component is not a value of the type (there is no such input).  Otherwise the answer is the
one for the values: the type plays no part. -/
def Conv.ravelIndexTyped (c : Conv) (t : Option IntType) (idx : Kind × List Int) : Option (Option Nat) :=
  if idx.2.all (IntType.holds t) then some (c.ravelIndex idx) else none

/-- `wind_index` of a linear index spelt in the integer type `t` -/
def Conv.windIndexTyped (c : Conv) (t : Option IntType) (kind : Option Kind) (n : Int) :
    Option (Option (Kind × List Nat)) :=
  if IntType.holds t n then some (c.windIndex kind n) else none

/-- the row-major offset accumulated left to right: `acc ← acc * d + i` over `zip shape index` -/
def hornerFrom (acc : Nat) : List Nat → List Nat → Nat
  | d :: ds, i :: is => hornerFrom (acc * d + i) ds is
  | _, _ => acc

/-- the same accumulation in an arithmetic with `m` values (every step reduced modulo `m`) -/
def hornerModFrom (m acc : Nat) : List Nat → List Nat → Nat
  | d :: ds, i :: is => hornerModFrom m ((acc * d + i) % m) ds is
  | _, _ => acc

/-- the last cell of a grid: every component one below its dimension -/
def lastCell (shape : List Nat) : List Nat := shape.map (· - 1)

/-- the variables of a dataset that matter here: name ↦ its dimensions (name, size) in stored order -/
abbrev DsVars := List (String × List (String × Nat))

def DsVars.dims? (ds : DsVars) (v : String) : Option (List (String × Nat)) :=
  (ds.find? (fun e => e.1 == v)).map (·.2)

/-- a `coordinate_names` table: kind ↦ (latitude variable, longitude variable), in declaration order -/
abbrev NameTable := List (Kind × String × String)

/-- `grid_shape` of every kind under a names table; `none` where a named latitude variable is missing (`KeyError`) -/
def arakawaGrids (ds : DsVars) : NameTable → Option (List (Kind × List Nat))
  | [] => some []
  | (k, lat, _) :: rest =>
    match ds.dims? lat, arakawaGrids ds rest with
    | some d, some gs => some ((k, d.map (·.2)) :: gs)
    | _, _ => none

/-- the convention object `ArakawaC(dataset, coordinate_names=names)` (default grid kind `face`) -/
def arakawaConv (ds : DsVars) (names : NameTable) : Option Conv :=
  (arakawaGrids ds names).map fun gs => { grids := gs, default := "face" }

end Ems
