import EmsModel.Core.Clip
/-
Core/MaskingSrc.lean — the small languages into which `harness/trans_masking.py` translates the decision code of
`emsarray.masking` from its source text (`Gen/MaskingSrc.lean`), with total evaluators.

* `find_fill_value`           → a decision list `List (MsCond × MsOutcome)` over the features of a variable (`msDecide`);
* `calculate_grid_mask_bounds`→ `MsBoundsProg`: which masks are walked, the emptiness guard, which dimensions are walked,
                                what is reduced, and the `slice(start, stop)` as two integer expressions `MsInt` over a
                                Boolean vector (`MsSlice.eval`, `MsBoundsProg.run`);
* `mask_grid_data_array`      → `MsApplyProg`: what is returned when there is no fill value, the dimension test that selects a
                                mask, what is returned for the first mask that passes, what is returned when none does
                                (`MsApplyProg.run`).

Whatever the translator does not understand is an `unsupported "<python text>"` constructor, on which every evaluator
returns `none` — so no theorem of `Props/C08Src.lean` accepts it.  Core Lean only.
-/
namespace Ems

/-! ### 1. `find_fill_value`: a decision list -/

/-- what `find_fill_value` inspects of a variable -/
structure MsFeatures where
  /-- `numpy.ma.is_masked(data_array.values)` -/
  isMasked : Bool
  /-- the keys of `data_array.attrs` -/
  attrs : List String
  /-- the keys of `data_array.encoding` -/
  encoding : List String
  /-- `maybe_promote(data_array.dtype)[0] == data_array.dtype`: the dtype can hold its own missing value
  (floats, complex, datetime64 / timedelta64, object) -/
  selfPromotes : Bool
  /-- `issubclass(data_array.dtype.type, numpy.floating)` -/
  floating : Bool
deriving Repr, DecidableEq

/-- a test of `find_fill_value` -/
inductive MsCond
  /-- `numpy.ma.is_masked(data_array.values)` -/
  | isMaskedArray
  /-- `'<name>' in data_array.attrs` -/
  | hasAttr (name : String)
  /-- `'<name>' in data_array.encoding` -/
  | inEncoding (name : String)
  /-- `maybe_promote(data_array.dtype)[0] == data_array.dtype` -/
  | dtypeSelfPromotes
  /-- `issubclass(data_array.dtype.type, numpy.floating)` -/
  | dtypeFloating
  /-- no test: an unconditional `return` / `raise` -/
  | tt
  | not (c : MsCond)
  /-- `a and b` (short circuit) -/
  | and (a b : MsCond)
  /-- `a or b` (short circuit) -/
  | or (a b : MsCond)
  | unsupported (py : String)
deriving Repr, DecidableEq

/-- `none` = the test is not understood -/
def MsCond.eval (f : MsFeatures) : MsCond → Option Bool
  | .isMaskedArray => some f.isMasked
  | .hasAttr n => some (f.attrs.contains n)
  | .inEncoding n => some (f.encoding.contains n)
  | .dtypeSelfPromotes => some f.selfPromotes
  | .dtypeFloating => some f.floating
  | .tt => some true
  | .not c => (c.eval f).map (!·)
  | .and a b =>
    match a.eval f with
    | none => none
    | some false => some false
    | some true => b.eval f
  | .or a b =>
    match a.eval f with
    | none => none
    | some true => some true
    | some false => b.eval f
  | .unsupported _ => none

/-- how `find_fill_value` ends -/
inductive MsOutcome
  /-- `return numpy.ma.masked` -/
  | maskedConstant
  /-- `return data_array.attrs['<name>']` -/
  | attrValue (name : String)
  /-- `return maybe_promote(data_array.dtype)[1]` (NaN, NaT) -/
  | promotedFill
  /-- `return numpy.nan` -/
  | nan
  /-- `raise ValueError(…)` -/
  | raiseValueError
  /-- the function falls off its end / `return None` -/
  | returnNone
  | unsupported (py : String)
deriving Repr, DecidableEq

/-- the first clause whose test holds decides; `none` = a test that is not understood was reached, or no clause applies -/
def msDecide (f : MsFeatures) : List (MsCond × MsOutcome) → Option MsOutcome
  | [] => none
  | (c, o) :: rest =>
    match c.eval f with
    | none => none
    | some true => some o
    | some false => msDecide f rest

/-- what an outcome means for `mask_grid_data_array`: a fill value was found (the variable can be masked), or the
`ValueError` that makes it return the variable unchanged; anything else is not a fill decision -/
def MsOutcome.kind : MsOutcome → Option FillKind
  | .maskedConstant => some .maskable
  | .attrValue _ => some .maskable
  | .promotedFill => some .maskable
  | .nan => some .maskable
  | .raiseValueError => some .unmaskable
  | .returnNone => none
  | .unsupported _ => none

/-- the decision `find_fill_value` is required to take, written by hand: a masked array → the masked constant; else the
`_FillValue` attribute, else the `missing_value` attribute (in this order); else the missing value of a dtype that can hold one;
else `ValueError` -/
def msFillOutcome (f : MsFeatures) : MsOutcome :=
  if f.isMasked then .maskedConstant
  else if f.attrs.contains "_FillValue" then .attrValue "_FillValue"
  else if f.attrs.contains "missing_value" then .attrValue "missing_value"
  else if f.selfPromotes then .promotedFill
  else .raiseValueError

/-! ### 2. `calculate_grid_mask_bounds` -/

/-- a Boolean vector expression -/
inductive MsVec
  /-- the vector under consideration: for one dimension of one mask, "is any cell true along all the other dimensions" -/
  | values
  /-- `reversed(v)`, `v[::-1]`, `numpy.flip(v)` -/
  | reversed (v : MsVec)
  | unsupported (py : String)
deriving Repr, DecidableEq

def MsVec.eval (vals : List Bool) : MsVec → Option (List Bool)
  | .values => some vals
  | .reversed v => (v.eval vals).map List.reverse
  | .unsupported _ => none

/-- an integer expression over a Boolean vector -/
inductive MsInt
  | lit (n : Int)
  /-- the index variable of the enclosing `nextEnum` -/
  | idx
  /-- `len(v)`, `v.size` -/
  | len (v : MsVec)
  | add (a b : MsInt)
  | sub (a b : MsInt)
  /-- `next(body for i, value in enumerate(v) if value)` (`want = true`) or `… if not value` (`want = false`):
  `body` at the first position holding `want`; `StopIteration` if there is none -/
  | nextEnum (v : MsVec) (want : Bool) (body : MsInt)
  /-- `numpy.argmax(v)` of a Boolean vector: the first `true`, 0 when there is none; raises on an empty vector -/
  | argmax (v : MsVec)
  | unsupported (py : String)
deriving Repr, DecidableEq

/-- `none` = Python raises (`StopIteration`, empty `argmax`), an index variable out of scope, or not understood -/
def MsInt.eval (vals : List Bool) : MsInt → Option Int → Option Int
  | .lit n, _ => some n
  | .idx, i => i
  | .len v, _ => (v.eval vals).map fun l => (l.length : Int)
  | .add a b, i =>
    match a.eval vals i, b.eval vals i with
    | some x, some y => some (x + y)
    | _, _ => none
  | .sub a b, i =>
    match a.eval vals i, b.eval vals i with
    | some x, some y => some (x - y)
    | _, _ => none
  | .nextEnum v want body, _ =>
    match v.eval vals with
    | none => none
    | some l =>
      match l.idxOf? want with
      | none => none
      | some k => body.eval vals (some (k : Int))
  | .argmax v, _ =>
    match v.eval vals with
    | none => none
    | some l => if l.isEmpty then none else some (((l.idxOf? true).getD 0 : Nat) : Int)
  | .unsupported _, _ => none

/-- `slice(start, stop)` -/
structure MsSlice where
  start : MsInt
  stop : MsInt
deriving Repr, DecidableEq

def MsSlice.eval (s : MsSlice) (vals : List Bool) : Option (Int × Int) :=
  match s.start.eval vals none, s.stop.eval vals none with
  | some a, some b => some (a, b)
  | _, _ => none

/-- the slice as the pair of naturals `isel` uses; a negative end would count from the far end in Python and is refused -/
def MsSlice.evalNat (s : MsSlice) (vals : List Bool) : Option (Nat × Nat) :=
  match s.eval vals with
  | some (a, b) => if 0 ≤ a ∧ 0 ≤ b then some (a.toNat, b.toNat) else none
  | none => none

/-- which masks are walked, in which order -/
inductive MsMaskIter
  /-- `for … in mask.data_vars.items()` / `.values()`: every mask variable, in the dataset's order -/
  | dataVarsInOrder
  | unsupported (py : String)
deriving Repr, DecidableEq

/-- the emptiness test at the head of the loop body -/
inductive MsEmptyGuard
  /-- `if not mask_data_array.any().item(): raise ValueError(…)`, before anything is computed from the mask -/
  | raiseIfNoTrue
  /-- there is no such test -/
  | absent
  | unsupported (py : String)
deriving Repr, DecidableEq

/-- which dimensions get a slice -/
inductive MsDimIter
  /-- `for dimension in mask_data_array.dims` -/
  | maskDimsInOrder
  | unsupported (py : String)
deriving Repr, DecidableEq

/-- what the vector `values` is -/
inductive MsReduce
  /-- `mask_data_array.any(dim=<every dimension of the mask but this one>)` -/
  | anyOverOtherDims
  | unsupported (py : String)
deriving Repr, DecidableEq

/-- where the slice goes -/
inductive MsStore
  /-- `bounds[dimension] = slice(…)` into one dict shared by all masks (a later mask overrides an earlier one), returned at the end -/
  | byDimension
  | unsupported (py : String)
deriving Repr, DecidableEq

/-- `calculate_grid_mask_bounds` -/
structure MsBoundsProg where
  maskIter : MsMaskIter
  guard : MsEmptyGuard
  dimIter : MsDimIter
  reduce : MsReduce
  slice : MsSlice
  store : MsStore
deriving Repr, DecidableEq

/-- one pass of the outer loop body: the slices of one mask; `none` = Python raises, or not understood -/
def MsBoundsProg.runMask (p : MsBoundsProg) (m : NArr Bool) : Option (List (String × Nat × Nat)) :=
  match p.dimIter, p.reduce with
  | .maskDimsInOrder, .anyOverOtherDims =>
    let body := allSome (m.names.map fun d => (p.slice.evalNat (m.anyAlong d)).map fun b => (d, b))
    match p.guard with
    | .raiseIfNoTrue => if !m.data.any id then none else body
    | .absent => body
    | .unsupported _ => none
  | _, _ => none

/-- the whole function: `none` = Python raises, or not understood -/
def MsBoundsProg.run (p : MsBoundsProg) (masks : List (String × NArr Bool)) : Option (List (String × Nat × Nat)) :=
  match p.maskIter, p.store with
  | .dataVarsInOrder, .byDimension =>
    masks.foldl (fun acc m =>
      match acc, p.runMask m.2 with
      | some bs, some nb => some (nb ++ bs.filter fun b => !(nb.map (·.1)).contains b.1)
      | _, _ => none) (some [])
  | _, _ => none

/-! ### 3. `mask_grid_data_array` -/

/-- a set of dimension names in the test that selects a mask -/
inductive MsDims
  /-- `set(mask_data_array.dims)`: the dimensions of the mask the loop is at -/
  | maskDims
  /-- `set(data_array.dims)`: the dimensions of the variable -/
  | varDims
deriving Repr, DecidableEq

def MsDims.eval (maskNames varNames : List String) : MsDims → List String
  | .maskDims => maskNames
  | .varDims => varNames

/-- the test that selects a mask -/
inductive MsDimTest
  /-- `a <= b`, `a.issubset(b)`, `b >= a`, `b.issuperset(a)`, `all(d in b for d in a)` -/
  | subset (a b : MsDims)
  /-- `a < b`, `b > a` -/
  | properSubset (a b : MsDims)
  /-- `a == b` -/
  | sameSet (a b : MsDims)
  | unsupported (py : String)
deriving Repr, DecidableEq

def msSubset (a b : List String) : Bool := a.all (b.contains ·)

/-- `none` = not understood -/
def MsDimTest.compile : MsDimTest → Option (List String → List String → Bool)
  | .subset a b => some fun mn vn => msSubset (a.eval mn vn) (b.eval mn vn)
  | .properSubset a b => some fun mn vn => msSubset (a.eval mn vn) (b.eval mn vn) && !msSubset (b.eval mn vn) (a.eval mn vn)
  | .sameSet a b => some fun mn vn => msSubset (a.eval mn vn) (b.eval mn vn) && msSubset (b.eval mn vn) (a.eval mn vn)
  | .unsupported _ => none

/-- the condition argument of `where` -/
inductive MsMaskRef
  /-- the mask the loop is at (`reset_coords(drop=True)` / `copy()` of it count as the mask itself) -/
  | loopMask
  | unsupported (py : String)
deriving Repr, DecidableEq

/-- the `other=` argument of `where` -/
inductive MsOther
  /-- what `find_fill_value(data_array)` returned -/
  | fillValue
  /-- the argument is left out (xarray then uses NaN and promotes the dtype) -/
  | dflt
  | unsupported (py : String)
deriving Repr, DecidableEq

/-- what a `return` of `mask_grid_data_array` hands back -/
inductive MsApplyRet
  /-- `return data_array`: the variable itself, unchanged -/
  | dataArray
  /-- `return data_array.where(cond, other=other)` after assigning `result.<field> = data_array.<field>` for every `field`
  of `restores` -/
  | whereMask (cond : MsMaskRef) (other : MsOther) (restores : List String)
  | unsupported (py : String)
deriving Repr, DecidableEq

/-- what was done to the variable -/
inductive MsApplied
  | unchanged
  /-- kept where `m` is true, the fill value elsewhere -/
  | masked (m : NArr Bool)
deriving Repr, DecidableEq

/-- `cur` = the mask the loop is at (none outside the loop); `none` = not understood / not in scope -/
def MsApplyRet.eval (cur : Option (NArr Bool)) : MsApplyRet → Option MsApplied
  | .dataArray => some .unchanged
  | .whereMask .loopMask .fillValue _ => cur.map .masked
  | .whereMask _ _ _ => none
  | .unsupported _ => none

/-- the fields copied back onto the result of `where` -/
def MsApplyRet.restored : MsApplyRet → List String
  | .whereMask _ _ r => r
  | _ => []

/-- does the first mask that passes the test decide (the `return` sits inside the loop)? -/
inductive MsPick
  | firstMatch
  | unsupported (py : String)
deriving Repr, DecidableEq

/-- `mask_grid_data_array` -/
structure MsApplyProg where
  /-- what the handler of `try: fill_value = find_fill_value(data_array) except ValueError:` returns -/
  noFill : MsApplyRet
  maskIter : MsMaskIter
  test : MsDimTest
  pick : MsPick
  /-- what is returned, inside the loop, for a mask that passes the test -/
  onMatch : MsApplyRet
  /-- what is returned after the loop -/
  fallback : MsApplyRet
deriving Repr, DecidableEq

/-- `fill` = how `find_fill_value` ended for this variable (`.unmaskable` = it raised `ValueError`) -/
def MsApplyProg.run (p : MsApplyProg) (masks : List (String × NArr Bool)) (fill : FillKind)
    (varNames : List String) : Option MsApplied :=
  match p.maskIter, p.pick, p.test.compile with
  | .dataVarsInOrder, .firstMatch, some t =>
    match fill with
    | .unmaskable => p.noFill.eval none
    | .maskable =>
      match masks.find? fun m => t m.2.names varNames with
      | some m => p.onMatch.eval (some m.2)
      | none => p.fallback.eval none
  | _, _, _ => none

/-! ### 4. `mask_grid_dataset`: the order of the steps -/

/-- a step of `mask_grid_dataset`, in terms of what it consumes and produces -/
inductive MsDatasetStep
  /-- `bounds = calculate_grid_mask_bounds(mask)` -/
  | computeBounds
  /-- `mask = mask.isel(bounds)` -/
  | cropMask
  /-- `dataset = dataset.isel(bounds)` -/
  | cropDataset
  /-- `for key, data_array in dataset.data_vars.items(): … mask_grid_data_array(mask, data_array) …` written to its own file;
  the flags say whether the mask / the dataset had been cropped when the loop starts -/
  | maskEachDataVar (maskCropped datasetCropped : Bool)
  /-- `xarray.Dataset(coords=dataset.coords)` written as it is (coordinates are cropped, never masked) -/
  | saveCoords (datasetCropped : Bool)
  /-- `xarray.open_mfdataset(<the files>)` -/
  | mergeFiles
  /-- `return utils.dataset_like(dataset, merged)` -/
  | returnLike (datasetCropped : Bool)
  | unsupported (py : String)
deriving Repr, DecidableEq

/-- the order the model `clipVar` assumes: bounds of the masks, crop both, mask every data variable with the cropped mask,
coordinates saved unmasked, merge, return in the layout of the cropped dataset -/
def msDatasetSteps : List MsDatasetStep :=
  [.computeBounds, .cropMask, .cropDataset, .maskEachDataVar true true, .saveCoords true, .mergeFiles, .returnLike true]

end Ems
