import EmsModel.Core.CacheKey
import EmsModel.Gen.Tables
/-
Core/CacheKeyDataset.lean — which variables of a dataset reach the cache key.

Models the geometry inventories
  `CFGrid.get_all_geometry_names`     (src/emsarray/conventions/grid.py; CFGrid1D, CFGrid2D,
                                       ShocSimple with its own coordinate discovery in shoc.py)
  `ArakawaC.get_all_geometry_names`   (src/emsarray/conventions/arakawa_c.py; ShocStandard)
  `UGrid.get_all_geometry_names`      (src/emsarray/conventions/ugrid.py)
and the loop of `Convention.hash_geometry` that looks every inventory name up in the
dataset (`dataset[name]`).

A dataset is the ordered list of its variables (`dataset.variables`), its global
attributes and its dimension sizes.  A variable carries, besides what is hashed, a `VarView`: the
things the inventories look at (name, dimensions, coordinate or data variable, and the
string-valued attributes — `attrs.get(key)`; attributes that are not strings are invisible
to the inventories).
`none` = the Python call raises (KeyError / ValueError / StopIteration).
-/
namespace Ems.CacheKey

/-- What the geometry inventories can see of a variable. -/
structure VarView where
  name : String
  dims : List String
  /-- held in `dataset.coords` (true) or `dataset.data_vars` (false) -/
  isCoord : Bool
  /-- the string-valued attributes, in order -/
  strAttrs : List (String × String)
deriving DecidableEq, Repr

/-- `variable.attrs.get(key)` for string values -/
def VarView.attr (v : VarView) (k : String) : Option String :=
  (v.strAttrs.find? (fun p => p.1 == k)).map (·.2)

structure DVar where
  view : VarView
  /-- `values.dtype.name` -/
  valueDtype : String
  /-- `encoding.get('dtype')`, by name -/
  encDtype : Option String
  shape : List Nat
  data : Bytes
  attrCount : Nat
  attrBlob : Bytes
deriving Repr

def DVar.name (v : DVar) : String := v.view.name

/-- What `hash_geometry` reads of a variable.  The dtype NAME is the encoding's when the
encoding has one, the values' otherwise. -/
def DVar.record (v : DVar) : GeomRec :=
  { name := v.view.name, dtype := v.encDtype.getD v.valueDtype, shape := v.shape, data := v.data,
    attrCount := v.attrCount, attrBlob := v.attrBlob }

structure Dataset where
  /-- `dataset.variables`, in order -/
  vars : List DVar
  /-- `dataset.attrs` (global attributes) -/
  attrs : List (String × String)
  /-- `dataset.sizes` -/
  dims : List (String × Nat)
deriving Repr

/-- `dataset[name]` -/
def Dataset.var? (ds : Dataset) (n : String) : Option DVar := ds.vars.find? (fun v => v.view.name == n)

/-- The inventories work on the views of the variables, in `dataset.variables` order. -/
abbrev Views := List VarView

def Dataset.views (ds : Dataset) : Views := ds.vars.map (·.view)

/-- `name in dataset.variables` / `dataset[name]` as far as the inventories are concerned -/
def Views.var? (vs : Views) (n : String) : Option VarView := vs.find? (fun v => v.name == n)

/-- `dataset.data_vars[name]` -/
def Views.dataVar? (vs : Views) (n : String) : Option VarView :=
  vs.find? (fun v => v.name == n && !v.isCoord)

/-- How the convention instance was made. -/
inductive ConvSpec
  /-- `CFGrid1D(ds, latitude=…, longitude=…)` / `CFGrid2D(…)`: names given or discovered -/
  | cfGrid (latitude longitude : Option String)
  /-- `ShocSimple(ds)` -/
  | shocSimple
  /-- `ArakawaC(ds, coordinate_names=…)` / `ShocStandard(ds)`: kind ↦ [latitude, longitude] -/
  | arakawaC (coords : List (String × List String))
  /-- `UGrid(ds)`; `validRoles` = the optional connectivity roles whose variable passes the
  dimension checks of `Mesh2DTopology.has_valid_*` (abstract here).  `UGrid.topology` never
  passes a `topology_key`, the mesh variable is always discovered. -/
  | ugrid (validRoles : List String)
deriving Repr

/-! ### CF grids -/

/-- `CFGridTopology.latitude_name` test -/
def isLatitude (v : VarView) : Bool :=
  (match v.attr "units" with | some u => Gen.cfLatUnits.contains u | none => false)
    || v.attr "standard_name" == some "latitude" || v.attr "axis" == some "Y"

/-- `CFGridTopology.longitude_name` test -/
def isLongitude (v : VarView) : Bool :=
  (match v.attr "units" with | some u => Gen.cfLonUnits.contains u | none => false)
    || v.attr "standard_name" == some "longitude" || v.attr "axis" == some "X"

/-- `CFGridTopology.latitude_name` / `longitude_name`: the name given to the constructor,
else the first variable (in `dataset.variables` order) that passes the test. -/
def discover (given : Option String) (test : VarView → Bool) (ds : Views) : Option String :=
  match given with
  | some n => some n
  | none => (ds.find? test).map (·.name)

/-- `CFGrid.get_all_geometry_names` once the two coordinate names are known:
longitude, latitude, then the `bounds` of each that exist as variables. -/
def cfNames (ds : Views) (lat lon : String) : Option (List String) :=
  match ds.var? lon, ds.var? lat with
  | some lonV, some latV =>
    let bounds := ([lonV.attr "bounds", latV.attr "bounds"].filterMap id).filter
      (fun b => (ds.var? b).isSome)
    some ([lon, lat] ++ bounds)
  | _, _ => none

/-- `ShocSimple.topology`: the first variable with dimensions exactly `(j, i)` whose
`standard_name` is `std` (`variable.attrs.get("standard_name") == std`). -/
def isShocCoordinate (std : String) (v : VarView) : Bool :=
  v.dims == Gen.shocSimpleDims && v.attr "standard_name" == some std

def shocSimpleFind (std : String) (ds : Views) : Option String :=
  (ds.find? (isShocCoordinate std)).map (·.name)

/-! ### Arakawa C -/

def arakawaOrder : List String := ["face", "node", "left", "back"]

/-- `ArakawaC.get_all_geometry_names`: longitude then latitude of face, node, left, back;
every one must exist (`dataset[name].name`). -/
def arakawaNames (ds : Views) (coords : List (String × List String)) : Option (List String) :=
  (arakawaOrder.mapM fun kind =>
    match coords.lookup kind with
    | some [lat, lon] =>
      if (ds.var? lon).isSome && (ds.var? lat).isSome then some [lon, lat] else none
    | _ => none).map List.flatten

/-! ### UGRID -/

/-- `_split_coord`: `attr.split(None, 1)` must give two parts. -/
def splitCoord (s : String) : Option (String × String) :=
  let cs := s.toList.dropWhile (· == ' ')
  let x := cs.takeWhile (· != ' ')
  let y := (cs.dropWhile (· != ' ')).dropWhile (· == ' ')
  if x.isEmpty || y.isEmpty then none else some (String.ofList x, String.ofList y)

/-- `Mesh2DTopology.mesh_variable` -/
def meshVar (ds : Views) : Option String → Option VarView
  | some k => ds.dataVar? k
  | none => ds.find? (fun v => !v.isCoord && v.attr "cf_role" == some "mesh_topology")

/-- an optional connectivity: named by the mesh attribute, present in `data_vars`, valid -/
def optionalRole (ds : Views) (mesh : VarView) (valid : List String) (role : String) : List String :=
  match mesh.attr role with
  | some n => if (ds.dataVar? n).isSome && valid.contains role then [n] else []
  | none => []

/-- optional coordinate pair (`edge_coordinates` / `face_coordinates`): each of the two
names counts on its own if the dataset has a variable of that name (`dataset[name]`, data
variable or coordinate); an attribute with one word raises. -/
def optionalCoords (ds : Views) (mesh : VarView) (key : String) : Option (List String) :=
  match mesh.attr key with
  | none => some []
  | some s =>
    match splitCoord s with
    | none => none
    | some (x, y) => some ([x, y].filter fun n => (ds.var? n).isSome)

/-- `UGrid.get_all_geometry_names` -/
def ugridNames (ds : Views) (key : Option String) (valid : List String) : Option (List String) :=
  match meshVar ds key with
  | none => none
  | some mesh =>
    match mesh.attr "face_node_connectivity", (mesh.attr "node_coordinates").bind splitCoord with
    | some fnc, some (nx, ny) =>
      -- the connectivity is looked up in `data_vars`, the node coordinates in the whole dataset
      if (ds.dataVar? fnc).isSome && (ds.var? nx).isSome && (ds.var? ny).isSome then
        match optionalCoords ds mesh "edge_coordinates", optionalCoords ds mesh "face_coordinates" with
        | some ec, some fc =>
          some ([mesh.name, fnc, nx, ny]
            ++ optionalRole ds mesh valid "face_edge_connectivity"
            ++ optionalRole ds mesh valid "face_face_connectivity"
            ++ optionalRole ds mesh valid "edge_node_connectivity"
            ++ optionalRole ds mesh valid "edge_face_connectivity"
            ++ ec ++ fc)
        | _, _ => none
      else none
    | _, _ => none

/-! ### all conventions -/

/-- `convention.get_all_geometry_names()` on the views of the variables -/
def inventoryOf (spec : ConvSpec) (ds : Views) : Option (List String) :=
  match spec with
  | .cfGrid lat lon =>
    -- `names = [longitude_name, latitude_name]` first, each discovered unless given
    match discover lon isLongitude ds, discover lat isLatitude ds with
    | some lo, some la => cfNames ds la lo
    | _, _ => none
  | .shocSimple =>
    match shocSimpleFind "latitude" ds, shocSimpleFind "longitude" ds with
    | some la, some lo => cfNames ds la lo
    | _, _ => none
  | .arakawaC coords => arakawaNames ds coords
  | .ugrid valid => ugridNames ds none valid

/-- `convention.get_all_geometry_names()` -/
def inventory (spec : ConvSpec) (ds : Dataset) : Option (List String) := inventoryOf spec ds.views

/-- The records `hash_geometry` hashes: `dataset[name]` for every inventory name, in order. -/
def geomRecords (spec : ConvSpec) (ds : Dataset) : Option (List GeomRec) :=
  (inventory spec ds).bind fun names => names.mapM fun n => (ds.var? n).map DVar.record

/-- `make_cache_key` of a dataset, as a byte stream. -/
def datasetStream (spec : ConvSpec) (cid : ConvId) (version : String) (ds : Dataset) :
    Option Bytes :=
  (geomRecords spec ds).bind fun rs => cacheStream rs cid version

end Ems.CacheKey
