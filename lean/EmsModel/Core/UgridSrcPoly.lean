import EmsModel.Core.Geom
import EmsModel.Core.MeshMask
/-!
Core/UgridSrcPoly.lean — a small language for `UGrid._make_polygons` (`emsarray.conventions.ugrid`): polygons are made in
batches, one batch per number of vertices, with `shapely.polygons(coords, indices=indices, out=polygons)`.

`harness/trans_ugridsrc.py` reads the SOURCE TEXT of the method on every run and re-emits it as a `PProg` in
`Gen/UgridSrc.lean`; `Props/C06Src.lean` proves that it computes the hand model `Ems.ugridPolys` when the masked entries
of every row of `face_node_array` are trailing.  The source reads the DATA under the mask (`numpy.ma.getdata(…)[…, :size]`),
so a table entry carries both: `(data, masked)`.  Total evaluator; `PVal.err` = numpy raises or outside the language.
Core Lean only.
-/
namespace Ems.UgridSrc

/-- a masked 2-D integer array with the data under the mask: `(data, masked)` -/
abbrev DTable := List (List (Nat × Bool))

inductive PVal
  | nat (n : Nat)
  /-- 1-D integer array -/
  | ints (l : List Nat)
  /-- 1-D boolean array -/
  | bools (l : List Bool)
  /-- 2-D boolean array -/
  | btable (t : List (List Bool))
  /-- 2-D integer array (no mask) -/
  | itable (t : List (List Nat))
  /-- masked 2-D integer array -/
  | mtable (t : DTable)
  /-- 1-D float array -/
  | floats (l : List Rat)
  /-- 2-D float array -/
  | ftable (t : List (List Rat))
  /-- float array of shape `(n, size, 2)`: one vertex list per row -/
  | coords (t : List (List Pt))
  /-- object array of polygons / `None` -/
  | polys (l : List (Option Poly))
  | err
  deriving Repr

inductive PExpr
  /-- `topology.face_node_array` -/
  | faceNode
  /-- `topology.node_x.values` / `topology.node_y.values` -/
  | nodeX | nodeY
  /-- `topology.face_count` -/
  | faceCount
  /-- the variable of the `for` loop -/
  | loopVar
  /-- `numpy.ma.getmaskarray(a)` -/
  | getmaskarray (a : PExpr)
  /-- `numpy.ma.getdata(a)` -/
  | getdata (a : PExpr)
  /-- `~a` -/
  | invert (a : PExpr)
  /-- `numpy.sum(a, axis=1)` of a 2-D boolean array: the number of true entries of every row -/
  | sumAxis1 (a : PExpr)
  /-- `numpy.unique(a)` -/
  | unique (a : PExpr)
  /-- `a == s` with `s` a scalar -/
  | eqScalar (a s : PExpr)
  /-- `numpy.flatnonzero(a)` -/
  | flatnonzero (a : PExpr)
  /-- `a[i, :n]`: the rows `i` of `a`, their first `n` columns -/
  | takeRowsCols (a i n : PExpr)
  /-- `xs[a]`: a 1-D array indexed by an integer table (IndexError → `err`) -/
  | gatherT (xs a : PExpr)
  /-- `numpy.stack([a, b], axis=-1)` of two 2-D arrays of the same shape -/
  | stackLast (a b : PExpr)
  /-- `numpy.full(n, None, dtype=numpy.object_)` -/
  | fullNone (n : PExpr)
  | unsupported (python : String)
  deriving Repr, DecidableEq

/-- The shape of the method:
`out = init; for v in over: shapely.polygons(coords, indices=indices, out=out); return out`. -/
inductive PProg
  | batchLoop (init over coords indices : PExpr)
  | unsupported (python : String)
  deriving Repr, DecidableEq

structure PEnv where
  faceNode : DTable
  nodeX : List Rat
  nodeY : List Rat
  nFaces : Nat
  loopVar : Nat := 0

def getmaskVal : PVal → PVal
  | .mtable t => .btable (t.map fun r => r.map (·.2))
  | _ => .err

def getdataVal : PVal → PVal
  | .mtable t => .itable (t.map fun r => r.map (·.1))
  | _ => .err

def invertVal : PVal → PVal
  | .btable t => .btable (t.map fun r => r.map (!·))
  | .bools l => .bools (l.map (!·))
  | _ => .err

def sumAxis1Val : PVal → PVal
  | .btable t => .ints (t.map fun r => r.count true)
  | _ => .err

def puniqueVal : PVal → PVal
  | .ints l => .ints (Clip.sortU l)
  | _ => .err

def eqScalarVal : PVal → PVal → PVal
  | .ints l, .nat s => .bools (l.map (· == s))
  | _, _ => .err

/-- positions of the true entries, ascending -/
def flatnonzeroL (l : List Bool) : List Nat := (List.range l.length).filter fun i => l.getD i false

def flatnonzeroVal : PVal → PVal
  | .bools l => .ints (flatnonzeroL l)
  | _ => .err

def takeRowsColsVal : PVal → PVal → PVal → PVal
  | .itable t, .ints I, .nat n =>
    if I.all (· < t.length) then .itable (I.map fun i => (t.getD i []).take n) else .err
  | _, _, _ => .err

def gatherTVal : PVal → PVal → PVal
  | .floats xs, .itable t =>
    if t.all (fun r => r.all (· < xs.length)) then .ftable (t.map fun r => r.map fun n => xs.getD n 0) else .err
  | _, _ => .err

def stackLastVal : PVal → PVal → PVal
  | .ftable a, .ftable b =>
    if a.map List.length = b.map List.length then .coords (List.zipWith List.zip a b) else .err
  | _, _ => .err

def fullNoneVal : PVal → PVal
  | .nat n => .polys (List.replicate n none)
  | _ => .err

def pEval (env : PEnv) : PExpr → PVal
  | .faceNode => .mtable env.faceNode
  | .nodeX => .floats env.nodeX
  | .nodeY => .floats env.nodeY
  | .faceCount => .nat env.nFaces
  | .loopVar => .nat env.loopVar
  | .getmaskarray a => getmaskVal (pEval env a)
  | .getdata a => getdataVal (pEval env a)
  | .invert a => invertVal (pEval env a)
  | .sumAxis1 a => sumAxis1Val (pEval env a)
  | .unique a => puniqueVal (pEval env a)
  | .eqScalar a s => eqScalarVal (pEval env a) (pEval env s)
  | .flatnonzero a => flatnonzeroVal (pEval env a)
  | .takeRowsCols a i n => takeRowsColsVal (pEval env a) (pEval env i) (pEval env n)
  | .gatherT xs a => gatherTVal (pEval env xs) (pEval env a)
  | .stackLast a b => stackLastVal (pEval env a) (pEval env b)
  | .fullNone n => fullNoneVal (pEval env n)
  | .unsupported _ => .err

/-- `shapely.polygons(coords, indices=indices, out=out)`: `out[indices[k]] = Polygon(coords[k])` -/
def writePolys : List (Option Poly) → List Nat → List Poly → List (Option Poly)
  | out, i :: is, c :: cs => writePolys (out.set i (some c)) is cs
  | out, _, _ => out

/-- one pass of the loop body; `none` = an exception -/
def batchStep (out : List (Option Poly)) : PVal → PVal → Option (List (Option Poly))
  | .coords C, .ints I =>
    if I.length = C.length ∧ I.all (· < out.length) then some (writePolys out I C) else none
  | _, _ => none

def batchFold (env : PEnv) (coords indices : PExpr) : List Nat → List (Option Poly) → Option (List (Option Poly))
  | [], out => some out
  | s :: ss, out =>
    match batchStep out (pEval { env with loopVar := s } coords) (pEval { env with loopVar := s } indices) with
    | some out' => batchFold env coords indices ss out'
    | none => none

/-- the object array the method returns; `none` = an exception, or outside the language -/
def pRun (env : PEnv) : PProg → Option (List (Option Poly))
  | .batchLoop init over coords indices =>
    match pEval env init, pEval env over with
    | .polys out, .ints S => batchFold env coords indices S out
    | _, _ => none
  | .unsupported _ => none

/-- the unmasked entries of a row -/
def compressD (r : List (Nat × Bool)) : List Nat := (r.filter fun e => !e.2).map (·.1)

/-- the masked entries of the row are trailing: unmasked entries first, then only masked ones -/
def trailingMasked : List (Nat × Bool) → Bool
  | [] => true
  | (_, false) :: rest => trailingMasked rest
  | (_, true) :: rest => rest.all (·.2)

end Ems.UgridSrc
