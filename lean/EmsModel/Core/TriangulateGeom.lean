import EmsModel.Core.Triangulate
/-
Core/TriangulateGeom.lean — exact rational instantiations of the two GEOS oracles of
`Core/Triangulate.lean`, used by `Drivers/C14.lean`.

The theorems of C14 hold for *every* `isConvex` / `isEar`.  The functions below are what
the driver plugs in; they are compared with GEOS on every generated polygon (directly
through the `ears` / `convex` operations and indirectly through `tri`), never proved.
They are meant for simple polygons without repeated vertices.
-/
namespace Ems.Tri

def sgn (r : Rat) : Int := if 0 < r then 1 else if r < 0 then -1 else 0

/-- Cyclic triples `(p[k-1], p[k], p[k+1])`. -/
def corners (p : List Pt) : List (Pt × Pt × Pt) :=
  let n := p.length
  (List.range n).filterMap fun k =>
    match p[(k + n - 1) % n]?, p[k]?, p[(k + 1) % n]? with
    | some a, some b, some c => some (a, b, c)
    | _, _, _ => none

/-- `get_num_coordinates(convex_hull(polygon)) == get_num_coordinates(polygon)` for a
simple polygon: every corner turns strictly the same way (strictly convex, no collinear
vertex — the hull drops collinear vertices, so such cells take the ear path). -/
def isConvexExact (p : List Pt) : Bool :=
  let ts := (corners p).map fun (a, b, c) => sgn (cross a b c)
  3 ≤ p.length && (ts.all (· == 1) || ts.all (· == -1))

/-- The hull test again, as the decidable hypothesis of `Ems.C14.fan_partition`: at least
three vertices, none repeated, strictly convex with one of the two orientations.  This is
the instance the driver uses for `isConvex`; `isConvexExact` (local turns only) is kept as
a second, independent formulation and both are compared with GEOS. -/
def isStrictConvex (p : List Pt) : Bool :=
  decide (3 ≤ p.length) && decide p.Nodup &&
    (decide (StrictConvex 1 p) || decide (StrictConvex (-1) p))

def dot (o a b : Pt) : Rat := (a.x - o.x) * (b.x - o.x) + (a.y - o.y) * (b.y - o.y)

/-- The segment `u v` meets the segment `a c` at most in the points `a` and `c`. -/
def edgeClear (a c u v : Pt) : Bool :=
  let o1 := cross a c u
  let o2 := cross a c v
  if o1 = 0 ∧ o2 = 0 then
    -- collinear: compare the parameter intervals along a → c
    let len := dot a c c
    let tu := dot a c u
    let tv := dot a c v
    let lo := if tu ≤ tv then tu else tv
    let hi := if tu ≤ tv then tv else tu
    decide (hi ≤ 0 ∨ len ≤ lo)
  else
    let o3 := cross u v a
    let o4 := cross u v c
    -- the lines meet in one point; the segments miss each other, or meet in a or in c
    decide (0 < o1 * o2 ∨ 0 < o3 * o4 ∨ o3 = 0 ∨ o4 = 0)

/-- Even–odd rule for a point that is known not to lie on the boundary. -/
def insideEvenOdd (p : List Pt) (m : Pt) : Bool :=
  let crossings := (edges p).filter fun (u, v) =>
    (decide (m.y < u.y) != decide (m.y < v.y)) &&
      decide (m.x < u.x + (m.y - u.y) * (v.x - u.x) / (v.y - u.y))
  crossings.length % 2 == 1

/-- Exact version of the ear test of `_triangulate_concave_polygon` on the current
polygon `p` for the diagonal `p[i] — p[i+2]`:
the diagonal meets the boundary exactly in its two end points
(`exterior.intersection(diagonal).equals(MultiPoint)`) and lies in the polygon
(`diagonal.covered_by(polygon)`; given the first condition, its midpoint is strictly inside). -/
def isEarExact (p : List Pt) (i : Nat) : Bool :=
  match p[i]?, p[i + 2]? with
  | some a, some c =>
    a ≠ c && (edges p).all (fun (u, v) => edgeClear a c u v) &&
      insideEvenOdd p ⟨(a.x + c.x) / 2, (a.y + c.y) / 2⟩
  | _, _ => false

end Ems.Tri
