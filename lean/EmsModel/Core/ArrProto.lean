import EmsModel.Core.Named
import EmsModel.Core.Proto
/-
Core/ArrProto.lean — parsing / printing of named arrays and the flatten / wind operations
of the line protocol (shared by the C02, C03, C05 drivers).
array:  `t:2,y:3,x:4|0,1,2,…`   (dims `-` for a 0-d array; a missing value is `nan`)
grids:  `face=y:3,x:4;left=yl:3,xl:5`
ops:
  `ravel  <grids> <default> <arr> <lin|->`
  `wind   <grids> <default> <arr> <kind|-> <axis|-> <lin|->`
  `uravel <arr> <dims,> <lin|->`     `uwind <arr> <newdims> <lin>`
  `mte    <arr> <dims,>`             `unused <names,|-> <prefix>`
output: an array, a name, or `ERR`
-/
namespace Ems.ArrProto
open Ems Ems.Proto

def parseDims? (s : String) : Option (List Dim) :=
  if s == "-" then some [] else
  Proto.allSome ((s.splitOn ",").map fun d =>
    match d.splitOn ":" with
    | [n, sz] => (parseNat? sz).map (fun k => (n, k))
    | _ => none)

def parseVals? (s : String) : Option (List (Option Int)) :=
  if s == "-" || s == "" then some [] else
  Proto.allSome ((s.splitOn ",").map fun v => if v == "nan" then some none else (parseInt? v).map some)

def showVals (l : List (Option Int)) : String :=
  if l.isEmpty then "-" else joinWith "," (l.map fun v => match v with | some i => toString i | none => "nan")

def parseArr? (s : String) : Option (NArr (Option Int)) :=
  match s.splitOn "|" with
  | [d, v] => do
      let dims ← parseDims? d
      let vals ← parseVals? v
      some { dims := dims, data := vals }
  | _ => none

def showDims (ds : List Dim) : String :=
  if ds.isEmpty then "-" else joinWith "," (ds.map fun d => s!"{d.1}:{d.2}")

def showArr (a : NArr (Option Int)) : String := s!"{showDims a.dims}|{showVals a.data}"

def parseGrids? (s : String) : Option (List (String × List Dim)) :=
  Proto.allSome ((s.splitOn ";").map fun g =>
    match g.splitOn "=" with
    | [k, ds] => (parseDims? ds).map (fun l => (k, l))
    | _ => none)

def parseNames (s : String) : List String := if s == "-" then [] else s.splitOn ","
def opt (s : String) : Option String := if s == "-" then none else some s

def showRes : Option (NArr (Option Int)) → String
  | some a => showArr a
  | none => "ERR"

/-- flatten / wind operations; `none` = not one of them -/
def step? (ws : List String) : Option String :=
  match ws with
  | ["ravel", gs, dflt, arr, lin] =>
    some (match parseGrids? gs, parseArr? arr with
    | some grids, some a => showRes (({ grids := grids, default := dflt } : GridConv).ravel a (opt lin))
    | _, _ => "BAD")
  | ["wind", gs, dflt, arr, kind, axis, lin] =>
    some (match parseGrids? gs, parseArr? arr, (if axis == "-" then some none else (parseInt? axis).map some) with
    | some grids, some a, some ax =>
      showRes (({ grids := grids, default := dflt } : GridConv).wind a (opt kind) ax (opt lin))
    | _, _, _ => "BAD")
  | ["uravel", arr, dims, lin] =>
    some (match parseArr? arr with
    | some a => showRes (a.ravelDims (parseNames dims) (opt lin))
    | none => "BAD")
  | ["uwind", arr, nd, lin] =>
    some (match parseArr? arr, parseDims? nd with
    | some a, some nd => showRes (a.windDim nd lin)
    | _, _ => "BAD")
  | ["mte", arr, dims] =>
    some (match parseArr? arr with
    | some a => showRes (a.moveToEnd (parseNames dims))
    | none => "BAD")
  | ["unused", names, pfx] => some (NArr.findUnused (parseNames names) pfx)
  | _ => none

end Ems.ArrProto
