import EmsModel.Core.Depth
/-!
Core/DepthSrc.lean — the two small languages into which `harness/trans_depth.py` translates the
SOURCE TEXT of `emsarray.operations.depth` on every run (`Gen/DepthSrc.lean`), with total evaluators.

1. `FExpr`: the array expression of `_find_ocean_floor_indexes`
   (`(data_array * 0 + 1).cumsum(dim).argmax(dim)`), evaluated on one water column.
2. `NExpr` / `NStmt`: a small imperative language (locals in numbered slots, guards, `try`,
   effects on the working dataset) for the body of the loop of `normalize_depth_variables`,
   interpreted over the dataset model of `Core/Depth.lean`.

Core Lean only.  Everything lives in `Ems.DepthSrc`.
-/
namespace Ems.DepthSrc

open Ems Ems.Depth

/-! ## 1. the expression of `_find_ocean_floor_indexes` -/

/-- the dimension an `xarray` reduction is told to work along -/
inductive FDim where
  /-- the function's second parameter (`depth_dimension`, also spelled `str(depth_dimension)`) -/
  | depthParam
  /-- anything else (a literal name, another expression) -/
  | other (text : String)
deriving DecidableEq, Repr

/-- array expressions over the function's first parameter -/
inductive FExpr where
  /-- the first parameter (`data_array`) -/
  | input
  /-- `e * c` / `c * e` -/
  | mulConst (e : FExpr) (c : Rat)
  /-- `e + c` / `c + e` (`e - c` is `addConst e (-c)`) -/
  | addConst (e : FExpr) (c : Rat)
  /-- `e.cumsum(dim)` with xarray's default `skipna` for floats: NaN counts as 0 in the running
  sum, and the result holds no NaN -/
  | cumsum (e : FExpr) (d : FDim)
  /-- `e.argmax(dim)` with xarray's default `skipna`: NaN is skipped, the FIRST maximum wins,
  an empty or all-NaN column raises -/
  | argmax (e : FExpr) (d : FDim)
  /-- what the translator could not render -/
  | unsupported (text : String)
deriving Repr

/-- a value: one column of numbers along the depth dimension, or (after a reduction) an index -/
inductive FVal where
  | col (l : List Val)
  | idx (n : Nat)
deriving DecidableEq, Repr

/-- `numpy.nancumsum` from a running total -/
def fCumsumFrom : Rat → List Val → List Val
  | _, [] => []
  | acc, x :: xs => some (acc + x.getD 0) :: fCumsumFrom (acc + x.getD 0) xs

/-- `numpy.nanargmax`: `best` is the greatest number seen so far with its position -/
def fArgmaxGo : Option (Rat × Nat) → Nat → List Val → Option Nat
  | best, _, [] => best.map (·.2)
  | best, i, none :: xs => fArgmaxGo best (i + 1) xs
  | none, i, some x :: xs => fArgmaxGo (some (x, i)) (i + 1) xs
  | some (b, bi), i, some x :: xs =>
    if b < x then fArgmaxGo (some (x, i)) (i + 1) xs else fArgmaxGo (some (b, bi)) (i + 1) xs

/-- `none` = "All-NaN slice encountered" / empty -/
def fArgmax (l : List Val) : Option Nat := fArgmaxGo none 0 l

/-- the evaluator on one column (`none` = the call raises or the term is not understood) -/
def FExpr.eval (col : List Val) : FExpr → Option FVal
  | .input => some (.col col)
  | .mulConst e c =>
    match e.eval col with
    | some (.col l) => some (.col (l.map fun x => x.map (· * c)))
    | _ => none
  | .addConst e c =>
    match e.eval col with
    | some (.col l) => some (.col (l.map fun x => x.map (· + c)))
    | _ => none
  | .cumsum e d =>
    match d, e.eval col with
    | .depthParam, some (.col l) => some (.col (fCumsumFrom 0 l))
    | _, _ => none
  | .argmax e d =>
    match d, e.eval col with
    | .depthParam, some (.col l) => (fArgmax l).map .idx
    | _, _ => none
  | .unsupported _ => none

/-! ## 2. the loop body of `normalize_depth_variables` -/

/-- comparison operators -/
inductive NCmp where
  | eq | ne | lt | le | gt | ge
deriving DecidableEq, Repr

/-- run-time values of the interpreter -/
inductive NVal where
  /-- Python `None` -/
  | none_
  | bool (b : Bool)
  | str (s : String)
  /-- a number (`none` = NaN) -/
  | scalar (x : Val)
  /-- `.values` of a variable: its dimensions and its flat data -/
  | arr (dims : List String) (l : List Val)
  /-- a boolean array -/
  | mask (l : List Bool)
  /-- a tuple / list of names (`.dims`, `[dimension]`) -/
  | strs (l : List String)
  /-- a `DataArray` taken out of a dataset: a snapshot of the variable; `epoch = none` when it was
  taken from the function's argument, `some n` when it was taken from the working dataset at its
  `n`-th version -/
  | view (v : Var) (epoch : Option Nat)
  /-- `.attrs` of a view -/
  | attrs (v : Var)
  /-- `.encoding` of a view -/
  | enc (v : Var)
  /-- `slice(a, b, c)` -/
  | slice_ (a b c : Option Int)
deriving DecidableEq, Repr

/-- expressions -/
inductive NExpr where
  | noneLit
  | boolLit (b : Bool)
  | strLit (s : String)
  | intLit (n : Int)
  /-- the keyword parameter `positive_down` -/
  | optPD
  /-- the keyword parameter `deep_to_shallow` -/
  | optDTS
  /-- local variable number `k` (numbered in order of first assignment in the loop body; slot 0 is the loop target) -/
  | slot (k : Nat)
  /-- `utils.name_to_data_array(dataset, e)` on the function's first parameter -/
  | nameToDataArray (e : NExpr)
  /-- `W[e]` on the working dataset (the local initialised with `dataset.copy()`) -/
  | dsGet (e : NExpr)
  | nameOf (e : NExpr)
  | dimsOf (e : NExpr)
  | valuesOf (e : NExpr)
  | attrsOf (e : NExpr)
  | encodingOf (e : NExpr)
  /-- `e[i]` -/
  | index (e i : NExpr)
  /-- `e.get(key)` -/
  | attrGet (e : NExpr) (key : String)
  /-- `k in e` -/
  | contains (k e : NExpr)
  | len (e : NExpr)
  | cmp (op : NCmp) (a b : NExpr)
  /-- `a is not b` (only against `None`) -/
  | isNot (a b : NExpr)
  /-- `a is b` (only against `None`) -/
  | is_ (a b : NExpr)
  | and_ (a b : NExpr)
  | or_ (a b : NExpr)
  | not_ (a : NExpr)
  /-- `a if c else b` -/
  | ifExp (c a b : NExpr)
  | mul (a b : NExpr)
  | div (a b : NExpr)
  | neg (a : NExpr)
  /-- `a:b:c` inside a subscript, `numpy.s_[a:b:c]`, `slice(a, b, c)` -/
  | sliceLit (a b c : Option Int)
  /-- `[e]` -/
  | list1 (e : NExpr)
  | unsupported (text : String)
deriving Repr

/-- statements -/
inductive NStmt where
  /-- `local_k = e` -/
  | assign (k : Nat) (e : NExpr)
  /-- `local_k1, local_k2 = e` -/
  | unpack2 (k1 k2 : Nat) (e : NExpr)
  /-- `local_k.attrs[key] = e` where the local holds a view of the working dataset -/
  | setAttrItem (k : Nat) (key : String) (e : NExpr)
  /-- `W = W.assign_coords({key: vals})`, followed by `W[key].attrs = attrs` / `W[key].encoding = enc`
  (absent = not re-attached: `assign_coords` with bare values drops them) -/
  | dsAssignCoords (key vals : NExpr) (attrs enc : Option NExpr)
  /-- `W = W.assign({key: (dims, vals, attrs, enc)})` -/
  | dsAssign (key : NExpr) (dims : Option NExpr) (vals : NExpr) (attrs enc : Option NExpr)
  /-- `W = W.isel({dim: sl})` -/
  | dsIsel (dim sl : NExpr)
  /-- `warnings.warn(f"…{a}…{b}…")`: the formatted values, in order -/
  | warn (args : List NExpr)
  | raise_ (cls : String)
  | ite (c : NExpr) (thn els : List NStmt)
  /-- `try: body  except exc: handler  else: els` -/
  | tryExcept (body : List NStmt) (exc : String) (handler els : List NStmt)
  | unsupported (text : String)
deriving Repr

/-- exceptions: `KeyError` is told apart because the code catches it -/
inductive NErr where
  | key
  | other
deriving DecidableEq, Repr

/-- what a call of the function is given -/
structure NCtx where
  orig : Dataset
  pd : Option Bool
  dts : Option Bool

/-- the state of one loop iteration -/
structure NState where
  /-- the working dataset `W` -/
  new : Dataset
  /-- how often `W` was rebound -/
  epoch : Nat
  /-- the locals -/
  env : List (Nat × NVal)
  /-- warnings emitted so far (`name:guess`) -/
  warns : List String

def optBoolVal : Option Bool → NVal
  | none => .none_
  | some b => .bool b

/-- Python truthiness (`none` = not modelled: the truth value of an array, …) -/
def truthy : NVal → Option Bool
  | .none_ => some false
  | .bool b => some b
  | .str s => some (s != "")
  | .scalar (some x) => some (x != 0)
  | .scalar none => some true
  | .strs l => some (!l.isEmpty)
  | _ => none

/-- a non-negative integer index -/
def natIndex : NVal → Option Nat
  | .scalar (some r) => if r.den = 1 ∧ 0 ≤ r.num then some r.num.toNat else none
  | _ => none

/-- the attributes the model knows by name -/
def attrLookup (v : Var) (key : String) : Option (Option String) :=
  if key = "positive" then some v.positive
  else if key = "bounds" then some v.bounds
  else none

/-- number-with-number comparison (IEEE: every comparison with NaN is false, `!=` is true) -/
def cmpScalar (op : NCmp) (a b : Val) : Bool :=
  match a, b with
  | some x, some y =>
    match op with
    | .eq => decide (x = y)
    | .ne => decide (x ≠ y)
    | .lt => decide (x < y)
    | .le => decide (x ≤ y)
    | .gt => decide (y < x)
    | .ge => decide (y ≤ x)
  | _, _ => op == .ne

/-- `a op b` -/
def cmpVals (op : NCmp) (a b : NVal) : Except NErr NVal :=
  match a, b with
  | .scalar x, .scalar y => .ok (.bool (cmpScalar op x y))
  | .arr _ l, .scalar y => .ok (.mask (l.map fun x => cmpScalar op x y))
  | .bool _, .scalar _ => .error .other
  | .scalar _, .bool _ => .error .other
  | .arr _ _, _ => .error .other
  | _, .arr _ _ => .error .other
  | .mask _, _ => .error .other
  | _, .mask _ => .error .other
  | a, b =>
    match op with
    | .eq => .ok (.bool (decide (a = b)))
    | .ne => .ok (.bool (decide (a ≠ b)))
    | _ => .error .other

/-- `l[a:b]` for `0 ≤ a`, `0 ≤ b`, no step -/
def sliceVals (l : List Val) (a b c : Option Int) : Option (List Val) :=
  match a, b, c with
  | some a, some b, none => if 0 ≤ a ∧ 0 ≤ b then some ((l.take b.toNat).drop a.toNat) else none
  | none, some b, none => if 0 ≤ b then some (l.take b.toNat) else none
  | some a, none, none => if 0 ≤ a then some (l.drop a.toNat) else none
  | none, none, none => some l
  | _, _, _ => none

/-- `l[m]` with a boolean array -/
def maskSelect : List Val → List Bool → List Val
  | x :: xs, b :: bs => if b then x :: maskSelect xs bs else maskSelect xs bs
  | _, _ => []

def vmul (a b : Val) : Val :=
  match a, b with
  | some x, some y => some (x * y)
  | _, _ => none

def envGet (env : List (Nat × NVal)) (k : Nat) : Option NVal := env.lookup k

def envSet (env : List (Nat × NVal)) (k : Nat) (v : NVal) : List (Nat × NVal) := (k, v) :: env

/-- the evaluator of expressions -/
def NExpr.eval (cx : NCtx) (st : NState) : NExpr → Except NErr NVal
  | .noneLit => .ok .none_
  | .boolLit b => .ok (.bool b)
  | .strLit s => .ok (.str s)
  | .intLit n => .ok (.scalar (some (n : Rat)))
  | .optPD => .ok (optBoolVal cx.pd)
  | .optDTS => .ok (optBoolVal cx.dts)
  | .slot k =>
    match envGet st.env k with
    | some v => .ok v
    | none => .error .other
  | .nameToDataArray e =>
    match e.eval cx st with
    | .ok (.str s) =>
      match cx.orig.find s with
      | some v => .ok (.view v none)
      | none => .error .other
    | .ok _ => .error .other
    | .error x => .error x
  | .dsGet e =>
    match e.eval cx st with
    | .ok (.str s) =>
      match st.new.find s with
      | some v => .ok (.view v (some st.epoch))
      | none => .error .key
    | .ok _ => .error .other
    | .error x => .error x
  | .nameOf e =>
    match e.eval cx st with
    | .ok (.view v _) => .ok (.str v.name)
    | .ok _ => .error .other
    | .error x => .error x
  | .dimsOf e =>
    match e.eval cx st with
    | .ok (.view v _) => .ok (.strs v.dims)
    | .ok _ => .error .other
    | .error x => .error x
  | .valuesOf e =>
    match e.eval cx st with
    | .ok (.view v _) => .ok (.arr v.dims v.data)
    | .ok _ => .error .other
    | .error x => .error x
  | .attrsOf e =>
    match e.eval cx st with
    | .ok (.view v _) => .ok (.attrs v)
    | .ok _ => .error .other
    | .error x => .error x
  | .encodingOf e =>
    match e.eval cx st with
    | .ok (.view v _) => .ok (.enc v)
    | .ok _ => .error .other
    | .error x => .error x
  | .index e i =>
    match e.eval cx st, i.eval cx st with
    | .ok (.strs l), .ok iv =>
      match natIndex iv with
      | some n => match l[n]? with
        | some s => .ok (.str s)
        | none => .error .other
      | none => .error .other
    | .ok (.attrs v), .ok (.str key) =>
      match attrLookup v key with
      | some (some s) => .ok (.str s)
      | some none => .error .key
      | none => .error .other
    | .ok (.arr [d] l), .ok (.slice_ a b c) =>
      match sliceVals l a b c with
      | some l' => .ok (.arr [d] l')
      | none => .error .other
    | .ok (.arr [d] l), .ok (.mask m) =>
      if l.length = m.length then .ok (.arr [d] (maskSelect l m)) else .error .other
    | .error x, _ => .error x
    | _, .error x => .error x
    | _, _ => .error .other
  | .attrGet e key =>
    match e.eval cx st with
    | .ok (.attrs v) =>
      match attrLookup v key with
      | some (some s) => .ok (.str s)
      | some none => .ok .none_
      | none => .error .other
    | .ok _ => .error .other
    | .error x => .error x
  | .contains k e =>
    match k.eval cx st, e.eval cx st with
    | .ok (.str key), .ok (.attrs v) =>
      match attrLookup v key with
      | some o => .ok (.bool o.isSome)
      | none => .error .other
    | .error x, _ => .error x
    | _, .error x => .error x
    | _, _ => .error .other
  | .len e =>
    match e.eval cx st with
    | .ok (.arr [_] l) => .ok (.scalar (some (l.length : Rat)))
    | .ok (.strs l) => .ok (.scalar (some (l.length : Rat)))
    | .ok _ => .error .other
    | .error x => .error x
  | .cmp op a b =>
    match a.eval cx st, b.eval cx st with
    | .ok va, .ok vb => cmpVals op va vb
    | .error x, _ => .error x
    | _, .error x => .error x
  | .isNot a b =>
    match a.eval cx st, b.eval cx st with
    | .ok va, .ok .none_ => .ok (.bool (decide (va ≠ .none_)))
    | .ok _, .ok _ => .error .other
    | .error x, _ => .error x
    | _, .error x => .error x
  | .is_ a b =>
    match a.eval cx st, b.eval cx st with
    | .ok va, .ok .none_ => .ok (.bool (decide (va = .none_)))
    | .ok _, .ok _ => .error .other
    | .error x, _ => .error x
    | _, .error x => .error x
  | .and_ a b =>
    match a.eval cx st with
    | .ok va =>
      match truthy va with
      | some true => b.eval cx st
      | some false => .ok va
      | none => .error .other
    | .error x => .error x
  | .or_ a b =>
    match a.eval cx st with
    | .ok va =>
      match truthy va with
      | some true => .ok va
      | some false => b.eval cx st
      | none => .error .other
    | .error x => .error x
  | .not_ a =>
    match a.eval cx st with
    | .ok va =>
      match truthy va with
      | some t => .ok (.bool (!t))
      | none => .error .other
    | .error x => .error x
  | .ifExp c a b =>
    match c.eval cx st with
    | .ok vc =>
      match truthy vc with
      | some true => a.eval cx st
      | some false => b.eval cx st
      | none => .error .other
    | .error x => .error x
  | .mul a b =>
    match a.eval cx st, b.eval cx st with
    | .ok (.scalar x), .ok (.scalar y) => .ok (.scalar (vmul x y))
    | .ok (.scalar x), .ok (.arr d l) => .ok (.arr d (l.map (vmul x)))
    | .ok (.arr d l), .ok (.scalar y) => .ok (.arr d (l.map fun x => vmul x y))
    | .error x, _ => .error x
    | _, .error x => .error x
    | _, _ => .error .other
  | .div a b =>
    match a.eval cx st, b.eval cx st with
    | .ok (.scalar (some x)), .ok (.scalar (some y)) =>
      if y = 0 then .error .other else .ok (.scalar (some (x / y)))
    | .error x, _ => .error x
    | _, .error x => .error x
    | _, _ => .error .other
  | .neg a =>
    match a.eval cx st with
    | .ok (.scalar x) => .ok (.scalar (vneg x))
    | .ok (.arr d l) => .ok (.arr d (l.map vneg))
    | .ok _ => .error .other
    | .error x => .error x
  | .sliceLit a b c => .ok (.slice_ a b c)
  | .list1 e =>
    match e.eval cx st with
    | .ok (.str s) => .ok (.strs [s])
    | .ok _ => .error .other
    | .error x => .error x
  | .unsupported _ => .error .other

/-- outcome of a statement -/
inductive NOut where
  | done (s : NState)
  | raised (e : NErr) (s : NState)

/-- `some v` = the optional source evaluated to the attributes / encoding of `v`; `none` = absent -/
def evalAttrsSrc (cx : NCtx) (st : NState) : Option NExpr → Except NErr (Option Var)
  | none => .ok none
  | some e =>
    match e.eval cx st with
    | .ok (.attrs v) => .ok (some v)
    | .ok _ => .error .other
    | .error x => .error x

def evalEncSrc (cx : NCtx) (st : NState) : Option NExpr → Except NErr (Option Var)
  | none => .ok none
  | some e =>
    match e.eval cx st with
    | .ok (.enc v) => .ok (some v)
    | .ok _ => .error .other
    | .error x => .error x

/-- The token of the remaining attributes + encoding of a rebuilt variable: kept when both come
from variables that carry the same token, a poison value otherwise (`Var.extra` stands for the
attributes other than `positive` / `bounds` AND the encoding). -/
def joinExtra (a e : Option Var) : String :=
  match a, e with
  | some va, some ve => if va.extra = ve.extra then va.extra else "<attributes and encoding of different variables>"
  | _, _ => "<attributes or encoding lost>"

/-- a variable rebuilt from `(values, attrs, encoding)` -/
def rebuilt (v : Var) (l : List Val) (coord : Bool) (a e : Option Var) : Var :=
  { v with data := l, isCoord := coord,
           positive := a.bind (·.positive), bounds := a.bind (·.bounds), extra := joinExtra a e }

/-- does another local hold a view of the working dataset's variable `n`? -/
def otherViewOf (env : List (Nat × NVal)) (k : Nat) (n : String) : Bool :=
  env.any fun p =>
    p.1 != k && (match p.2 with
      | .view v (some _) => v.name == n
      | _ => false)

def evalArgs (cx : NCtx) (st : NState) : List NExpr → Option (List String)
  | [] => some []
  | e :: es =>
    match e.eval cx st, evalArgs cx st es with
    | .ok (.str s), some r => some (s :: r)
    | _, _ => none

mutual
/-- one statement -/
def NStmt.run (cx : NCtx) (st : NState) : NStmt → NOut
  | .assign k e =>
    match e.eval cx st with
    | .ok v => .done { st with env := envSet st.env k v }
    | .error x => .raised x st
  | .unpack2 k1 k2 e =>
    match e.eval cx st with
    | .ok (.arr _ [x, y]) => .done { st with env := envSet (envSet st.env k1 (.scalar x)) k2 (.scalar y) }
    | .ok (.strs [x, y]) => .done { st with env := envSet (envSet st.env k1 (.str x)) k2 (.str y) }
    | .ok _ => .raised .other st
    | .error x => .raised x st
  | .setAttrItem k key e =>
    match envGet st.env k, e.eval cx st with
    | some (.view v (some ep)), .ok (.str s) =>
      if ep = st.epoch ∧ otherViewOf st.env k v.name = false then
        if key = "positive" then
          .done { st with env := envSet st.env k (.view (v.setPositive s) (some ep)),
                          new := st.new.modify v.name (Var.setPositive s) }
        else if key = "bounds" then
          .done { st with env := envSet st.env k (.view { v with bounds := some s } (some ep)),
                          new := st.new.modify v.name (fun w => { w with bounds := some s }) }
        else .raised .other st
      else .raised .other st
    | _, .error x => .raised x st
    | _, _ => .raised .other st
  | .dsAssignCoords key vals attrs enc =>
    match key.eval cx st, vals.eval cx st, evalAttrsSrc cx st attrs, evalEncSrc cx st enc with
    | .ok (.str n), .ok (.arr _ l), .ok a, .ok e =>
      match st.new.find n with
      | some v0 =>
        if v0.dims = [n] ∧ l.length = v0.data.length then
          .done { st with new := st.new.modify n (fun v => rebuilt v l true a e), epoch := st.epoch + 1 }
        else .raised .other st
      | none => .raised .other st
    | .error x, _, _, _ => .raised x st
    | _, .error x, _, _ => .raised x st
    | _, _, .error x, _ => .raised x st
    | _, _, _, .error x => .raised x st
    | _, _, _, _ => .raised .other st
  | .dsAssign key dims vals attrs enc =>
    match key.eval cx st, vals.eval cx st, evalAttrsSrc cx st attrs, evalEncSrc cx st enc with
    | .ok (.str n), .ok (.arr _ l), .ok a, .ok e =>
      match st.new.find n, dims with
      | some v0, some de =>
        match de.eval cx st with
        | .ok (.strs ds) =>
          if ds = v0.dims ∧ l.length = v0.data.length then
            .done { st with new := st.new.modify n (fun v => rebuilt v l v.isCoord a e), epoch := st.epoch + 1 }
          else .raised .other st
        | .ok _ => .raised .other st
        | .error x => .raised x st
      | _, _ => .raised .other st
    | .error x, _, _, _ => .raised x st
    | _, .error x, _, _ => .raised x st
    | _, _, .error x, _ => .raised x st
    | _, _, _, .error x => .raised x st
    | _, _, _, _ => .raised .other st
  | .dsIsel dim sl =>
    match dim.eval cx st, sl.eval cx st with
    | .ok (.str d), .ok (.slice_ none none (some (-1))) =>
      .done { st with new := st.new.reverseAlong d, epoch := st.epoch + 1 }
    | .error x, _ => .raised x st
    | _, .error x => .raised x st
    | _, _ => .raised .other st
  | .warn args =>
    match evalArgs cx st args with
    | some parts => .done { st with warns := st.warns ++ [":".intercalate parts] }
    | none => .raised .other st
  | .raise_ _ => .raised .other st
  | .ite c thn els =>
    match c.eval cx st with
    | .ok vc =>
      match truthy vc with
      | some true => NStmt.runBlock cx st thn
      | some false => NStmt.runBlock cx st els
      | none => .raised .other st
    | .error x => .raised x st
  | .tryExcept body exc handler els =>
    match NStmt.runBlock cx st body with
    | .done s => NStmt.runBlock cx s els
    | .raised .key s => if exc = "KeyError" ∨ exc = "Exception" then NStmt.runBlock cx s handler else .raised .key s
    | .raised .other s => if exc = "Exception" then NStmt.runBlock cx s handler else .raised .other s
  | .unsupported _ => .raised .other st

/-- a statement list, in order -/
def NStmt.runBlock (cx : NCtx) (st : NState) : List NStmt → NOut
  | [] => .done st
  | s :: rest =>
    match NStmt.run cx st s with
    | .done st' => NStmt.runBlock cx st' rest
    | r => r
end

/-- what the caller sees of an outcome: the working dataset and the warnings, `none` = an exception -/
def NOut.result : NOut → Option (Dataset × List String)
  | .done s => some (s.new, s.warns)
  | .raised _ _ => none

/-- One iteration of `for variable in depth_coordinates:` on the item `item` (a variable name):
the next working dataset and the warnings of this iteration, `none` = the call raises. -/
def runIter (body : List NStmt) (cx : NCtx) (new : Dataset) (item : String) : Option (Dataset × List String) :=
  (NStmt.runBlock cx { new := new, epoch := 0, env := [(0, .str item)], warns := [] } body).result

/-- the loop -/
def runLoop (body : List NStmt) (cx : NCtx) : List String → Dataset → List String → Option (Dataset × List String)
  | [], new, w => some (new, w)
  | c :: cs, new, w =>
    match runIter body cx new c with
    | none => none
    | some (new', w') => runLoop body cx cs new' (w ++ w')

/-- `normalize_depth_variables` as the frame `new_dataset = dataset.copy(); for …: body; return new_dataset` -/
def runNormalize (body : List NStmt) (ds : Dataset) (coords : List String) (pd dts : Option Bool) :
    Option (Dataset × List String) :=
  runLoop body { orig := ds, pd := pd, dts := dts } coords ds []

end Ems.DepthSrc
