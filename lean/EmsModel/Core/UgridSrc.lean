import EmsModel.Core.MeshMask
/-!
Core/UgridSrc.lean — a small expression language for the set / index-array code of
`emsarray.conventions.ugrid`: `buffer_faces`, `mask_from_face_indexes` (with its inner
`new_element_indexes` and the helper `_masked_integer_data_array`) and `UGrid.make_clip_mask`.

`harness/trans_ugridsrc.py` reads the SOURCE TEXT of these functions from the working tree on every run
and re-emits them as terms of this language in `Gen/UgridSrc.lean`; `Props/C07Src.lean` proves, for every
masked connectivity table and every index list, that the generated terms compute the hand models of
`Core/MeshMask.lean` (`FaceMesh.bufferFaces`, `maskFromFaceIndexes`, `ugridClipMask`).

The evaluator is total: whatever numpy / Python would refuse, and every construct outside the language, is
`UVal.err`.  Core Lean only.
-/
namespace Ems.UgridSrc

/-- a masked 1-D integer array: `none` = masked entry -/
abbrev MRow := List (Option Nat)
/-- a masked 2-D integer array (rows of `face_node_array` / `face_edge_array`) -/
abbrev MTable := List MRow

/-- What an expression evaluates to. -/
inductive UVal
  /-- a non-negative Python / numpy integer (sizes, indexes) -/
  | nat (n : Nat)
  /-- a possibly negative integer (the `buffer` argument) -/
  | int (n : Int)
  | bool (b : Bool)
  /-- a 1-D integer array, a Python list, or a generator consumed in order -/
  | list (l : List Nat)
  /-- a Python `set` of integers: only membership, `intersection` and truth are defined on it, nothing that
  would expose an iteration order -/
  | set (l : List Nat)
  /-- a masked 1-D integer array -/
  | row (r : MRow)
  /-- a masked 2-D integer array -/
  | table (t : MTable)
  /-- numpy / Python raises, or the construct is outside the language -/
  | err
  deriving DecidableEq, Repr

/-- The expression language.  Inputs are named by what they ARE (attribute chains of the `topology`
argument, parameter positions), never by the name of a local variable. -/
inductive UExpr
  /-- the index-array argument of the function being evaluated (`face_indexes`, first parameter) -/
  | arg
  /-- the loop-carried value inside `iterate` -/
  | carried
  /-- `topology.face_node_array` -/
  | faceNode
  /-- `topology.face_edge_array` -/
  | faceEdge
  /-- `topology.face_count` / `node_count` / `edge_count` -/
  | faceCount | nodeCount | edgeCount
  /-- `topology.has_edge_dimension` -/
  | hasEdgeDim
  /-- the `buffer` parameter of `make_clip_mask` -/
  | buffer
  /-- `self.strtree.query(clip_geometry, predicate=…)`: the faces whose polygon satisfies the predicate, in no
  particular order; only `"intersects"` has a meaning -/
  | strtreeQuery (predicate : String)
  /-- the index / the row bound by `for index, row in enumerate(table)` -/
  | idxVar | rowVar
  /-- `t[i]` with `i` an integer array: the rows of `t` at the positions `i`, in that order (IndexError → `err`) -/
  | takeRows (t i : UExpr)
  /-- `a.compressed()`: the entries of a masked array that are not masked, in C order -/
  | compressed (a : UExpr)
  /-- `numpy.unique(a)`: ascending, duplicates removed -/
  | unique (a : UExpr)
  /-- `numpy.sort(a)`: ascending, duplicates kept -/
  | sort (a : UExpr)
  /-- `a.tolist()` -/
  | tolist (a : UExpr)
  /-- `set(a)` -/
  | setOf (a : UExpr)
  /-- `x in s` -/
  | mem (x s : UExpr)
  /-- `s.intersection(a)` -/
  | inter (s a : UExpr)
  /-- `bool(a)` -/
  | truth (a : UExpr)
  /-- Python `a or b` / `a and b` (short-circuit) / `not a`, on booleans -/
  | or (a b : UExpr) | and (a b : UExpr) | not (a : UExpr)
  /-- `numpy.fromiter((elt for index, row in enumerate(t) if cond), …)` -/
  | enumGen (t elt cond : UExpr)
  /-- `numpy.ma.masked_array(numpy.full((size,), …), mask=True)`: a fully masked array -/
  | maskedFull (size : UExpr)
  /-- the array `a` after the statement `a[i] = v` (integer-array assignment, unmasking the positions written) -/
  | setItem (a i v : UExpr)
  /-- `numpy.arange(n)` -/
  | arange (n : UExpr)
  /-- `len(a)` -/
  | len (a : UExpr)
  /-- `a.astype(numpy.double)` -/
  | astypeDouble (a : UExpr)
  /-- `numpy.ma.filled(a, numpy.nan)`: masked entries become NaN (`none` stands for both) -/
  | filledNan (a : UExpr)
  /-- a call of a translated function: `body` evaluated with its index-array parameter bound to `a` -/
  | withArg (a body : UExpr)
  /-- `x = init; for _ in range(count): x = body` where `body` reads the running value as `carried` -/
  | iterate (count body init : UExpr)
  /-- anything the translator could not render -/
  | unsupported (python : String)
  deriving Repr, DecidableEq

/-- What the functions read. -/
structure UEnv where
  /-- `topology.face_node_array` -/
  faceNode : MTable
  /-- `topology.face_edge_array` -/
  faceEdge : MTable
  /-- `topology.face_count`, `node_count`, `edge_count` -/
  nFaces : Nat
  nNodes : Nat
  nEdges : Nat
  /-- `topology.has_edge_dimension` -/
  hasEdge : Bool
  /-- what `strtree.query(clip_geometry, predicate='intersects')` returns -/
  hits : List Nat
  /-- the `buffer` argument -/
  buffer : Int
  /-- the index-array argument of the function being evaluated -/
  arg : UVal := .err
  carried : UVal := .err
  idx : Nat := 0
  rowv : MRow := []

/-- `row.compressed()` -/
def compressRow (r : MRow) : List Nat := r.filterMap id
/-- `table.compressed()`: C order -/
def compressTable (t : MTable) : List Nat := t.flatMap compressRow

/-- insertion into an ascending list, keeping duplicates -/
def insertL (x : Nat) : List Nat → List Nat
  | [] => [x]
  | y :: ys => if x ≤ y then x :: y :: ys else y :: insertL x ys

/-- `numpy.sort` -/
def sortL (l : List Nat) : List Nat := l.foldr insertL []

/-- `a[i] = v` position by position (a repeated index keeps the last value written) -/
def setItems : MRow → List Nat → List Nat → MRow
  | acc, e :: es, v :: vs => setItems (acc.set e (some v)) es vs
  | acc, _, _ => acc

/-- the values a generator `(elt for … if cond)` yields, from the pairs (value of `cond`, value of `elt`) of the
successive iterations; `none` when a condition is not a boolean or a yielded value is not an index -/
def gather : List (UVal × UVal) → Option (List Nat)
  | [] => some []
  | (c, e) :: rest =>
    match c, e, gather rest with
    | .bool true, .nat n, some l => some (n :: l)
    | .bool false, _, some l => some l
    | _, _, _ => none

/-- `f` applied `n` times -/
def iter (f : UVal → UVal) : Nat → UVal → UVal
  | 0, v => v
  | n + 1, v => iter f n (f v)

/-- the number of iterations of `range(count)` -/
def rangeCount : UVal → Option Nat
  | .nat n => some n
  | .int n => some n.toNat
  | _ => none

/-! The meaning of each operation on values. -/

def takeRowsVal : UVal → UVal → UVal
  | .table T, .list I => if I.all (· < T.length) then .table (I.map fun k => T.getD k []) else .err
  | _, _ => .err

def compressedVal : UVal → UVal
  | .row r => .list (compressRow r)
  | .table T => .list (compressTable T)
  | _ => .err

def uniqueVal : UVal → UVal
  | .list l => .list (Clip.sortU l)
  | _ => .err

def sortVal : UVal → UVal
  | .list l => .list (sortL l)
  | _ => .err

def tolistVal : UVal → UVal
  | .list l => .list l
  | _ => .err

def setOfVal : UVal → UVal
  | .list l => .set l
  | .set l => .set l
  | _ => .err

def memVal : UVal → UVal → UVal
  | .nat n, .set l => .bool (l.contains n)
  | .nat n, .list l => .bool (l.contains n)
  | _, _ => .err

def interVal : UVal → UVal → UVal
  | .set l, .list l' => .set (l.filter fun n => l'.contains n)
  | .set l, .set l' => .set (l.filter fun n => l'.contains n)
  | _, _ => .err

def truthVal : UVal → UVal
  | .bool b => .bool b
  | .set l => .bool (!l.isEmpty)
  | _ => .err

/-- Python `a or b`: `b` is not looked at when `a` is true -/
def orVal : UVal → UVal → UVal
  | .bool true, _ => .bool true
  | .bool false, .bool c => .bool c
  | _, _ => .err

/-- Python `a and b`: `b` is not looked at when `a` is false -/
def andVal : UVal → UVal → UVal
  | .bool false, _ => .bool false
  | .bool true, .bool c => .bool c
  | _, _ => .err

def notVal : UVal → UVal
  | .bool b => .bool (!b)
  | _ => .err

def gatherVal : Option (List Nat) → UVal
  | some l => .list l
  | none => .err

def maskedFullVal : UVal → UVal
  | .nat n => .row (List.replicate n none)
  | _ => .err

def setItemVal : UVal → UVal → UVal → UVal
  | .row r, .list I, .list V =>
    if I.length = V.length ∧ I.all (· < r.length) then .row (setItems r I V) else .err
  | _, _, _ => .err

def arangeVal : UVal → UVal
  | .nat n => .list (List.range n)
  | _ => .err

def lenVal : UVal → UVal
  | .list l => .nat l.length
  | .row r => .nat r.length
  | _ => .err

def astypeDoubleVal : UVal → UVal
  | .row r => .row r
  | .list l => .list l
  | _ => .err

def filledNanVal : UVal → UVal
  | .row r => .row r
  | _ => .err

/-- `x = init; for _ in range(count): x = step(x)`; `count` not an integer → `err` -/
def iterateVal : Option Nat → (UVal → UVal) → UVal → UVal
  | some n, f, v => iter f n v
  | none, _, _ => .err

/-- the rows `enumerate(t)` walks through -/
def tableRows : UVal → Option MTable
  | .table T => some T
  | _ => none

/-- The evaluator. -/
def eval (env : UEnv) : UExpr → UVal
  | .arg => env.arg
  | .carried => env.carried
  | .faceNode => .table env.faceNode
  | .faceEdge => .table env.faceEdge
  | .faceCount => .nat env.nFaces
  | .nodeCount => .nat env.nNodes
  | .edgeCount => .nat env.nEdges
  | .hasEdgeDim => .bool env.hasEdge
  | .buffer => .int env.buffer
  | .strtreeQuery p => if p = "intersects" then .list env.hits else .err
  | .idxVar => .nat env.idx
  | .rowVar => .row env.rowv
  | .takeRows t i => takeRowsVal (eval env t) (eval env i)
  | .compressed a => compressedVal (eval env a)
  | .unique a => uniqueVal (eval env a)
  | .sort a => sortVal (eval env a)
  | .tolist a => tolistVal (eval env a)
  | .setOf a => setOfVal (eval env a)
  | .mem x s => memVal (eval env x) (eval env s)
  | .inter s a => interVal (eval env s) (eval env a)
  | .truth a => truthVal (eval env a)
  | .or a b => orVal (eval env a) (eval env b)
  | .and a b => andVal (eval env a) (eval env b)
  | .not a => notVal (eval env a)
  | .enumGen t elt cond =>
    match tableRows (eval env t) with
    | some T =>
      gatherVal (gather ((List.range T.length).map fun i =>
          (eval { env with idx := i, rowv := T.getD i [] } cond,
           eval { env with idx := i, rowv := T.getD i [] } elt)))
    | none => .err
  | .maskedFull size => maskedFullVal (eval env size)
  | .setItem a i v => setItemVal (eval env a) (eval env i) (eval env v)
  | .arange n => arangeVal (eval env n)
  | .len a => lenVal (eval env a)
  | .astypeDouble a => astypeDoubleVal (eval env a)
  | .filledNan a => filledNanVal (eval env a)
  | .withArg a body => eval { env with arg := eval env a } body
  | .iterate count body init =>
    iterateVal (rangeCount (eval env count)) (fun v => eval { env with carried := v } body) (eval env init)
  | .unsupported _ => .err

/-- One entry of `data_vars`: `data_vars[name] = xarray.DataArray(data, dims=dims)`, written only if every
`guard` (the tests of the enclosing `if` statements) is true. -/
structure UVar where
  name : String
  dims : List String
  guards : List UExpr
  data : UExpr
  deriving Repr, DecidableEq

/-- What a function that builds a mask dataset returns. -/
inductive UProg
  /-- `xarray.Dataset(data_vars=…)` with the entries in source order -/
  | dataset (vars : List UVar)
  /-- `return f(a, topology)` with `f` a translated dataset-building function -/
  | withArg (a : UExpr) (p : UProg)
  | unsupported (python : String)
  deriving Repr

/-- a variable of an evaluated dataset: name, dimension names, values -/
abbrev UOutVar := String × List String × MRow

def guardsHold (env : UEnv) : List UExpr → Option Bool
  | [] => some true
  | g :: gs =>
    match eval env g, guardsHold env gs with
    | .bool b, some r => some (b && r)
    | _, _ => none

def evalVars (env : UEnv) : List UVar → Option (List UOutVar)
  | [] => some []
  | v :: vs =>
    match guardsHold env v.guards, evalVars env vs with
    | some false, some rest => some rest
    | some true, some rest =>
      (match eval env v.data with
       | .row r => some ((v.name, v.dims, r) :: rest)
       | _ => none)
    | _, _ => none

/-- the dataset a program returns; `none` = an exception, or outside the language -/
def evalProg (env : UEnv) : UProg → Option (List UOutVar)
  | .dataset vars => evalVars env vars
  | .withArg a p => evalProg { env with arg := eval env a } p
  | .unsupported _ => none

/-- the variable called `name`, if there is exactly one -/
def outVar (vs : List UOutVar) (name : String) : Option (List String × MRow) :=
  match vs.filter (·.1 == name) with
  | [v] => some v.2
  | _ => none

/-- Reading a returned dataset as a mesh clip mask the way `UGrid.apply_clip_mask` does: `new_face_index` over
`old_face_index`, `new_node_index` over `old_node_index`, and `new_edge_index` over `old_edge_index` if present;
nothing else.  The order of the variables in the dataset does not matter. -/
def toMeshMask (vs : List UOutVar) : Option Clip.MeshMask :=
  match outVar vs "new_face_index", outVar vs "new_node_index" with
  | some (["old_face_index"], f), some (["old_node_index"], n) =>
    match vs.filter (·.1 == "new_edge_index") with
    | [] => if vs.length = 2 then some { newFace := f, newEdge := none, newNode := n } else none
    | [(_, ["old_edge_index"], e)] =>
      if vs.length = 3 then some { newFace := f, newEdge := some e, newNode := n } else none
    | _ => none
  | _, _ => none

/-- The environment of a mesh: the two masked tables, the counts, the hit list and the buffer.
`face_count` is the number of rows of `face_node_array` (both are the size of the face dimension). -/
def meshEnv (faceNode faceEdge : MTable) (nNodes : Nat) (nEdges : Option Nat) (hits : List Nat) (buffer : Int) :
    UEnv :=
  { faceNode := faceNode, faceEdge := faceEdge, nFaces := faceNode.length, nNodes := nNodes,
    nEdges := nEdges.getD 0, hasEdge := nEdges.isSome, hits := hits, buffer := buffer }

/-- The hand model's view of the same mesh: rows compressed. -/
def meshOf (faceNode faceEdge : MTable) (nNodes : Nat) (nEdges : Option Nat) : Clip.FaceMesh :=
  { nNodes := nNodes, faces := faceNode.map compressRow, nEdges := nEdges, faceEdges := faceEdge.map compressRow }

/-- every term that is `unsupported`, with its Python text (for diagnostics) -/
def UExpr.complaints : UExpr → List String
  | .unsupported s => [s]
  | .takeRows a b | .mem a b | .inter a b | .or a b | .and a b | .withArg a b => a.complaints ++ b.complaints
  | .compressed a | .unique a | .sort a | .tolist a | .setOf a | .truth a | .not a | .maskedFull a
  | .arange a | .len a | .astypeDouble a | .filledNan a => a.complaints
  | .enumGen a b c | .setItem a b c | .iterate a b c => a.complaints ++ b.complaints ++ c.complaints
  | _ => []

end Ems.UgridSrc
