import EmsModel.Core.Plot
/-
Core/PlotHistory.lean — histories of plot artists on ONE convention object.

`Convention.make_poly_collection` hands out a NEW artist on every call; what the caller then does
to an artist it holds (moving its vertices in place, overwriting its values, `set_clim`) is the
caller's business and concerns that artist alone.  The state of a history is the list of artists
handed out so far (a refused call leaves its refusal in the list, so positions stay aligned with
the calls); the cell polygons never change.
-/
namespace Ems

/-- what a caller does to an artist it holds (the part that matters for the artist's content) -/
inductive ArtistEdit
  | shift (dx dy : Rat)      -- `for p in pc.get_paths(): p.vertices += (dx, dy)`
  | scale (k : Rat)          -- `p.vertices *= k`
  | clim (lo hi : Rat)       -- `pc.set_clim(lo, hi)`
  | vals (x : Rat)           -- `pc.get_array()[...] = x`

/-- the edit applied to one artist; a refusal is not an artist and stays what it is -/
def ArtistEdit.apply : ArtistEdit → PlotResult → PlotResult
  | .shift dx dy, .ok paths a c => .ok (paths.map fun q => q.map fun p => (p.1 + dx, p.2 + dy)) a c
  | .scale k, .ok paths a c => .ok (paths.map fun q => q.map fun p => (p.1 * k, p.2 * k)) a c
  | .clim lo hi, .ok paths a _ => .ok paths a (some (lo, hi))
  | .vals x, .ok paths a c => .ok paths (a.map fun l => l.map fun _ => some x) c
  | _, r => r

/-- one step of a history: a call of `make_poly_collection`, or the caller changing (by any
function `f`) the `i`-th artist it was handed -/
inductive PlotStep
  | build (data : Option (Option (List (Option Rat)))) (ov : PlotOverrides)
  | edit (i : Nat) (f : PlotResult → PlotResult)

/-- the artists a caller holds after one more step -/
def plotStep (polys : List (Option Poly)) (held : List PlotResult) : PlotStep → List PlotResult
  | .build data ov => held ++ [makePolyCollection polys data ov]
  | .edit i f => held.modify i f

/-- the artists a caller holds after a history, starting from `held` -/
def playPlotFrom (polys : List (Option Poly)) (held : List PlotResult) (h : List PlotStep) : List PlotResult :=
  h.foldl (plotStep polys) held

/-- … starting with none -/
def playPlot (polys : List (Option Poly)) (h : List PlotStep) : List PlotResult :=
  playPlotFrom polys [] h

/-- what each call of the history hands out, by itself -/
def plotBuilds (polys : List (Option Poly)) : List PlotStep → List PlotResult
  | [] => []
  | .build data ov :: h => makePolyCollection polys data ov :: plotBuilds polys h
  | .edit _ _ :: h => plotBuilds polys h

/-- does the history ever touch artist `j`? -/
def editsArtist (j : Nat) : List PlotStep → Bool
  | [] => false
  | .build _ _ :: h => editsArtist j h
  | .edit i _ :: h => i == j || editsArtist j h

end Ems
