import EmsModel.Core.Lookup
/-
Core/LookupSrc.lean — the *source text* of `Convention.get_index_for_point` as data, with an evaluator that gives
it its Python meaning.  `harness/trans_lookupsrc.py` fills `Gen/LookupSrc.lean` from the working tree on every run;
`Props/C04Src.lean` proves that, evaluated, it is `Ems.getIndexForPoint`.  Core Lean only.
-/
namespace Ems.LookupSrc

/-- `get_index_for_point` as read from the source -/
structure Src where
  /-- the `predicate=` handed to `self.strtree.query(point, …)` -/
  predicate : String
  /-- the query result is wrapped in `numpy.sort(…)` / `sorted(…)` before anything is taken from it -/
  sortsHits : Bool
  /-- an item is built only under `if len(hits) > 0:` (or `if hits.size` …); otherwise `None` is returned -/
  guardNonEmpty : Bool
  /-- which hit is taken: `hits[pick]` -/
  pick : Int
  /-- `linear_index=` is the hit taken -/
  linearIsPick : Bool
  /-- `index=self.wind_index(linear_index)` with no grid kind argument -/
  nativeIsWindOfLinear : Bool
  /-- `polygon=self.polygons[linear_index]` -/
  polygonIsPolygonsAtLinear : Bool
deriving Repr, DecidableEq

/-- Python `l[i]` for a literal `i` -/
def lkGet (l : List Nat) (i : Int) : Option Nat :=
  if 0 ≤ i then l[i.toNat]? else if (-i).toNat ≤ l.length then l[l.length - (-i).toNat]? else none

/-- The meaning of the description, given what the spatial index returned for the predicate `intersects`
(`hits`, in whatever order). `none` = the description says something this model has no meaning for. -/
def eval (s : Src) (c : Conv) (polys : List (Option Poly)) (hits : List Nat) : Option (Option LookupItem) :=
  if s.predicate = "intersects" ∧ s.guardNonEmpty ∧ s.linearIsPick ∧ s.nativeIsWindOfLinear
      ∧ s.polygonIsPolygonsAtLinear then
    let hs := if s.sortsHits then hits.mergeSort (fun a b => decide (a ≤ b)) else hits
    match hs with
    | [] => some none
    | _ :: _ =>
      match lkGet hs s.pick with
      | some n => some (some { linear := n, native := c.windIndex none (n : Int), polygon := (polys[n]?).join })
      | none => none
  else none

end Ems.LookupSrc
