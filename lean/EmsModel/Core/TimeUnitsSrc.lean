import EmsModel.Core.TimeUnits
/-!
Core/TimeUnitsSrc.lean — the small languages into which `harness/trans_timeunits.py` translates, from the
**source text** of the working tree on every run, the functions behind "saving with the EMS fixes":

* `emsarray.utils.format_time_units_for_ems`  → a straight-line program `List Step` (the objects it builds out of
  cftime / pytz calls, its guard `if … != …: raise`, and the returned f-string as a `Template` of pieces whose
  interpolated fields are integer / Boolean / string expressions `IExpr` / `BExpr` / `SExpr`), run by `run`;
* `emsarray.utils.disable_default_fill_value`  → `FillProg` (loop source, condition tree, action), run by `fillRun`;
* `Convention.time_coordinate` and the SHOC overrides → `TcProg`, run by `tcRun`;
* `emsarray.utils.fix_time_units_for_ems`      → `List FixStep`, run by `fixRun`.

Every interpreter is total; `none` stands for "Python raises here" and for anything the translator could not
render (`unsupported "<python text>"`), so no theorem about a generated term survives an `unsupported` node.
The meaning given to the library calls (the `Atom`s) is the hand model's (`Core/TimeUnits.lean`: `datesplit`,
`parseDate`, `refInstant`, `CalOps`), so the theorems of `Props/C17Src.lean` tie the *shape of the code* — which
calls, on what, in which fields, formatted how — to the functions the property theorems are about.

Core Lean only.
-/
namespace Ems.TimeUnitsSrc

open Ems.TimeUnits

/-! ## Python's `format(n, spec)` for integers -/

/-- decimal digits of `n`, most significant first, with `fuel ≥` the number of digits -/
def natDigitsAux : Nat → Nat → Str
  | 0, n => [dch n]
  | fuel + 1, n => if n < 10 then [dch n] else natDigitsAux fuel (n / 10) ++ [dch n]

/-- `str(n)` for a natural number -/
def natDigits (n : Nat) : Str := natDigitsAux n n

/-- the sign option of a format spec: `-` (the default: only negative numbers get a sign), `+`, or a blank -/
inductive SignFlag | minusOnly | plus | space
deriving DecidableEq, Repr

/-- The integer format specs the translator accepts: `[sign][0][width][d]`
(`:02d` = `⟨.minusOnly, true, 2⟩`, `:4d` = `⟨.minusOnly, false, 4⟩`, `:d` / empty = `⟨.minusOnly, false, 0⟩`,
`:+03d` = `⟨.plus, true, 3⟩`).  Anything else (fill / align characters, grouping, precision, other
presentation types) is refused by the translator. -/
structure IntSpec where
  sign : SignFlag
  zero : Bool
  width : Nat
deriving DecidableEq, Repr

/-- `s.rjust(w, ch)` -/
def padLeft (ch : Char) (w : Nat) (s : Str) : Str := List.replicate (w - s.length) ch ++ s

/-- `format(n, spec)` for an `int`: the width is a **minimum** (never truncates); with the `0` flag the
padding is zeros between the sign and the digits, without it blanks before the sign (numbers are
right-aligned). -/
def fmtInt (sp : IntSpec) (n : Int) : Str :=
  let ds := natDigits n.natAbs
  let sg : Str :=
    if n < 0 then ['-'] else
      match sp.sign with
      | .plus => ['+']
      | .space => [' ']
      | .minusOnly => []
  if sp.zero then sg ++ padLeft '0' (sp.width - sg.length) ds else padLeft ' ' sp.width (sg ++ ds)

/-! ## the expression languages of the interpolated fields -/

/-- the inputs of the returned string: the lower-cased unit `cftime._datesplit(units)[0]`, the offset
`cftime._parse_date(…)[-1]` in minutes, and the fields of the reference time in the zone of that offset -/
structure TEnv where
  period : Str
  off : Int
  f : Fields

/-- Integer-valued Python expressions.  `offsetTotal` is `cftime._parse_date(date_string.strip())[-1]`
(a Python *float* holding a whole number of minutes); `year … second` are attributes of the local datetime
`reference.replace(tzinfo=UTC).astimezone(FixedOffset(offset))`; `floordiv` / `mod` are Python's `//` and `%`
(floor rounding; `divmod(a, b)` is the pair of them); `toInt` is `int(·)`. -/
inductive IExpr
  | lit (n : Int)
  | offsetTotal
  | year | month | day | hour | minute | second
  | neg (a : IExpr)
  | abs (a : IExpr)
  | toInt (a : IExpr)
  | add (a b : IExpr)
  | sub (a b : IExpr)
  | mul (a b : IExpr)
  | floordiv (a b : IExpr)
  | mod (a b : IExpr)
  | unsupported (py : String)
deriving Repr

/-- value of an integer expression; `none` = Python raises (division by zero) or untranslated -/
def evalI (e : TEnv) : IExpr → Option Int
  | .lit n => some n
  | .offsetTotal => some e.off
  | .year => some e.f.year
  | .month => some (e.f.month : Int)
  | .day => some (e.f.day : Int)
  | .hour => some (e.f.hour : Int)
  | .minute => some (e.f.minute : Int)
  | .second => some (e.f.second : Int)
  | .neg a => (evalI e a).map fun x => -x
  | .abs a => (evalI e a).map fun x => (x.natAbs : Int)
  | .toInt a => evalI e a
  | .add a b => match evalI e a, evalI e b with
    | some x, some y => some (x + y)
    | _, _ => none
  | .sub a b => match evalI e a, evalI e b with
    | some x, some y => some (x - y)
    | _, _ => none
  | .mul a b => match evalI e a, evalI e b with
    | some x, some y => some (x * y)
    | _, _ => none
  | .floordiv a b => match evalI e a, evalI e b with
    | some x, some y => if y = 0 then none else some (Int.fdiv x y)
    | _, _ => none
  | .mod a b => match evalI e a, evalI e b with
    | some x, some y => if y = 0 then none else some (Int.fmod x y)
    | _, _ => none
  | .unsupported _ => none

/-- Is the Python value an `int` (rather than a `float`)?  The `d` presentation type raises `ValueError` for a
float.  `offset_total` counts as a float (cftime returns `480.0`); `int(·)` and literals are ints; arithmetic
is an int iff both operands are. -/
def isInt : IExpr → Bool
  | .lit _ => true
  | .offsetTotal => false
  | .year | .month | .day | .hour | .minute | .second => true
  | .neg a => isInt a
  | .abs a => isInt a
  | .toInt _ => true
  | .add a b => isInt a && isInt b
  | .sub a b => isInt a && isInt b
  | .mul a b => isInt a && isInt b
  | .floordiv a b => isInt a && isInt b
  | .mod a b => isInt a && isInt b
  | .unsupported _ => false

/-- comparisons of integer expressions and the Boolean connectives (`and` / `or` short-circuit) -/
inductive BExpr
  | lt (a b : IExpr)
  | le (a b : IExpr)
  | gt (a b : IExpr)
  | ge (a b : IExpr)
  | eq (a b : IExpr)
  | ne (a b : IExpr)
  | not (a : BExpr)
  | and (a b : BExpr)
  | or (a b : BExpr)
  | unsupported (py : String)
deriving Repr

def cmpI (e : TEnv) (p : Int → Int → Bool) (a b : IExpr) : Option Bool :=
  match evalI e a, evalI e b with
  | some x, some y => some (p x y)
  | _, _ => none

def evalB (e : TEnv) : BExpr → Option Bool
  | .lt a b => cmpI e (fun x y => decide (x < y)) a b
  | .le a b => cmpI e (fun x y => decide (x ≤ y)) a b
  | .gt a b => cmpI e (fun x y => decide (x > y)) a b
  | .ge a b => cmpI e (fun x y => decide (x ≥ y)) a b
  | .eq a b => cmpI e (fun x y => decide (x = y)) a b
  | .ne a b => cmpI e (fun x y => decide (x ≠ y)) a b
  | .not a => (evalB e a).map (!·)
  | .and a b => match evalB e a with
    | some true => evalB e b
    | r => r
  | .or a b => match evalB e a with
    | some false => evalB e b
    | r => r
  | .unsupported _ => none

/-- string-valued expressions: a literal, the unit, a conditional expression `t if c else e` -/
inductive SExpr
  | lit (s : String)
  | period
  | ite (c : BExpr) (t e : SExpr)
  | unsupported (py : String)
deriving Repr

def evalS (e : TEnv) : SExpr → Option Str
  | .lit s => some s.toList
  | .period => some e.period
  | .ite c t f => match evalB e c with
    | some true => evalS e t
    | some false => evalS e f
    | none => none
  | .unsupported _ => none

/-! ## f-strings as templates -/

/-- One piece of an f-string, in source order: literal text; `{s}` for a string; `{n:spec}` for an integer;
one `strftime` directive of `{offset_datetime:%m-%d …}` (the literal characters between directives are `text`
pieces). Nested f-strings held in locals are spliced in by the translator. -/
inductive Piece
  | text (s : String)
  | str (e : SExpr)
  | int (e : IExpr) (spec : IntSpec)
  | strftime (d : Char)
  | unsupported (py : String)
deriving Repr

abbrev Template := List Piece

def spec02 : IntSpec := ⟨.minusOnly, true, 2⟩

/-- `datetime.strftime` of the local datetime, one directive: `%m %d %H %M %S` are two digits, zero padded;
`%Y` is the year **without padding** (glibc; years below 1000 come out as `990`).  Other directives are not
in the language. -/
def strftime1 (f : Fields) (d : Char) : Option Str :=
  if d = 'm' then some (fmtInt spec02 f.month)
  else if d = 'd' then some (fmtInt spec02 f.day)
  else if d = 'H' then some (fmtInt spec02 f.hour)
  else if d = 'M' then some (fmtInt spec02 f.minute)
  else if d = 'S' then some (fmtInt spec02 f.second)
  else if d = 'Y' then some (fmtInt ⟨.minusOnly, false, 0⟩ f.year)
  else none

def interpPiece (e : TEnv) : Piece → Option Str
  | .text s => some s.toList
  | .str x => evalS e x
  | .int x sp => if isInt x then (evalI e x).map (fmtInt sp) else none
  | .strftime d => strftime1 e.f d
  | .unsupported _ => none

/-- the string an f-string evaluates to; `none` where evaluating one of its fields raises -/
def interp (e : TEnv) : Template → Option Str
  | [] => some []
  | p :: r => match interpPiece e p, interp e r with
    | some a, some b => some (a ++ b)
    | _, _ => none

/-! ## `format_time_units_for_ems` as a program -/

/-- The objects the function builds, recognised by the call chain that builds them (locals inlined, parameters by
position):
* `split`     — `cftime._datesplit(units)`                       ↦ `datesplit units`
* `bits`      — `cftime._parse_date(split[1].strip())`           ↦ `parseDate (stripR ·)`
* `tz`        — `pytz.FixedOffset(bits[-1])`                     ↦ raises for |offset| ≥ 24 h
* `reference` — `cftime.num2pydate(0, units, calendar)`          ↦ `refInstant c calendar units`
* `localDt`   — `reference.replace(tzinfo=pytz.UTC).astimezone(tz)` ↦ `c.ofSec (t + 60·off)`, which must be a valid datetime
* `recheck`   — `cftime.num2pydate(0, <the returned string>, calendar)` -/
inductive Atom
  | split | bits | tz | reference | localDt | recheck
  | unsupported (py : String)
deriving DecidableEq, Repr

/-- conditions of `if …: raise`: inequality of two datetime objects, or a comparison of integer expressions -/
inductive Cond
  | neObj (a b : Atom)
  | test (b : BExpr)
  | unsupported (py : String)
deriving Repr

/-- Statements in source order: a statement that evaluates (and binds) an object; `if c: raise …`;
`return f'…'`. -/
inductive Step
  | eval (a : Atom)
  | raiseIf (c : Cond)
  | ret (t : Template)
  | unsupported (py : String)
deriving Repr

/-- what the atoms denote on given arguments, each `none` where Python raises -/
structure Objects where
  split : Option (Str × Str)
  bits : Option Bits
  tz : Option Int
  reference : Option (Int × Bool)
  localDt : Option Fields
  recheck : Option (Int × Bool)

/-- `astimezone`: the fields of instant `t` in the zone `off` minutes east; raises outside year 1..9999 -/
def localFields (c : CalOps) (t off : Int) : Option Fields :=
  if c.valid (c.ofSec (t + 60 * off)) = false then none else some (c.ofSec (t + 60 * off))

def objects (c : CalOps) (calendar units : Str) : Objects :=
  let split := datesplit units
  let bits := split.bind fun s => parseDate (stripR s.2)
  let tz := bits.bind fun b => if 1440 ≤ b.off.natAbs then none else some b.off
  let reference := refInstant c calendar units
  let localDt := match reference, tz with
    | some r, some off => localFields c r.1 off
    | _, _ => none
  ⟨split, bits, tz, reference, localDt, none⟩

def atomOk (o : Objects) : Atom → Bool
  | .split => o.split.isSome
  | .bits => o.bits.isSome
  | .tz => o.tz.isSome
  | .reference => o.reference.isSome
  | .localDt => o.localDt.isSome
  | .recheck => o.recheck.isSome
  | .unsupported _ => false

/-- the instant of a datetime-valued atom (seconds, has-microseconds) -/
def atomInstant (o : Objects) : Atom → Option (Int × Bool)
  | .reference => o.reference
  | .recheck => o.recheck
  | _ => none

/-- the inputs of the f-string: defined when all the objects it reads from could be built -/
def tenv (o : Objects) : Option TEnv :=
  match o.split, o.bits, o.tz, o.localDt with
  | some s, some b, some _, some f => some ⟨s.1, b.off, f⟩
  | _, _, _, _ => none

def evalCond (o : Objects) (e : Option TEnv) : Cond → Option Bool
  | .neObj a b => match atomInstant o a, atomInstant o b with
    | some x, some y => some (x != y)
    | _, _ => none
  | .test b => e.bind fun e => evalB e b
  | .unsupported _ => none

/-- the template of the first `return` -/
def resultTemplate : List Step → Option Template
  | [] => none
  | .ret t :: _ => some t
  | _ :: r => resultTemplate r

def runSteps (o : Objects) (e : Option TEnv) : List Step → Option Str
  | [] => none                       -- falls off the end: no string is returned
  | .eval a :: r => if atomOk o a then runSteps o e r else none
  | .raiseIf c :: r => match evalCond o e c with
    | some false => runSteps o e r
    | _ => none
  | .ret t :: _ => e.bind fun e => interp e t
  | .unsupported _ :: _ => none

/-- **The generated program run on `(units, calendar)`**: the string returned, `none` where it raises. -/
def run (c : CalOps) (prog : List Step) (calendar units : Str) : Option Str :=
  let o := objects c calendar units
  let e := tenv o
  let out := (resultTemplate prog).bind fun t => e.bind fun e => interp e t
  runSteps { o with recheck := out.bind (refInstant c calendar) } e prog

/-! ## `disable_default_fill_value` -/

/-- `numpy.dtype.kind` of the model's dtype classes -/
def kindChar : DKind → Char
  | .bool => 'b' | .int => 'i' | .uint => 'u' | .float => 'f' | .complex => 'c'
  | .datetime => 'M' | .timedelta => 'm' | .str => 'U' | .bytes => 'S' | .object => 'O'

/-- The decision, as written: `promoteStable` is `variable.dtype == maybe_promote(variable.dtype)[0]`;
`kindIn s` is `variable.dtype.kind in s`; `encHas k` / `attrHas k` are `k in variable.encoding` /
`k in variable.attrs`; `and` / `or` short-circuit. -/
inductive FillCond
  | promoteStable
  | kindIn (chars : String)
  | encHas (key : String)
  | attrHas (key : String)
  | not (a : FillCond)
  | and (a b : FillCond)
  | or (a b : FillCond)
  | unsupported (py : String)
deriving Repr

/-- the only key the model's `VarDesc` knows about -/
def fillKey : String := "_FillValue"

def fillCondEval (v : VarDesc) : FillCond → Option Bool
  | .promoteStable => some (Ems.TimeUnits.promoteStable v.mem)
  | .kindIn s => some (s.toList.contains (kindChar v.mem))
  | .encHas k => if k = fillKey then some (v.enc != .absent) else none
  | .attrHas k => if k = fillKey then some v.attr else none
  | .not a => (fillCondEval v a).map (!·)
  | .and a b => match fillCondEval v a with
    | some true => fillCondEval v b
    | r => r
  | .or a b => match fillCondEval v a with
    | some false => fillCondEval v b
    | r => r
  | .unsupported _ => none

/-- `variable.encoding[key] = None` -/
inductive FillAction
  | setEncNone (key : String)
  | unsupported (py : String)
deriving Repr

inductive FillStmt
  | when (c : FillCond) (a : FillAction)
  | unsupported (py : String)
deriving Repr

/-- what the loop runs over: `_get_variables(dataset_or_array)` — every variable of the dataset (coordinates
included) or the one variable of a data array -/
inductive FillOver
  | allVariables
  | unsupported (py : String)
deriving DecidableEq, Repr

structure FillProg where
  over : FillOver
  body : List FillStmt
deriving Repr

def fillAct (v : VarDesc) : FillAction → Option VarDesc
  | .setEncNone k => if k = fillKey then some { v with enc := .none } else none
  | .unsupported _ => none

def fillBody (v : VarDesc) : List FillStmt → Option VarDesc
  | [] => some v
  | .when c a :: r => match fillCondEval v c with
    | some true => (fillAct v a).bind fun v' => fillBody v' r
    | some false => fillBody v r
    | none => none
  | .unsupported _ :: _ => none

/-- the loop body on one variable -/
def fillRun (p : FillProg) (v : VarDesc) : Option VarDesc :=
  if p.over = .allVariables then fillBody v p.body else none

/-! ## `Convention.time_coordinate` -/

/-- `needle in haystack` for strings -/
def strContains (needle : Str) : Str → Bool
  | [] => needle.isEmpty
  | c :: r => needle.isPrefixOf (c :: r) || strContains needle r

/-- the tests of the generic search, in the order of the nested `if`s -/
inductive TcCond
  | encHas (key : String)                      -- `key in variable.encoding`
  | encContains (needle key : String)          -- `needle in variable.encoding[key]`
  | isDatetime64                               -- `variable.dtype.type == numpy.datetime64`
  | unsupported (py : String)
deriving Repr

/-- * `search conds` — `for name in self.dataset.variables.keys(): variable = self.dataset[name]; if c₁: if c₂: …
  return variable` and, after the loop, `raise NoSuchCoordinateError`;
* `named n` — `if n not in self.dataset.variables: raise NoSuchCoordinateError` then `return self.dataset[n]`. -/
inductive TcProg
  | search (conds : List TcCond)
  | named (name : String)
  | unsupported (py : String)
deriving Repr

def tcCondEval (v : TVar) : TcCond → Option Bool
  | .encHas k => if k = "units" then some v.encUnits.isSome else none
  | .encContains needle k =>
    if k = "units" then
      match v.encUnits with
      | some u => some (strContains needle.toList u)
      | none => none                            -- KeyError
    else none
  | .isDatetime64 => some v.isDatetime
  | .unsupported _ => none

/-- nested `if`s: all hold, tested in order, stopping at the first that fails -/
def tcAll (v : TVar) : List TcCond → Option Bool
  | [] => some true
  | c :: r => match tcCondEval v c with
    | some true => tcAll v r
    | other => other

def tcSearch (conds : List TcCond) : List TVar → Option (Option String)
  | [] => some none
  | v :: r => match tcAll v conds with
    | some true => some (some v.name)
    | some false => tcSearch conds r
    | none => none

/-- the name of the time coordinate; `some none` = `NoSuchCoordinateError`; `none` = another exception -/
def tcRun : TcProg → List TVar → Option (Option String)
  | .search conds, vs => tcSearch conds vs
  | .named n, vs => some (if vs.any (fun v => v.name == n) then some n else none)
  | .unsupported _, _ => none

/-! ## `fix_time_units_for_ems` -/

/-- `attr n` — `variable.getncattr(n)` (raises when absent); `attrOr n d` — `variable.getncattr(n) or d` (the default as a character list);
`format u c` — `format_time_units_for_ems(u, c)`. -/
inductive FixVal
  | attr (name : String)
  | attrOr (name : String) (dflt : Str)
  | format (units calendar : FixVal)
  | unsupported (py : String)
deriving Repr

/-- `openRW` — `with netCDF4.Dataset(dataset_path, 'r+') as dataset` (everything else happens inside);
`write n v` — `dataset.variables[str(variable_name)].setncattr(n, v)`; `sync` — `dataset.sync()`. -/
inductive FixStep
  | openRW
  | write (name : String) (v : FixVal)
  | sync
  | unsupported (py : String)
deriving Repr

/-- the attributes of the time variable the model tracks -/
structure FixAttrs where
  units : Option Str
  calendar : Option Str

def fixGet (a : FixAttrs) (n : String) : Option Str :=
  if n = "units" then a.units else if n = "calendar" then a.calendar else none

def fixVal (fmt : Str → Str → Option Str) (a : FixAttrs) : FixVal → Option Str
  | .attr n => fixGet a n
  | .attrOr n d => (fixGet a n).map fun s => if s.isEmpty then d else s
  | .format u c => match fixVal fmt a u, fixVal fmt a c with
    | some u, some cal => fmt cal u
    | _, _ => none
  | .unsupported _ => none

def fixSteps (fmt : Str → Str → Option Str) (opened : Bool) (a : FixAttrs) : List FixStep → Option FixAttrs
  | [] => some a
  | .openRW :: r => fixSteps fmt true a r
  | .write n v :: r =>
    if opened = false then none else
    match fixVal fmt a v with
    | some s =>
      if n = "units" then fixSteps fmt opened { a with units := some s } r
      else if n = "calendar" then fixSteps fmt opened { a with calendar := some s } r
      else none
    | none => none
  | .sync :: r => if opened then fixSteps fmt opened a r else none
  | .unsupported _ :: _ => none

/-- the `units` attribute of the time variable after the function has run; `none` where it raises -/
def fixRun (fmt : Str → Str → Option Str) (prog : List FixStep) (units calendar : Option Str) : Option Str :=
  (fixSteps fmt false ⟨units, calendar⟩ prog).bind (·.units)

end Ems.TimeUnitsSrc
