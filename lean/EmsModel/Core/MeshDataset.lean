import EmsModel.Core.Mesh
/-
Core/MeshDataset.lean — the dataset level of `Mesh2DTopology`: mesh attributes, variable
lookup, dimension discovery, the `has_valid_*_connectivity` tests, and the glue that hands
the decoded tables to `Core/Mesh.lean`.

Models `Mesh2DTopology.mesh_attributes`, `node_x / node_y / face_x / face_y`,
`face_dimension`, `node_dimension`, `has_edge_dimension`, `edge_dimension`,
`max_node_dimension`, `two_dimension`, `edge_count`, `has_valid_*_connectivity`,
`face_node_array … face_face_array`, `UGrid._make_polygons`, `UGrid.face_centres`
(stored-centre branch only).

Coordinate variables are looked up among *all* variables of the dataset (data variables and
xarray coordinates alike): that is what the property demands.
-/
namespace Ems.Mesh

structure Var where
  name : String
  /-- held as an xarray coordinate (so not in `dataset.data_vars`) -/
  isCoord : Bool
  dims : List String
  /-- the 2-D integer-like payload if this is a connectivity variable -/
  conn : Option Stored
  /-- `_FillValue` in `.encoding` (after a netCDF round trip) -/
  encFill : Option Int
  /-- values of a 1-D numeric (coordinate) variable -/
  vals : List Rat
  deriving Repr

structure DS where
  /-- string-valued attributes of the mesh topology variable -/
  attrs : List (String × String)
  /-- every variable, data variables and coordinates -/
  vars : List Var
  /-- `dataset.sizes`, in order -/
  sizes : List (String × Nat)
  deriving Repr

/-- Known deviations of the unchanged code from what the property demands.  The primary
model has every switch off; a switch reproduces one recorded finding so that the
correspondence can tell "still the known deviation" from "something else". -/
structure Quirks where
  /-- node / face coordinate variables are looked up in `dataset.data_vars` only, so variables
  held as xarray coordinates are not found -/
  coordsInDataVars : Bool := false
  /-- `two_dimension` is guessed as the first dimension of size two, without looking at the
  edge tables -/
  twoDimGuess : Bool := false
  deriving Repr

namespace DS

def attr? (ds : DS) (key : String) : Option String := ds.attrs.lookup key

/-- `dataset.variables[name]` -/
def anyVar? (ds : DS) (name : String) : Option Var := ds.vars.find? (·.name = name)

/-- `dataset.data_vars[name]` (KeyError for coordinates) -/
def dataVar? (ds : DS) (name : String) : Option Var :=
  ds.vars.find? (fun v => v.name = name && !v.isCoord)

def size? (ds : DS) (dim : String) : Option Nat := ds.sizes.lookup dim

/-- `_split_coord`: `attr.split(None, 1)` must give two names (more words are outside the model) -/
def splitCoord (s : String) : Except Err (String × String) :=
  match (s.splitOn " ").filter (· ≠ "") with
  | [x, y] => .ok (x, y)
  | [] => .error .value
  | [_] => .error .value
  | _ => .error .unmodelled

/-- the connectivity variable named by attribute `key`, looked up in `data_vars` (`none` = KeyError) -/
def connVar? (ds : DS) (key : String) : Option Var :=
  match ds.attr? key with
  | none => none
  | some name => ds.dataVar? name

/-- `node_x`, `node_y` — looked up in all variables -/
def coordVar? (ds : DS) (q : Quirks) (name : String) : Option Var :=
  if q.coordsInDataVars then ds.dataVar? name else ds.anyVar? name

def nodeCoords (ds : DS) (q : Quirks := {}) : Except Err (Var × Var) :=
  match ds.attr? "node_coordinates" with
  | none => .error .key
  | some s =>
    match splitCoord s with
    | .error e => .error e
    | .ok (x, y) =>
      match ds.coordVar? q x, ds.coordVar? q y with
      | some vx, some vy => .ok (vx, vy)
      | _, _ => .error .key

/-- `face_x`, `face_y` — `None` if the attribute or either variable is missing -/
def faceCoords (ds : DS) (q : Quirks := {}) : Option (Var × Var) :=
  match ds.attr? "face_coordinates" with
  | none => none
  | some s =>
    match splitCoord s with
    | .error _ => none
    | .ok (x, y) =>
      match ds.coordVar? q x, ds.coordVar? q y with
      | some vx, some vy => some (vx, vy)
      | _, _ => none

/-- `node_dimension` -/
def nodeDim (ds : DS) (q : Quirks := {}) : Except Err String :=
  match ds.nodeCoords q with
  | .error e => .error e
  | .ok (vx, _) => match vx.dims with
    | d :: _ => .ok d
    | [] => .error .index

/-- `face_node_connectivity` -/
def faceNodeVar (ds : DS) : Except Err Var :=
  match ds.connVar? "face_node_connectivity" with
  | none => .error .key
  | some v => .ok v

/-- `face_dimension` -/
def faceDim (ds : DS) : Except Err String :=
  match ds.attr? "face_dimension" with
  | some d => .ok d
  | none => match ds.faceNodeVar with
    | .error e => .error e
    | .ok v => match v.dims with
      | d :: _ => .ok d
      | [] => .error .index

/-- `max_node_dimension`: the other dimension of the face-node variable -/
def maxNodeDim (ds : DS) : Except Err String :=
  match ds.faceNodeVar, ds.faceDim with
  | .error e, _ => .error e
  | _, .error e => .error e
  | .ok v, .ok fd =>
    match v.dims with
    | [a, b] =>
      if a = b then .error .unmodelled
      else if a = fd then .ok b else if b = fd then .ok a else .error .key
    | _ => .error .unmodelled

/-- `has_edge_dimension` -/
def hasEdgeDim (ds : DS) : Bool :=
  (ds.attr? "edge_dimension").isSome ||
  ["edge_node_connectivity", "edge_face_connectivity"].any fun key =>
    match ds.attr? key with
    | none => false
    | some name => (ds.anyVar? name).isSome

/-- `edge_dimension` -/
def edgeDim (ds : DS) : Except Err String :=
  if !ds.hasEdgeDim then .error .noEdgeDim
  else match ds.attr? "edge_dimension" with
    | some d => .ok d
    | none =>
      let vars := ["edge_node_connectivity", "edge_face_connectivity"].filterMap fun key =>
        (ds.attr? key).bind ds.anyVar?
      match vars with
      | v :: _ => match v.dims with
        | d :: _ => .ok d
        | [] => .error .index
      | [] => .error .noEdgeDim

/-- `two_dimension`: the standard name `Two` if that dimension has size two; otherwise the
size-two dimension the supplied edge tables actually use next to the edge dimension;
otherwise any dimension of size two; otherwise `Two`. -/
def twoDim (ds : DS) (q : Quirks := {}) : String :=
  if ds.size? "Two" = some 2 then "Two"
  else
    let fromTables : Option String :=
      if q.twoDimGuess then none
      else match ds.edgeDim with
        | .error _ => none
        | .ok ed =>
          (["edge_node_connectivity", "edge_face_connectivity"].filterMap fun key =>
            (ds.attr? key).bind ds.anyVar?).findSome? fun v =>
              v.dims.find? fun d => d ≠ ed && ds.size? d = some 2
    match fromTables with
    | some d => d
    | none => match ds.sizes.find? (·.2 = 2) with
      | some (name, _) => name
      | none => "Two"

def sameSet (a b : List String) : Bool := a.all (b.contains ·) && b.all (a.contains ·)

/-- the exception `sensible_fill_value` raises: it needs `node_count`, hence `node_x` -/
def fillValueErr (ds : DS) (q : Quirks := {}) : Option Err :=
  match ds.nodeDim q with
  | .error e => some e
  | .ok d => if (ds.size? d).isSome then none else some .key

/-- `_to_index_array` of a variable that must carry a connectivity payload.  On float storage
the code evaluates `sensible_fill_value` (after the dimension test, before the start index). -/
def decode (ds : DS) (q : Quirks) (v : Var) (primary : String) : Except Err Table :=
  match v.conn with
  | none => .error .unmodelled
  | some st =>
    match st.payload, ds.fillValueErr q with
    | .float _, some e =>
      if primary ≠ st.dims.1 ∧ primary ≠ st.dims.2 then toIndexArray st primary else .error e
    | _, _ => toIndexArray st primary

/-- `face_node_array` -/
def faceNodeArray (ds : DS) (q : Quirks := {}) : Except Err Table :=
  match ds.faceNodeVar, ds.faceDim with
  | .error e, _ => .error e
  | _, .error e => .error e
  | .ok v, .ok fd => ds.decode q v fd

/-- `max_node_count` -/
def maxNodeCount (ds : DS) : Except Err Nat :=
  match ds.maxNodeDim with
  | .error e => .error e
  | .ok d => match ds.size? d with
    | some n => .ok n
    | none => .error .key

/-- `face_count` -/
def faceCount (ds : DS) : Except Err Nat :=
  match ds.faceDim with
  | .error e => .error e
  | .ok d => match ds.size? d with
    | some n => .ok n
    | none => .error .key

/-- the variable of an edge table (`edge_node` / `edge_face`) if it passes `has_valid_*` -/
def validEdgeVar? (ds : DS) (q : Quirks) (key : String) : Option Var :=
  if !ds.hasEdgeDim then none
  else match ds.connVar? key, ds.edgeDim with
    | some v, .ok ed => if sameSet v.dims [ed, ds.twoDim q] then some v else none
    | _, _ => none

/-- the variable of a face table (`face_edge` / `face_face`) if its dimensions are right -/
def validFaceVar? (ds : DS) (key : String) : Option Var :=
  match ds.connVar? key, ds.faceDim, ds.maxNodeDim with
  | some v, .ok fd, .ok md => if sameSet v.dims [fd, md] then some v else none
  | _, _, _ => none

/-- the start index as `has_valid_face_edge_connectivity` reads it (`lower_bound`) -/
def lowerBound (v : Var) : Except Err Int :=
  match v.conn with
  | none => .error .unmodelled
  | some st => (getStartIndex st.startIndex).map (·.1)

/-- everything but the face-edge and face-face slots -/
def topoBase (ds : DS) (numbering : Option (List Pair)) (q : Quirks := {}) : Except Err TopoIn := do
  let w ← ds.maxNodeCount
  let nf ← ds.faceCount
  let edgeDimSize : Option Nat := match ds.edgeDim with
    | .ok d => ds.size? d
    | .error _ => none
  let edgeTable (key : String) : Option (Except Err Table) :=
    match ds.validEdgeVar? q key, ds.edgeDim with
    | some v, .ok ed => some (ds.decode q v ed)
    | _, _ => none
  pure { faceNode := ds.faceNodeArray q, fillValueErr := ds.fillValueErr q, nfaces := nf, width := w,
         hasEdgeDim := ds.hasEdgeDim, edgeDimSize := edgeDimSize,
         edgeNode := edgeTable "edge_node_connectivity", faceEdge := none,
         edgeFace := edgeTable "edge_face_connectivity", faceFace := none, numbering := numbering }

/-- `has_valid_face_edge_connectivity`: the dimensions, then — if the variable carries an
encoded `_FillValue` — that the fill value lies outside `[start_index, edge_count + start_index]`
(reading `start_index` or counting the edges may raise); skipped when the mesh has no edge dimension -/
def faceEdgeValid (ds : DS) (base : TopoIn) : Except Err Bool :=
  match ds.validFaceVar? "face_edge_connectivity" with
  | none => .ok false
  | some v =>
    match v.encFill with
    | none => .ok true
    | some fill =>
      -- (without an edge dimension there is no edge count to check the fill value against: the check is skipped)
      if !base.hasEdgeDim then .ok true else
      match lowerBound v, base.edgeCount with
      | .error e, _ => .error e
      | _, .error e => .error e
      | .ok lo, .ok n => .ok (!(decide (lo ≤ fill) && decide (fill ≤ (n : Int) + lo)))

/-- Everything the table level needs, or the exception raised while collecting it.
The order of the steps follows the property accesses of the real code. -/
def topoIn (ds : DS) (numbering : Option (List Pair)) (q : Quirks := {}) : Except Err TopoIn := do
  let base ← ds.topoBase numbering q
  let fe : Option (Except Err Table) :=
    match ds.faceEdgeValid base, ds.validFaceVar? "face_edge_connectivity", ds.faceDim with
    | .error e, _, _ => some (.error e)
    | .ok true, some v, .ok fd => some (ds.decode q v fd)
    | _, _, _ => none
  let ff : Option (Except Err Table) :=
    match ds.validFaceVar? "face_face_connectivity", ds.faceDim with
    | some v, .ok fd => some (ds.decode q v fd)
    | _, _ => none
  pure { base with faceEdge := fe, faceFace := ff }

/-- the five `has_valid_*_connectivity` flags: face_node, edge_node, face_edge, edge_face, face_face -/
def hasValid (ds : DS) (numbering : Option (List Pair)) (q : Quirks := {}) : List (Except Err Bool) :=
  [ .ok (ds.validFaceVar? "face_node_connectivity").isSome,
    .ok (ds.validEdgeVar? q "edge_node_connectivity").isSome,
    (match ds.topoBase numbering q with
      | .error e => .error e
      | .ok base => ds.faceEdgeValid base),
    .ok (ds.validEdgeVar? q "edge_face_connectivity").isSome,
    .ok (ds.validFaceVar? "face_face_connectivity").isSome ]

/-- `UGrid._make_polygons`: the vertex ring of every face -/
def polygonRings (ds : DS) (q : Quirks := {}) : Except Err (List (List (Rat × Rat))) :=
  match ds.nodeCoords q, ds.faceNodeArray q with
  | .error e, _ => .error e
  | _, .error e => .error e
  | .ok (vx, vy), .ok fn =>
    match polygons (vx.vals.zip vy.vals) (facesOf fn) with
    | none => .error .index
    | some rings => .ok rings

/-- `UGrid.face_centres` when the dataset stores them (`none`: centroids are used) -/
def storedFaceCentres (ds : DS) (q : Quirks := {}) : Option (List (Rat × Rat)) :=
  (ds.faceCoords q).map fun (vx, vy) => vx.vals.zip vy.vals

end DS

/-! ## two tiny datasets used as witnesses in `Props/C10.lean` -/

private def conn (dims : String × String) (shape : Nat × Nat) (rows : List (List Int)) : Option Stored :=
  some { dims := dims, shape := shape, payload := .int rows none, startIndex := .absent }

/-- one triangle; node and face coordinates held as xarray coordinates -/
def witnessCoords : DS :=
  { attrs := [("node_coordinates", "nx ny"), ("face_node_connectivity", "fn"), ("face_coordinates", "fx fy")],
    sizes := [("nnode", 3), ("nface", 1), ("nmax", 3)],
    vars := [
      { name := "nx", isCoord := true, dims := ["nnode"], conn := none, encFill := none, vals := [0, 2, 0] },
      { name := "ny", isCoord := true, dims := ["nnode"], conn := none, encFill := none, vals := [0, 0, 2] },
      { name := "fx", isCoord := true, dims := ["nface"], conn := none, encFill := none, vals := [1] },
      { name := "fy", isCoord := true, dims := ["nface"], conn := none, encFill := none, vals := [1] },
      { name := "fn", isCoord := false, dims := ["nface", "nmax"], conn := conn ("nface", "nmax") (1, 3) [[0, 1, 2]],
        encFill := none, vals := [] }] }

/-- two quadrilaterals, the edge-node table supplied with second dimension `nv` (not `Two`);
the face dimension has size two and comes first -/
def witnessTwoDim : DS :=
  { attrs := [("node_coordinates", "nx ny"), ("face_node_connectivity", "fn"),
              ("edge_node_connectivity", "en"), ("edge_dimension", "nedge")],
    sizes := [("nnode", 6), ("nface", 2), ("nmax", 4), ("nedge", 7), ("nv", 2)],
    vars := [
      { name := "nx", isCoord := false, dims := ["nnode"], conn := none, encFill := none, vals := [0, 2, 2, 0, 4, 4] },
      { name := "ny", isCoord := false, dims := ["nnode"], conn := none, encFill := none, vals := [0, 0, 2, 2, 0, 2] },
      { name := "fn", isCoord := false, dims := ["nface", "nmax"],
        conn := conn ("nface", "nmax") (2, 4) [[0, 1, 2, 3], [5, 2, 1, 4]], encFill := none, vals := [] },
      { name := "en", isCoord := false, dims := ["nedge", "nv"],
        conn := conn ("nedge", "nv") (7, 2) [[2, 3], [0, 3], [0, 1], [1, 2], [1, 4], [4, 5], [2, 5]],
        encFill := none, vals := [] }] }

end Ems.Mesh
