/-
Core/Mask.lean — two-dimensional boolean masks and the grid clip-mask pipeline.

Models
* `emsarray.masking.blur_mask`, `emsarray.masking.smear_mask`,
* `emsarray.conventions.arakawa_c.c_mask_from_centres`,
* `emsarray.conventions.grid.CFGrid.make_clip_mask`,
* `emsarray.conventions.arakawa_c.ArakawaC.make_clip_mask`
together with the numpy primitives they are written with (`numpy.pad`, basic slicing +
`numpy.any`, `operator.or_`, `ravel()[idx] = True`, `reshape`).
Total, computable, core Lean only.
-/
namespace Ems.Clip

/-- A two-dimensional boolean numpy array of shape `(ny, nx)`; `rows` is the C-order
content row by row.  (The shape is carried explicitly so that `0 × n` arrays keep `n`.) -/
structure Mask where
  ny : Nat
  nx : Nat
  rows : List (List Bool)
deriving DecidableEq, Repr

namespace Mask

/-- `arr[j, i]`, and `False` for a position outside the array. -/
def get (m : Mask) (j i : Nat) : Bool :=
  decide (j < m.ny) && (decide (i < m.nx) && (m.rows.getD j []).getD i false)

/-- The array of shape `(ny, nx)` whose entry `(j, i)` is `f j i`
(`numpy.fromiter(..., count=ny*nx).reshape(ny, nx)` over C-order positions). -/
def ofFn (ny nx : Nat) (f : Nat → Nat → Bool) : Mask :=
  ⟨ny, nx, (List.range ny).map fun j => (List.range nx).map fun i => f j i⟩

/-- C-order flattening, `arr.ravel()`. -/
def flat (m : Mask) : List Bool :=
  (List.range m.ny).flatMap fun j => (List.range m.nx).map fun i => m.get j i

/-- `flat.reshape(ny, nx)` -/
def reshape (ny nx : Nat) (flat : List Bool) : Mask :=
  ofFn ny nx fun j i => flat.getD (j * nx + i) false

/-- `numpy.pad(arr, ((bj, aj), (bi, ai)), constant_values=False)` -/
def pad (m : Mask) (bj aj bi ai : Nat) : Mask :=
  ofFn (bj + m.ny + aj) (bi + m.nx + ai) fun j i =>
    decide (bj ≤ j) && (decide (bi ≤ i) && m.get (j - bj) (i - bi))

/-- `numpy.any(arr[j0 : j0 + h, i0 : i0 + w])` (basic slices clip at the array end). -/
def anyWindow (m : Mask) (j0 i0 h w : Nat) : Bool :=
  (List.range h).any fun dj => (List.range w).any fun di => m.get (j0 + dj) (i0 + di)

/-- `emsarray.masking.blur_mask(arr, size)`: pad by `size` on every side, then each cell is
`arr[index] or numpy.any(padded[index : index + 2*size + 1])`. -/
def blur (m : Mask) (size : Nat) : Mask :=
  let padded := m.pad size size size size
  ofFn m.ny m.nx fun j i =>
    m.get j i || padded.anyWindow j i (size * 2 + 1) (size * 2 + 1)

/-- `blur_mask` as a callable: `numpy.pad` raises on a negative pad width (`none`). -/
def blur? (m : Mask) (size : Int) : Option Mask :=
  if size < 0 then none else some (m.blur size.toNat)

/-- `operator.or_` of two boolean arrays (shape of the left operand). -/
def or2 (a b : Mask) : Mask :=
  ofFn a.ny a.nx fun j i => a.get j i || b.get j i

/-- One axis' choice list in `smear_mask`: `[(1, 0), (0, 1)] if pad_axis else [(0, 0)]`. -/
def axisPaddings (p : Bool) : List (Nat × Nat) :=
  if p then [(1, 0), (0, 1)] else [(0, 0)]

/-- `functools.reduce(operator.or_, xs)`; the empty case cannot arise in `smear_mask`. -/
def reduceOr (dflt : Mask) : List Mask → Mask
  | [] => dflt
  | p :: ps => ps.foldl or2 p

/-- `emsarray.masking.smear_mask(arr, [py, px])`:
`itertools.product` of the per-axis paddings, `numpy.pad` with each, OR of all of them. -/
def smear (m : Mask) (py px : Bool) : Mask :=
  reduceOr m
    ((axisPaddings py).flatMap fun a => (axisPaddings px).map fun b => m.pad a.1 a.2 b.1 b.2)

end Mask

/-- The four masks returned by `c_mask_from_centres`. -/
structure CMask where
  face : Mask
  back : Mask
  left : Mask
  node : Mask
deriving DecidableEq, Repr

/-- `emsarray.conventions.arakawa_c.c_mask_from_centres(face_mask, …)`:
`left = smear [False, True]`, `back = smear [True, False]`, `node = smear [True, True]`. -/
def cMaskFromCentres (face : Mask) : CMask :=
  { face := face
    back := face.smear true false
    left := face.smear false true
    node := face.smear true true }

/-- `mask = numpy.full(size, False); mask[hits] = True` on the flat view. -/
def flatMask (size : Nat) (hits : List Nat) : List Bool :=
  hits.foldl (fun acc n => acc.set n true) (List.replicate size false)

/-- `CFGrid.make_clip_mask` / the face part of `ArakawaC.make_clip_mask`:
the STRtree hit list (in whatever order it arrives) is written into the flat view of the
`(ny, nx)` mask; `if buffer > 0: mask = blur_mask(mask, size=buffer)`. -/
def gridClipMask (ny nx : Nat) (hits : List Nat) (buffer : Int) : Mask :=
  let m := Mask.reshape ny nx (flatMask (ny * nx) hits)
  if buffer > 0 then m.blur buffer.toNat else m

/-- `ArakawaC.make_clip_mask` -/
def arakawaClipMask (ny nx : Nat) (hits : List Nat) (buffer : Int) : CMask :=
  cMaskFromCentres (gridClipMask ny nx hits buffer)

end Ems.Clip
