import EmsModel.Core.GeomProto
import EmsModel.Core.UgridSrcPoly
import EmsModel.Gen.UgridSrc
/-!
Core/UgridSrcProto.lean — the line-protocol operation that runs the program GENERATED FROM THE SOURCE of
`UGrid._make_polygons` (`Gen.UgridSrc.ugridPolygons`, written by `harness/trans_ugridsrc.py`) on the generator's ground truth:

`polys-src ugrid nodex=… nodey=… faces=<a,b,c;d,e,f,g> width=<w> valid=… [nob=1]`
    → `<rings> M=<mask> B=<bbox> W=<warned>`, exactly as `polys ugrid …` prints it, or `ERR`.

The masked `face_node_array` handed to the program has the rows of `faces` padded with masked entries up to `width`
columns (what the generator writes to the file); the data under a masked entry is a number beyond every node table, so a
program that read it would fail instead of silently agreeing.
-/
namespace Ems.UgridSrcProto
open Ems Ems.Proto Ems.GeomProto Ems.UgridSrc

/-- data under the mask of a padding entry: outside every node table the protocol can carry -/
def padData : Nat := 1000000007

def padRow (w : Nat) (r : List Nat) : List (Nat × Bool) :=
  r.map (fun n => (n, false)) ++ List.replicate (w - r.length) (padData, true)

def srcPolys (args : List String) : Option (List (Option Poly)) := do
  let xs ← parseRats? (← kv args "nodex")
  let ys ← parseRats? (← kv args "nodey")
  let faces ← Proto.allSome (((← kv args "faces").splitOn ";").map (parseNatList? ·))
  let w ← parseNat? (← kv args "width")
  pRun (polyEnv' (faces.map (padRow w)) xs ys) Gen.UgridSrc.ugridPolygons
where
  polyEnv' (T : DTable) (xs ys : List Rat) : PEnv := { faceNode := T, nodeX := xs, nodeY := ys, nFaces := T.length }

def stepPolysSrc (args : List String) : String :=
  match srcPolys args, validityOf (kv args "valid") with
  | some raw, some f =>
    let (kept, warned) := f raw
    let b := if kv args "nob" == some "1" then "skip" else showBBox (polysBounds kept)
    s!"{showRings kept} M={showBits (polyMask kept)} B={b} W={if warned then 1 else 0}"
  | none, _ => "ERR"
  | _, none => "BAD"

def step? (ws : List String) : Option String :=
  match ws with
  | "polys-src" :: "ugrid" :: args => some (stepPolysSrc args)
  | _ => none

end Ems.UgridSrcProto
