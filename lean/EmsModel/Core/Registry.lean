import EmsModel.Gen.Tables
/-
Core/Registry.lean — convention detection.

Models `emsarray.conventions._registry`:
`ConventionRegistry.conventions` (manually registered classes first, then the entry
points, duplicates removed keeping the first occurrence), `match_conventions` (every class
whose `check_dataset` returns a specificity, stably sorted by specificity, descending),
`guess_convention` / `get_dataset_convention` (head of that list, or `None`);
and the `check_dataset` classmethod of every convention class shipped with emsarray
(`CFGrid1D`, `CFGrid2D`, `ShocSimple`, `ShocStandard`, `ArakawaC`, `UGrid`) as a function of an
abstract *feature record* of a dataset: exactly those parts of an `xarray.Dataset` the
detection code reads.

The tables (`Ems.Gen.*`) are regenerated from the live code on every run.
-/
namespace Ems.Reg

/-! ## The feature record of a dataset -/

/-- An attribute value, as far as the detection code can tell values apart. -/
inductive AttrVal where
  /-- a Python `str` -/
  | str (s : String)
  /-- a number equal to the integer `n` (`int`, `bool`, integral `float`, numpy integer) -/
  | int (n : Int)
  /-- any other hashable value (non-integral float, tuple, …): equal to nothing detection compares with -/
  | other
  /-- a `list`: unhashable, so `value in {…}` raises `TypeError`; `value == "…"` is `False` -/
  | unhashable
deriving DecidableEq, Repr

/-- What detection reads of one variable of `dataset.variables`. -/
structure VarFeat where
  name : String
  /-- member of `dataset.data_vars` (not a coordinate) -/
  isData : Bool
  /-- `variable.dims` -/
  dims : List String
  units : Option AttrVal := none
  standardName : Option AttrVal := none
  axis : Option AttrVal := none
  cfRole : Option AttrVal := none
  topologyDimension : Option AttrVal := none
deriving DecidableEq, Repr

/-- What detection reads of a dataset. -/
structure Features where
  /-- `str(dataset.attrs.get('Conventions', ''))` -/
  conventions : String
  /-- `'ems_version' in dataset.attrs` -/
  hasEmsVersion : Bool
  /-- `dataset.variables`, in iteration order -/
  vars : List VarFeat
deriving DecidableEq, Repr

/-- `dataset.dims`: every dimension of every variable -/
def Features.dims (f : Features) : List String := f.vars.flatMap (·.dims)

/-- `dataset.variables.keys()` -/
def Features.names (f : Features) : List String := f.vars.map (·.name)

/-! ## Python primitives used by the checks -/

/-- `value in {set of str}`; `attrs.get` gives `None` when absent. A `list` raises `TypeError`. -/
def inStrSet (v : Option AttrVal) (set : List String) : Except Unit Bool :=
  match v with
  | none => .ok false
  | some (.str s) => .ok (set.contains s)
  | some (.int _) => .ok false
  | some .other => .ok false
  | some .unhashable => .error ()

/-- `value == "literal"` -/
def eqStr (v : Option AttrVal) (s : String) : Bool :=
  match v with
  | some (.str t) => t == s
  | _ => false

/-- `needle in haystack` for Python `str`s, on character lists -/
def containsSubL (needle : List Char) : List Char → Bool
  | [] => needle.isEmpty
  | c :: cs => needle.isPrefixOf (c :: cs) || containsSubL needle cs

def containsSub (needle hay : String) : Bool := containsSubL needle.toList hay.toList

/-- `next(x for x in xs if p x)` where evaluating `p` may raise: the first element satisfying `p`,
evaluating `p` on every earlier element. -/
def findFirstM {β} (p : β → Except Unit Bool) : List β → Except Unit (Option β)
  | [] => .ok none
  | x :: xs =>
    match p x with
    | .error e => .error e
    | .ok true => .ok (some x)
    | .ok false => findFirstM p xs

/-! ## `check_dataset` of the shipped classes -/

/-- the predicate of `CFGridTopology.latitude_name` on one variable:
`units in CF_LATITUDE_UNITS or standard_name == 'latitude' or axis == 'Y'` -/
def latPred (v : VarFeat) : Except Unit Bool :=
  match inStrSet v.units Ems.Gen.cfLatUnits with
  | .error e => .error e
  | .ok true => .ok true
  | .ok false => .ok (eqStr v.standardName "latitude" || eqStr v.axis "Y")

/-- the predicate of `CFGridTopology.longitude_name` -/
def lonPred (v : VarFeat) : Except Unit Bool :=
  match inStrSet v.units Ems.Gen.cfLonUnits with
  | .error e => .error e
  | .ok true => .ok true
  | .ok false => .ok (eqStr v.standardName "longitude" || eqStr v.axis "X")

/-- The shipped convention classes (entry points of emsarray itself). -/
inductive Builtin where
  | ArakawaC | CFGrid1D | CFGrid2D | ShocSimple | ShocStandard | UGrid
deriving DecidableEq, Repr

def Builtin.name : Builtin → String
  | .ArakawaC => "ArakawaC" | .CFGrid1D => "CFGrid1D" | .CFGrid2D => "CFGrid2D"
  | .ShocSimple => "ShocSimple" | .ShocStandard => "ShocStandard" | .UGrid => "UGrid"

def Builtin.all : List Builtin :=
  [.ArakawaC, .CFGrid1D, .CFGrid2D, .ShocSimple, .ShocStandard, .UGrid]

def Builtin.ofName? (s : String) : Option Builtin := Builtin.all.find? (fun b => b.name == s)

/-- The specificity a class reports when it matches: read from the generated table
(the live `check_dataset` of the class applied to a canonical dataset of its own kind). -/
def ownSpec (b : Builtin) : Option Nat := (Ems.Gen.ownSpecificity.lookup b.name).join

/-- `CFGrid1D.check_dataset` (`nd = 1`) and `CFGrid2D.check_dataset` (`nd = 2`):
first latitude-like variable, first longitude-like variable, both with `nd` dimensions.
The longitude search only runs when a latitude was found (`ValueError` → `None`). -/
def cfCheck (b : Builtin) (nd : Nat) (f : Features) : Except Unit (Option Nat) :=
  match findFirstM latPred f.vars with
  | .error e => .error e
  | .ok none => .ok none
  | .ok (some lat) =>
    match findFirstM lonPred f.vars with
    | .error e => .error e
    | .ok none => .ok none
    | .ok (some lon) =>
      if lat.dims.length = nd ∧ lon.dims.length = nd then .ok (ownSpec b) else .ok none

/-- `ShocSimple.check_dataset`: an `ems_version` global attribute and dimensions `j`, `i` -/
def shocSimpleCheck (f : Features) : Option Nat :=
  if f.hasEmsVersion ∧ Ems.Gen.shocSimpleDims.all (f.dims.contains ·) then ownSpec .ShocSimple else none

/-- the eight coordinate variable names of `ShocStandard.coordinate_names` -/
def shocStandardCoords : List String := Ems.Gen.shocStandardNames.flatMap (·.2)

/-- `ArakawaC.check_dataset` on `ShocStandard`: all eight coordinate variables exist -/
def shocStandardCheck (f : Features) : Option Nat :=
  if shocStandardCoords.all (f.names.contains ·) then ownSpec .ShocStandard else none

/-- the mesh topology variable `Mesh2DTopology.mesh_variable`: first *data variable* with
`cf_role == 'mesh_topology'` -/
def meshVariable (f : Features) : Option VarFeat :=
  f.vars.find? (fun v => v.isData && eqStr v.cfRole "mesh_topology")

/-- `UGrid.check_dataset`: `'UGRID' in str(Conventions)`, a mesh variable, `topology_dimension == 2` -/
def ugridCheck (f : Features) : Option Nat :=
  if containsSub "UGRID" f.conventions then
    match meshVariable f with
    | none => none
    | some m => if m.topologyDimension = some (.int 2) then ownSpec .UGrid else none
  else none

/-- `cls.check_dataset(dataset)` for the shipped classes. `.error` = the call raises. -/
def builtinCheck (b : Builtin) (f : Features) : Except Unit (Option Nat) :=
  match b with
  | .ArakawaC => .ok none          -- no `coordinate_names` on the bare class
  | .CFGrid1D => cfCheck .CFGrid1D 1 f
  | .CFGrid2D => cfCheck .CFGrid2D 2 f
  | .ShocSimple => .ok (shocSimpleCheck f)
  | .ShocStandard => .ok (shocStandardCheck f)
  | .UGrid => .ok (ugridCheck f)

/-! ## Classes known to a registry: shipped ones and synthetic (user-defined) ones -/

inductive Cls where
  | builtin (b : Builtin)
  /-- a user-defined `Convention` subclass, identified by a number -/
  | synth (id : Nat)
deriving DecidableEq, Repr

/-- The `check_dataset` of a user-defined class. -/
inductive SynthSpec where
  /-- returns a constant (a specificity or `None`) -/
  | const (r : Option Nat)
  /-- extends a shipped class: matches when that class matches, with its own specificity -/
  | like (b : Builtin) (s : Nat)
  /-- raises -/
  | raises
deriving DecidableEq, Repr

abbrev SynthEnv := Nat → SynthSpec

def synthCheck (sp : SynthSpec) (f : Features) : Except Unit (Option Nat) :=
  match sp with
  | .const r => .ok r
  | .like b s =>
    match builtinCheck b f with
    | .error e => .error e
    | .ok none => .ok none
    | .ok (some _) => .ok (some s)
  | .raises => .error ()

/-- `cls.check_dataset(dataset)` -/
def clsCheck (env : SynthEnv) (c : Cls) (f : Features) : Except Unit (Option Nat) :=
  match c with
  | .builtin b => builtinCheck b f
  | .synth i => synthCheck (env i) f

/-- the classes found through the `emsarray.conventions` entry point, in the order the
registry sees them (generated table) -/
def entryPointClasses : List Cls :=
  Ems.Gen.entryPoints.filterMap (fun n => (Builtin.ofName? n).map Cls.builtin)

/-! ## The registry, generic in the type of classes -/

section Generic
variable {α : Type} [DecidableEq α]

/-- the loop of `ConventionRegistry.conventions`: keep a class unless already `seen` -/
def dedupAux (seen : List α) : List α → List α
  | [] => []
  | c :: cs => if c ∈ seen then dedupAux seen cs else c :: dedupAux (c :: seen) cs

/-- `ConventionRegistry.conventions`: `chain(registered_conventions, entry_point_conventions)`
with duplicates removed -/
def conventions (reg ep : List α) : List α := dedupAux [] (reg ++ ep)

/-- the loop of `match_conventions`: `(class, specificity)` for every class whose check does
not return `None`, in registry order; the first check that raises aborts the loop -/
def collect {ε : Type} (check : α → Except ε (Option Nat)) : List α → Except ε (List (α × Nat))
  | [] => .ok []
  | c :: cs =>
    match check c with
    | .error e => .error e
    | .ok m =>
      match collect check cs with
      | .error e => .error e
      | .ok rest =>
        .ok (match m with
             | some s => (c, s) :: rest
             | none => rest)

/-- sort key of `sorted(matches, key=lambda m: m[1], reverse=True)` as a `≤`-like relation:
`a` may stay before `b` when its specificity is at least that of `b` -/
def specGe (a b : α × Nat) : Bool := decide (b.2 ≤ a.2)

/-- `ConventionRegistry.match_conventions`. Python's `sorted` is stable, also with
`reverse=True`; so is `List.mergeSort`. -/
def matchConventions {ε : Type} (check : α → Except ε (Option Nat)) (cs : List α) :
    Except ε (List (α × Nat)) :=
  match collect check cs with
  | .error e => .error e
  | .ok l => .ok (l.mergeSort specGe)

/-- `ConventionRegistry.guess_convention` -/
def guess {ε : Type} (check : α → Except ε (Option Nat)) (cs : List α) : Except ε (Option α) :=
  match matchConventions check cs with
  | .error e => .error e
  | .ok l => .ok (l.head?.map (·.1))

/-- Specification device (not part of the code): the first element of maximal specificity. -/
def firstMax : List (α × Nat) → Option (α × Nat)
  | [] => none
  | a :: l =>
    match firstMax l with
    | some b => if a.2 < b.2 then some b else some a
    | none => some a

end Generic

/-- What loading one entry point of the group `emsarray.conventions` gives. -/
inductive EntryPoint where
  /-- loads to a `Convention` subclass -/
  | cls (c : Cls)
  /-- `entry_point.load()` raises `AttributeError` / `ImportError`: logged and skipped -/
  | loadError
  /-- loads to something that is not a `Convention` subclass: logged and skipped -/
  | notConvention
deriving DecidableEq, Repr

def EntryPoint.cls? : EntryPoint → Option Cls
  | .cls c => some c
  | _ => none

/-- `entry_point_conventions()`: the classes the entry points load to, in entry-point order,
unusable entry points skipped, each class once -/
def scanEntryPoints (eps : List EntryPoint) : List Cls := dedupAux [] (eps.filterMap EntryPoint.cls?)

/-- `registry.match_conventions(dataset)` for the real registry: `reg` = classes registered
with `register_convention`, in registration order -/
def matchDataset (env : SynthEnv) (reg : List Cls) (f : Features) : Except Unit (List (Cls × Nat)) :=
  matchConventions (fun c => clsCheck env c f) (conventions reg entryPointClasses)

/-- `get_dataset_convention(dataset)` -/
def detect (env : SynthEnv) (reg : List Cls) (f : Features) : Except Unit (Option Cls) :=
  guess (fun c => clsCheck env c f) (conventions reg entryPointClasses)

end Ems.Reg
