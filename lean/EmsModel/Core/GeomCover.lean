import EmsModel.Core.GeomProto
/-
Core/GeomCover.lean — the point set of the overall geometry of a CF 1-D grid, point by point (C06).

`Convention.geometry` is "the union of all polygons in the dataset".  For an axis-aligned grid a point lies in
that union exactly when its longitude lies in the bounds of some column and its latitude in the bounds of some
row (`cellsCover`).  This holds whatever the cells do to one another: tile the span, leave gaps, or overlap.
The `cf1dcover` operation evaluates it on a lattice of probe points; the C06 correspondence compares the answer
with `dataset.ems.geometry.covers(point)` of the running code.
-/
namespace Ems

instance instDecidableInCell (p : Rat) (c : Rat × Rat) : Decidable (inCell p c) := by
  unfold inCell; exact inferInstance

/-- the point lies in (or on the boundary of) some cell of the axis-aligned grid with these column / row bounds -/
def cellsCover (lonb latb : List (Rat × Rat)) (p : Pt) : Bool :=
  lonb.any (fun xb => decide (inCell p.1 xb)) && latb.any (fun yb => decide (inCell p.2 yb))

/-- probe lattice in row-major order (`ys` outer) -/
def coverBits (lonb latb : List (Rat × Rat)) (xs ys : List Rat) : List Bool :=
  ys.flatMap fun y => xs.map fun x => cellsCover lonb latb (x, y)

namespace GeomProto
open Ems.Proto

/-- `cf1dcover lon=… lat=… [lonb=a:b,… latb=…] xs=<numbers> ys=<numbers>` → one bit per probe point `(x, y)`,
`ys` outer: does the union of the cells hold the point -/
def stepCf1dCover (args : List String) : String :=
  let r : Option (List Bool) := do
    let lon ← parseRats? (← kv args "lon")
    let lat ← parseRats? (← kv args "lat")
    let lonb ← match kv args "lonb" with
      | none | some "-" => midBounds lon
      | some s => parsePairs? s
    let latb ← match kv args "latb" with
      | none | some "-" => midBounds lat
      | some s => parsePairs? s
    let xs ← parseRats? (← kv args "xs")
    let ys ← parseRats? (← kv args "ys")
    some (coverBits lonb latb xs ys)
  match r with
  | none => "ERR"
  | some bs => showBits bs

def coverStep? (ws : List String) : Option String :=
  match ws with
  | "cf1dcover" :: args => some (stepCf1dCover args)
  | _ => none

end GeomProto
end Ems
