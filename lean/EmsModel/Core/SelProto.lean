import EmsModel.Core.Select
import EmsModel.Core.ArrProto
/-
Core/SelProto.lean — selection operations of the line protocol (C02, C05 drivers).
  `isel   <arr> <dim=i,dim=i…>`                          → array
  `selvar <arr> <gridnames,> <reqs i,j;i,j…> <indexDim>`  → array
  `select <grids> <geometry,|-> <indexDim> <idx kind:i,j;kind:i,j|-> <var=arr>…` → `name=arr …` | `ERR`
  `extract <grids> <geometry,|-> <pointDim> <policy> <hits kind:i,j;-;…> <var=arr>…`
        → `ERR:missing[1,4]` | `labels=0,2 name=arr …` | `ERR`
-/
namespace Ems.GeomProtoChunk
/-- chunk a flat list into rows of length `n` (`n = 0`: one empty row per element is meaningless → no rows) -/
def chunk {β : Type} (n : Nat) (l : List β) : List (List β) :=
  if n = 0 then [] else
  let rec go (fuel : Nat) (l : List β) (acc : List (List β)) : List (List β) :=
    match fuel with
    | 0 => acc.reverse
    | fuel + 1 => if l.isEmpty then acc.reverse else go fuel (l.drop n) (l.take n :: acc)
  go (l.length + 1) l []
end Ems.GeomProtoChunk

namespace Ems.SelProto
open Ems Ems.Proto Ems.ArrProto

def parseSel? (s : String) : Option Env :=
  if s == "-" then some [] else
  Proto.allSome ((s.splitOn ",").map fun p =>
    match p.splitOn "=" with
    | [d, i] => (parseNat? i).map fun k => (d, k)
    | _ => none)

def parseReqs? (s : String) : Option (List (List Nat)) :=
  if s == "-" then some [] else Proto.allSome ((s.splitOn ";").map (parseNatList? ·))

def parseNative? (s : String) : Option (String × List Nat) :=
  match s.splitOn ":" with
  | [k, comps] => (parseNatList? comps).map fun c => (k, c)
  | _ => none

def parseNatives? (s : String) : Option (List (String × List Nat)) :=
  if s == "-" then some [] else Proto.allSome ((s.splitOn ";").map parseNative?)

def parseHits? (s : String) : Option (List (Option (String × List Nat))) :=
  if s == "" then some [] else
  Proto.allSome ((s.splitOn ";").map fun h => if h == "-" then some none else (parseNative? h).map some)

def parseVars? (args : List String) : Option (DSet (Option Int)) :=
  Proto.allSome (args.map fun a =>
    match a.splitOn "=" with
    | [n, arr] => (parseArr? arr).map fun x => (n, x)
    | _ => none)

def showDSet (ds : DSet (Option Int)) : String :=
  if ds.isEmpty then "(none)" else joinWith " " (ds.map fun v => s!"{v.1}={showArr v.2}")

def step? (ws : List String) : Option String :=
  match ws with
  | ["isel", arr, sel] =>
    some (match parseArr? arr, parseSel? sel with
    | some a, some s => showArr (a.isel s)
    | _, _ => "BAD")
  | ["selvar", arr, gd, reqs, idim] =>
    some (match parseArr? arr, parseReqs? reqs with
    | some a, some r => showArr (a.selectVar (parseNames gd) r idim)
    | _, _ => "BAD")
  | "select" :: gs :: geom :: idim :: idx :: vars =>
    some (match parseGrids? gs, parseNatives? idx, parseVars? vars with
    | some grids, some ix, some ds =>
      match selectIndexes grids ds (parseNames geom) ix idim with
      | some out => showDSet out
      | none => "ERR"
    | _, _, _ => "BAD")
  | "extract" :: gs :: geom :: pdim :: policy :: hits :: vars =>
    some (match parseGrids? gs, parseHits? hits, parseVars? vars with
    | some grids, some hs, some ds =>
      match extractPoints grids ds (parseNames geom) hs pdim policy with
      | .error missing => s!"ERR:missing[{showNatList missing}]"
      | .ok labels out => s!"labels={showNatList labels} {showDSet out}"
      | .failed => "ERR"
    | _, _, _ => "BAD")
  | "extractfill" :: gs :: geom :: pdim :: hits :: vars =>
    -- `extract_dataframe(..., missing_points='fill')`: every request keeps its row
    some (match parseGrids? gs, parseHits? hits, parseVars? vars with
    | some grids, some hs, some ds =>
      match extractPoints grids ds (parseNames geom) hs pdim "drop" with
      | .ok labels out =>
        let filled : DSet (Option Int) := out.map fun v =>
          let rest := v.2.dims.drop 1
          let w := size (rest.map (·.2))
          let rows := (GeomProtoChunk.chunk w v.2.data).map fun r => r.map some
          let rows' := fillRows hs.length labels rows
          (v.1, { dims := (pdim, hs.length) :: rest, data := (rows'.map fun r => r.map Option.join).flatten })
        s!"labels={showNatList (List.range hs.length)} {showDSet filled}"
      | _ => "ERR"
    | _, _, _ => "BAD")
  | _ => none

end Ems.SelProto
