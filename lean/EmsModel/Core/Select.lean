import EmsModel.Core.Named
/-
Core/Select.lean — selecting values by native index.

Models `DimensionConvention.selector_for_indexes`, `Convention.select_indexes /
select_index / drop_geometry`, `utils.extract_vars`, and the missing-point policies of
`operations.point_extraction.extract_points / extract_dataframe`.
-/
namespace Ems

/-- a dataset: named data variables in declaration order -/
abbrev DSet (α : Type) := List (String × NArr α)

namespace NArr
variable {α : Type}

/-- `DataArray.isel` with one integer per selected dimension: the selected dimensions
disappear, every other dimension is intact (order and size). Dimensions named in `sel`
that the array lacks are ignored, as xarray does per variable. -/
def isel [Inhabited α] (a : NArr α) (sel : Env) : NArr α :=
  ofFn (a.dims.filter fun d => !(sel.map (·.1)).contains d.1) fun e => a.get? (sel ++ e)

/-- vectorised `isel` with a list of requests along a new dimension `indexDim`
(put first; the other dimensions keep their relative order):
entry `k` of the new dimension is the slice at request `k`. -/
def selectVar [Inhabited α] (a : NArr α) (gdNames : List String) (reqs : List (List Nat))
    (indexDim : String) : NArr α :=
  ofFn ((indexDim, reqs.length) :: a.dims.filter fun d => !gdNames.contains d.1) fun e =>
    match e.get indexDim with
    | none => none
    | some k =>
      match reqs[k]? with
      | none => none
      | some idx => a.get? (gdNames.zip idx ++ e)

end NArr

/-- which variables `select_indexes` keeps: non-geometry data variables having at least one
dimension of the selected grid kind -/
def keptVars {α : Type} (ds : DSet α) (geometry : List String) (gdNames : List String) : DSet α :=
  ds.filter fun v => !geometry.contains v.1 && v.2.names.any (gdNames.contains ·)

/-- `Convention.select_indexes(indexes, index_dimension=indexDim, drop_geometry=True)`.
`grids`: `grid_dimensions` with sizes; `indexes`: native indexes `(kind, components)`.
`none` = ValueError (no index, mixed grid kinds, unknown kind, component out of range). -/
def selectIndexes {α : Type} [Inhabited α] (grids : List (String × List Dim)) (ds : DSet α)
    (geometry : List String) (indexes : List (String × List Nat)) (indexDim : String) : Option (DSet α) :=
  match indexes with
  | [] => none
  | (k, _) :: _ =>
    if indexes.any (fun i => i.1 != k) then none else
    match (grids.find? (fun g => g.1 == k)).map (·.2) with
    | none => none
    | some gd =>
      if indexes.any (fun i => !decide (InRange (gd.map (·.2)) i.2)) then none else
      -- xarray's `isel` refuses an indexer for a dimension no remaining variable has
      if (gd.map (·.1)).any (fun d => !(keptVars ds geometry (gd.map (·.1))).any (fun v => v.2.names.contains d))
      then none else
      some ((keptVars ds geometry (gd.map (·.1))).map fun v =>
        (v.1, v.2.selectVar (gd.map (·.1)) (indexes.map (·.2)) indexDim))

/-- outcome of a point extraction under a missing-point policy -/
inductive Extract (α : Type)
  | error (missing : List Nat)                      -- raised, naming exactly these positions
  | ok (labels : List Nat) (data : DSet α)          -- rows labelled with original positions
  | failed                                          -- some other error (e.g. nothing to select)

/-- `extract_points(points, missing_points=policy)` given the lookup result of every point
(`none` = the point misses the model). -/
def extractPoints {α : Type} [Inhabited α] (grids : List (String × List Dim)) (ds : DSet α)
    (geometry : List String) (hits : List (Option (String × List Nat))) (pointDim : String)
    (policy : String) : Extract α :=
  let missing := (List.range hits.length).filter fun i => (hits[i]?).join.isNone
  if policy == "error" && !missing.isEmpty then .error missing else
  let labels := (List.range hits.length).filter fun i => (hits[i]?).join.isSome
  match selectIndexes grids ds geometry (hits.filterMap id) pointDim with
  | none => .failed
  | some data => .ok labels data

/-- `extract_dataframe(..., missing_points='fill')`: an outer join on the point dimension
gives every request a row; the rows of missing points hold missing values. -/
def fillRows {α : Type} (n : Nat) (labels : List Nat) (rows : List (List (Option α))) : List (List (Option α)) :=
  (List.range n).map fun i =>
    match labels.idxOf? i with
    | some k => rows.getD k []
    | none => (rows.headD []).map fun _ => none

end Ems
