/-
Core/Geom.lean — exact planar predicates over `Rat`.

These stand in for the GEOS predicates emsarray delegates to (`intersects` of a point with a
polygon, `is_valid` of a single ring).  Theorems that mention geometry are stated for an
arbitrary predicate; the drivers instantiate it with these exact versions, which the
correspondence compares with GEOS on every generated input.
-/
namespace Ems

abbrev Pt := Rat × Rat
/-- a polygon as its vertex list (ring not closed: the closing vertex is implicit) -/
abbrev Poly := List Pt

def cross (o a b : Pt) : Rat := (a.1 - o.1) * (b.2 - o.2) - (a.2 - o.2) * (b.1 - o.1)

def between (x a b : Rat) : Bool := (min a b ≤ x) && (x ≤ max a b)

/-- `p` lies on the closed segment `ab` -/
def onSegment (p a b : Pt) : Bool :=
  (cross a b p == 0) && between p.1 a.1 b.1 && between p.2 a.2 b.2

def sgn (r : Rat) : Int := if r > 0 then 1 else if r < 0 then -1 else 0

/-- closed segments `ab` and `cd` have a point in common -/
def segIntersect (a b c d : Pt) : Bool :=
  let d1 := sgn (cross c d a); let d2 := sgn (cross c d b)
  let d3 := sgn (cross a b c); let d4 := sgn (cross a b d)
  (d1 * d2 < 0 && d3 * d4 < 0) ||
  onSegment a c d || onSegment b c d || onSegment c a b || onSegment d a b

/-- consecutive vertex pairs of a ring, including the closing pair -/
def ringEdges (p : Poly) : List (Pt × Pt) :=
  match p with
  | [] => []
  | v :: _ => p.zip (p.drop 1 ++ [v])

/-- closed point-in-polygon: on the boundary, or inside by the crossing-number rule -/
def pointInPoly (q : Pt) (p : Poly) : Bool :=
  let es := ringEdges p
  es.any (fun e => onSegment q e.1 e.2) ||
  (es.foldl (fun (inside : Bool) e =>
      let a := e.1; let b := e.2
      if (a.2 > q.2) != (b.2 > q.2) then
        -- x coordinate of the edge at height q.2, compared with q.1 without division sign trouble
        let t := (b.1 - a.1) * (q.2 - a.2) / (b.2 - a.2) + a.1
        if q.1 < t then !inside else inside
      else inside) false)

/-- drop cyclically repeated consecutive vertices -/
def dedupRing (p : Poly) : Poly :=
  let q := p.foldr (fun v acc => match acc with
    | [] => [v]
    | w :: _ => if v == w then acc else v :: acc) []
  match q, q.getLast? with
  | v :: rest, some l => if v == l && !rest.isEmpty then rest else q
  | _, _ => q

/-- exact stand-in for GEOS `is_valid` on a single-ring polygon: at least three distinct
consecutive vertices, adjacent edges meet only at their shared vertex, non-adjacent
edges do not meet at all -/
def ringValid (p : Poly) : Bool :=
  let q := dedupRing p
  let n := q.length
  if n < 3 then false else
  let es := ringEdges q
  (List.range n).all fun i =>
    (List.range n).all fun j =>
      if i < j then
        match es[i]?, es[j]? with
        | some (a, b), some (c, d) =>
          if j = i + 1 then !(onSegment d a b) && !(onSegment a c d)        -- b = c shared
          else if i = 0 && j = n - 1 then !(onSegment c a b) && !(onSegment b c d)  -- a = d shared
          else !(segIntersect a b c d)
        | _, _ => true
      else true

/-- doubled signed area (shoelace) -/
def area2 (p : Poly) : Rat :=
  (ringEdges p).foldl (fun acc e => acc + (e.1.1 * e.2.2 - e.2.1 * e.1.2)) 0

/-- bounding box `(minx, miny, maxx, maxy)` of a non-empty point list -/
def bbox : List Pt → Option (Rat × Rat × Rat × Rat)
  | [] => none
  | p :: ps => some (ps.foldl (fun (b : Rat × Rat × Rat × Rat) q =>
      (min b.1 q.1, min b.2.1 q.2, max b.2.2.1 q.1, max b.2.2.2 q.2)) (p.1, p.2, p.1, p.2))

end Ems
