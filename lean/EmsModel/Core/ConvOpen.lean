import EmsModel.Core.GeomProto
/-
Core/ConvOpen.lean — convention objects CONSTRUCTED one after the other in one process, some of them configured
through their constructor (C06).

Models the constructor arguments that tell a convention object which coordinate variables of its dataset describe the
cells: `ArakawaC.__init__(dataset, coordinate_names=…)` (and `ShocStandard`, the subclass whose names are hard coded on
the class) and `CFGrid.__init__(dataset, latitude=…, longitude=… | topology=…)` (`CFGrid1D`, `CFGrid2D`, `ShocSimple`).
A dataset may hold several candidate coordinate sets (a geographic and a projected node grid, say); a configuration is
identified here by the name of the coordinate set it resolves to.  The process state is what is hard coded on the class;
the history of earlier constructions is an input.  The behaviour the property demands: the argument configures the
object that receives it and nothing else, so the cells of a dataset opened later are the ones its own (class default)
coordinate set describes (`Ems.C06.open_history_independent`).  The `opens …` operation plays a history and prints the
polygons of the last object; the C06 correspondence compares it with the real objects constructed in that order.
-/
namespace Ems

/-- how a convention object is constructed: `none` — the ordinary way (`Cls(dataset)`, `dataset.ems`), `some n` — with
the coordinate names `n` given to the constructor -/
abbrev OpenCfg := Option String

/-- Constructing a convention object of a class whose hard-coded coordinate names are `cls` (`none`: the class defines
none — plain `ArakawaC`): the class's names afterwards, and the names the new object uses (`none`: it has none, the
constructor raises).  The constructor argument configures the object, never the class. -/
def construct (cls : Option String) (cfg : OpenCfg) : Option String × Option String :=
  (cls, match cfg with
        | some n => some n
        | none => cls)

/-- the class's names after the constructions `hs` -/
def classAfter (cls : Option String) (hs : List OpenCfg) : Option String :=
  hs.foldl (fun c h => (construct c h).1) cls

/-- the names used by an object constructed as `last` after the constructions `hs` -/
def namesAfter (cls : Option String) (hs : List OpenCfg) (last : OpenCfg) : Option String :=
  (construct (classAfter cls hs) last).2

/-- what that object looks at: the coordinate set of its dataset (`sets`: name ↦ content) its names resolve to;
`none` — no names, or the dataset has no such variables (`KeyError`) -/
def openAfter {α : Type} (cls : Option String) (hs : List OpenCfg) (last : OpenCfg) (sets : List (String × α)) :
    Option α :=
  (namesAfter cls hs last).bind fun n => List.lookup n sets

namespace GeomProto
open Ems.Proto

/-- split a word list at the `//` separators -/
def splitAtBars (ws : List String) : List (List String) :=
  ws.foldr (fun w acc =>
    if w == "//" then [] :: acc else
    match acc with
    | a :: r => (w :: a) :: r
    | [] => [[w]]) [[]]

/-- `d` — constructed the ordinary way; `c:<name>` — constructed with the names of coordinate set `<name>` -/
def parseCfg? (s : String) : Option OpenCfg :=
  if s == "d" then some none else
  match s.splitOn ":" with
  | ["c", n] => if n == "" then none else some (some n)
  | _ => none

/-- `opens cls=<name|-> hist=<cfg,cfg,…|-> use=<cfg> // <name> <conv> key=value… // <name> <conv> key=value…`
→ the `polys` answer (`<rings> M=<mask> B=<bbox> W=<warned>`) for the coordinate set of the dataset that an object
constructed as `use`, after the constructions `hist` in the same process, looks at; `ERR` when it resolves to none -/
def stepOpens (head : List String) (sets : List (List String)) : String :=
  match kv head "cls", kv head "hist", kv head "use" with
  | some cls, some hist, some use =>
    let cls? : Option String := if cls == "-" then none else some cls
    let hs? : Option (List OpenCfg) := if hist == "-" then some [] else allSome ((hist.splitOn ",").map parseCfg?)
    match hs?, parseCfg? use with
    | some hs, some last =>
      let table : List (String × String × List String) := sets.filterMap fun s =>
        match s with
        | name :: conv :: args => some (name, conv, args)
        | _ => none
      if table.length != sets.length then "BAD" else
      match openAfter cls? hs last table with
      | some (conv, args) => stepPolys conv args
      | none => "ERR"
    | _, _ => "BAD"
  | _, _, _ => "BAD"

def opensStep? (ws : List String) : Option String :=
  match ws with
  | "opens" :: rest =>
    match splitAtBars rest with
    | head :: sets => some (stepOpens head sets)
    | [] => some "BAD"
  | _ => none

end GeomProto
end Ems
