import EmsModel.Core.NDArray
/-
Core/DimsSrc.lean — a small deep-embedded language for the *source text* of the tuple arithmetic in
`utils.move_dimensions_to_end`, `ravel_dimensions`, `wind_dimension` and `splice_tuple`
(which dimension names and sizes an array has after flattening / winding), and its total evaluator.

`harness/trans_dimssrc.py` reads the source of those functions from the working tree on every run and writes the
expressions that compute the new dimension order, the new `dims` and the new `shape` as `DimsSrc.T` terms into
`Gen/DimsSrc.lean`; `Props/C03Src.lean` proves they compute what the model `NArr.moveToEnd / ravelDims / windDim / splice`
uses.  Python slice semantics (negative bounds, `t[:-0] = ()`) are modelled as they are.  Core Lean only.
-/
namespace Ems.DimsSrc

/-- an element of a `dims` or `shape` tuple -/
inductive Atom where
  | nm (s : String)
  | num (n : Int)
deriving DecidableEq, Repr, Inhabited

/-- Python values of this fragment -/
inductive V where
  | tup (l : List Atom)
  | int (n : Int)
  | atom (a : Atom)
  | bool (b : Bool)
deriving DecidableEq, Repr, Inhabited

inductive T where
  /-- an input: `dims` (`data_array.dims`), `shape`, `dimensions`, `sizes`, `linear_dimension`, `t`, `index`, `values` -/
  | var (n : String)
  | atomLit (a : Atom)
  | intLit (n : Int)
  /-- `(a,)` -/
  | single (a : T)
  /-- `a + b` on tuples -/
  | concat (a b : T)
  /-- `t[:i]` -/
  | sliceTo (t i : T)
  /-- `t[i:]` -/
  | sliceFrom (t i : T)
  /-- `[x for x in t if x not in u]` -/
  | filterNotIn (t u : T)
  /-- `-a` -/
  | neg (a : T)
  /-- `len(t)` -/
  | len (t : T)
  /-- `t.index(a)`: position of the first occurrence; raises when absent -/
  | indexOf (t a : T)
  /-- `a in t` -/
  | isIn (a t : T)
  /-- `splice_tuple(t, i, v)` -/
  | spliceCall (t i v : T)
  | unsupported (python : String)
deriving Repr, Inhabited

/-- Python's `t[:i]` on a list -/
def pySliceTo (l : List Atom) (i : Int) : List Atom :=
  if 0 ≤ i then l.take i.toNat else l.take (l.length - (-i).toNat)

/-- Python's `t[i:]` on a list -/
def pySliceFrom (l : List Atom) (i : Int) : List Atom :=
  if 0 ≤ i then l.drop i.toNat else l.drop (l.length - (-i).toNat)

def evalWith (spliceF : V → V → V → Option V) (env : String → Option V) : T → Option V
  | .var n => env n
  | .atomLit a => some (.atom a)
  | .intLit n => some (.int n)
  | .single a =>
      match evalWith spliceF env a with
      | some (.atom x) => some (.tup [x])
      | some (.int n) => some (.tup [.num n])
      | _ => none
  | .concat a b =>
      match evalWith spliceF env a, evalWith spliceF env b with
      | some (.tup x), some (.tup y) => some (.tup (x ++ y))
      | _, _ => none
  | .sliceTo t i =>
      match evalWith spliceF env t, evalWith spliceF env i with
      | some (.tup l), some (.int k) => some (.tup (pySliceTo l k))
      | _, _ => none
  | .sliceFrom t i =>
      match evalWith spliceF env t, evalWith spliceF env i with
      | some (.tup l), some (.int k) => some (.tup (pySliceFrom l k))
      | _, _ => none
  | .filterNotIn t u =>
      match evalWith spliceF env t, evalWith spliceF env u with
      | some (.tup l), some (.tup m) => some (.tup (l.filter (fun x => !m.contains x)))
      | _, _ => none
  | .neg a =>
      match evalWith spliceF env a with
      | some (.int n) => some (.int (-n))
      | _ => none
  | .len t =>
      match evalWith spliceF env t with
      | some (.tup l) => some (.int (Int.ofNat l.length))
      | _ => none
  | .indexOf t a =>
      match evalWith spliceF env t, evalWith spliceF env a with
      | some (.tup l), some (.atom x) => (l.idxOf? x).map (fun k => .int (Int.ofNat k))
      | _, _ => none
  | .isIn a t =>
      match evalWith spliceF env a, evalWith spliceF env t with
      | some (.atom x), some (.tup l) => some (.bool (l.contains x))
      | _, _ => none
  | .spliceCall t i v =>
      match evalWith spliceF env t, evalWith spliceF env i, evalWith spliceF env v with
      | some a, some b, some c => spliceF a b c
      | _, _, _ => none
  | .unsupported _ => none

def env3 (n1 : String) (v1 : V) (n2 : String) (v2 : V) (n3 : String) (v3 : V) : String → Option V :=
  fun s => if s == n1 then some v1 else if s == n2 then some v2 else if s == n3 then some v3 else none

/-- evaluation of a term that calls `splice_tuple`, whose own (generated) body is `spliceBody` -/
def eval (spliceBody : T) (env : String → Option V) (t : T) : Option V :=
  evalWith (fun a b c => evalWith (fun _ _ _ => none) (env3 "t" a "index" b "values" c) spliceBody) env t

def names (l : List String) : V := .tup (l.map Atom.nm)
def nums (l : List Nat) : V := .tup (l.map (fun n => Atom.num (Int.ofNat n)))

end Ems.DimsSrc
