import EmsModel.Core.Plot
import EmsModel.Core.NDArray
/-
Core/PlotRavel.lean — the step of `Convention.make_poly_collection` / `make_quiver` that turns a variable into the
flat value list the artist is built from, composed from definitions that already exist:
`data_array = self.ravel(data_array)` is `NArr.ravelDims` (Core/NDArray.lean, the model C03's driver runs) over the
grid dimensions, `if len(data_array.dims) > 1: raise ValueError(...)` is the test below, and the result is what
`Ems.makePolyCollection` (Core/Plot.lean) takes as its `data` argument (`none` = extra dimensions).
Core Lean only.
-/
namespace Ems

/-- `self.ravel(data_array)` followed by the extra-dimension test: the values in linear order, or `none` when the
ravelled variable still has more than the linear dimension (or cannot be ravelled at all) -/
def plotRavelled (a : NArr (Option Rat)) (gridDims : List String) : Option (List (Option Rat)) :=
  match a.ravelDims gridDims none with
  | none => none
  | some r => if 1 < r.dims.length then none else some r.data

/-- outcome of `make_quiver(axes, u, v)` as far as the arrows go -/
inductive QuiverResult (γ : Type)
  | valueError
  | ok (arrows : List (γ × Option Rat × Option Rat))

/-- `make_quiver` with both components given: `u.dims != v.dims` is refused, then both are ravelled and a
leftover dimension is refused, then arrow `n` is `(centre n, u n, v n)` (`Ems.makeQuiver`) -/
def makeQuiverChecked {γ : Type} (centres : List γ) (gridDims : List String) (u v : NArr (Option Rat)) :
    QuiverResult γ :=
  if u.names ≠ v.names then .valueError else
  match plotRavelled u gridDims, plotRavelled v gridDims with
  | some us, some vs => .ok (makeQuiver centres us vs)
  | _, _ => .valueError

end Ems
