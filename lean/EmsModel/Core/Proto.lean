/-
Core/Proto.lean — helpers for the line protocol spoken by `Drivers/*.lean`.
One operation per input line, one canonical output line per operation.
Parsing failures print `BAD`, never a default value.
-/
namespace Ems.Proto

def splitOn (s : String) (sep : String) : List String := s.splitOn sep

def words (s : String) : List String :=
  (s.splitOn " ").filter (· ≠ "")

def parseInt? (s : String) : Option Int := s.toInt?
def parseNat? (s : String) : Option Nat := s.toNat?

def allSome {α} : List (Option α) → Option (List α)
  | [] => some []
  | none :: _ => none
  | some x :: xs => (allSome xs).map (x :: ·)

/-- `"1,2,-3"` → `[1,2,-3]`; `"-"` or `""` → `[]` -/
def parseIntList? (s : String) (sep : String := ",") : Option (List Int) :=
  if s == "-" || s == "" then some [] else allSome ((s.splitOn sep).map parseInt?)

def parseNatList? (s : String) (sep : String := ",") : Option (List Nat) :=
  if s == "-" || s == "" then some [] else allSome ((s.splitOn sep).map parseNat?)

/-- `"0110"` → `[false,true,true,false]` -/
def parseBits? (s : String) : Option (List Bool) :=
  allSome (s.toList.map fun c => if c == '0' then some false else if c == '1' then some true else none)

def showBits (bs : List Bool) : String :=
  String.ofList (bs.map fun b => if b then '1' else '0')

def joinWith (sep : String) (xs : List String) : String := sep.intercalate xs

def showNatList (xs : List Nat) (sep : String := ",") : String :=
  if xs.isEmpty then "-" else joinWith sep (xs.map toString)

def showIntList (xs : List Int) (sep : String := ",") : String :=
  if xs.isEmpty then "-" else joinWith sep (xs.map toString)

/-- optional natural: `-` is `none` -/
def parseOptNat? (s : String) : Option (Option Nat) :=
  if s == "-" then some none else (parseNat? s).map some

def showOptNat : Option Nat → String
  | none => "-"
  | some n => toString n

/-- Rational `p/q` or integer `p` -/
def parseRat? (s : String) : Option Rat :=
  match s.splitOn "/" with
  | [p] => (parseInt? p).map (fun (n : Int) => (n : Rat))
  | [p, q] => do
      let n ← parseInt? p
      let d ← parseNat? q
      if d = 0 then none else some ((n : Rat) / (d : Rat))
  | _ => none

def showRat (r : Rat) : String :=
  if r.den = 1 then toString r.num else s!"{r.num}/{r.den}"

/-- Read stdin line by line, apply `step`, print its output. -/
partial def loop (step : String → String) : IO Unit := do
  let stdin ← IO.getStdin
  let stdout ← IO.getStdout
  let rec go : IO Unit := do
    let line ← stdin.getLine
    if line.isEmpty then return ()
    let l := (line.dropEndWhile (fun c => c == '\n' || c == '\r')).toString
    stdout.putStrLn (step l)
    go
  go
  stdout.flush

end Ems.Proto
