/-
Core/Shape.lean — row-major (C order) index arithmetic.

Models `numpy.ravel_multi_index(idx, shape)` (mode='raise') and
`numpy.unravel_index(n, shape)` as used by
`emsarray.conventions._base.DimensionConvention.ravel_index / wind_index`.
Total, computable, core Lean only.
-/
namespace Ems

/-- `numpy.prod(shape)` -/
def size : List Nat → Nat
  | [] => 1
  | d :: ds => d * size ds

/-- `numpy.ravel_multi_index(idx, shape)`, `none` where numpy raises
(wrong rank or any component outside its dimension). Never wraps or clamps. -/
def ravel : List Nat → List Nat → Option Nat
  | [], [] => some 0
  | d :: ds, i :: is =>
      if i < d then (ravel ds is).map (fun r => i * size ds + r) else none
  | _, _ => none

/-- `numpy.unravel_index(n, shape)`, `none` where numpy raises (n ≥ size). -/
def unravel : List Nat → Nat → Option (List Nat)
  | [], n => if n = 0 then some [] else none
  | d :: ds, n =>
      if n < d * size ds then
        (unravel ds (n % size ds)).map (fun is => (n / size ds) :: is)
      else none

/-- A multi-index is in range: same rank, every component below its dimension. -/
def InRange : List Nat → List Nat → Prop
  | [], [] => True
  | d :: ds, i :: is => i < d ∧ InRange ds is
  | _, _ => False

instance : (s i : List Nat) → Decidable (InRange s i)
  | [], [] => isTrue trivial
  | d :: ds, i :: is =>
      have := instDecidableInRange ds is
      inferInstanceAs (Decidable (i < d ∧ InRange ds is))
  | [], _ :: _ => isFalse (by simp [InRange])
  | _ :: _, [] => isFalse (by simp [InRange])

/-- Lexicographic "comes before" on equal-rank index lists. -/
def LexLt : List Nat → List Nat → Prop
  | i :: is, j :: js => i < j ∨ (i = j ∧ LexLt is js)
  | _, _ => False

end Ems
