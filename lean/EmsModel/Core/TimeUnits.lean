/-
Core/TimeUnits.lean — the time-units rewriting done when a dataset is saved "with the EMS fixes".

Models
* `emsarray.utils.format_time_units_for_ems(units, calendar)`  → `formatTimeUnits` (primary: what the
  property demands) and `formatWith` (the same pipeline parameterised by the year / offset formatter,
  *including* the function's own consistency check),
* the part of cftime the function relies on (external component, modelled as it behaves and
  cross-checked against the real cftime on every run):
  `cftime._datesplit` → `datesplit`, `cftime._parse_date` / `ISO8601_REGEX` / `TIMEZONE_REGEX` /
  `_parse_timezone` → `parseDate`, `parseTz`, `parseOffset`;
  `cftime.num2pydate(0, units, calendar)` → `refInstant`,
* calendar arithmetic (`datetime`, `pytz.FixedOffset`, `astimezone`) as an *abstract* pair of maps
  between field tuples and integer seconds (`CalOps`); the laws it has to satisfy are `CalLaws`
  (a hypothesis of the theorems, proved for the concrete proleptic Gregorian instance in
  `Lemmas/TimeUnitsCal.lean`).

Strings are `List Char` (`Str`); the driver converts at the boundary.
Core Lean only.
-/
namespace Ems.TimeUnits

abbrev Str := List Char

/-! ## characters and digits -/

/-- `[0-9]` (ASCII only, as in Python's `re` character class) -/
def isDig (c : Char) : Bool := 48 ≤ c.toNat && c.toNat ≤ 57

/-- value of a digit character -/
def dval (c : Char) : Nat := c.toNat - 48

/-- the digit character of `r < 10` -/
def dchR (r : Nat) : Char :=
  match r with
  | 0 => '0' | 1 => '1' | 2 => '2' | 3 => '3' | 4 => '4'
  | 5 => '5' | 6 => '6' | 7 => '7' | 8 => '8' | _ => '9'

/-- last decimal digit of `k` as a character -/
def dch (k : Nat) : Char := dchR (k % 10)

/-- `f'{n:02d}'` for `n < 100` (also what `strftime('%m %d %H %M %S')` gives) -/
def pad2 (n : Nat) : Str := [dch (n / 10), dch n]

/-- `f'{n:04d}'` for `n < 10000` -/
def pad4 (n : Nat) : Str := [dch (n / 1000), dch (n / 100), dch (n / 10), dch n]

/-- `int(digits)` for a string of ASCII digits -/
def digitsVal (ds : Str) : Nat := ds.foldl (fun a c => 10 * a + dval c) 0

/-- Python `str.isspace()` restricted to ASCII: `\t \n \v \f \r \x1c-\x1f` and space -/
def isWs (c : Char) : Bool :=
  c.toNat == 32 || (9 ≤ c.toNat && c.toNat ≤ 13) || (28 ≤ c.toNat && c.toNat ≤ 31)

/-- `str.lower()` on ASCII -/
def lower (s : Str) : Str := s.map Char.toLower

/-! ## UTC offsets -/

/-- The offset field the property demands: explicit sign, two-digit hours, `:`, two-digit minutes.
`m` is the offset in minutes east of UTC. -/
def formatOffset (m : Int) : Str :=
  (if m < 0 then '-' else '+') :: (pad2 (m.natAbs / 60) ++ ':' :: pad2 (m.natAbs % 60))

/-- `[0-9]{2}` at the head of the string -/
def two (s : Str) : Option (Nat × Str) :=
  match s with
  | a :: b :: r => if isDig a && isDig b then some (10 * dval a + dval b, r) else none
  | _ => none

/-- the optional minutes of `TIMEZONE_REGEX`: `(?::([0-9]{2})|([0-9]{2}))?` -/
def tzMinutes (r : Str) : Nat × Str :=
  match r with
  | c :: r1 =>
    if c = ':' then
      match two r1 with
      | some (m, r2) => (m, r2)
      | none => (0, r)
    else
      match two r with
      | some (m, r2) => (m, r2)
      | none => (0, r)
  | [] => (0, r)

/-- cftime's timezone grammar at the head of a string: `Z`, or a sign, **two** digits of hours and
optionally `:MM` or `MM`.  Returns the offset in minutes (`_parse_timezone`: sign applied to hours and
minutes alike) and the unread rest; `none` when the head is not a timezone. -/
def parseTz (s : Str) : Option (Int × Str) :=
  match s with
  | c :: r =>
    if c = 'Z' then some (0, r)
    else if c = '+' ∨ c = '-' then
      match two r with
      | some (h, r1) =>
        let (mm, r2) := tzMinutes r1
        let tot : Int := ((h * 60 + mm : Nat) : Int)
        some (if c = '-' then -tot else tot, r2)
      | none => none
    else none
  | [] => none

/-- The offset cftime reads from an offset field (`none`: not an offset — cftime then silently
assumes UTC). -/
def parseOffset (s : Str) : Option Int := (parseTz s).map (·.1)

/-! ## `cftime._parse_date` -/

structure Fields where
  year : Int
  month : Nat
  day : Nat
  hour : Nat
  minute : Nat
  second : Nat
deriving DecidableEq, Repr

/-- what `_parse_date` returns, with the microsecond reduced to "is it non-zero" -/
structure Bits where
  f : Fields
  micro : Bool
  off : Int
deriving DecidableEq, Repr

/-- `[0-9]{1,n}` greedy: the digits taken and the rest -/
def takeDigs : Nat → Str → Str × Str
  | 0, s => ([], s)
  | _ + 1, [] => ([], [])
  | n + 1, c :: r => if isDig c then ((takeDigs n r).1.cons c, (takeDigs n r).2) else ([], c :: r)

/-- `[0-9]{1,2}` → value and rest; `none` if there is no digit -/
def num2 (s : Str) : Option (Nat × Str) :=
  match takeDigs 2 s with
  | ([], _) => none
  | (ds, r) => some (digitsVal ds, r)

/-- `[0-9]+` greedy: the digits and the rest -/
def spanDigs : Str → Str × Str
  | [] => ([], [])
  | c :: r => if isDig c then ((spanDigs r).1.cons c, (spanDigs r).2) else ([], c :: r)

/-- `(\.([0-9]+))?` → is the microsecond non-zero, rest.
`int(float("0." + digits) * 1e6) ≠ 0` ⇔ one of the first six digits is not `0`
(holds for fractions of up to ~15 digits; the generators stay below that). -/
def parseFrac (s : Str) : Bool × Str :=
  match s with
  | c :: r =>
    if c = '.' then
      match spanDigs r with
      | ([], _) => (false, s)
      | (ds, r') => ((ds.take 6).any (· ≠ '0'), r')
    else (false, s)
  | [] => (false, s)

/-- `(:([0-9]{1,2})(\.[0-9]+)?)?` → second, micro≠0, rest -/
def parseSec (s : Str) : Nat × Bool × Str :=
  match s with
  | c :: r =>
    if c = ':' then
      match num2 r with
      | some (sec, r1) => let (mi, r2) := parseFrac r1; (sec, mi, r2)
      | none => (0, false, s)
    else (0, false, s)
  | [] => (0, false, s)

/-- the time group `(.)([0-9]{1,2}):([0-9]{1,2})(:…)?` (the separator is any character but a
newline) → hour, minute, second, micro≠0, rest; `none` if the group does not match -/
def parseTime (s : Str) : Option (Nat × Nat × Nat × Bool × Str) :=
  match s with
  | sep :: r =>
    if sep = '\n' then none else
    match num2 r with
    | some (h, c :: r1) =>
      if c = ':' then
        match num2 r1 with
        | some (mi, r2) => let (sec, mic, r3) := parseSec r2; some (h, mi, sec, mic, r3)
        | none => none
      else none
    | _ => none
  | [] => none

/-- the timezone group `(.?)(Z|[-+]HH(:MM|MM)?)`: the one-character separator is tried first -/
def parseTzGroup (s : Str) : Option Int :=
  match s with
  | sep :: r =>
    if sep = '\n' then parseOffset s else
    match parseOffset r with
    | some o => some o
    | none => parseOffset s
  | [] => none

/-- `-([0-9]{1,2})` -/
def dashNum (s : Str) : Option (Nat × Str) :=
  match s with
  | c :: r => if c = '-' then num2 r else none
  | [] => none

/-- `[+-]?[0-9]+` → year and rest -/
def parseYear (s : Str) : Option (Int × Str) :=
  match s with
  | c :: r =>
    if c = '+' ∨ c = '-' then
      match spanDigs r with
      | ([], _) => none
      | (ds, r') => some (if c = '-' then -(digitsVal ds : Int) else (digitsVal ds : Int), r')
    else
      match spanDigs s with
      | ([], _) => none
      | (ds, r') => some ((digitsVal ds : Int), r')
  | [] => none

/-- `cftime._parse_date(s)`: prefix match of `ISO8601_REGEX` (anything after the match is ignored),
then `int(...)` of the groups.  `none` where cftime raises: no year, or month / day missing
(`int(None)`).  A timezone field that does not follow the grammar is *not an error*: the offset is 0. -/
def parseDate (s : Str) : Option Bits :=
  match parseYear s with
  | none => none
  | some (y, r1) =>
    match dashNum r1 with
    | none => none
    | some (mo, r2) =>
      match dashNum r2 with
      | none => none
      | some (d, r3) =>
        match parseTime r3 with
        | some (h, mi, sec, mic, r4) =>
          some ⟨⟨y, mo, d, h, mi, sec⟩, mic, (parseTzGroup r4).getD 0⟩
        | none => some ⟨⟨y, mo, d, 0, 0, 0⟩, false, (parseTzGroup r3).getD 0⟩

/-! ## `cftime._datesplit` -/

def since : Str := ['s', 'i', 'n', 'c', 'e']

def dropWs (s : Str) : Str := s.dropWhile isWs
/-- the leading run of non-blank characters and the rest -/
def token : Str → Str × Str
  | [] => ([], [])
  | c :: r => if isWs c then ([], c :: r) else ((token r).1.cons c, (token r).2)
/-- `str.strip()` of a string that has no leading whitespace -/
def stripR (s : Str) : Str := (s.reverse.dropWhile isWs).reverse

/-- `units, since, remainder = timestr.split(None, 2)`; `since.lower() == 'since'`;
returns `(units.lower(), remainder)`; `none` where cftime raises. -/
def datesplit (s : Str) : Option (Str × Str) :=
  let t1 := token (dropWs s)
  let t2 := token (dropWs t1.2)
  let rem := dropWs t2.2
  if t1.1 = [] ∨ t2.1 = [] ∨ rem = [] then none
  else if lower t2.1 = since then some (lower t1.1, rem) else none

/-- `cftime._cftime._units` (validated against the live list on every run) -/
def allowedUnits : List Str := [
  "microseconds".toList, "microsecond".toList, "microsec".toList, "microsecs".toList,
  "milliseconds".toList, "millisecond".toList, "millisec".toList, "millisecs".toList,
  "msec".toList, "msecs".toList, "ms".toList,
  "second".toList, "seconds".toList, "sec".toList, "secs".toList, "s".toList,
  "minute".toList, "minutes".toList, "min".toList, "mins".toList,
  "hour".toList, "hours".toList, "hr".toList, "hrs".toList, "h".toList,
  "day".toList, "days".toList, "d".toList]

/-- `_datesplit` + unit check + `_parse_date(remainder.strip())` -/
def parseUnits (s : Str) : Option (Str × Bits) :=
  match datesplit s with
  | none => none
  | some (p, rem) =>
    match parseDate (stripR rem) with
    | none => none
    | some b => some (p, b)

/-! ## calendar arithmetic (abstract) -/

/-- The three things the code asks of `datetime` / `cftime.datetime` / `pytz`:
* `valid f`  — a Python `datetime` with these fields exists (year 1..9999, real day of month, …);
* `toSec f`  — seconds from a fixed origin to the (zone-less) field tuple;
* `ofSec t`  — the field tuple at `t` seconds from the origin. -/
structure CalOps where
  valid : Fields → Bool
  toSec : Fields → Int
  ofSec : Int → Fields

def firstFields : Fields := ⟨1, 1, 1, 0, 0, 0⟩
def lastFields : Fields := ⟨9999, 12, 31, 23, 59, 59⟩

/-- What the theorems assume about the calendar: reading the seconds of a valid field tuple back
gives the tuple (so valid tuples ↔ instants is one-to-one), and valid fields are in the usual ranges.
Proved for `gregorian` in `Lemmas/TimeUnitsCal.lean`. -/
structure CalLaws (c : CalOps) : Prop where
  ofSec_toSec : ∀ f, c.valid f = true → c.ofSec (c.toSec f) = f
  bounds : ∀ f, c.valid f = true →
    1 ≤ f.year ∧ f.year ≤ 9999 ∧ 1 ≤ f.month ∧ f.month ≤ 12 ∧ 1 ≤ f.day ∧ f.day ≤ 31 ∧
    f.hour < 24 ∧ f.minute < 60 ∧ f.second < 60

inductive CalKind | proleptic | standard
deriving DecidableEq, Repr

/-- the calendars for which `cftime.num2pydate` can return Python datetimes
(`calendar.lower()` first; every other name makes cftime raise) -/
def classifyCalendar (s : Str) : Option CalKind :=
  let l := lower s
  if l = "proleptic_gregorian".toList then some .proleptic
  else if l = "standard".toList ∨ l = "gregorian".toList then some .standard
  else none

/-- `cftime._can_use_python_datetime(date, calendar)` on the UTC fields, given 1 ≤ year ≤ 9999 -/
def pythonDate (k : CalKind) (u : Fields) : Bool :=
  match k with
  | .proleptic => true
  | .standard => decide (u.year > 1582) || (decide (u.year = 1582) && decide (u.month ≥ 10) && decide (u.day > 15))

/-- The reference instant of already parsed bits: seconds from the calendar's origin to the UTC
instant the units string denotes, and whether it has a sub-second part.
`none` where `cftime.num2pydate(0, units, calendar)` raises. -/
def bitsInstant (c : CalOps) (k : CalKind) (b : Bits) : Option (Int × Bool) :=
  if c.valid b.f = false then none
  else
    let t := c.toSec b.f - 60 * b.off
    if t < c.toSec firstFields ∨ c.toSec lastFields < t then none
    else if pythonDate k (c.ofSec t) = false then none
    else some (t, b.micro)

/-- `cftime.num2pydate(0, units, calendar)` as (seconds, has-microseconds) -/
def refInstant (c : CalOps) (calendar : Str) (units : Str) : Option (Int × Bool) :=
  match classifyCalendar calendar, parseUnits units with
  | some k, some (p, b) => if p ∈ allowedUnits then bitsInstant c k b else none
  | _, _ => none

/-! ## `format_time_units_for_ems` -/

/-- `f'{period} since {dt:%Y-%m-%d %H:%M:%S} {offset}'` with the year and the offset formatted by
`fy` and `fo` -/
def render (fy : Nat → Str) (fo : Int → Str) (period : Str) (f : Fields) (off : Int) : Str :=
  period ++ ' ' :: since ++ ' ' :: fy f.year.toNat ++ '-' :: pad2 f.month ++ '-' :: pad2 f.day ++
    ' ' :: pad2 f.hour ++ ':' :: pad2 f.minute ++ ':' :: pad2 f.second ++ ' ' :: fo off

/-- Everything in `format_time_units_for_ems` up to and including the formatting:
`_datesplit`, `_parse_date`, `pytz.FixedOffset(offset)` (raises for |offset| ≥ 24 h),
`num2pydate(0, …)`, `.replace(tzinfo=UTC).astimezone(tz)`, f-string. -/
def formatCore (fy : Nat → Str) (fo : Int → Str) (c : CalOps) (calendar units : Str) :
    Option (Str × (Int × Bool)) :=
  match parseUnits units with
  | none => none
  | some (p, b) =>
    if 1440 ≤ b.off.natAbs then none
    else
      match refInstant c calendar units with
      | none => none
      | some (t, mic) =>
        let loc := c.ofSec (t + 60 * b.off)
        if c.valid loc = false then none   -- `astimezone` overflows outside year 1..9999
        else some (render fy fo p loc b.off, (t, mic))

/-- The whole function *with its own consistency check*
(`if num2pydate(0, new_units, calendar) != reference_datetime: raise ValueError`),
for an arbitrary year / offset formatter. -/
def formatWith (fy : Nat → Str) (fo : Int → Str) (c : CalOps) (calendar units : Str) : Option Str :=
  match formatCore fy fo c calendar units with
  | none => none
  | some (out, ref) =>
    match refInstant c calendar out with
    | some ref' => if ref' = ref then some out else none
    | none => none

/-- **Primary model**: the formatter the property demands — four-digit year, `±HH:MM` offset.
The sub-second part is the only thing the output cannot carry, so an epoch with a non-zero
microsecond is rejected (the real function raises there through its consistency check). -/
def formatTimeUnits (c : CalOps) (calendar units : Str) : Option Str :=
  match formatCore pad4 formatOffset c calendar units with
  | some (out, (_, false)) => some out
  | _ => none

/-- the same function with the code's consistency check kept in (shown equal to `formatTimeUnits`
for every lawful calendar in `Props/C17.lean`) -/
def formatTimeUnitsChecked : CalOps → Str → Str → Option Str := formatWith pad4 formatOffset

/-! ## specification predicates used by the theorems -/

/-- `<unit> since YYYY-MM-DD HH:MM:SS ±HH:MM`: fixed-width zero-padded fields, explicit sign,
two-digit hours. -/
def EmsForm (p out : Str) : Prop :=
  ∃ y1 y2 y3 y4 m1 m2 d1 d2 h1 h2 n1 n2 s1 s2 sg o1 o2 o3 o4 : Char,
    out = p ++ ' ' :: 's' :: 'i' :: 'n' :: 'c' :: 'e' :: ' ' ::
      [y1, y2, y3, y4, '-', m1, m2, '-', d1, d2, ' ', h1, h2, ':', n1, n2, ':', s1, s2, ' ', sg, o1, o2, ':', o3, o4] ∧
    (∀ ch ∈ [y1, y2, y3, y4, m1, m2, d1, d2, h1, h2, n1, n2, s1, s2, o1, o2, o3, o4], isDig ch = true) ∧
    (sg = '+' ∨ sg = '-')


/-- The inputs the property quantifies over: a supported unit and calendar, a real date and time
of day, an offset below 24 h, no sub-second part, and a UTC instant that Python can represent. -/
structure ValidInput (c : CalOps) (k : CalKind) (p : Str) (b : Bits) : Prop where
  unit : p ∈ allowedUnits
  valid : c.valid b.f = true
  off : b.off.natAbs < 1440
  micro : b.micro = false
  lo : c.toSec firstFields ≤ c.toSec b.f - 60 * b.off
  hi : c.toSec b.f - 60 * b.off ≤ c.toSec lastFields
  py : pythonDate k (c.ofSec (c.toSec b.f - 60 * b.off)) = true

/-! ## decoding a stored number -/

/-- length of one unit in microseconds (`cftime` unit names) -/
def unitMicros (p : Str) : Option Nat :=
  if p ∈ ["microseconds".toList, "microsecond".toList, "microsec".toList, "microsecs".toList] then some 1
  else if p ∈ ["milliseconds".toList, "millisecond".toList, "millisec".toList, "millisecs".toList,
               "msec".toList, "msecs".toList, "ms".toList] then some 1000
  else if p ∈ ["second".toList, "seconds".toList, "sec".toList, "secs".toList, "s".toList] then some 1000000
  else if p ∈ ["minute".toList, "minutes".toList, "min".toList, "mins".toList] then some 60000000
  else if p ∈ ["hour".toList, "hours".toList, "hr".toList, "hrs".toList, "h".toList] then some 3600000000
  else if p ∈ ["day".toList, "days".toList, "d".toList] then some 86400000000
  else none

/-- The instant (microseconds from the calendar origin) an integer stored value `n` denotes under
a units string — defined when the reference has no sub-second part. -/
def decodeValue (c : CalOps) (calendar units : Str) (n : Int) : Option Int :=
  match refInstant c calendar units, parseUnits units with
  | some (t, false), some (p, _) =>
    match unitMicros p with
    | some u => some (t * 1000000 + n * u)
    | none => none
  | _, _ => none

/-! ## the concrete calendar used by the driver: proleptic Gregorian, origin 1970-01-01 -/

def isLeap (y : Int) : Bool := (y % 4 == 0 && y % 100 != 0) || y % 400 == 0

def daysInMonth (y : Int) (m : Nat) : Nat :=
  if m = 2 then (if isLeap y then 29 else 28)
  else if m = 4 ∨ m = 6 ∨ m = 9 ∨ m = 11 then 30
  else if 1 ≤ m ∧ m ≤ 12 then 31 else 0

def gValid (f : Fields) : Bool :=
  decide (1 ≤ f.year) && decide (f.year ≤ 9999) && decide (1 ≤ f.month) && decide (f.month ≤ 12) &&
  decide (1 ≤ f.day) && decide (f.day ≤ daysInMonth f.year f.month) &&
  decide (f.hour < 24) && decide (f.minute < 60) && decide (f.second < 60)

/-- days from 0001-01-01 to the first day of year `y` (Python's `_days_before_year`) -/
def daysBeforeYear (y : Int) : Int := 365 * (y - 1) + (y - 1) / 4 - (y - 1) / 100 + (y - 1) / 400

/-- days of the year before month `m` (1-based; Python's `_days_before_month`) -/
def cum (leap : Bool) (m : Nat) : Nat :=
  let l := if leap then 1 else 0
  match m with
  | 1 => 0 | 2 => 31 | 3 => 59 + l | 4 => 90 + l | 5 => 120 + l | 6 => 151 + l | 7 => 181 + l
  | 8 => 212 + l | 9 => 243 + l | 10 => 273 + l | 11 => 304 + l | 12 => 334 + l | _ => 365 + l

/-- days from 0001-01-01 (day 0) to y-m-d, proleptic Gregorian (Python's `_ymd2ord` minus one) -/
def toDays (y : Int) (m d : Nat) : Int :=
  daysBeforeYear y + (cum (isLeap y) m : Int) + (d : Int) - 1

/-- month and day of a 0-based day of the year -/
def monthDay (leap : Bool) (doy : Nat) : Nat × Nat :=
  if doy < cum leap 2 then (1, doy + 1)
  else if doy < cum leap 3 then (2, doy - cum leap 2 + 1)
  else if doy < cum leap 4 then (3, doy - cum leap 3 + 1)
  else if doy < cum leap 5 then (4, doy - cum leap 4 + 1)
  else if doy < cum leap 6 then (5, doy - cum leap 5 + 1)
  else if doy < cum leap 7 then (6, doy - cum leap 6 + 1)
  else if doy < cum leap 8 then (7, doy - cum leap 7 + 1)
  else if doy < cum leap 9 then (8, doy - cum leap 8 + 1)
  else if doy < cum leap 10 then (9, doy - cum leap 9 + 1)
  else if doy < cum leap 11 then (10, doy - cum leap 10 + 1)
  else if doy < cum leap 12 then (11, doy - cum leap 11 + 1)
  else (12, doy - cum leap 12 + 1)

/-- inverse of `toDays` (Python's `_ord2ymd`): 400-, 100-, 4- and 1-year cycles -/
def ofDays (n : Int) : Int × Nat × Nat :=
  let n400 : Int := n / 146097
  let r : Int := n % 146097
  let n100 : Int := min (r / 36524) 3
  let r2 : Int := r - n100 * 36524
  let n4 : Int := r2 / 1461
  let r3 : Int := r2 % 1461
  let n1 : Int := min (r3 / 365) 3
  let r4 : Int := r3 - n1 * 365
  let y : Int := 400 * n400 + 100 * n100 + 4 * n4 + n1 + 1
  let md := monthDay (isLeap y) r4.toNat
  (y, md.1, md.2)

/-- days from 0001-01-01 to 1970-01-01 -/
def unixDay : Int := 719162

def gToSec (f : Fields) : Int :=
  (toDays f.year f.month f.day - unixDay) * 86400 + (f.hour : Int) * 3600 + (f.minute : Int) * 60 + (f.second : Int)

def gOfSec (t : Int) : Fields :=
  let days : Int := t / 86400 + unixDay
  let r : Int := t % 86400
  let ymd := ofDays days
  ⟨ymd.1, ymd.2.1, ymd.2.2, (r / 3600).toNat, (r % 3600 / 60).toNat, (r % 60).toNat⟩

/-- proleptic Gregorian calendar, seconds since 1970-01-01T00:00:00 -/
def gregorian : CalOps := ⟨gValid, gToSec, gOfSec⟩

/-! ## `disable_default_fill_value` and what xarray then writes -/

/-- numpy dtype kinds as far as `maybe_promote` / `DefaultFillvalueCoder` tell them apart -/
inductive DKind | bool | int | uint | float | complex | datetime | timedelta | str | bytes | object
deriving DecidableEq, Repr

/-- `maybe_promote(dtype)[0] == dtype`: the dtype can hold its own missing value ("float-like") -/
def promoteStable : DKind → Bool
  | .float | .complex | .datetime | .timedelta | .object => true
  | _ => false

/-- `np.issubdtype(dtype, np.floating)`: xarray's `DefaultFillvalueCoder` adds `_FillValue = NaN`
to exactly these on-disk dtypes when no `_FillValue` key exists in attrs or encoding -/
def autoFills : DKind → Bool
  | .float => true
  | _ => false

/-- the state of a `_FillValue` slot: no key, key holding `None`, key holding a value -/
inductive Slot | absent | none | value
deriving DecidableEq, Repr

structure VarDesc where
  mem : DKind          -- dtype of the variable in memory
  disk : DKind         -- dtype it is written with (after CF encoding / `encoding['dtype']`)
  enc : Slot           -- `'_FillValue'` in `variable.encoding`
  attr : Bool          -- `'_FillValue'` in `variable.attrs`
deriving DecidableEq, Repr

/-- `disable_default_fill_value` on one variable -/
def disableDefaultFill (v : VarDesc) : VarDesc :=
  if promoteStable v.mem && v.enc == .absent && !v.attr then { v with enc := .none } else v

/-- does the variable end up with a `_FillValue` attribute in the file (xarray's encoder) -/
def writesFill (v : VarDesc) : Bool :=
  v.attr || v.enc == .value || (v.enc == .absent && autoFills v.disk)

/-- had the source a fill value of its own -/
def sourceHasFill (v : VarDesc) : Bool := v.attr || v.enc == .value

/-! ## time coordinate discovery and the save pipeline -/

structure TVar where
  name : String
  encUnits : Option Str     -- `variable.encoding.get('units')`
  isDatetime : Bool         -- `variable.dtype.type == numpy.datetime64`
deriving Repr

/-- `'since' in units` -/
def hasSince : Str → Bool
  | [] => false
  | c :: r => since.isPrefixOf (c :: r) || hasSince r

/-- `Convention.time_coordinate` (generic): the first variable, in dataset order, whose encoding
has units containing `since` and whose dtype is datetime64 -/
def timeCoordinateGeneric (vars : List TVar) : Option String :=
  (vars.find? fun v => match v.encUnits with
    | some u => hasSince u && v.isDatetime
    | none => false).map (·.name)

/-- SHOC overrides: the *variable* with the fixed name (`t` for SHOC
standard, `time` for SHOC simple), whatever it holds -/
def timeCoordinateNamed (name : String) (vars : List TVar) : Option String :=
  (vars.find? fun v => v.name == name).map (·.name)

inductive ConvKind | generic | shocStandard | shocSimple
deriving DecidableEq, Repr

def shocTimeName : ConvKind → String
  | .shocStandard => "t"
  | _ => "time"

def timeCoordinate : ConvKind → List TVar → Option String
  | .generic, vs => timeCoordinateGeneric vs
  | k, vs => timeCoordinateNamed (shocTimeName k) vs

/-- `Convention.to_netcdf` up to the attribute rewrite: which variable of the saved file gets its
units rewritten.  `none` = nothing is rewritten, `some (some n)` = variable `n`,
`some none` = the save raises: the discovered name is not a variable (`data_array_to_name`), or the
variable is not a datetime one, so that the file has no `units` / `calendar` attribute to read
(`fix_time_units_for_ems`). -/
def saveTimeVariable (found : Option String) (vs : List TVar) : Option (Option String) :=
  match found with
  | none => none
  | some n =>
    match vs.find? (fun v => v.name == n) with
    | some v => if v.isDatetime then some (some n) else some none
    | none => some none

/-- `fix_time_units_for_ems` on the attributes of the time variable in the file:
only `units` is replaced; `none` where the function raises (missing `units` / `calendar`, or
`format_time_units_for_ems` raises). -/
def fixAttrs (fmt : Str → Str → Option Str) (units calendar : Option Str) : Option Str :=
  match units, calendar with
  | some u, some cal => fmt cal u
  | _, _ => none

end Ems.TimeUnits
