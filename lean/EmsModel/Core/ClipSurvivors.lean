import EmsModel.Core.Clip
import EmsModel.Core.ClipProto
/-
Core/ClipSurvivors.lean — which nodes and edges of a mesh survive a clip (C09).

  `survivors <rows r;r (entries , with - missing)> <rowkeep bits> <n>` → bits (one per element 0..n-1)

The rows are the face-node (or face-edge) table, `rowkeep` marks the kept faces, `n` is the number
of nodes (edges).  An element survives iff a kept row names it.
-/
namespace Ems

/-- `mask_from_face_indexes`: the nodes (edges) that survive a clip are exactly those named by the
face-node (face-edge) row of a kept face: `unique(face_node[face_indexes].compressed())`. -/
def referencedBy (table : List (List (Option Nat))) (rowKeep : List Bool) (n : Nat) : List Bool :=
  (List.range n).map fun c =>
    ((List.range table.length).filter fun r => rowKeep.getD r false).any fun r =>
      (table.getD r []).contains (some c)

namespace SurvivorsProto
open Ems.Proto Ems.ClipProto

def step? (ws : List String) : Option String :=
  match ws with
  | ["survivors", rows, keep, n] =>
    some (match Proto.allSome ((rows.splitOn ";").map parseOptNats?), parseBits? keep, parseNat? n with
    | some t, some k, some n => showBits (referencedBy t k n)
    | _, _, _ => "BAD")
  | _ => none

end SurvivorsProto
end Ems
