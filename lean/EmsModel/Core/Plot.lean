import EmsModel.Core.Polygons
/-
Core/Plot.lean — what the plot artists are built from.

Models `Convention.make_poly_collection` (values and polygons indexed by the same validity
mask; default colour limits; refusals), `plot.polygons_to_collection`, `Convention.make_quiver`.
A value is `Option Rat` (`none` = NaN).
-/
namespace Ems

/-- `polygons[mask]` -/
def plottedPaths (polys : List (Option Poly)) : List Poly := polys.filterMap id

/-- `values[mask]`: the values of the cells that have a polygon, in linear order -/
def plottedValues {β : Type} (polys : List (Option Poly)) (values : List β) : List β :=
  (polys.zip values).filterMap fun pv => if pv.1.isSome then some pv.2 else none

/-- `(nanmin(values), nanmax(values))`, `none` when no value is present (all NaN) -/
def defaultClim (values : List (Option Rat)) : Option (Rat × Rat) :=
  match bbox ((values.filterMap id).map fun x => (x, x)) with
  | some (lo, _, hi, _) => some (lo, hi)
  | none => none

/-- the keyword overrides that matter for the artist's content -/
structure PlotOverrides where
  array : Bool := false                 -- an `array=` keyword was given
  clim : Option (Rat × Rat) := none     -- a `clim=` keyword

inductive PlotResult
  | typeError                            -- `data_array` together with `array=`
  | valueError                           -- leftover non-spatial dimensions
  | ok (paths : List Poly) (array : Option (List (Option Rat))) (clim : Option (Rat × Rat))
deriving Repr

/-- `make_poly_collection(data_array, **kwargs)`; `ravelled` = the flattened variable, or
`none` if flattening leaves more than the one linear dimension -/
def makePolyCollection (polys : List (Option Poly)) (data : Option (Option (List (Option Rat))))
    (ov : PlotOverrides) : PlotResult :=
  match data with
  | none => .ok (plottedPaths polys) none ov.clim
  | some ravelled =>
    if ov.array then .typeError else
    match ravelled with
    | none => .valueError
    | some values =>
      let vals := plottedValues polys values
      -- `numpy.nanmin` of an empty array raises: a dataset in which no cell has geometry
      if vals.isEmpty && ov.clim.isNone then .valueError else
      .ok (plottedPaths polys) (some vals) (match ov.clim with
        | some c => some c
        | none => defaultClim vals)

/-- `make_quiver`: arrow `n` sits at face centre `n` with components `(u n, v n)` -/
def makeQuiver {γ β : Type} (centres : List γ) (u v : List β) : List (γ × β × β) :=
  centres.zip (u.zip v)

end Ems
