import EmsModel.Core.Depth
import EmsModel.Core.Proto
/-!
Core/DepthProto.lean — parser / printer of the dataset syntax used on the protocol lines of
the C12 and C13 drivers.

`<DS>`   := `<sizes>|<var>|<var>…`            (no blanks)
`<sizes>`:= `k=3,t=2` or `-`
`<var>`  := `name;c|d;dims;positive;bounds;extra;data`
            dims `a,b` or `-`; positive / bounds `-` = absent; data `1,n,-3/2` (`n` = NaN) or `-`
Printing sorts sizes and variables by name.  A variable whose data length is not the product
of its dimension sizes, or that uses an unknown dimension, is unparseable (`BAD`).
-/
namespace Ems.Depth.Proto

open Ems Ems.Depth Ems.Proto

def parseVal? (s : String) : Option Val :=
  if s == "n" then some none else (parseRat? s).map some

def parseVals? (s : String) : Option (List Val) :=
  if s == "-" then some [] else Ems.Proto.allSome ((s.splitOn ",").map parseVal?)

def parseNames (s : String) : List String :=
  if s == "-" || s == "" then [] else s.splitOn ","

def optStr (s : String) : Option String := if s == "-" then none else some s

def parseSizes? (s : String) : Option (List (String × Nat)) :=
  if s == "-" then some [] else
  Ems.Proto.allSome ((s.splitOn ",").map fun kv =>
    match kv.splitOn "=" with
    | [k, v] => (parseNat? v).map fun n => (k, n)
    | _ => none)

def parseVar? (sizes : List (String × Nat)) (s : String) : Option Var :=
  match s.splitOn ";" with
  | [name, flag, dims, pos, bnd, extra, data] =>
    if flag != "c" && flag != "d" then none else
    match parseVals? data with
    | none => none
    | some vals =>
      let ds := parseNames dims
      if ds.all (fun d => (sizes.lookup d).isSome)
          && vals.length == size (ds.map fun d => (sizes.lookup d).getD 0) then
        some { name := name, dims := ds, data := vals, positive := optStr pos, bounds := optStr bnd,
               isCoord := flag == "c", extra := extra }
      else none
  | _ => none

def parseDataset? (s : String) : Option Dataset :=
  match s.splitOn "|" with
  | [] => none
  | sz :: vars =>
    match parseSizes? sz with
    | none => none
    | some sizes =>
      (Ems.Proto.allSome (vars.map (parseVar? sizes))).map fun vs => { sizes := sizes, vars := vs }

def showVal : Val → String
  | none => "n"
  | some r => showRat r

def showOpt : Option String → String
  | none => "-"
  | some s => s

def showVar (v : Var) : String :=
  joinWith ";" [v.name, if v.isCoord then "c" else "d",
    if v.dims.isEmpty then "-" else joinWith "," v.dims,
    showOpt v.positive, showOpt v.bounds, v.extra,
    if v.data.isEmpty then "-" else joinWith "," (v.data.map showVal)]

def showDataset (ds : Dataset) : String :=
  let sizes := ds.sizes.mergeSort (fun a b => a.1 ≤ b.1)
  let vars := ds.vars.mergeSort (fun a b => a.name ≤ b.name)
  joinWith "|" ((if sizes.isEmpty then "-" else joinWith "," (sizes.map fun p => s!"{p.1}={p.2}"))
    :: vars.map showVar)

/-- `N` / `T` / `F` -/
def parseTri? (c : Char) : Option (Option Bool) :=
  if c == 'N' then some none else if c == 'T' then some (some true)
  else if c == 'F' then some (some false) else none

/-- `TF` → (positive_down, deep_to_shallow) -/
def parseOpt? (s : String) : Option (Option Bool × Option Bool) :=
  match s.toList with
  | [a, b] => match parseTri? a, parseTri? b with
    | some x, some y => some (x, y)
    | _, _ => none
  | _ => none

def showNames (l : List String) : String := if l.isEmpty then "-" else joinWith "," l

/-- `name:dims:positive:axis:cartesian_axis:coordinate_type:standard_name`, `/`-separated list -/
def parseMeta? (s : String) : Option Meta :=
  match s.splitOn ":" with
  | [n, d, p, a, c, t, sn] =>
    some { name := n, dims := if d == "-" then [] else d.splitOn "+", positive := optStr p, axis := optStr a,
           cartesianAxis := optStr c, coordinateType := optStr t, standardName := optStr sn }
  | _ => none

def parseMetas? (s : String) : Option (List Meta) :=
  if s == "-" then some [] else Ems.Proto.allSome ((s.splitOn "/").map parseMeta?)

end Ems.Depth.Proto
