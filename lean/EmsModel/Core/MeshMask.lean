/-
Core/MeshMask.lean — clip masks of unstructured meshes.

Models `emsarray.conventions.ugrid.buffer_faces`, `mask_from_face_indexes`
(with its inner `new_element_indexes`) and `UGrid.make_clip_mask`.
A mesh is given by its normalised connectivity (what `Mesh2DTopology.face_node_array` /
`face_edge_array` hold after `.compressed()`): zero-based, fill values removed.
Total, computable, core Lean only.
-/
namespace Ems.Clip

/-- insert into a strictly ascending list, dropping a duplicate -/
def insertU (x : Nat) : List Nat → List Nat
  | [] => [x]
  | y :: ys => if x < y then x :: y :: ys else if x = y then y :: ys else y :: insertU x ys

/-- `numpy.sort(numpy.unique(xs))`: strictly ascending, duplicate-free. -/
def sortU (l : List Nat) : List Nat := l.foldr insertU []

/-- The part of `Mesh2DTopology` the clip mask reads. -/
structure FaceMesh where
  /-- `topology.node_count` -/
  nNodes : Nat
  /-- rows of `topology.face_node_array`, compressed -/
  faces : List (List Nat)
  /-- `topology.edge_count` if `topology.has_edge_dimension`, else `none` -/
  nEdges : Option Nat
  /-- rows of `topology.face_edge_array`, compressed (unused without an edge dimension) -/
  faceEdges : List (List Nat)
deriving Repr

namespace FaceMesh

def nFaces (m : FaceMesh) : Nat := m.faces.length
/-- `face_node[f].compressed()`; an out-of-range face has no nodes -/
def faceNodes (m : FaceMesh) (f : Nat) : List Nat := m.faces.getD f []
/-- `face_edge[f].compressed()` -/
def faceEdgesOf (m : FaceMesh) (f : Nat) : List Nat := m.faceEdges.getD f []

/-- `buffer_faces(face_indexes, topology)`:
`included_nodes` = all nodes of the given faces; the result enumerates the faces in index
order, keeping those that were given or that contain an included node. -/
def bufferFaces (m : FaceMesh) (F : List Nat) : List Nat :=
  let includedNodes := F.flatMap m.faceNodes
  (List.range m.nFaces).filter fun f =>
    F.contains f || (m.faceNodes f).any fun n => includedNodes.contains n

/-- `for _ in range(buffer): face_indexes = buffer_faces(face_indexes, topology)` -/
def bufferIter (m : FaceMesh) : Nat → List Nat → List Nat
  | 0, F => F
  | b + 1, F => bufferIter m b (m.bufferFaces F)

end FaceMesh

/-- `new_indexes[indexes] = numpy.arange(len(indexes))`, position by position:
entry `indexes[k]` receives `k` (counting from `k0`). -/
def scatter : List (Option Nat) → List Nat → Nat → List (Option Nat)
  | acc, [], _ => acc
  | acc, e :: es, k => scatter (acc.set e (some k)) es (k + 1)

/-- `new_element_indexes(size, indexes)` of `mask_from_face_indexes`:
a fully masked array of length `size` (`none` = masked) with `indexes[k] ↦ k`. -/
def newElementIndexes (size : Nat) (indexes : List Nat) : List (Option Nat) :=
  scatter (List.replicate size none) indexes 0

/-- The mask dataset of a mesh: `new_face_index`, `new_edge_index` (absent without an edge
dimension), `new_node_index`; `none` entries are masked (element dropped). -/
structure MeshMask where
  newFace : List (Option Nat)
  newEdge : Option (List (Option Nat))
  newNode : List (Option Nat)
deriving DecidableEq, Repr

/-- `mask_from_face_indexes(face_indexes, topology)`, literally: faces are numbered in the
order of the given list; edges and nodes of the given faces through `sort(unique(…))`. -/
def maskFromFaceIndexes (m : FaceMesh) (F : List Nat) : MeshMask :=
  { newFace := newElementIndexes m.nFaces F
    newEdge := m.nEdges.map fun ne => newElementIndexes ne (sortU (F.flatMap m.faceEdgesOf))
    newNode := newElementIndexes m.nNodes (sortU (F.flatMap m.faceNodes)) }

/-- The faces a clip keeps: the hits (put in index order) grown by `buffer` rings. -/
def keptFaces (m : FaceMesh) (hits : List Nat) (buffer : Int) : List Nat :=
  m.bufferIter buffer.toNat (sortU hits)

/-- `UGrid.make_clip_mask` as the property demands it: the hit list, in whatever order
the spatial index returns it, is put in index order before the faces are numbered. -/
def ugridClipMask (m : FaceMesh) (hits : List Nat) (buffer : Int) : MeshMask :=
  maskFromFaceIndexes m (keptFaces m hits buffer)

/-- `UGrid.make_clip_mask` of the pinned tree: the hit list goes to
`mask_from_face_indexes` as it arrives (DESIGN.md finding F1). -/
def ugridClipMaskCurrent (m : FaceMesh) (hits : List Nat) (buffer : Int) : MeshMask :=
  maskFromFaceIndexes m (m.bufferIter buffer.toNat hits)

end Ems.Clip

namespace Ems.Clip

/-- Decidable form of "kept elements are numbered contiguously in their original order":
walking the table in old-index order, the kept entries read `0, 1, 2, …`. -/
def rankOKFrom : Nat → List (Option Nat) → Bool
  | _, [] => true
  | k, none :: rest => rankOKFrom k rest
  | k, some v :: rest => v == k && rankOKFrom (k + 1) rest

def rankOK (t : List (Option Nat)) : Bool := rankOKFrom 0 t

end Ems.Clip
