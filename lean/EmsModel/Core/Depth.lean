import EmsModel.Core.Shape
/-!
Core/Depth.lean — executable model of `emsarray.operations.depth`
(`normalize_depth_variables`, `_find_ocean_floor_indexes`, `ocean_floor`) and of the
depth-coordinate discovery of `emsarray.conventions` (`Convention.depth_coordinates`,
`depth_coordinate`, the SHOC overrides).

A dataset is a list of named variables over named dimensions; the data of a variable is
its flat row-major (C order) value list, `none` = NaN.  xarray addresses data *by
dimension name*: `Var.at` reads a value at a named index, and every array operation of
the modelled code (`isel` with a reversed slice, `isel` with an integer index array,
`isel` with a scalar) is a `gather`: the output array is enumerated in row-major order
and each cell is read from the source at a re-mapped named index.
Total, computable, core Lean only.
-/
namespace Ems.Depth

open Ems

/-- one stored value: an exact rational, `none` = NaN / missing -/
abbrev Val := Option Rat

/-- a named index: dimension name ↦ position -/
abbrev Env := String → Nat

/-- An `xarray` variable of a dataset. Only the attributes the modelled code reads are
separate fields; every other attribute (and the encoding) travels in `extra`. -/
structure Var where
  name : String
  dims : List String
  data : List Val
  /-- `attrs.get('positive')` -/
  positive : Option String
  /-- `attrs.get('bounds')` -/
  bounds : Option String
  /-- member of `dataset.coords` (as opposed to `dataset.data_vars`) -/
  isCoord : Bool
  /-- all other attributes + encoding, opaque -/
  extra : String
deriving DecidableEq, Repr

structure Dataset where
  sizes : List (String × Nat)
  vars : List Var
deriving DecidableEq, Repr

/-- `dataset.sizes[d]` (0 for an unknown dimension) -/
def Dataset.sz (ds : Dataset) (d : String) : Nat := (ds.sizes.lookup d).getD 0

/-! ### named indexing -/

/-- the named index that puts `idx` on `dims` (0 elsewhere) -/
def envOf (dims : List String) (idx : List Nat) : Env :=
  fun d => ((dims.zip idx).lookup d).getD 0

/-- `env` with dimension `d` moved to position `j` -/
def upd (env : Env) (d : String) (j : Nat) : Env := fun x => if x = d then j else env x

/-- the value of a variable at a named index (`none` outside the array) -/
def Var.at (sz : String → Nat) (v : Var) (env : Env) : Val :=
  match ravel (v.dims.map sz) (v.dims.map env) with
  | some n => (v.data[n]?).getD none
  | none => none

/-- Build the row-major data of an array over `odims` whose cell at named index `env`
is `f env`. -/
def gather (sz : String → Nat) (odims : List String) (f : Env → Val) : List Val :=
  (List.range (size (odims.map sz))).map fun n =>
    match unravel (odims.map sz) n with
    | some idx => f (envOf odims idx)
    | none => none

/-! ### values -/

/-- `-1 * x` -/
def vneg : Val → Val := Option.map (fun r => -r)

/-- `a > b` on floats (false when either is NaN) -/
def vgt (a b : Val) : Bool :=
  match a, b with
  | some x, some y => decide (y < x)
  | _, _ => false

/-- `a > 0` -/
def vpos (a : Val) : Bool :=
  match a with
  | some x => decide (0 < x)
  | none => false

/-! ### variable level operations -/

/-- `-1 * variable.values`, attributes kept -/
def negVar (v : Var) : Var := { v with data := v.data.map vneg }

def Var.setPositive (s : String) (v : Var) : Var := { v with positive := some s }

/-- index of dimension `d` mirrored: `n-1-j` -/
def flipEnv (sz : String → Nat) (d : String) (env : Env) : Env := upd env d (sz d - 1 - env d)

/-- `variable.isel({d: slice(None, None, -1)})` -/
def revVar (sz : String → Nat) (d : String) (v : Var) : Var :=
  if d ∈ v.dims then { v with data := gather sz v.dims (fun env => v.at sz (flipEnv sz d env)) } else v

/-- `variable.isel({d: I})` for an integer index array `I` given by named index, with the
resulting dimension order `odims` -/
def iselVar (sz : String → Nat) (d : String) (I : Env → Nat) (odims : List String) (v : Var) : Var :=
  { v with dims := odims, data := gather sz odims (fun env => v.at sz (upd env d (I env))) }

/-! ### dataset level helpers -/

def Dataset.find (ds : Dataset) (n : String) : Option Var := ds.vars.find? (fun v => v.name == n)

/-- replace the variable called `n` by `f` of it (no-op if there is none) -/
def Dataset.modify (ds : Dataset) (n : String) (f : Var → Var) : Dataset :=
  { ds with vars := ds.vars.map fun v => if v.name = n then f v else v }

/-- `dataset.isel({d: numpy.s_[::-1]})`: every variable with that dimension is reversed -/
def Dataset.reverseAlong (ds : Dataset) (d : String) : Dataset :=
  { ds with vars := ds.vars.map (revVar ds.sz d) }

/-! ### `normalize_depth_variables` -/

def posName (b : Bool) : String := if b then "down" else "up"

/-- no `positive` attribute: "If there are more values >0 than <0, positive is probably
down" — `positive_values > total_values / 2` -/
def guessDown (vals : List Val) : Bool := decide (vals.length < 2 * (vals.filter vpos).length)

/-- `data_positive_down` as the code decides it: `attrs['positive'] == 'down'` when the
attribute exists (so anything not spelled exactly `down` counts as up), else the guess -/
def signDown (cvar : Var) : Bool :=
  match cvar.positive with
  | some s => s == "down"
  | none => guessDown cvar.data

/-- "Reverse the polarity": the coordinate and, if its `bounds` attribute names an
existing variable, that variable are multiplied by −1.
The code has two branches for the coordinate — `assign_coords` + re-attaching `attrs` /
`encoding` when it is a dimension coordinate (`name == dimension`), `assign` with a
`(dims, values, attrs, encoding)` tuple otherwise.  Both replace the values and keep
attributes, encoding and coordinate status, which is what `modify name negVar` does; the
correspondence runs dimension coordinates, auxiliary coordinates and plain variables. -/
def flipSign (new : Dataset) (name : String) : Dataset :=
  let new2 := new.modify name negVar
  match (new2.find name).bind (·.bounds) with
  | some bn => new2.modify bn negVar
  | none => new2

/-- the first two values, `d1, d2 = values[0:2]` -/
def firstTwo : List Val → Option (Val × Val)
  | d1 :: d2 :: _ => some (d1, d2)
  | _ => none

/-- `data_deep_to_shallow = (d1 > d2) == data_positive_down` -/
def deepFirst (down : Bool) (data : List Val) : Option Bool :=
  (firstTwo data).map fun (d1, d2) => vgt d1 d2 == down

/-- `if positive_down is not None: new_variable.attrs['positive'] = 'down' if positive_down else 'up'` -/
def withPositive (pd : Option Bool) (new : Dataset) (name : String) : Dataset :=
  match pd with
  | some b => new.modify name (Var.setPositive (posName b))
  | none => new

/-- `positive_down is not None and data_positive_down != positive_down` -/
def wantFlip (pd : Option Bool) (dataPD : Bool) : Bool :=
  match pd with
  | some b => dataPD != b
  | none => false

/-- One iteration of the loop over `depth_coordinates`. `orig` is the function's argument
(attributes and the guess are read from it), `new` is `new_dataset` so far.
Result: the next `new_dataset` and the warnings of this iteration (`name:guess`);
`none` = the call raises. -/
def normStep (orig : Dataset) (pd dts : Option Bool) (new : Dataset) (name : String) :
    Option (Dataset × List String) :=
  match orig.find name with
  | none => none                                   -- name_to_data_array: ValueError
  | some cvar =>
    match cvar.dims with
    | [dim] =>
      let new1 := withPositive pd new name
      let dataPD := signDown cvar
      let warn := if cvar.positive.isNone then [name ++ ":" ++ posName dataPD] else []
      let doFlip := wantFlip pd dataPD
      let new2 := if doFlip then flipSign new1 name else new1
      let dataPD2 := if doFlip then !dataPD else dataPD
      match dts with
      | none => some (new2, warn)
      | some t =>
        match (new2.find name).bind (fun v => deepFirst dataPD2 v.data) with
        | some dds => some (if dds != t then new2.reverseAlong dim else new2, warn)
        | none => none                             -- fewer than two levels: unpacking fails
    | _ => none                                    -- "Can't normalize multidimensional depth variable"

def normLoop (orig : Dataset) (pd dts : Option Bool) :
    List String → Dataset → List String → Option (Dataset × List String)
  | [], new, w => some (new, w)
  | c :: cs, new, w =>
    match normStep orig pd dts new c with
    | none => none
    | some (new', w') => normLoop orig pd dts cs new' (w ++ w')

/-- `normalize_depth_variables(dataset, depth_coordinates, positive_down=pd, deep_to_shallow=dts)`:
the new dataset and the warnings, `none` = raises. -/
def normalize (ds : Dataset) (coords : List String) (pd dts : Option Bool) :
    Option (Dataset × List String) :=
  normLoop ds pd dts coords ds []

/-! ### `_find_ocean_floor_indexes` on one water column -/

/-- `(column * 0 + 1).cumsum()` with NaN skipped: running count of valid layers -/
def runCount {α} : Nat → List (Option α) → List Nat
  | _, [] => []
  | acc, x :: xs => let acc' := if x.isSome then acc + 1 else acc; acc' :: runCount acc' xs

/-- position of the first maximum (`numpy.argmax`); `best` is the running maximum at `bi` -/
def argmaxFrom : Nat → Nat → Nat → List Nat → Nat
  | _, bi, _, [] => bi
  | best, bi, i, x :: xs => if best < x then argmaxFrom x i (i + 1) xs else argmaxFrom best bi (i + 1) xs

/-- `argmax` of a list of naturals (0 for the empty list) -/
def argmaxFirst : List Nat → Nat
  | [] => 0
  | x :: xs => argmaxFrom x 0 1 xs

/-- `_find_ocean_floor_indexes` for one column -/
def floorIndex {α} (col : List (Option α)) : Nat := argmaxFirst (runCount 0 col)

/-! ### `ocean_floor` -/

/-- the values of `v` along dimension `d` at a named index -/
def column (sz : String → Nat) (v : Var) (d : String) (env : Env) : List Val :=
  (List.range (sz d)).map fun j => v.at sz (upd env d j)

/-- `dims[0]` of a one-dimensional variable (`utils.dimensions_from_coords`); `none` = raises -/
def dimOf (ds : Dataset) (name : String) : Option String :=
  match ds.find name with
  | some v => match v.dims with
    | [d] => some d
    | _ => none
  | none => none

def allSome {α} : List (Option α) → Option (List α)
  | [] => some []
  | none :: _ => none
  | some x :: xs => (allSome xs).map (x :: ·)

/-- `frozenset(cvar.dims).difference({depth_dimension}, non_spatial_dimensions)` -/
def spatialOf (nsdims : List String) (dd : String) (v : Var) : List String :=
  v.dims.filter fun x => x ≠ dd ∧ x ∉ nsdims

def sameSet (a b : List String) : Bool := a.all (· ∈ b) && b.all (· ∈ a)

/-- `dimension_sets[spatial_dimensions].append(name)` on an insertion-ordered dict -/
def addToGroups (gs : List (List String × List String)) (key : List String) (name : String) :
    List (List String × List String) :=
  match gs with
  | [] => [(key, [name])]
  | (k, ns) :: rest =>
    if sameSet k key then (k, ns ++ [name]) :: rest else (k, ns) :: addToGroups rest key name

/-- the `dimension_sets` of one depth dimension: data variables that have it and at least
one spatial dimension, grouped by their set of spatial dimensions -/
def groupsOf (nsdims : List String) (dd : String) (vars : List Var) : List (List String × List String) :=
  vars.foldl (fun gs v =>
    if !v.isCoord && dd ∈ v.dims && !(spatialOf nsdims dd v).isEmpty
    then addToGroups gs (spatialOf nsdims dd v) v.name else gs) []

/-- named index with every non-spatial dimension at 0 (`isel({name: 0 …})`) -/
def zeroNs (nsdims : List String) (env : Env) : Env := fun x => if x ∈ nsdims then 0 else env x

/-- remove duplicates, keeping first occurrences -/
def dedup : List String → List String
  | [] => []
  | x :: xs => x :: (dedup xs).filter (· ≠ x)

/-- dimension order of `v.isel({dd: I})` where `I` has dimensions `idims`
(xarray: the indexed dimension is replaced by the indexer's dimensions, first occurrence wins) -/
def iselDims (dd : String) (idims : List String) (dims : List String) : List String :=
  dedup (dims.flatMap fun x => if x = dd then idims else [x])

/-- The subset of the dataset that carries one group: `utils.extract_vars(dataset, names)`
minus the one-dimensional coordinates of `dd`.  It holds every xarray coordinate (except
those), the group's variables and, with `kb = true` (`keep_bounds=True`, the code as
written), every data variable named by the `bounds` attribute of a coordinate or of a group
member. -/
def inSubset (kb : Bool) (dd : String) (names : List String) (vars : List Var) (v : Var) : Bool :=
  if v.isCoord then !(v.dims == [dd])
  else names.contains v.name ||
    (kb && vars.any (fun w => (w.isCoord || names.contains w.name) && w.bounds == some v.name))

/-- the floor index array of a group, as a function of the named index: computed from the
example variable `ex` at non-spatial index 0 -/
def floorIdx (sz : String → Nat) (nsdims : List String) (dd : String) (ex : Var) : Env → Nat :=
  fun env => floorIndex (column sz ex dd (zeroNs nsdims env))

/-- `variable.isel({dd: ocean_floor_indexes})` (a variable without `dd` is left alone) -/
def floorVar (sz : String → Nat) (nsdims : List String) (dd : String) (ex : Var) (v : Var) : Var :=
  if dd ∈ v.dims then
    iselVar sz dd (floorIdx sz nsdims dd ex) (iselDims dd (spatialOf nsdims dd ex) v.dims) v
  else v

/-- One group of one depth dimension: the floor index array comes from the first variable
of the group at non-spatial index 0; the subset of the dataset that carries the group is
indexed with it along `dd`; the result is merged in front of the rest. -/
def floorGroup (kb : Bool) (nsdims : List String) (dd : String) (ds : Dataset) (names : List String) :
    Option Dataset :=
  match names with
  | [] => some ds
  | n0 :: _ =>
    match ds.find n0 with
    | none => none
    | some ex =>
      if dd ∉ ex.dims then none                     -- cumsum over a missing dimension raises
      else
        some { ds with vars :=
          ((ds.vars.filter (inSubset kb dd names ds.vars)).map (floorVar ds.sz nsdims dd ex))
            ++ ds.vars.filter (fun v => !inSubset kb dd names ds.vars v) }

def floorGroups (kb : Bool) (nsdims : List String) (dd : String) :
    Dataset → List (List String × List String) → Option Dataset
  | ds, [] => some ds
  | ds, (_, names) :: rest =>
    match floorGroup kb nsdims dd ds names with
    | none => none
    | some ds' => floorGroups kb nsdims dd ds' rest

/-- the body of `for depth_dimension in …` -/
def floorDim (kb : Bool) (nsdims : List String) (ds : Dataset) (dd : String) : Option Dataset :=
  floorGroups kb nsdims dd ds (groupsOf nsdims dd ds.vars)

def floorDims (kb : Bool) (nsdims : List String) : Dataset → List String → Option Dataset
  | ds, [] => some ds
  | ds, dd :: rest =>
    match floorDim kb nsdims ds dd with
    | none => none
    | some ds' => floorDims kb nsdims ds' rest

/-- `dataset.drop_dims(depth_dimensions, errors='ignore')`; a dimension no remaining
variable uses disappears from `sizes` -/
def Dataset.dropDims (ds : Dataset) (dds : List String) : Dataset :=
  let vars := ds.vars.filter (fun v => v.dims.all (· ∉ dds))
  { sizes := ds.sizes.filter (fun p => vars.any (fun v => p.1 ∈ v.dims)),
    vars := vars }

/-- `[c.dims[0] for c in coordinates]` (`utils.dimensions_from_coords`) -/
def dimsOf (ds : Dataset) (names : List String) : Option (List String) :=
  allSome (names.map (dimOf ds))

/-- `ocean_floor(dataset, depth_coordinates, non_spatial_variables=ns)`.
The depth dimensions are visited in the order `order` (the code sorts them by `hash`,
i.e. arbitrarily), which must list exactly the depth dimensions.
`kb = true` is the code as written; `kb = false` is `keep_bounds=False` in `extract_vars`
(no foreign bounds variable is dragged into a group's subset). -/
def oceanFloorOrd (kb : Bool) (ds : Dataset) (coords ns order : List String) : Option Dataset :=
  match normalize ds coords (some true) (some false) with
  | none => none
  | some (nds, _) =>
    match dimsOf nds coords, dimsOf nds ns with
    | some ddims, some nsdims =>
      if order.all (· ∈ ddims) && ddims.all (· ∈ order) then
        (floorDims kb nsdims nds order).map (·.dropDims ddims)
      else none
    | _, _ => none

/-- `ocean_floor` visiting the depth dimensions in the order of the coordinates -/
def oceanFloor (kb : Bool) (ds : Dataset) (coords ns : List String) : Option Dataset :=
  oceanFloorOrd kb ds coords ns ((dimsOf ds coords).getD [])

/-! ### discovery of depth coordinates -/

/-- the attributes `Convention.depth_coordinates` looks at -/
structure Meta where
  name : String
  dims : List String
  positive : Option String
  axis : Option String
  cartesianAxis : Option String
  coordinateType : Option String
  standardName : Option String
deriving Repr

/-- `attrs.get('positive', '').lower() in {'up', 'down'} or axis == 'Z' or …` -/
def Meta.isMarked (m : Meta) : Bool :=
  (match m.positive with
    | some s => s.toLower == "up" || s.toLower == "down"
    | none => false)
  || m.axis == some "Z" || m.cartesianAxis == some "Z" || m.coordinateType == some "Z"
  || m.standardName == some "depth"

/-- `DimensionConvention.get_grid_kind` succeeds: some grid's dimensions ⊆ the variable's -/
def onGrid (grids : List (List String)) (dims : List String) : Bool :=
  grids.any fun g => g.all (· ∈ dims)

/-- `Convention.depth_coordinates` (CF grids, UGRID): marked variables that are not on a grid,
in dataset order -/
def depthCoordsGeneric (grids : List (List String)) (vars : List Meta) : List String :=
  (vars.filter fun m => m.isMarked && !onGrid grids m.dims).map (·.name)

/-- the SHOC overrides: fixed names, in the order of the code's list, that exist -/
def depthCoordsNamed (names : List String) (vars : List Meta) : List String :=
  names.filter fun n => vars.any (·.name == n)

/-- `Convention.depth_coordinate`: the one with the smallest size, first among equals -/
def smallestFirst (sized : List (String × Nat)) : Option String :=
  match sized with
  | [] => none
  | p :: ps => some (ps.foldl (fun best q => if q.2 < best.2 then q else best) p).1

/-- `Convention.get_depth_coordinate_for_data_array`: the depth coordinates whose dimensions
are all dimensions of the data array; exactly one must match (`none` = raises
`NoSuchCoordinateError` for no candidate, `ValueError` for several). -/
def depthCoordFor (coords : List (String × List String)) (dims : List String) : Option String :=
  match coords.filter (fun c => c.2.all (· ∈ dims)) with
  | [c] => some c.1
  | _ => none

end Ems.Depth
