import EmsModel.Core.NDArray
/-
Core/Named.lean — the convention-level flatten / wind of
`emsarray.conventions._base.DimensionConvention`:
`get_grid_kind`, `ravel`, `wind` over the `grid_dimensions` table of one dataset.
-/
namespace Ems

/-- `grid_dimensions` with the dataset's sizes, in declaration (dict) order, and `default_grid_kind`. -/
structure GridConv where
  grids : List (String × List Dim)
  default : String
deriving Repr

namespace GridConv

def dimsOf? (c : GridConv) (k : String) : Option (List Dim) :=
  (c.grids.find? (fun g => g.1 == k)).map (·.2)

/-- `DimensionConvention.get_grid_kind`: the first kind, in declaration order,
all of whose dimensions occur among the array's dimensions; `none` = ValueError. -/
def getGridKind (c : GridConv) (names : List String) : Option String :=
  (c.grids.find? (fun g => g.2.all (fun d => names.contains d.1))).map (·.1)

/-- `DimensionConvention.ravel(data_array, linear_dimension=lin)` -/
def ravel {α : Type} [Inhabited α] (c : GridConv) (a : NArr α) (lin : Option String) : Option (NArr α) :=
  match c.getGridKind a.names with
  | none => none
  | some k =>
    match c.dimsOf? k with
    | none => none
    | some gd => a.ravelDims (gd.map (·.1)) lin

/-- Python `seq[i]` for an `int` index: negative counts from the end; `none` = IndexError -/
def pyIndex {β : Type} (l : List β) (i : Int) : Option β :=
  if 0 ≤ i then l[i.toNat]?
  else if -i ≤ l.length then l[(l.length - (-i).toNat)]? else none

/-- `DimensionConvention.wind(data_array, grid_kind=kind, axis=axis, linear_dimension=lin)` -/
def wind {α : Type} (c : GridConv) (a : NArr α) (kind : Option String) (axis : Option Int)
    (lin : Option String) : Option (NArr α) :=
  let linName : Option String :=
    match axis with
    | some ax => pyIndex a.names ax
    | none => match lin with
      | some l => some l
      | none => pyIndex a.names (-1)
  match linName with
  | none => none
  | some l =>
    match c.dimsOf? (kind.getD c.default) with
    | none => none
    | some gd => a.windDim gd l

end GridConv
end Ems
