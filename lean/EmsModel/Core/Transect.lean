import EmsModel.Core.NDArray
/-
Core/Transect.lean — `emsarray.transect.Transect.segments` and
`prepare_data_array_for_transect` in the 1-D parameter space of the path.

A position on the path is its *path parameter* `k + s` (vertex index `k`, fraction `s` of the
following leg), a `Rat`.  `distance_along_line` is an abstract non-decreasing function of it
(cartopy / PROJ, not modelled), so ordering by distance is ordering by parameter.
`polygon.intersection(line)` is an oracle: it hands back, per intersecting cell, the line
pieces as (unordered) pairs of end-point parameters; point touches are not pieces.
-/
namespace Ems

structure Segment where
  start : Rat
  stop : Rat
  linear : Nat
deriving Repr, DecidableEq

/-- lexicographic order on `(start, end)`, ties broken by cell index (the code leaves ties in
spatial-index order; the driver canonicalises them) -/
def Segment.le (a b : Segment) : Bool :=
  a.start < b.start || (a.start == b.start && (a.stop < b.stop || (a.stop == b.stop && a.linear ≤ b.linear)))

/-- one segment per line piece of every intersecting cell, each with start ≤ end -/
def rawSegments (pieces : List (Nat × List (Rat × Rat))) : List Segment :=
  pieces.flatMap fun cell => cell.2.map fun p =>
    { start := min p.1 p.2, stop := max p.1 p.2, linear := cell.1 }

/-- `Transect.segments`: sorted by `(start_distance, end_distance)` -/
def segments (pieces : List (Nat × List (Rat × Rat))) : List Segment :=
  (rawSegments pieces).mergeSort Segment.le

/-- total parameter length of the segments -/
def totalLength (segs : List Segment) : Rat := (segs.map fun s => s.stop - s.start).foldl (· + ·) 0

/-- consecutive segments do not overlap (they may touch) -/
def NonOverlapping : List Segment → Prop
  | [] => True
  | [_] => True
  | a :: b :: rest => a.stop ≤ b.start ∧ NonOverlapping (b :: rest)

/-- sum of the gaps between consecutive segments -/
def gaps : List Segment → Rat
  | [] => 0
  | [_] => 0
  | a :: b :: rest => (b.start - a.stop) + gaps (b :: rest)

/-- `prepare_data_array_for_transect`: for a flattened variable laid out `(depth, index)`,
column `s` holds the values of segment `s`'s cell at every depth -/
def transectColumns {α : Type} (flat : List (List α)) (segs : List Segment) : List (List (Option α)) :=
  flat.map fun layer => segs.map fun s => layer[s.linear]?

end Ems
