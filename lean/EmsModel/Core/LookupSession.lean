import EmsModel.Core.Lookup
/-
Core/LookupSession.lean — a sequence of questions put to ONE convention object.

`wind_index`, `ravel_index` and `get_index_for_point` are functions of the dataset's grids and cell polygons
and of their own arguments: a convention object carries no state that a question may change.  A session is
therefore the list of the single replies (`Ems.lookupSession`), and what the harness compares with the real
object — asked the same questions in the same order — is exactly that list.
-/
namespace Ems

/-- one question to a convention object -/
inductive LookupQuestion where
  /-- `wind_index(n, grid_kind=kind)` -/
  | wind (kind : Kind) (n : Int)
  /-- `ravel_index((kind, idx))` -/
  | ravel (kind : Kind) (idx : List Int)
  /-- `get_index_for_point(pt)`, `hits` being what the spatial index reports for `pt` -/
  | lookup (hits : List Nat)
deriving Repr

/-- the reply to one question (`none` = the call raises, or, for a lookup, returns `None`) -/
inductive LookupReply where
  | native (r : Option (Kind × List Nat))
  | linear (r : Option Nat)
  | item (r : Option LookupItem)
deriving Repr, DecidableEq

/-- the reply of a convention with grids `c` and cell polygons `polys` to one question -/
def lookupReply (c : Conv) (polys : List (Option Poly)) : LookupQuestion → LookupReply
  | .wind k n => .native (c.windIndex (some k) n)
  | .ravel k idx => .linear (c.ravelIndex (k, idx))
  | .lookup hits => .item (getIndexForPoint c polys hits)

/-- the replies to a sequence of questions put to one convention object, in order -/
def lookupSession (c : Conv) (polys : List (Option Poly)) (qs : List LookupQuestion) : List LookupReply :=
  qs.map (lookupReply c polys)

end Ems
