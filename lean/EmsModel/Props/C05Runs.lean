import EmsModel.Props.C05
/-!
C05, sixth round — *the entry of a request does not depend on the other requests*.

`C05.select_values` says what entry `k` of a selection is.  The statements here spell out the consequence that
matters for structured request lists (a run of consecutive cells, a track that lingers in a cell and skips the
next one, a run with one entry copied from its neighbour ...): whatever the list looks like as a whole, the entry
computed for a request is the entry the same request gets in any other list, at any other position — in particular
in the list that holds nothing else, and at an earlier occurrence of the same cell in the same list.  A list
cannot be answered "as a whole" (as a slice from its first to its last cell, say) unless that gives every
position the entry of its own request.
-/
namespace Ems.C05
open Ems Ems.NArr

variable {α : Type}

/-- two environments that give the remaining dimensions the same positions read the same stored value
once the grid dimensions are fixed by the request (the position along the new dimension plays no part) -/
theorem stored_slice_congr (a : NArr α) (gdNames : List String) (req : List Nat) (idim : String)
    (hfresh : idim ∉ a.names) (hlen : req.length = gdNames.length) (e e' : Env) (v : String → Nat)
    (hv : ∀ d ∈ a.dims.filter (fun d => !gdNames.contains d.1), e.get d.1 = some (v d.1) ∧ v d.1 < d.2)
    (hv' : ∀ d ∈ a.dims.filter (fun d => !gdNames.contains d.1), e'.get d.1 = some (v d.1) ∧ v d.1 < d.2) :
    a.get? (gdNames.zip req ++ e) = a.get? (gdNames.zip req ++ e') := by
  have _ := hfresh
  apply get_congr
  intro d hd
  simp only [Env.get]
  cases hz : List.lookup d (gdNames.zip req) with
  | some x => rw [lookup_append_left_some _ _ _ x hz, lookup_append_left_some _ _ _ x hz]
  | none =>
    rw [lookup_append_left_none _ _ _ hz, lookup_append_left_none _ _ _ hz]
    obtain ⟨d', hd', rfl⟩ := List.mem_map.mp hd
    by_cases hg : gdNames.contains d'.1 = true
    · obtain ⟨x, hx⟩ := lookup_zip_of_mem gdNames req hlen.symm d'.1 (List.contains_iff_mem.mp hg)
      rw [hx] at hz; simp at hz
    · have hdo : d' ∈ a.dims.filter (fun d => !gdNames.contains d.1) := by
        simp only [List.mem_filter]
        exact ⟨hd', by simpa using hg⟩
      have h1 := (hv d' hdo).1
      have h2 := (hv' d' hdo).1
      simp only [Env.get] at h1 h2
      rw [h1, h2]

/-- **The entry of a request is its own**: if position `k` of the list `reqs` and position `k'` of the list
`reqs'` hold the same request, the two selections hold the same value there (read at the same positions of the
remaining dimensions) — whatever else the two lists hold, however long they are, in whatever order. -/
theorem select_entry_local [Inhabited α] (a : NArr α) (gdNames : List String) (reqs reqs' : List (List Nat))
    (idim : String) (hwf : a.WF) (hfresh : idim ∉ a.names)
    (e e' : Env) (v : String → Nat) (k k' : Nat) (req : List Nat)
    (hk : reqs[k]? = some req) (hk' : reqs'[k']? = some req) (hlen : req.length = gdNames.length)
    (hek : e.get idim = some k) (hek' : e'.get idim = some k')
    (hv : ∀ d ∈ a.dims.filter (fun d => !gdNames.contains d.1), e.get d.1 = some (v d.1) ∧ v d.1 < d.2)
    (hv' : ∀ d ∈ a.dims.filter (fun d => !gdNames.contains d.1), e'.get d.1 = some (v d.1) ∧ v d.1 < d.2)
    (hsome : ∃ x, a.get? (gdNames.zip req ++ e) = some x) :
    (a.selectVar gdNames reqs idim).get? e = (a.selectVar gdNames reqs' idim).get? e' := by
  have hc := stored_slice_congr a gdNames req idim hfresh hlen e e' v hv hv'
  have hsome' : ∃ x, a.get? (gdNames.zip req ++ e') = some x := by
    obtain ⟨x, hx⟩ := hsome
    exact ⟨x, by rw [← hc]; exact hx⟩
  rw [select_values a gdNames reqs idim hwf hfresh e v k req hk hlen hek hv hsome,
      select_values a gdNames reqs' idim hwf hfresh e' v k' req hk' hlen hek' hv' hsome']
  exact hc

/-- a cell asked for twice gets the same entry both times (a track that lingers in a cell) -/
theorem repeated_request_same_entry [Inhabited α] (a : NArr α) (gdNames : List String) (reqs : List (List Nat))
    (idim : String) (hwf : a.WF) (hfresh : idim ∉ a.names)
    (e e' : Env) (v : String → Nat) (k k' : Nat) (req : List Nat)
    (hk : reqs[k]? = some req) (hk' : reqs[k']? = some req) (hlen : req.length = gdNames.length)
    (hek : e.get idim = some k) (hek' : e'.get idim = some k')
    (hv : ∀ d ∈ a.dims.filter (fun d => !gdNames.contains d.1), e.get d.1 = some (v d.1) ∧ v d.1 < d.2)
    (hv' : ∀ d ∈ a.dims.filter (fun d => !gdNames.contains d.1), e'.get d.1 = some (v d.1) ∧ v d.1 < d.2)
    (hsome : ∃ x, a.get? (gdNames.zip req ++ e) = some x) :
    (a.selectVar gdNames reqs idim).get? e = (a.selectVar gdNames reqs idim).get? e' :=
  select_entry_local a gdNames reqs reqs idim hwf hfresh e e' v k k' req hk hk' hlen hek hek' hv hv' hsome

/-- entry `k` of a selection is entry 0 of the selection of request `k` alone -/
theorem entry_eq_single_request [Inhabited α] (a : NArr α) (gdNames : List String) (reqs : List (List Nat))
    (idim : String) (hwf : a.WF) (hfresh : idim ∉ a.names)
    (e e' : Env) (v : String → Nat) (k : Nat) (req : List Nat)
    (hk : reqs[k]? = some req) (hlen : req.length = gdNames.length)
    (hek : e.get idim = some k) (hek' : e'.get idim = some 0)
    (hv : ∀ d ∈ a.dims.filter (fun d => !gdNames.contains d.1), e.get d.1 = some (v d.1) ∧ v d.1 < d.2)
    (hv' : ∀ d ∈ a.dims.filter (fun d => !gdNames.contains d.1), e'.get d.1 = some (v d.1) ∧ v d.1 < d.2)
    (hsome : ∃ x, a.get? (gdNames.zip req ++ e) = some x) :
    (a.selectVar gdNames reqs idim).get? e = (a.selectVar gdNames [req] idim).get? e' :=
  select_entry_local a gdNames reqs [req] idim hwf hfresh e e' v k 0 req hk (by simp) hlen hek hek' hv hv' hsome

/-! ### non-vacuity and the shape of the failure the check looks for

`exV` (from `Props/C05.lean`): dims y:2, t:2, x:3, selected along x.  The list `[0, 0, 2]` is ascending and
spans as many cells as it has entries; read as "the cells from 0 to 2" its middle entry would be cell 1's.
The model gives each position the entry of its own request. -/
example : ((exV.selectVar ["x"] [[1], [1], [2]] "index").get? [("index", 1), ("y", 0), ("t", 1)])
    = exV.get? [("x", 1), ("y", 0), ("t", 1)] := by decide
example : ((exV.selectVar ["x"] [[0], [0], [2]] "index").get? [("index", 1), ("y", 1), ("t", 0)])
    = ((exV.selectVar ["x"] [[0]] "index").get? [("index", 0), ("y", 1), ("t", 0)]) := by decide
/-- the lingering track `[0, 0, 2]` is NOT the run `[0, 1, 2]`: its middle entry is cell 0's, not cell 1's -/
example : ((exV.selectVar ["x"] [[0], [0], [2]] "index").get? [("index", 1), ("y", 0), ("t", 0)])
    ≠ ((exV.selectVar ["x"] [[0], [1], [2]] "index").get? [("index", 1), ("y", 0), ("t", 0)]) := by decide

end Ems.C05
