import EmsModel.Core.Clip
import EmsModel.Core.ClipSurvivors
import EmsModel.Core.Polygons
import EmsModel.Lemmas.Polygons
import EmsModel.Props.C07
/-!
# C09 — clipped and subsetted datasets remain valid datasets with unchanged geometry

Connectivity re-indexing (`update_connectivity`) under the order-preserving renumbering,
and what it means for the polygons of the surviving faces.
-/
namespace Ems.C09
open Ems

/-! ### the order-preserving renumbering -/

/-- the elements that are kept, in original order (`values[bool_array]`) -/
def compress {β : Type} (keep : List Bool) (l : List β) : List β :=
  ((List.range l.length).filter fun i => keep.getD i false).filterMap fun i => l[i]?

theorem renumber_length (keep : List Bool) : (renumber keep).length = keep.length := by
  simp [renumber]

/-- a kept element's new index is the number of kept elements before it; a dropped element has none -/
theorem renumber_spec (keep : List Bool) (i : Nat) (hi : i < keep.length) :
    (renumber keep)[i]? = some (if keep[i] then some ((keep.take i).count true) else none) := by
  simp [renumber, hi, List.getD_eq_getElem?_getD, List.getElem?_eq_getElem hi]

theorem count_take_lt (keep : List Bool) : ∀ (i : Nat) (hi : i < keep.length), keep[i] = true →
    (keep.take i).count true < keep.count true := by
  induction keep with
  | nil => intro i hi; simp at hi
  | cons b bs ih =>
    intro i hi hk
    cases i with
    | zero =>
      simp at hk; subst hk; simp
    | succ j =>
      have := ih j (by simpa using hi) (by simpa using hk)
      cases b <;> simp [List.count_cons] <;> omega

/-- **new indexes are in range** of the surviving elements: `0 ≤ new < number kept` -/
theorem renumber_in_range (keep : List Bool) (i y : Nat) (h : (renumber keep)[i]? = some (some y)) :
    y < keep.count true := by
  have hi : i < keep.length := by
    have := (List.getElem?_eq_some_iff.mp h).1
    simpa [renumber_length] using this
  rw [renumber_spec keep i hi] at h
  by_cases hk : keep[i] = true
  · simp [hk] at h; subst h; exact count_take_lt keep i hi hk
  · simp [hk] at h

/-- the renumbering preserves order: a smaller old index gets a smaller new index -/
theorem renumber_mono (keep : List Bool) (i j a b : Nat) (hij : i < j)
    (ha : (renumber keep)[i]? = some (some a)) (hb : (renumber keep)[j]? = some (some b)) : a < b := by
  have hi : i < keep.length := by
    have := (List.getElem?_eq_some_iff.mp ha).1; simpa [renumber_length] using this
  have hj : j < keep.length := by
    have := (List.getElem?_eq_some_iff.mp hb).1; simpa [renumber_length] using this
  rw [renumber_spec keep i hi] at ha
  rw [renumber_spec keep j hj] at hb
  by_cases hki : keep[i] = true
  · by_cases hkj : keep[j] = true
    · simp [hki] at ha; simp [hkj] at hb
      subst ha hb
      -- take j = take (i+1) ++ …, and take (i+1) counts one more than take i
      have h1 : (keep.take (i + 1)).count true = (keep.take i).count true + 1 := by
        rw [List.take_succ, List.getElem?_eq_getElem hi]
        simp [List.count_append, hki]
      have h2 : (keep.take (i + 1)).count true ≤ (keep.take j).count true := by
        have : keep.take (i + 1) = (keep.take j).take (i + 1) := by
          rw [List.take_take]; congr 1; omega
        rw [this]
        exact (List.take_sublist _ _).count_le _
      omega
    · simp [hkj] at hb
  · simp [hki] at ha

/-! ### `update_connectivity` -/

/-- **Row `r'` of the output is row `kept[r']` of the input, entry by entry mapped through
the column renumbering; a missing entry, or a reference to a dropped element, is missing.** -/
theorem update_connectivity_spec (table : List (List (Option Nat))) (rowKeep : List Bool)
    (colNew : List (Option Nat)) (r' : Nat) :
    (updateConnectivity table rowKeep colNew)[r']? =
      (((List.range table.length).filter fun r => rowKeep.getD r false)[r']?).map fun r =>
        (table.getD r []).map fun e => e.bind fun x => (colNew[x]?).join := by
  simp [updateConnectivity]

/-- the output has one row per kept primary element, each of unchanged width -/
theorem update_connectivity_shape (table : List (List (Option Nat))) (rowKeep : List Bool)
    (colNew : List (Option Nat)) :
    (updateConnectivity table rowKeep colNew).length =
      ((List.range table.length).filter fun r => rowKeep.getD r false).length ∧
    ∀ row ∈ updateConnectivity table rowKeep colNew, ∃ r, r < table.length ∧ row.length = (table.getD r []).length := by
  constructor
  · simp [updateConnectivity]
  · intro row hrow
    simp only [updateConnectivity, List.mem_map, List.mem_filter, List.mem_range] at hrow
    obtain ⟨r, ⟨hr, _⟩, rfl⟩ := hrow
    exact ⟨r, hr, by simp⟩

/-- **every reference in the output names a surviving element under the new numbering** -/
theorem refs_in_range (table : List (List (Option Nat))) (rowKeep colKeep : List Bool)
    (row : List (Option Nat)) (hrow : row ∈ updateConnectivity table rowKeep (renumber colKeep))
    (y : Nat) (hy : some y ∈ row) : y < colKeep.count true := by
  simp only [updateConnectivity, List.mem_map, List.mem_filter, List.mem_range] at hrow
  obtain ⟨r, _, rfl⟩ := hrow
  simp only [List.mem_map] at hy
  obtain ⟨e, _, he⟩ := hy
  cases e with
  | none => simp at he
  | some x =>
    simp only [Option.bind_some] at he
    cases hx : (renumber colKeep)[x]? with
    | none => simp [hx] at he
    | some o =>
      cases o with
      | none => simp [hx] at he
      | some z =>
        simp [hx] at he; subst he
        exact renumber_in_range colKeep x z hx

/-! ### the polygons of surviving faces are unchanged -/

/-- the `k`-th kept element: reading the compressed list at the new index of `i` gives element `i` -/
theorem compress_get {β : Type} : ∀ (keep : List Bool) (l : List β) (i : Nat),
    keep.length = l.length → (hi : i < l.length) → keep.getD i false = true →
    (compress keep l)[(keep.take i).count true]? = some l[i] := by
  intro keep l
  induction l generalizing keep with
  | nil => intro i _ hi; simp at hi
  | cons x xs ih =>
    intro i hlen hi hk
    cases keep with
    | nil => simp at hlen
    | cons b bs =>
      have hlen' : bs.length = xs.length := by simpa using hlen
      -- unfold one step of `compress`
      have hstep : compress (b :: bs) (x :: xs) = (if b then [x] else []) ++ compress bs xs := by
        simp only [compress, List.length_cons]
        rw [List.range_succ_eq_map, List.filter_cons]
        simp only [List.getD_cons_zero, List.filter_map, List.filterMap_map]
        cases b <;> simp [Function.comp_def, List.filterMap_cons]
      rw [hstep]
      cases i with
      | zero =>
        simp at hk; subst hk; simp
      | succ j =>
        have hk' : bs.getD j false = true := by simpa using hk
        have := ih bs j hlen' (by simpa using hi) hk'
        cases b <;> simp [List.count_cons, this]

/-- **Polygon preserved.**  Let `keepF`, `keepN` mark the kept faces and nodes, with every node
of a kept face kept.  Then in the clipped mesh — nodes compressed, face-node table re-indexed
by `update_connectivity` — the polygon of the face that `f` became is exactly the polygon of
`f`: same vertices, same order. -/
theorem polygon_preserved (nodes : List Pt) (faces : List (List Nat)) (keepF keepN : List Bool)
    (hlenN : keepN.length = nodes.length)
    (f : Nat) (hf : f < faces.length)
    (hnodes : ∀ n ∈ faces[f], n < nodes.length ∧ keepN.getD n false = true) :
    allSomeL ((((faces[f].map some).map fun e => e.bind fun x => ((renumber keepN)[x]?).join)).map
        fun e => e.bind fun n' => (compress keepN nodes)[n']?) =
      allSomeL (faces[f].map fun n => nodes[n]?) := by
  congr 1
  simp only [List.map_map]
  apply List.map_congr_left
  intro n hn
  obtain ⟨hlt, hk⟩ := hnodes n hn
  have hlt' : n < keepN.length := by omega
  have hkb : keepN[n] = true := by
    simpa [List.getD_eq_getElem?_getD, List.getElem?_eq_getElem hlt'] using hk
  simp only [Function.comp, Option.bind_some, renumber_spec keepN n hlt', hkb, if_true, Option.join_some]
  rw [compress_get keepN nodes n hlenN hlt hk, List.getElem?_eq_getElem hlt]

/-! ### keeping only some data variables keeps the geometry -/

/-- `Convention.select_variables`: the kept names are the requested ones plus the whole
geometry inventory (plus depth / time coordinates) -/
def selectVariables {β : Type} (ds : List (String × β)) (requested geometry coords : List String) :
    List (String × β) :=
  ds.filter fun v => requested.contains v.1 || geometry.contains v.1 || coords.contains v.1

/-- every geometry variable survives unchanged, so every polygon is identical -/
theorem select_variables_geometry {β : Type} (ds : List (String × β)) (requested geometry coords : List String)
    (v : String × β) (hv : v ∈ ds) (hg : v.1 ∈ geometry) :
    v ∈ selectVariables ds requested geometry coords := by
  simp only [selectVariables, List.mem_filter, Bool.or_eq_true, List.contains_iff_mem]
  exact ⟨hv, Or.inl (Or.inr hg)⟩

theorem select_variables_sublist {β : Type} (ds : List (String × β)) (requested geometry coords : List String) :
    (selectVariables ds requested geometry coords).Sublist ds := List.filter_sublist

/-! ### the tables of a clipped mesh agree with one another -/

/-- the new index of a kept element -/
def newIndex (keep : List Bool) (i : Nat) : Nat := (keep.take i).count true

theorem filterMap_id_of_forall {β : Type} (f : β → Option β) :
    ∀ (l : List β), (∀ x ∈ l, f x = some x) → l.filterMap f = l
  | [], _ => rfl
  | a :: as, h => by
    rw [List.filterMap_cons, h a (by simp)]
    simp only
    rw [filterMap_id_of_forall f as (fun x hx => h x (List.mem_cons_of_mem _ hx))]

theorem compress_range (keep : List Bool) (n : Nat) :
    compress keep (List.range n) = (List.range n).filter fun i => keep.getD i false := by
  simp only [compress, List.length_range]
  apply filterMap_id_of_forall
  intro i hi
  have hi' : i < n := List.mem_range.mp (List.mem_filter.mp hi).1
  simp [hi']

/-- the kept rows in order: the row at the new index of a kept row `r` is row `r` -/
theorem kept_row_index (keep : List Bool) (n r : Nat) (hlen : keep.length = n) (hr : r < n)
    (hk : keep.getD r false = true) :
    ((List.range n).filter fun i => keep.getD i false)[newIndex keep r]? = some r := by
  rw [← compress_range]
  have := compress_get keep (List.range n) r (by simpa using hlen) (by simpa using hr) hk
  simpa [newIndex] using this

/-- **a kept row, at its new index, is the old row with every reference renumbered** -/
theorem updated_row (table : List (List (Option Nat))) (rowKeep : List Bool) (colNew : List (Option Nat))
    (r : Nat) (hlen : rowKeep.length = table.length) (hr : r < table.length)
    (hk : rowKeep.getD r false = true) :
    (updateConnectivity table rowKeep colNew)[newIndex rowKeep r]? =
      some (table[r].map fun e => e.bind fun x => (colNew[x]?).join) := by
  rw [update_connectivity_spec, kept_row_index rowKeep table.length r hlen hr hk]
  simp [hr]

/-- a reference to a kept element becomes that element's new index -/
theorem updated_entry (table : List (List (Option Nat))) (rowKeep colKeep : List Bool)
    (r k x : Nat) (hlen : rowKeep.length = table.length) (hr : r < table.length)
    (hk : rowKeep.getD r false = true) (hx : x < colKeep.length) (hkx : colKeep[x] = true)
    (he : table[r][k]? = some (some x)) :
    ((updateConnectivity table rowKeep (renumber colKeep))[newIndex rowKeep r]?).bind (·[k]?) =
      some (some (newIndex colKeep x)) := by
  rw [updated_row table rowKeep _ r hlen hr hk]
  simp only [Option.bind_some, List.getElem?_map, he, Option.map_some, Option.bind_some,
    renumber_spec colKeep x hx, hkx, if_true, Option.join_some, newIndex]

/-- kept elements keep their identity: two kept elements get the same new index only if they are the same -/
theorem newIndex_injective (keep : List Bool) (x y : Nat) (hx : x < keep.length) (hy : y < keep.length)
    (hkx : keep[x] = true) (hky : keep[y] = true) (h : newIndex keep x = newIndex keep y) : x = y := by
  have ex := renumber_spec keep x hx
  have ey := renumber_spec keep y hy
  simp only [hkx, hky, if_true] at ex ey
  rcases Nat.lt_trichotomy x y with hlt | heq | hgt
  · have := renumber_mono keep x y _ _ hlt ex ey; simp only [newIndex] at h; omega
  · exact heq
  · have := renumber_mono keep y x _ _ hgt ey ex; simp only [newIndex] at h; omega

/-- **The clipped tables agree with each other exactly as the original ones did.**  Take two connectivity
tables whose entries refer to the same kind of element (face-node and edge-node; edge-face and face-face)
and an entry of each, in kept rows, referring to kept elements `x` and `y`.  After clipping, the two
entries are present at the rows' new positions and are equal **iff** `x = y`: every incidence the
original tables shared ("this edge's node is that face's corner") is shared by the clipped tables, and
none is invented. -/
theorem tables_agree_after_clip (A B : List (List (Option Nat))) (keepP keepQ colKeep : List Bool)
    (p k q m x y : Nat)
    (hlenA : keepP.length = A.length) (hp : p < A.length) (hkp : keepP.getD p false = true)
    (hlenB : keepQ.length = B.length) (hq : q < B.length) (hkq : keepQ.getD q false = true)
    (hx : x < colKeep.length) (hkx : colKeep[x] = true) (hy : y < colKeep.length) (hky : colKeep[y] = true)
    (ha : A[p][k]? = some (some x)) (hb : B[q][m]? = some (some y)) :
    ∃ x' y', ((updateConnectivity A keepP (renumber colKeep))[newIndex keepP p]?).bind (·[k]?) = some (some x') ∧
      ((updateConnectivity B keepQ (renumber colKeep))[newIndex keepQ q]?).bind (·[m]?) = some (some y') ∧
      x' < colKeep.count true ∧ y' < colKeep.count true ∧ (x' = y' ↔ x = y) := by
  refine ⟨newIndex colKeep x, newIndex colKeep y,
    updated_entry A keepP colKeep p k x hlenA hp hkp hx hkx ha,
    updated_entry B keepQ colKeep q m y hlenB hq hkq hy hky hb,
    count_take_lt colKeep x hx hkx, count_take_lt colKeep y hy hky, ?_⟩
  constructor
  · exact newIndex_injective colKeep x y hx hy hkx hky
  · rintro rfl; rfl

/-- **A reference can be followed in the clipped dataset.**  If entry `k` of kept row `f` of table `C`
(face-edge, say) names a kept element `e`, and `e`'s own row lives in table `B` (edge-node) whose rows are
clipped by the same mask that renumbers `C`'s references, then in the clipped dataset the entry names the
row that `e`'s row became, and that row is `e`'s old row with its references renumbered. -/
theorem reference_followed (C B : List (List (Option Nat))) (keepF keepE : List Bool) (colNewB : List (Option Nat))
    (f k e : Nat)
    (hlenC : keepF.length = C.length) (hf : f < C.length) (hkf : keepF.getD f false = true)
    (hlenB : keepE.length = B.length) (he : e < B.length) (hke : keepE[e]'(by omega) = true)
    (hc : C[f][k]? = some (some e)) :
    ∃ e', ((updateConnectivity C keepF (renumber keepE))[newIndex keepF f]?).bind (·[k]?) = some (some e') ∧
      (updateConnectivity B keepE colNewB)[e']? = some (B[e].map fun v => v.bind fun x => (colNewB[x]?).join) := by
  refine ⟨newIndex keepE e, updated_entry C keepF keepE f k e hlenC hf hkf (by omega) hke hc, ?_⟩
  exact updated_row B keepE colNewB e hlenB he
    (by simp [List.getD_eq_getElem?_getD, List.getElem?_eq_getElem (show e < keepE.length by omega), hke])

/-! ### which nodes and edges survive -/

theorem referencedBy_length (table : List (List (Option Nat))) (rowKeep : List Bool) (n : Nat) :
    (referencedBy table rowKeep n).length = n := by
  simp [referencedBy]

/-- **An element survives iff a kept row names it** — no more (an edge both of whose nodes survive
but which is a side of no kept face does not survive), no less. -/
theorem referencedBy_spec (table : List (List (Option Nat))) (rowKeep : List Bool) (n c : Nat) :
    (referencedBy table rowKeep n)[c]? = some true ↔
      c < n ∧ ∃ r, r < table.length ∧ rowKeep.getD r false = true ∧ some c ∈ table.getD r [] := by
  constructor
  · intro h
    have hc : c < n := by
      have := (List.getElem?_eq_some_iff.mp h).1
      simpa [referencedBy_length] using this
    refine ⟨hc, ?_⟩
    simp only [referencedBy, List.getElem?_map, List.getElem?_range hc, Option.map_some, Option.some.injEq,
      List.any_eq_true, List.mem_filter, List.mem_range, List.contains_iff_mem] at h
    obtain ⟨r, ⟨hr, hk⟩, hm⟩ := h
    exact ⟨r, hr, hk, hm⟩
  · rintro ⟨hc, r, hr, hk, hm⟩
    simp only [referencedBy, List.getElem?_map, List.getElem?_range hc, Option.map_some, Option.some.injEq,
      List.any_eq_true, List.mem_filter, List.mem_range, List.contains_iff_mem]
    exact ⟨r, ⟨hr, hk⟩, hm⟩

/-- **No reference of a kept row is lost**: when the surviving elements are those named by the kept rows,
every entry that was present in a kept row is present in the clipped table (under the new numbering);
only the entries that were missing stay missing. -/
theorem no_reference_lost (table : List (List (Option Nat))) (rowKeep : List Bool) (n : Nat)
    (r k x : Nat) (hlen : rowKeep.length = table.length) (hr : r < table.length)
    (hk : rowKeep.getD r false = true) (hx : x < n) (he : table[r][k]? = some (some x)) :
    ((updateConnectivity table rowKeep (renumber (referencedBy table rowKeep n)))[newIndex rowKeep r]?).bind (·[k]?) =
      some (some (newIndex (referencedBy table rowKeep n) x)) := by
  have hx' : x < (referencedBy table rowKeep n).length := by simpa [referencedBy_length] using hx
  have hmem : some x ∈ table.getD r [] := by
    have : table.getD r [] = table[r] := by simp [List.getD_eq_getElem?_getD, List.getElem?_eq_getElem hr]
    rw [this]
    exact List.mem_of_getElem? he
  have hsome := (referencedBy_spec table rowKeep n x).mpr ⟨hx, r, hr, hk, hmem⟩
  have hkx : (referencedBy table rowKeep n)[x] = true := by
    rw [List.getElem?_eq_getElem hx'] at hsome
    simpa using hsome
  exact updated_entry table rowKeep (referencedBy table rowKeep n) r k x hlen hr hk hx' hkx he

/-- non-vacuity: three faces in a row, the outer two kept.  All eight nodes survive, but the two sides of the
middle face that join surviving nodes of *different* kept faces (edges 4 and 5) do not. -/
example :
    let faceNode := [[some 0, some 1, some 5, some 4], [some 1, some 2, some 6, some 5], [some 2, some 3, some 7, some 6]]
    let faceEdge := [[some 0, some 1, some 2, some 3], [some 4, some 6, some 5, some 1], [some 7, some 8, some 9, some 6]]
    let keepF := [true, false, true]
    referencedBy faceNode keepF 8 = [true, true, true, true, true, true, true, true] ∧
    referencedBy faceEdge keepF 10 = [true, true, true, true, false, false, true, true, true, true] := by
  decide

/-- non-vacuity: two triangles sharing an edge, the second face kept; its edge row points at its own nodes -/
example :
    let faceNode := [[some 0, some 1, some 2], [some 1, some 3, some 2]]
    let edgeNode := [[some 0, some 1], [some 1, some 2], [some 2, some 0], [some 1, some 3], [some 3, some 2]]
    let keepF := [false, true]
    let keepE := [false, true, false, true, true]
    let keepN := [false, true, true, true]
    updateConnectivity faceNode keepF (renumber keepN) = [[some 0, some 2, some 1]] ∧
    updateConnectivity edgeNode keepE (renumber keepN) = [[some 0, some 1], [some 0, some 2], [some 2, some 1]] := by
  decide

/-! ### non-vacuity -/
example : renumber [false, true, true, false, true] = [none, some 0, some 1, none, some 2] := by decide
example : updateConnectivity [[some 0, some 1, none], [some 1, some 2, some 3]] [false, true] [none, some 0, some 1, none]
    = [[some 0, some 1, none]] := by decide
example : compress [false, true, true] [(10 : Nat), 20, 30] = [20, 30] := by decide

/-! ### end to end: the polygons of a clipped mesh (composition with C07)

`polygon_preserved` assumes that every node of a kept face is kept. C07's `mesh_mask_spec` proves exactly
that of the mask `UGrid.make_clip_mask` computes. Composed: for every mesh, every hit list in any order
and every buffer, each face the clip keeps has, in the clipped mesh (nodes compressed by the node mask,
face-node table re-indexed), exactly the polygon it had. -/
theorem clip_polygons_end_to_end (nodes : List Pt) (m : Clip.FaceMesh) (hn : m.nNodes = nodes.length)
    (hits : List Nat) (hr : ∀ f ∈ hits, f < m.nFaces) (buffer : Int)
    (hvalid : ∀ (f : Nat) (hf : f < m.faces.length), ∀ n ∈ m.faces[f], n < nodes.length)
    (f : Nat) (hfK : f ∈ Clip.keptFaces m hits buffer) :
    let keepN := (Clip.ugridClipMask m hits buffer).newNode.map Option.isSome
    ∃ (hf : f < m.faces.length),
      allSomeL ((((m.faces[f].map some).map fun e => e.bind fun x => ((renumber keepN)[x]?).join)).map
          fun e => e.bind fun n' => (compress keepN nodes)[n']?) =
        allSomeL (m.faces[f].map fun n => nodes[n]?) := by
  intro keepN
  obtain ⟨hface, hnode, _, _⟩ := C07.mesh_mask_spec m hits hr buffer
  obtain ⟨⟨hfl, _⟩, ⟨hnl, _⟩, _⟩ := C07.renumber_spec m hits buffer
  -- a kept face is a face of the mesh
  have hf : f < m.faces.length := by
    obtain ⟨v, hv⟩ := (hface f).mpr hfK
    have := (List.getElem?_eq_some_iff.mp hv).1
    rw [hfl] at this
    exact this
  refine ⟨hf, ?_⟩
  have hlenN : keepN.length = nodes.length := by simp [keepN, hnl, hn]
  apply polygon_preserved nodes m.faces [] keepN hlenN f hf
  intro n hnmem
  refine ⟨hvalid f hf n hnmem, ?_⟩
  have hkept : C07.IsKept (Clip.ugridClipMask m hits buffer).newNode n := by
    rw [hnode n]
    refine ⟨by rw [hn]; exact hvalid f hf n hnmem, f, hfK, ?_⟩
    simp [Clip.FaceMesh.faceNodes, List.getD_eq_getElem?_getD, List.getElem?_eq_getElem hf, hnmem]
  obtain ⟨v, hv⟩ := hkept
  simp [keepN, List.getD_eq_getElem?_getD, List.getElem?_map, hv]

end Ems.C09
