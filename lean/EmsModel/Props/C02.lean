import EmsModel.Props.C03
import EmsModel.Props.C06
import EmsModel.Lemmas.Select
/-!
# C02 — one linear order is shared by polygons, centres, flattened data and selectors

Position `n` denotes the same cell everywhere.  The polygon statements (`*_polygon_at`)
are those of C06 restated through `unravel`; the data statement is `ravel_eq_select`.
-/
namespace Ems.C02
open Ems Ems.NArr

/-- `unravel` on a two-dimensional grid: `n ↦ (n / nx, n % nx)` -/
theorem unravel_2d (ny nx n : Nat) (h : n < ny * nx) : unravel [ny, nx] n = some [n / nx, n % nx] := by
  have hpos : 0 < nx := by
    rcases Nat.eq_zero_or_pos nx with h0 | h0
    · subst h0; simp at h
    · exact h0
  have h1 : n % nx < nx := Nat.mod_lt _ hpos
  simp [unravel, size, h, h1, Nat.mod_one]

/-! ### polygons: position `n` holds the polygon of cell `wind_index n` -/

theorem cf1d_polygon_at_linear (lonb latb : List (Rat × Rat)) (n : Nat)
    (hn : n < latb.length * lonb.length) :
    ∃ j i, unravel [latb.length, lonb.length] n = some [j, i] ∧ ∃ (hj : j < latb.length) (hi : i < lonb.length),
      (cf1dPolys lonb latb)[n]? = some (some (rect lonb[i] latb[j])) := by
  have hpos : 0 < lonb.length := by
    rcases Nat.eq_zero_or_pos lonb.length with h0 | h0
    · rw [h0] at hn; simp at hn
    · exact h0
  have hj : n / lonb.length < latb.length := Nat.div_lt_of_lt_mul (by rw [Nat.mul_comm]; exact hn)
  have hi : n % lonb.length < lonb.length := Nat.mod_lt _ hpos
  refine ⟨_, _, unravel_2d _ _ n hn, hj, hi, ?_⟩
  have := C06.cf1d_polygon_at lonb latb _ _ hj hi
  rwa [Nat.div_add_mod'] at this

theorem arakawa_polygon_at_linear (xg yg : Grid (Option Rat)) (ny nx n : Nat) (hn : n < ny * nx) :
    ∃ j i, unravel [ny, nx] n = some [j, i] ∧
      (arakawaPolys xg yg ny nx)[n]? = (arakawaPolys xg yg ny nx)[j * nx + i]? ∧ j < ny ∧ i < nx := by
  have hpos : 0 < nx := by
    rcases Nat.eq_zero_or_pos nx with h0 | h0
    · subst h0; simp at hn
    · exact h0
  refine ⟨_, _, unravel_2d _ _ n hn, ?_, Nat.div_lt_of_lt_mul (by rw [Nat.mul_comm]; exact hn), Nat.mod_lt _ hpos⟩
  rw [Nat.div_add_mod']

/-- holes keep their slot: the list of polygons has exactly one entry per cell … -/
theorem polygons_length_cf1d (isValid : Poly → Bool) (lonb latb : List (Rat × Rat)) :
    (keepValid isValid (cf1dPolys lonb latb)).length = latb.length * lonb.length := by
  rw [C06.keepValid_length, C06.cf1d_length]

theorem polygons_length_arakawa (isValid : Poly → Bool) (xg yg : Grid (Option Rat)) (ny nx : Nat) :
    (keepValid isValid (arakawaPolys xg yg ny nx)).length = ny * nx := by
  rw [C06.keepValid_length, C06.arakawa_length]

theorem polygons_length_ugrid (isValid : Poly → Bool) (nodes : List Pt) (faces : List (List Nat)) :
    (keepValid isValid (ugridPolys nodes faces)).length = faces.length := by
  rw [C06.keepValid_length, C06.ugrid_length]

/-- … and what sits at position `n` depends on cell `n` alone: removing the geometry of
another cell (making it a hole) does not shift or change it. -/
theorem hole_no_shift (isValid : Poly → Bool) (raw raw' : List (Option Poly)) (n : Nat)
    (h : raw[n]? = raw'[n]?) :
    (keepValid isValid raw)[n]? = (keepValid isValid raw')[n]? := by
  simp [keepValid, List.getElem?_map, h]

/-! ### centres -/

theorem cf1d_centre_at (lon lat : List Rat) (j i : Nat) (hj : j < lat.length) (hi : i < lon.length) :
    (cf1dCentres lon lat)[j * lon.length + i]? = some (lon[i], lat[j]) := by
  unfold cf1dCentres
  rw [flatMap_getElem_uniform _ lon.length lat (by intro a _; simp) j i hj hi]
  simp [hi]

theorem grid_centre_at (lon lat : Grid (Option Rat)) (nx j i : Nat)
    (hlen : lon.length = lat.length)
    (hx : ∀ r ∈ lon, r.length = nx) (hy : ∀ r ∈ lat, r.length = nx)
    (hj : j < lon.length) (hi : i < nx) :
    (gridCentres lon lat)[j * nx + i]? = (do let x ← lon.get j i; let y ← lat.get j i; some (x, y)) := by
  unfold gridCentres
  have hrow : ∀ a ∈ lon.zip lat, ((fun (p : List (Option Rat) × List (Option Rat)) => p.1.zip p.2) a).length = nx := by
    intro a ha
    have := List.of_mem_zip ha
    simp [hx a.1 this.1, hy a.2 this.2]
  have hj' : j < (lon.zip lat).length := by simp [← hlen]; exact hj
  have key := flatMap_getElem_uniform _ nx (lon.zip lat) hrow j i hj' hi
  have hjl : j < lat.length := by omega
  have hxi : i < (lon[j]).length := by rw [hx _ (List.getElem_mem hj)]; exact hi
  have hyi : i < (lat[j]).length := by rw [hy _ (List.getElem_mem hjl)]; exact hi
  refine key.trans ?_
  simp only [List.getElem_zip, Grid.get]
  rw [List.getElem?_eq_getElem hj, List.getElem?_eq_getElem hjl]
  simp [List.getElem?_eq_getElem hxi, List.getElem?_eq_getElem hyi, List.getElem?_zip_eq_some]

/-! ### data: element `n` of a flattened variable is the value selected at `wind_index n` -/

/-- For every variable on the grid, every assignment `e` of its other dimensions and every
linear index `n`: element `n` of `ravel v` equals the value obtained by selecting (`isel`)
the native index `unravel n` — bit for bit (values are only moved), wherever the grid
dimensions sit and whatever extra dimensions accompany them. -/
theorem ravel_eq_select [Inhabited α] (a : NArr α) (gd : List Dim) (lin : String) (hwf : a.WF)
    (hgn : (gd.map (·.1)).Nodup) (hsub : ∀ d ∈ gd, d ∈ a.dims)
    (hfresh : lin ∉ (a.dims.filter (fun d => !(gd.map (·.1)).contains d.1)).map (·.1))
    (e : Env) (v : String → Nat) (n : Nat) (ig : List Nat)
    (hv : ∀ d ∈ a.dims.filter (fun d => !(gd.map (·.1)).contains d.1),
      e.get d.1 = some (v d.1) ∧ v d.1 < d.2)
    (hn : e.get lin = some n) (hig : unravel (gd.map (·.2)) n = some ig) :
    ∃ r, a.ravelDims (gd.map (·.1)) (some lin) = some r ∧
      r.get? e = (a.isel ((gd.map (·.1)).zip ig)).get? e := by
  obtain ⟨r, hr, hget⟩ := C03.ravel_get a gd lin hwf hgn hsub hfresh e v n ig hv hn hig
  refine ⟨r, hr, ?_⟩
  rw [hget]
  have hlen : (gd.map (·.1)).length = ig.length := by
    have := unravel_length _ _ _ hig; simp at this ⊢; omega
  have hzipnames : ((gd.map (·.1)).zip ig).map (·.1) = gd.map (·.1) := by
    rw [List.map_fst_zip]; omega
  -- the read on the right is defined: it is an in-range read of a well-formed array
  have hsome : ∃ x, a.get? ((gd.map (·.1)).zip ig ++ e) = some x := by
    have hir : InRange (gd.map (·.2)) ig := ravel_inRange _ _ _ (ravel_of_unravel _ _ _ hig)
    have hspec := zip_env_spec gd ig hgn hir
    apply get_isSome a _ (fun d => (Env.get ((gd.map (·.1)).zip ig ++ e) d).getD 0) hwf
    intro d hd
    by_cases hg : d.1 ∈ gd.map (·.1)
    · obtain ⟨g, hgmem, hgname⟩ := List.mem_map.mp hg
      have hsame : g = d := by
        have h1 := lookup_dims a.dims hwf.2 g (hsub g hgmem)
        have h2 := lookup_dims a.dims hwf.2 d hd
        rw [hgname] at h1
        rw [h1] at h2
        exact Prod.ext hgname (by simpa using h2)
      subst hsame
      obtain ⟨x, hx, hlt⟩ := hspec g hgmem
      have : Env.get ((gd.map (·.1)).zip ig ++ e) g.1 = some x := lookup_append_left_some _ _ _ x hx
      exact ⟨by simp [this], by simp [this, hlt]⟩
    · have hdo : d ∈ a.dims.filter (fun d => !(gd.map (·.1)).contains d.1) := by
        simp only [List.mem_filter]
        refine ⟨hd, ?_⟩
        cases hc : (gd.map (·.1)).contains d.1 with
        | false => rfl
        | true => exact absurd (List.contains_iff_mem.mp hc) hg
      have : Env.get ((gd.map (·.1)).zip ig ++ e) d.1 = e.get d.1 :=
        lookup_append_left_none _ _ _ (lookup_zip_none _ _ _ hg)
      have hvd := hv d hdo
      exact ⟨by simp [this, hvd.1], by simp [this, hvd.1, hvd.2]⟩
  exact (isel_get a _ e v hwf (by rw [hzipnames]; exact hv) hsome).symm

/-! ### non-vacuity -/
def exA : NArr Int := { dims := [("y", 2), ("t", 2), ("x", 3)], data := [0,1,2,3,4,5,6,7,8,9,10,11] }
example : (exA.ravelDims ["y", "x"] (some "index")).bind (fun r => r.get? [("t", 1), ("index", 4)]) = some 10 := by decide
example : (exA.isel [("y", 1), ("x", 1)]).get? [("t", 1)] = some 10 := by decide
example : unravel [2, 3] 4 = some [1, 1] := by decide

end Ems.C02
