import EmsModel.Core.Lookup
import EmsModel.Props.C01
import EmsModel.Lemmas.RectPoint
/-!
# C04 — point lookup returns exactly the lowest-indexed intersecting cell

All theorems hold for every `intersects` predicate, every polygon array (holes included)
and every order in which the spatial index reports its hits.
-/
namespace Ems.C04
open Ems

theorem mem_hitSet (intersects : Poly → Pt → Bool) (polys : List (Option Poly)) (pt : Pt) (n : Nat) :
    n ∈ hitSet intersects polys pt ↔ ∃ p, polys[n]? = some (some p) ∧ intersects p pt = true := by
  simp only [hitSet, List.mem_filter, List.mem_range]
  constructor
  · rintro ⟨_, h⟩
    cases hp : polys[n]? with
    | none => simp [hp] at h
    | some o =>
      cases o with
      | none => simp [hp] at h
      | some p => exact ⟨p, rfl, by simpa [hp] using h⟩
  · rintro ⟨p, hp, hi⟩
    exact ⟨(List.getElem?_eq_some_iff.mp hp).1, by simp [hp, hi]⟩

/-- sorting and taking the head gives a least element -/
theorem firstHit_spec (hits : List Nat) :
    (firstHit hits = none ↔ hits = []) ∧
    (∀ n, firstHit hits = some n → n ∈ hits ∧ ∀ m ∈ hits, n ≤ m) := by
  have hperm := List.mergeSort_perm hits (fun a b => decide (a ≤ b))
  have hsorted := List.pairwise_mergeSort (le := fun a b => decide (a ≤ b))
    (by intro a b c h1 h2; simp at *; omega) (by intro a b; simp; omega) hits
  constructor
  · simp only [firstHit, List.head?_eq_none_iff]
    constructor
    · intro h; rw [h] at hperm; exact hperm.symm.eq_nil
    · intro h; subst h; simp
  · intro n hn
    simp only [firstHit] at hn
    cases hs : hits.mergeSort (fun a b => decide (a ≤ b)) with
    | nil => simp [hs] at hn
    | cons x xs =>
      simp [hs] at hn; subst hn
      rw [hs] at hperm hsorted
      refine ⟨hperm.mem_iff.mp (by simp), ?_⟩
      intro m hm
      have hm' : m ∈ x :: xs := hperm.mem_iff.mpr hm
      rcases List.mem_cons.mp hm' with rfl | h
      · exact Nat.le_refl _
      · have := (List.pairwise_cons.mp hsorted).1 m h
        simpa using this

/-- **A cell is returned iff some cell polygon intersects the point** (never a nearest cell). -/
theorem lookup_none_iff (intersects : Poly → Pt → Bool) (c : Conv) (polys : List (Option Poly)) (pt : Pt)
    (hits : List Nat) (hperm : hits.Perm (hitSet intersects polys pt)) :
    getIndexForPoint c polys hits = none ↔
      ∀ (n : Nat) (p : Poly), polys[n]? = some (some p) → intersects p pt = false := by
  simp only [getIndexForPoint, Option.map_eq_none_iff, (firstHit_spec hits).1]
  constructor
  · intro h n p hp
    subst h
    cases hi : intersects p pt with
    | false => rfl
    | true =>
      have : n ∈ hitSet intersects polys pt := (mem_hitSet _ _ _ _).mpr ⟨p, hp, hi⟩
      rw [← hperm.mem_iff] at this; simp at this
  · intro h
    cases hh : hits with
    | nil => rfl
    | cons x xs =>
      have : x ∈ hitSet intersects polys pt := hperm.mem_iff.mp (by simp [hh])
      obtain ⟨p, hp, hi⟩ := (mem_hitSet _ _ _ _).mp this
      rw [h x p hp] at hi; simp at hi

/-- **The cell returned is the intersecting one with the lowest linear index.** -/
theorem lookup_least (intersects : Poly → Pt → Bool) (c : Conv) (polys : List (Option Poly)) (pt : Pt)
    (hits : List Nat) (hperm : hits.Perm (hitSet intersects polys pt)) (item : LookupItem)
    (h : getIndexForPoint c polys hits = some item) :
    (∃ p, polys[item.linear]? = some (some p) ∧ intersects p pt = true) ∧
    ∀ (m : Nat) (p : Poly), polys[m]? = some (some p) → intersects p pt = true → item.linear ≤ m := by
  simp only [getIndexForPoint, Option.map_eq_some_iff] at h
  obtain ⟨n, hn, rfl⟩ := h
  obtain ⟨hmem, hle⟩ := (firstHit_spec hits).2 n hn
  constructor
  · exact (mem_hitSet _ _ _ _).mp (hperm.mem_iff.mp hmem)
  · intro m p hp hi
    exact hle m (hperm.mem_iff.mpr ((mem_hitSet _ _ _ _).mpr ⟨p, hp, hi⟩))

/-- **Linear index, native index and polygon describe the same cell**, and a cell without
geometry is never returned. -/
theorem lookup_coherent (intersects : Poly → Pt → Bool) (c : Conv) (polys : List (Option Poly)) (pt : Pt)
    (hits : List Nat) (hperm : hits.Perm (hitSet intersects polys pt)) (item : LookupItem)
    (h : getIndexForPoint c polys hits = some item)
    (shape : List Nat) (hs : c.shape? c.default = some shape) (hsize : polys.length = size shape) :
    (∃ p, item.polygon = some p ∧ polys[item.linear]? = some (some p)) ∧
    (∃ idx, item.native = some (c.default, idx) ∧
      c.ravelIndex (c.default, idx.map Int.ofNat) = some item.linear) := by
  obtain ⟨⟨p, hp, _⟩, _⟩ := lookup_least intersects c polys pt hits hperm item h
  simp only [getIndexForPoint, Option.map_eq_some_iff] at h
  obtain ⟨n, _, rfl⟩ := h
  constructor
  · exact ⟨p, by simp [hp], hp⟩
  · have hlt : n < size shape := by
      rw [← hsize]
      exact (List.getElem?_eq_some_iff.mp hp).1
    obtain ⟨idx, h1, h2⟩ := C01.ravel_wind c c.default shape hs n hlt
    exact ⟨idx, by simpa [C01.default_kind] using h1, h2⟩

/-- the order in which the spatial index reports hits is irrelevant -/
theorem lookup_order_independent (c : Conv) (polys : List (Option Poly)) (hits hits' : List Nat)
    (hperm : hits.Perm hits') : getIndexForPoint c polys hits = getIndexForPoint c polys hits' := by
  have key : firstHit hits = firstHit hits' := by
    have s1 := firstHit_spec hits
    have s2 := firstHit_spec hits'
    cases h1 : firstHit hits with
    | none =>
      have : hits = [] := s1.1.mp h1
      subst this
      have : hits' = [] := hperm.symm.eq_nil
      subst this; exact (s2.1.mpr rfl).symm
    | some a =>
      cases h2 : firstHit hits' with
      | none =>
        have : hits' = [] := s2.1.mp h2
        subst this
        have : hits = [] := hperm.eq_nil
        subst this; simp [firstHit] at h1
      | some b =>
        obtain ⟨ha, hla⟩ := s1.2 a h1
        obtain ⟨hb, hlb⟩ := s2.2 b h2
        have h3 := hla b (hperm.mem_iff.mpr hb)
        have h4 := hlb a (hperm.mem_iff.mp ha)
        congr 1; omega
  simp [getIndexForPoint, key]

/-! ### non-vacuity: a point on the edge shared by cells 0 and 1, cell 2 is a hole -/
def exPolys : List (Option Poly) :=
  [some [(0,0),(2,0),(2,2),(0,2)], some [(2,0),(4,0),(4,2),(2,2)], none]
def exConv : Conv := { grids := [("face", [1, 3])], default := "face" }
example : hitSet (fun p q => pointInPoly q p) exPolys (2, 1) = [0, 1] := by decide +kernel
example : ∃ item, getIndexForPoint exConv exPolys [1, 0] = some item ∧ item.linear = 0 := by
  cases h : firstHit [1, 0] with
  | none => have := (firstHit_spec [1, 0]).1.mp h; simp at this
  | some n =>
    obtain ⟨hm, hl⟩ := (firstHit_spec [1, 0]).2 n h
    have : n = 0 := by have := hl 0 (by simp); omega
    subst this
    exact ⟨{ linear := 0, native := exConv.windIndex none 0, polygon := exPolys[0]?.join },
      by simp [getIndexForPoint, h], rfl⟩
example : getIndexForPoint exConv exPolys (hitSet (fun p q => pointInPoly q p) exPolys (5, 1)) = none := by decide +kernel

/-! ### CF 1-D grids: the lookup with no geometric oracle left

For the cells of a CF 1-D grid the exact closed point-in-polygon test of `Core/Geom.lean` (the predicate
GEOS is compared with on every generated point) is *proved* to be interval containment in the cell's two
bounds (`Ems.pip_rect`), so the lookup theorems above specialise to statements about the dataset's bounds
alone: the cell found is the row-major least `(j, i)` whose latitude bounds contain the point's y and whose
longitude bounds contain its x; nothing is found iff no such cell exists. Bounds may run either way on
either axis; they must be non-degenerate (`b.1 ≠ b.2`). -/

/-- the exact predicate, with the argument order of `hitSet` -/
def exactIntersects (p : Poly) (q : Pt) : Bool := pointInPoly q p

/-- no zero-width cell -/
def NonDegenerate (b : List (Rat × Rat)) : Prop := ∀ p ∈ b, p.1 ≠ p.2

/-- cell `(j, i)` contains the point: its two bounds intervals do -/
def cellContains (lonb latb : List (Rat × Rat)) (pt : Pt) (j i : Nat) : Prop :=
  ∃ (hj : j < latb.length) (hi : i < lonb.length),
    between pt.1 lonb[i].1 lonb[i].2 = true ∧ between pt.2 latb[j].1 latb[j].2 = true

theorem rect_contains_iff (xb yb : Rat × Rat) (q : Pt) (hx : xb.1 ≠ xb.2) (hy : yb.1 ≠ yb.2) :
    exactIntersects (rect xb yb) q = (between q.1 xb.1 xb.2 && between q.2 yb.1 yb.2) :=
  pip_rect xb yb q hx hy

/-- the spatial-index hits on a CF 1-D grid are exactly the row-major positions of the cells whose bounds
contain the point -/
theorem cf1d_hit_iff (lonb latb : List (Rat × Rat)) (hx : NonDegenerate lonb) (hy : NonDegenerate latb)
    (pt : Pt) (n : Nat) :
    n ∈ hitSet exactIntersects (cf1dPolys lonb latb) pt ↔
      ∃ j i, n = j * lonb.length + i ∧ cellContains lonb latb pt j i := by
  rw [mem_hitSet]
  constructor
  · rintro ⟨p, hp, hin⟩
    have hlt : n < latb.length * lonb.length := by
      rw [← cf1dPolys_length]; exact (List.getElem?_eq_some_iff.mp hp).1
    have hnx : 0 < lonb.length := by
      rcases Nat.eq_zero_or_pos lonb.length with h | h
      · rw [h] at hlt; simp at hlt
      · exact h
    have hj : n / lonb.length < latb.length := by
      rw [Nat.div_lt_iff_lt_mul hnx]; exact hlt
    have hi : n % lonb.length < lonb.length := Nat.mod_lt _ hnx
    have hn : n = n / lonb.length * lonb.length + n % lonb.length := by
      rw [Nat.mul_comm]; exact (Nat.div_add_mod n lonb.length).symm
    have hat := cf1dPolys_at lonb latb _ _ hj hi
    rw [← hn, hp] at hat
    have hpe : p = rect lonb[n % lonb.length] latb[n / lonb.length] := by
      simpa using hat
    subst hpe
    rw [rect_contains_iff _ _ _ (hx _ (List.getElem_mem hi)) (hy _ (List.getElem_mem hj))] at hin
    simp only [Bool.and_eq_true] at hin
    exact ⟨_, _, hn, hj, hi, hin.1, hin.2⟩
  · rintro ⟨j, i, rfl, hj, hi, h1, h2⟩
    refine ⟨_, cf1dPolys_at lonb latb j i hj hi, ?_⟩
    rw [rect_contains_iff _ _ _ (hx _ (List.getElem_mem hi)) (hy _ (List.getElem_mem hj))]
    simp [h1, h2]

/-- **CF 1-D lookup, found.** Whatever order the spatial index reports its hits in, the cell returned is a
cell whose bounds contain the point, and its linear index is the least among all such cells. -/
theorem cf1d_lookup_spec (c : Conv) (lonb latb : List (Rat × Rat)) (hx : NonDegenerate lonb)
    (hy : NonDegenerate latb) (pt : Pt) (hits : List Nat)
    (hperm : hits.Perm (hitSet exactIntersects (cf1dPolys lonb latb) pt)) (item : LookupItem)
    (h : getIndexForPoint c (cf1dPolys lonb latb) hits = some item) :
    (∃ j i, item.linear = j * lonb.length + i ∧ cellContains lonb latb pt j i) ∧
    ∀ j' i', cellContains lonb latb pt j' i' → item.linear ≤ j' * lonb.length + i' := by
  obtain ⟨⟨p, hp, hin⟩, hle⟩ := lookup_least exactIntersects c _ pt hits hperm item h
  constructor
  · exact (cf1d_hit_iff lonb latb hx hy pt item.linear).mp ((mem_hitSet _ _ _ _).mpr ⟨p, hp, hin⟩)
  · intro j' i' hc
    have hm := (cf1d_hit_iff lonb latb hx hy pt (j' * lonb.length + i')).mpr ⟨j', i', rfl, hc⟩
    obtain ⟨q, hq, hqi⟩ := (mem_hitSet _ _ _ _).mp hm
    exact hle _ q hq hqi

/-- **CF 1-D lookup, nothing found** iff no cell's bounds contain the point: a point outside every cell
yields no result, never a nearest cell. -/
theorem cf1d_lookup_none_iff (c : Conv) (lonb latb : List (Rat × Rat)) (hx : NonDegenerate lonb)
    (hy : NonDegenerate latb) (pt : Pt) (hits : List Nat)
    (hperm : hits.Perm (hitSet exactIntersects (cf1dPolys lonb latb) pt)) :
    getIndexForPoint c (cf1dPolys lonb latb) hits = none ↔ ∀ j i, ¬ cellContains lonb latb pt j i := by
  rw [lookup_none_iff exactIntersects c _ pt hits hperm]
  constructor
  · intro h j i hc
    have hm := (cf1d_hit_iff lonb latb hx hy pt (j * lonb.length + i)).mpr ⟨j, i, rfl, hc⟩
    obtain ⟨q, hq, hqi⟩ := (mem_hitSet _ _ _ _).mp hm
    rw [h _ q hq] at hqi; exact Bool.noConfusion hqi
  · intro h n p hp
    cases hi : exactIntersects p pt with
    | false => rfl
    | true =>
      obtain ⟨j, i, _, hc⟩ := (cf1d_hit_iff lonb latb hx hy pt n).mp ((mem_hitSet _ _ _ _).mpr ⟨p, hp, hi⟩)
      exact absurd hc (h j i)

/-- **The hits on a CF 1-D grid are a function of the bounds alone**: the hit set of the exact test on the
cell polygons equals `cf1dHits`, the interval-containment specification. -/
theorem cf1d_hits_eq (lonb latb : List (Rat × Rat)) (hx : NonDegenerate lonb) (hy : NonDegenerate latb)
    (pt : Pt) : hitSet exactIntersects (cf1dPolys lonb latb) pt = cf1dHits lonb latb pt := by
  have key : ∀ n, n ∈ hitSet exactIntersects (cf1dPolys lonb latb) pt ↔ n ∈ cf1dHits lonb latb pt := by
    intro n
    rw [cf1d_hit_iff lonb latb hx hy pt n]
    simp only [cf1dHits, List.mem_filter, List.mem_range]
    constructor
    · rintro ⟨j, i, rfl, hj, hi, h1, h2⟩
      have hnx : 0 < lonb.length := by omega
      have hdiv : (j * lonb.length + i) / lonb.length = j := by
        rw [Nat.mul_comm, Nat.mul_add_div hnx, Nat.div_eq_of_lt hi]; simp
      have hmod : (j * lonb.length + i) % lonb.length = i := by
        rw [Nat.mul_comm, Nat.mul_add_mod, Nat.mod_eq_of_lt hi]
      refine ⟨?_, ?_⟩
      · calc j * lonb.length + i < j * lonb.length + lonb.length := by omega
          _ = (j + 1) * lonb.length := by rw [Nat.add_mul]; simp
          _ ≤ latb.length * lonb.length := Nat.mul_le_mul_right _ hj
      · rw [hdiv, hmod]; simp [hj, hi, h1, h2]
    · rintro ⟨hlt, hc⟩
      have hnx : 0 < lonb.length := by
        rcases Nat.eq_zero_or_pos lonb.length with h | h
        · rw [h] at hlt; simp at hlt
        · exact h
      have hj : n / lonb.length < latb.length := by rw [Nat.div_lt_iff_lt_mul hnx]; exact hlt
      have hi : n % lonb.length < lonb.length := Nat.mod_lt _ hnx
      refine ⟨n / lonb.length, n % lonb.length, ?_, hj, hi, ?_⟩
      · rw [Nat.mul_comm]; exact (Nat.div_add_mod n lonb.length).symm
      · simpa [hj, hi] using hc
  -- two sublists of `range` with the same members
  unfold hitSet cf1dHits
  rw [cf1dPolys_length]
  apply List.filter_congr
  intro n hn
  have k := key n
  simp only [hitSet, cf1dHits, List.mem_filter, cf1dPolys_length] at k
  rw [Bool.eq_iff_iff]
  constructor
  · intro h; exact (k.mp ⟨hn, h⟩).2
  · intro h; exact (k.mpr ⟨hn, h⟩).2

example : cf1dHits [(0, 2), (2, 4)] [(4, 2), (2, 0)] (2, 3) = [0, 1] := by decide +kernel

/-! non-vacuity: a 2 x 2 grid with a north-to-south latitude axis; the point (2, 3) lies on the meridian
shared by the two cells of the northern row, which is row 0 -/
example : NonDegenerate [((0 : Rat), (2 : Rat)), (2, 4)] ∧ NonDegenerate [((4 : Rat), (2 : Rat)), (2, 0)] := by
  constructor <;> intro p hp <;> simp at hp <;> rcases hp with rfl | rfl <;> decide
example : hitSet exactIntersects (cf1dPolys [(0, 2), (2, 4)] [(4, 2), (2, 0)]) (2, 3) = [0, 1] := by decide +kernel
example : cellContains [(0, 2), (2, 4)] [(4, 2), (2, 0)] (2, 3) 0 1 := ⟨by decide, by decide, by decide +kernel, by decide +kernel⟩

end Ems.C04
