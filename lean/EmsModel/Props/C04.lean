import EmsModel.Core.Lookup
import EmsModel.Props.C01
/-!
# C04 — point lookup returns exactly the lowest-indexed intersecting cell

All theorems hold for every `intersects` predicate, every polygon array (holes included)
and every order in which the spatial index reports its hits.
-/
namespace Ems.C04
open Ems

theorem mem_hitSet (intersects : Poly → Pt → Bool) (polys : List (Option Poly)) (pt : Pt) (n : Nat) :
    n ∈ hitSet intersects polys pt ↔ ∃ p, polys[n]? = some (some p) ∧ intersects p pt = true := by
  simp only [hitSet, List.mem_filter, List.mem_range]
  constructor
  · rintro ⟨_, h⟩
    cases hp : polys[n]? with
    | none => simp [hp] at h
    | some o =>
      cases o with
      | none => simp [hp] at h
      | some p => exact ⟨p, rfl, by simpa [hp] using h⟩
  · rintro ⟨p, hp, hi⟩
    exact ⟨(List.getElem?_eq_some_iff.mp hp).1, by simp [hp, hi]⟩

/-- sorting and taking the head gives a least element -/
theorem firstHit_spec (hits : List Nat) :
    (firstHit hits = none ↔ hits = []) ∧
    (∀ n, firstHit hits = some n → n ∈ hits ∧ ∀ m ∈ hits, n ≤ m) := by
  have hperm := List.mergeSort_perm hits (fun a b => decide (a ≤ b))
  have hsorted := List.pairwise_mergeSort (le := fun a b => decide (a ≤ b))
    (by intro a b c h1 h2; simp at *; omega) (by intro a b; simp; omega) hits
  constructor
  · simp only [firstHit, List.head?_eq_none_iff]
    constructor
    · intro h; rw [h] at hperm; exact hperm.symm.eq_nil
    · intro h; subst h; simp
  · intro n hn
    simp only [firstHit] at hn
    cases hs : hits.mergeSort (fun a b => decide (a ≤ b)) with
    | nil => simp [hs] at hn
    | cons x xs =>
      simp [hs] at hn; subst hn
      rw [hs] at hperm hsorted
      refine ⟨hperm.mem_iff.mp (by simp), ?_⟩
      intro m hm
      have hm' : m ∈ x :: xs := hperm.mem_iff.mpr hm
      rcases List.mem_cons.mp hm' with rfl | h
      · exact Nat.le_refl _
      · have := (List.pairwise_cons.mp hsorted).1 m h
        simpa using this

/-- **A cell is returned iff some cell polygon intersects the point** (never a nearest cell). -/
theorem lookup_none_iff (intersects : Poly → Pt → Bool) (c : Conv) (polys : List (Option Poly)) (pt : Pt)
    (hits : List Nat) (hperm : hits.Perm (hitSet intersects polys pt)) :
    getIndexForPoint c polys hits = none ↔
      ∀ (n : Nat) (p : Poly), polys[n]? = some (some p) → intersects p pt = false := by
  simp only [getIndexForPoint, Option.map_eq_none_iff, (firstHit_spec hits).1]
  constructor
  · intro h n p hp
    subst h
    cases hi : intersects p pt with
    | false => rfl
    | true =>
      have : n ∈ hitSet intersects polys pt := (mem_hitSet _ _ _ _).mpr ⟨p, hp, hi⟩
      rw [← hperm.mem_iff] at this; simp at this
  · intro h
    cases hh : hits with
    | nil => rfl
    | cons x xs =>
      have : x ∈ hitSet intersects polys pt := hperm.mem_iff.mp (by simp [hh])
      obtain ⟨p, hp, hi⟩ := (mem_hitSet _ _ _ _).mp this
      rw [h x p hp] at hi; simp at hi

/-- **The cell returned is the intersecting one with the lowest linear index.** -/
theorem lookup_least (intersects : Poly → Pt → Bool) (c : Conv) (polys : List (Option Poly)) (pt : Pt)
    (hits : List Nat) (hperm : hits.Perm (hitSet intersects polys pt)) (item : LookupItem)
    (h : getIndexForPoint c polys hits = some item) :
    (∃ p, polys[item.linear]? = some (some p) ∧ intersects p pt = true) ∧
    ∀ (m : Nat) (p : Poly), polys[m]? = some (some p) → intersects p pt = true → item.linear ≤ m := by
  simp only [getIndexForPoint, Option.map_eq_some_iff] at h
  obtain ⟨n, hn, rfl⟩ := h
  obtain ⟨hmem, hle⟩ := (firstHit_spec hits).2 n hn
  constructor
  · exact (mem_hitSet _ _ _ _).mp (hperm.mem_iff.mp hmem)
  · intro m p hp hi
    exact hle m (hperm.mem_iff.mpr ((mem_hitSet _ _ _ _).mpr ⟨p, hp, hi⟩))

/-- **Linear index, native index and polygon describe the same cell**, and a cell without
geometry is never returned. -/
theorem lookup_coherent (intersects : Poly → Pt → Bool) (c : Conv) (polys : List (Option Poly)) (pt : Pt)
    (hits : List Nat) (hperm : hits.Perm (hitSet intersects polys pt)) (item : LookupItem)
    (h : getIndexForPoint c polys hits = some item)
    (shape : List Nat) (hs : c.shape? c.default = some shape) (hsize : polys.length = size shape) :
    (∃ p, item.polygon = some p ∧ polys[item.linear]? = some (some p)) ∧
    (∃ idx, item.native = some (c.default, idx) ∧
      c.ravelIndex (c.default, idx.map Int.ofNat) = some item.linear) := by
  obtain ⟨⟨p, hp, _⟩, _⟩ := lookup_least intersects c polys pt hits hperm item h
  simp only [getIndexForPoint, Option.map_eq_some_iff] at h
  obtain ⟨n, _, rfl⟩ := h
  constructor
  · exact ⟨p, by simp [hp], hp⟩
  · have hlt : n < size shape := by
      rw [← hsize]
      exact (List.getElem?_eq_some_iff.mp hp).1
    obtain ⟨idx, h1, h2⟩ := C01.ravel_wind c c.default shape hs n hlt
    exact ⟨idx, by simpa [C01.default_kind] using h1, h2⟩

/-- the order in which the spatial index reports hits is irrelevant -/
theorem lookup_order_independent (c : Conv) (polys : List (Option Poly)) (hits hits' : List Nat)
    (hperm : hits.Perm hits') : getIndexForPoint c polys hits = getIndexForPoint c polys hits' := by
  have key : firstHit hits = firstHit hits' := by
    have s1 := firstHit_spec hits
    have s2 := firstHit_spec hits'
    cases h1 : firstHit hits with
    | none =>
      have : hits = [] := s1.1.mp h1
      subst this
      have : hits' = [] := hperm.symm.eq_nil
      subst this; exact (s2.1.mpr rfl).symm
    | some a =>
      cases h2 : firstHit hits' with
      | none =>
        have : hits' = [] := s2.1.mp h2
        subst this
        have : hits = [] := hperm.eq_nil
        subst this; simp [firstHit] at h1
      | some b =>
        obtain ⟨ha, hla⟩ := s1.2 a h1
        obtain ⟨hb, hlb⟩ := s2.2 b h2
        have h3 := hla b (hperm.mem_iff.mpr hb)
        have h4 := hlb a (hperm.mem_iff.mp ha)
        congr 1; omega
  simp [getIndexForPoint, key]

/-! ### non-vacuity: a point on the edge shared by cells 0 and 1, cell 2 is a hole -/
def exPolys : List (Option Poly) :=
  [some [(0,0),(2,0),(2,2),(0,2)], some [(2,0),(4,0),(4,2),(2,2)], none]
def exConv : Conv := { grids := [("face", [1, 3])], default := "face" }
example : hitSet (fun p q => pointInPoly q p) exPolys (2, 1) = [0, 1] := by decide +kernel
example : ∃ item, getIndexForPoint exConv exPolys [1, 0] = some item ∧ item.linear = 0 := by
  cases h : firstHit [1, 0] with
  | none => have := (firstHit_spec [1, 0]).1.mp h; simp at this
  | some n =>
    obtain ⟨hm, hl⟩ := (firstHit_spec [1, 0]).2 n h
    have : n = 0 := by have := hl 0 (by simp); omega
    subst this
    exact ⟨{ linear := 0, native := exConv.windIndex none 0, polygon := exPolys[0]?.join },
      by simp [getIndexForPoint, h], rfl⟩
example : getIndexForPoint exConv exPolys (hitSet (fun p q => pointInPoly q p) exPolys (5, 1)) = none := by decide +kernel

end Ems.C04
