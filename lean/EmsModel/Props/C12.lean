import EmsModel.Lemmas.DepthHyp
/-!
# C12 — ocean floor extraction returns the deepest valid value of every water column

Property theorems only, about `Ems.Depth.floorIndex` (= `_find_ocean_floor_indexes` on one
column) and `Ems.Depth.oceanFloorOrd` (= `emsarray.operations.depth.ocean_floor`, with the
arbitrary order in which the code visits the depth dimensions as a parameter).
Unbounded in the number of levels, coordinates, variables, ranks and sizes.

`kb = true` is the code as written (`extract_vars(..., keep_bounds=True)`), `kb = false` the
repaired call (`keep_bounds=False`).  Every theorem holds for both, the first under the extra
hypothesis `FloorReady.noBounds` (no data variable with a depth dimension is named by a
`bounds` attribute) — exactly the input class on which the code as written raises, see
`keep_bounds_breaks_ocean_floor` at the end.
-/
namespace Ems.C12

open Ems Ems.Depth

/-! ## one water column -/

/-- **The floor index is the index of the last valid layer**: the running count of valid
layers followed by the first arg-max returns `i` exactly when layer `i` holds data and every
later layer is missing — gaps inside the column do not matter. -/
theorem floor_index_spec {α} (col : List (Option α)) (i : Nat) (h : lastValid col = some i) :
    floorIndex col = i ∧ i < col.length ∧ (∃ a, col[i]? = some (some a))
      ∧ ∀ j, i < j → j < col.length → col[j]? = some none := by
  obtain ⟨h1, h2, h3⟩ := lastValid_some col i h
  exact ⟨by rw [floorIndex_eq, h]; rfl, h1, h2, h3⟩

/-- a column has a last valid layer unless it is empty of data, and then the index is 0
(so the value picked there is a missing value) -/
theorem floor_index_none {α} (col : List (Option α)) :
    (lastValid col = none ↔ ∀ x ∈ col, x = none) ∧ ((∀ x ∈ col, x = none) → floorIndex col = 0) := by
  refine ⟨⟨lastValid_none col, lastValid_none_of_all col⟩, ?_⟩
  intro h
  rw [floorIndex_eq, lastValid_none_of_all col h]; rfl

/-- the index depends on nothing but which layers are valid -/
theorem floor_index_valid_only {α β} (c1 : List (Option α)) (c2 : List (Option β))
    (h : c1.map (·.isSome) = c2.map (·.isSome)) : floorIndex c1 = floorIndex c2 :=
  floorIndex_congr c1 c2 h

/-- **One column, every orientation.** `col` and the physical depths `ph` of its levels are in
stored order (any sign convention is already inside `ph`; `r` = the axis is stored deep to
shallow and gets reversed by the normalisation, after which depths increase with the index).
The layer `j` the code ends up taking is in range; it is missing iff the whole column is; and
otherwise it holds data and no valid layer lies physically deeper. -/
theorem column_floor_spec (n : Nat) (col : List Val) (ph : List Rat) (r : Bool)
    (hlc : col.length = n) (hlp : ph.length = n) (hn : 0 < n)
    (hinc : (revIf r ph).Pairwise (· < ·)) :
    let j := if r then n - 1 - floorIndex (revIf r col) else floorIndex (revIf r col)
    j < n
    ∧ ((∀ x ∈ col, x = none) → col[j]? = some none)
    ∧ ((∃ x ∈ col, x ≠ none) →
        (∃ a, col[j]? = some (some a)) ∧
        ∀ (j' : Nat) (a' : Rat), col[j']? = some (some a') →
          ∀ p p' : Rat, ph[j']? = some p' → ph[j]? = some p → p' ≤ p) := by
  obtain ⟨_, h2, _, h4, h5⟩ := column_pick n col ph r hlc hlp hn hinc
  exact ⟨h2, h4, h5⟩

/-! ## the whole dataset -/

/-- The hypotheses of the dataset-level theorems: the depth coordinates are valid in the
sense of C13 and have the dimensions `ddims`; the non-spatial coordinates have the dimensions
`nsdims`; the structural assumptions of `ocean_floor` hold; `order` lists the depth dimensions. -/
structure Setting (kb : Bool) (ds : Dataset) (coords ns order ddims nsdims : List String) : Prop where
  valid : Valid ds coords
  hdd : dimsOf ds coords = some ddims
  hns : dimsOf ds ns = some nsdims
  ready : FloorReady kb ddims ds
  hord : (∀ x ∈ order, x ∈ ddims) ∧ (∀ x ∈ ddims, x ∈ order)

/-- `Setting`, decided: the driver evaluates this on the inputs of the correspondence run
(`hyp` lines), so that one knows the theorems speak about them -/
def settingB (kb : Bool) (ds : Dataset) (coords ns : List String) : Bool :=
  match dimsOf ds coords, dimsOf ds ns with
  | some ddims, some nsdims =>
    validB ds coords && floorReadyB kb ddims ds
      && ddims.all (fun d => !(nsdims.contains d)) && nsdims.all (fun x => decide (0 < ds.sz x))
  | _, _ => false

theorem settingB_sound (kb : Bool) (ds : Dataset) (coords ns : List String) (h : settingB kb ds coords ns = true) :
    ∃ ddims nsdims, Setting kb ds coords ns ddims ddims nsdims
      ∧ (∀ d ∈ ddims, d ∉ nsdims) ∧ (∀ x ∈ nsdims, 0 < ds.sz x) := by
  unfold settingB at h
  cases hd : dimsOf ds coords with
  | none => simp [hd] at h
  | some ddims =>
    cases hn : dimsOf ds ns with
    | none => simp [hd, hn] at h
    | some nsdims =>
      simp only [hd, hn, Bool.and_eq_true, List.all_eq_true, Bool.not_eq_true', List.contains_eq_mem,
        decide_eq_false_iff_not, decide_eq_true_eq] at h
      obtain ⟨⟨⟨h1, h2⟩, h3⟩, h4⟩ := h
      exact ⟨ddims, nsdims, ⟨validB_sound ds coords h1, hd, hn, floorReadyB_sound kb ddims ds h2,
        ⟨fun _ hx => hx, fun _ hx => hx⟩⟩, h3, h4⟩

/-- the run of `ocean_floor`, unfolded -/
theorem run_eq {kb : Bool} {ds : Dataset} {coords ns order ddims nsdims : List String}
    (h : Setting kb ds coords ns order ddims nsdims) :
    ∃ S', floorDims kb nsdims (normOut ds coords (some true) (some false)) order = some S'
      ∧ OInv ddims (normOut ds coords (some true) (some false)) S'
      ∧ oceanFloorOrd kb ds coords ns order = some (S'.dropDims ddims) := by
  have hN := floorReady_normOut kb ddims ds coords (some true) (some false) h.ready
  obtain ⟨S', hrun, hinv⟩ := floorDims_ok kb ddims nsdims _ hN order _ h.hord.1 (oinv_refl ddims _ hN.nodup)
  refine ⟨S', hrun, hinv, ?_⟩
  unfold oceanFloorOrd
  rw [normalize_valid ds coords (some true) (some false) h.valid]
  simp only [dimsOf_normOut, h.hdd, h.hns]
  have hchk : (order.all (· ∈ ddims) && ddims.all (· ∈ order)) = true := by
    simp only [Bool.and_eq_true, List.all_eq_true, decide_eq_true_eq]
    exact h.hord
  simp only [hchk, if_true, hrun, Option.map_some]

/-- **`ocean_floor` does not raise** on a valid input, in whatever order it visits the depth
dimensions. -/
theorem ocean_floor_succeeds (kb : Bool) (ds : Dataset) (coords ns order ddims nsdims : List String)
    (h : Setting kb ds coords ns order ddims nsdims) :
    ∃ out, oceanFloorOrd kb ds coords ns order = some out := by
  obtain ⟨S', _, _, hout⟩ := run_eq h
  exact ⟨_, hout⟩

/-- **The depth dimensions and their coordinates are removed**: no variable of the result has
a depth dimension, the depth coordinates are gone, and no depth dimension is left in `sizes`. -/
theorem depth_removed (kb : Bool) (ds : Dataset) (coords ns order ddims nsdims : List String)
    (h : Setting kb ds coords ns order ddims nsdims) (out : Dataset)
    (hout : oceanFloorOrd kb ds coords ns order = some out) :
    (∀ v ∈ out.vars, ∀ d ∈ ddims, d ∉ v.dims)
    ∧ (∀ c ∈ coords, out.find c = none)
    ∧ (∀ p ∈ out.sizes, p.1 ∉ ddims) := by
  obtain ⟨S', hrun, hinv, hout'⟩ := run_eq h
  rw [hout'] at hout
  have hout := (Option.some.inj hout).symm
  have hvars : ∀ v ∈ out.vars, ∀ d ∈ ddims, d ∉ v.dims := by
    intro v hv d hd hdv
    rw [hout] at hv
    simp only [Dataset.dropDims, List.mem_filter, List.all_eq_true, decide_eq_true_eq] at hv
    exact hv.2 d hdv hd
  refine ⟨hvars, ?_, ?_⟩
  · intro c hc
    obtain ⟨cv, d, hg⟩ := h.valid.good c hc
    obtain ⟨cv', hg', _⟩ := good_after ds coords (some true) (some false) h.valid c hc cv d hg
    have hN := floorReady_normOut kb ddims ds coords (some true) (some false) h.ready
    -- the dimension of c is one of the depth dimensions
    have hd : d ∈ ddims := by
      obtain ⟨y, hy, hfy⟩ := (allSome_map (dimOf ds) coords ddims h.hdd).1 c hc
      have : dimOf ds c = some d := by simp [dimOf, hg.found, hg.dims]
      rw [this] at hfy
      exact (Option.some.inj hfy) ▸ hy
    -- a one-dimensional variable never qualifies, so the coordinate reaches the end untouched …
    have hfr : S'.find c = some cv' :=
      floorDims_frame kb ddims nsdims _ hN order _ S' h.hord.1 (oinv_refl ddims _ hN.nodup) hrun c cv'
        hg'.found (by
          intro x _
          simp only [qual, spatialOf, hg'.dims]
          by_cases hx : x = d
          · subst hx; simp
          · have : x ∉ [d] := by simpa using hx
            simp [this])
    -- … and is dropped with its dimension
    cases hf : out.find c with
    | none => rfl
    | some v =>
      exfalso
      have hvm : v ∈ out.vars := find_mem _ _ _ hf
      have hvn : v.name = c := find_name _ _ _ hf
      have hvd := hvars v hvm d hd
      rw [hout] at hvm
      simp only [Dataset.dropDims, List.mem_filter] at hvm
      have a := find_of_mem S' hinv.nodup v hvm.1
      rw [hvn, hfr] at a
      rw [← Option.some.inj a, hg'.dims] at hvd
      exact hvd (by simp)
  · intro p hp hpd
    rw [hout] at hp
    simp only [Dataset.dropDims, List.mem_filter, List.any_eq_true, decide_eq_true_eq] at hp
    obtain ⟨_, v, hv, hpv⟩ := hp
    simp only [List.mem_filter, List.all_eq_true, decide_eq_true_eq] at hv
    exact hv.2 p.1 hpv hpd

/-- **The other dimensions are left as they were**: the result's `sizes` are exactly the input's
entries for the dimensions some remaining variable uses (same size, same relative order). -/
theorem sizes_kept (kb : Bool) (ds : Dataset) (coords ns order ddims nsdims : List String)
    (h : Setting kb ds coords ns order ddims nsdims) (out : Dataset)
    (hout : oceanFloorOrd kb ds coords ns order = some out) :
    out.sizes = ds.sizes.filter (fun p => out.vars.any (fun v => p.1 ∈ v.dims)) := by
  obtain ⟨S', _, hinv, hout'⟩ := run_eq h
  rw [hout'] at hout
  rw [← Option.some.inj hout]
  have : S'.sizes = ds.sizes := hinv.sizes
  simp only [Dataset.dropDims, this]

/-- **All other variables are left as they were**: a plain variable without a depth dimension
comes out of `ocean_floor` identical (dimensions, values, attributes, coordinate status). -/
theorem other_vars_untouched (kb : Bool) (ds : Dataset) (coords ns order ddims nsdims : List String)
    (h : Setting kb ds coords ns order ddims nsdims) (out : Dataset)
    (hout : oceanFloorOrd kb ds coords ns order = some out)
    (n : String) (u : Var) (hu : ds.find n = some u) (hplain : PlainVar ds coords n)
    (hnodepth : ∀ d ∈ ddims, d ∉ u.dims) :
    out.find n = some u := by
  obtain ⟨S', hrun, _, hout'⟩ := run_eq h
  rw [hout'] at hout
  rw [← Option.some.inj hout]
  have hN := floorReady_normOut kb ddims ds coords (some true) (some false) h.ready
  have hname : u.name = n := find_name _ _ _ hu
  -- untouched by the normalisation
  have hNf : (normOut ds coords (some true) (some false)).find n = some u := by
    rw [find_normOut, hu, Option.map_some]
    congr 1
    apply applyPlans_untouched
    intro p hp
    obtain ⟨c, hc, rfl⟩ := List.mem_map.mp hp
    obtain ⟨cv, d, hg⟩ := h.valid.good c hc
    have e : planFor ds (some true) (some false) c = planOf cv d (some true) (some false) := by
      simp [planFor, hg.found, hg.dims]
    rw [e]
    refine ⟨?_, ?_, ?_⟩
    · show u.name ≠ cv.name
      rw [hname, find_name _ _ _ hg.found]
      exact fun e => hplain.1 (e ▸ hc)
    · show cv.bounds ≠ some u.name
      rw [hname]; exact hplain.2 c hc cv hg.found
    · show d ∉ u.dims
      exact hnodepth d (dim_mem_ddims ds coords ddims h.hdd c hc cv d hg)
  -- untouched by every depth dimension, and kept at the end
  have hS' : S'.find n = some u :=
    floorDims_frame kb ddims nsdims _ hN order _ S' h.hord.1 (oinv_refl ddims _ hN.nodup) hrun n u hNf
      (fun x hx => qual_false_of_not_mem nsdims x u (hnodepth x (h.hord.1 x hx)))
  exact find_dropDims S' ddims n u hS' hnodepth

/-- **The ocean floor is the deepest valid value of every column.**
Let `u` be a plain data variable whose only depth dimension is `d`, the dimension of the
depth coordinate `c` (any sign convention, any ordering, `d` at any position among the
dimensions of `u`), with at least one spatial dimension, and assume the *static floor*: inside
the group of `u` (the data variables with `d` and the same set of spatial dimensions) validity
depends only on the layer and the spatial location — not on the variable nor on the
non-spatial (time) index.  Then `ocean_floor` succeeds and its variable `u'` has the dimensions
of `u` without `d`, and at every named index `env`
* if the whole column of `u` at `env` is missing, `u'` is missing there;
* otherwise `u'.at env` is the value of `u` at a layer `j` of that column which holds data and
  such that no valid layer of the column has a greater physical depth (`phys cv`).
This holds for every order in which the depth dimensions are visited. -/
theorem floor_spec (kb : Bool) (ds : Dataset) (coords ns order ddims nsdims : List String)
    (h : Setting kb ds coords ns order ddims nsdims)
    (c : String) (hc : c ∈ coords) (cv : Var) (d : String) (hg : GoodCoord ds c cv d)
    (hdn : d ∉ nsdims) (hnspos : ∀ x ∈ nsdims, 0 < ds.sz x)
    (n : String) (u : Var) (hu : ds.find n = some u) (hplain : PlainVar ds coords n)
    (hq : qual nsdims d u = true)
    (hstatic : ∀ e ∈ ds.vars, qual nsdims d e = true →
      sameSet (spatialOf nsdims d e) (spatialOf nsdims d u) = true →
      ∀ env : Env, (∀ x ∈ u.dims, x ≠ d → env x < ds.sz x) → ∀ j, j < ds.sz d →
        (e.at ds.sz (upd (zeroNs nsdims env) d j)).isSome = (u.at ds.sz (upd env d j)).isSome) :
    ∃ out u', oceanFloorOrd kb ds coords ns order = some out ∧ out.find n = some u'
      ∧ (∀ x, x ∈ u'.dims ↔ x ∈ u.dims ∧ x ≠ d)
      ∧ u'.name = u.name ∧ u'.extra = u.extra ∧ u'.isCoord = u.isCoord
      ∧ ∀ env, InBox ds.sz u'.dims env →
          ((∀ j, j < ds.sz d → u.at ds.sz (upd env d j) = none) → u'.at ds.sz env = none)
          ∧ ((∃ j, j < ds.sz d ∧ u.at ds.sz (upd env d j) ≠ none) →
              ∃ j, j < ds.sz d ∧ u.at ds.sz (upd env d j) ≠ none
                ∧ u'.at ds.sz env = u.at ds.sz (upd env d j)
                ∧ ∀ j', j' < ds.sz d → u.at ds.sz (upd env d j') ≠ none →
                    ∀ p p' : Rat, (phys cv)[j']? = some p' → (phys cv)[j]? = some p → p' ≤ p) := by
  obtain ⟨S', hrun, hinv, hout⟩ := run_eq h
  have hN := floorReady_normOut kb ddims ds coords (some true) (some false) h.ready
  have hd : d ∈ ddims := dim_mem_ddims ds coords ddims h.hdd c hc cv d hg
  have hud : d ∈ u.dims := qual_mem hq
  have hum : u ∈ ds.vars := find_mem _ _ _ hu
  -- abbreviations
  generalize hNdef : normOut ds coords (some true) (some false) = N at *
  have hNsz : N.sz = ds.sz := by rw [← hNdef]; rfl
  generalize hrdef : (planOf cv d (some true) (some false)).rev = r
  -- the variable after normalisation
  obtain ⟨hu1f, hu1at⟩ := plain_normOut ds coords ddims (some true) (some false) h.valid h.hdd c hc cv d hg n u hu
    hplain (h.ready.oneDepth u hum) hud
  rw [hNdef] at hu1f
  rw [hrdef] at hu1at
  generalize hu1def : applyPlans ds.sz (plans ds coords (some true) (some false)) u = u1 at *
  have hu1d : u1.dims = u.dims := by rw [← hu1def]; exact applyPlans_dims _ _ _
  have hu1c : u1.isCoord = u.isCoord := by rw [← hu1def]; exact applyPlans_isCoord _ _ _
  have hq1 : qual nsdims d u1 = true := by rw [(qual_congr nsdims d u1 u hu1d hu1c).1]; exact hq
  -- the loop over the depth dimensions
  obtain ⟨e1, he1, he1q, he1s, hS'f⟩ :=
    floorDims_target kb ddims nsdims N hN n u1 d hd hu1f hq1 order N S' h.hord.1 (h.hord.2 d hd)
      (oinv_refl ddims N hN.nodup) hu1f hrun
  -- the group member the floor was taken from, as a variable of the input
  have he1' : ∃ e ∈ ds.vars, e1 = applyPlans ds.sz (plans ds coords (some true) (some false)) e := by
    rw [← hNdef] at he1
    simp only [normOut, Dataset.mapVars, List.mem_map] at he1
    obtain ⟨e, he, hee⟩ := he1
    exact ⟨e, he, hee.symm⟩
  obtain ⟨e, he, he1def⟩ := he1'
  have he1d : e1.dims = e.dims := by rw [he1def]; exact applyPlans_dims _ _ _
  have he1c : e1.isCoord = e.isCoord := by rw [he1def]; exact applyPlans_isCoord _ _ _
  have heq : qual nsdims d e = true := by rw [← (qual_congr nsdims d e1 e he1d he1c).1]; exact he1q
  have hes : sameSet (spatialOf nsdims d e) (spatialOf nsdims d u) = true := by
    rw [← (qual_congr nsdims d e1 e he1d he1c).2, ← (qual_congr nsdims d u1 u hu1d hu1c).2]; exact he1s
  have hed : d ∈ e.dims := qual_mem heq
  have he1valid := valid_normOut ds coords ddims (some true) (some false) h.valid h.hdd c hc cv d hg e
    (h.ready.oneDepth e he) hed
  rw [← he1def, hrdef] at he1valid
  -- the result variable
  generalize hu2def : floorVar N.sz nsdims d e1 u1 = u2 at *
  have hu2nd : ∀ x ∈ ddims, x ∉ u2.dims := by
    rw [← hu2def]
    exact floorVar_no_depth kb ddims nsdims N hN d hd e1 u1 he1 (find_mem _ _ _ hu1f) (qual_mem he1q)
      (qual_mem hq1) N.sz
  have hu1dd : d ∈ u1.dims := qual_mem hq1
  have hu2dims : u2.dims = iselDims d (spatialOf nsdims d e1) u1.dims := by
    rw [← hu2def]; simp [floorVar, hu1dd, iselVar]
  have hmemdims : ∀ x, x ∈ u2.dims ↔ x ∈ u.dims ∧ x ≠ d := by
    intro x
    rw [hu2dims, mem_iselDims, hu1d]
    constructor
    · rintro (h1 | ⟨_, h2⟩)
      · exact h1
      · have := (sameSet_mem he1s x).mp h2
        obtain ⟨h3, h4, _⟩ := mem_spatialOf.mp this
        exact ⟨hu1d ▸ h3, h4⟩
    · intro h1; exact Or.inl h1
  refine ⟨S'.dropDims ddims, u2, hout, find_dropDims S' ddims n u2 hS'f hu2nd, hmemdims, ?_, ?_, ?_, ?_⟩
  · rw [← hu2def, floorVar_name, ← hu1def, applyPlans_name]
  · rw [← hu2def, floorVar_extra, ← hu1def, applyPlans_extra]
  · rw [← hu2def, floorVar_isCoord, hu1c]
  -- the values
  intro env hbox
  have hn2 : 2 ≤ ds.sz d := by rw [← hg.sized]; exact hg.levels
  have hboxu : ∀ x ∈ u.dims, x ≠ d → env x < ds.sz x := by
    intro x hx hxd
    exact hbox x ((hmemdims x).mpr ⟨hx, hxd⟩)
  have hboxe : ∀ x ∈ e.dims, x ≠ d → x ∉ nsdims → env x < ds.sz x := by
    intro x hx hxd hxn
    have : x ∈ spatialOf nsdims d e := mem_spatialOf.mpr ⟨hx, hxd, hxn⟩
    obtain ⟨h3, h4, _⟩ := mem_spatialOf.mp ((sameSet_mem hes x).mp this)
    exact hboxu x h3 h4
  -- the value of the result is the value of the normalised variable at the floor index
  have hat2 : u2.at ds.sz env = u1.at ds.sz (upd env d (floorIdx ds.sz nsdims d e1 env)) := by
    rw [← hu2def, hNsz]
    simp only [floorVar, hu1dd, if_true]
    apply at_iselVar
    · rw [← hu2dims]; exact hbox
    · intro x hx hxd
      rw [mem_iselDims]; exact Or.inl ⟨hx, hxd⟩
    · intro a b hab
      unfold floorIdx
      congr 1
      apply column_congr
      intro x hx hxd
      simp only [zeroNs]
      by_cases hxn : x ∈ nsdims
      · simp [hxn]
      · simp only [hxn, if_false]
        apply hab
        rw [mem_iselDims]
        exact Or.inr ⟨hu1dd, mem_spatialOf.mpr ⟨hx, hxd, hxn⟩⟩
  -- columns
  have hcol1 : column ds.sz u1 d env = revIf r (column ds.sz u d env) := by
    apply column_flip
    intro j hj
    rw [hu1at _ (fun x hx => by
      by_cases hxd : x = d
      · subst hxd; simpa [upd] using hj
      · simpa [upd, hxd] using hboxu x hx hxd), flipIf_upd]
  have hIeq : floorIdx ds.sz nsdims d e1 env = floorIndex (column ds.sz u1 d env) := by
    unfold floorIdx
    apply floorIndex_congr
    unfold column
    rw [List.map_map, List.map_map]
    apply List.map_congr_left
    intro j hj
    have hj' : j < ds.sz d := by simpa using hj
    simp only [Function.comp]
    -- e1 at time 0 ↔ e at time 0 (flipped) ↔ u (flipped) ↔ u1
    have hb1 : InBox ds.sz e.dims (upd (zeroNs nsdims env) d j) := by
      intro x hx
      by_cases hxd : x = d
      · subst hxd; simpa [upd] using hj'
      · simp only [upd, hxd, if_false, zeroNs]
        by_cases hxn : x ∈ nsdims
        · simpa [hxn] using hnspos x hxn
        · simpa [hxn] using hboxe x hx hxd hxn
    rw [he1valid _ hb1, flipIf_upd]
    have hfl : (if r = true then ds.sz d - 1 - j else j) < ds.sz d := by split <;> omega
    rw [hstatic e he heq hes env hboxu _ hfl]
    rw [hu1at _ (fun x hx => by
      by_cases hxd : x = d
      · subst hxd; simpa [upd] using hj'
      · simpa [upd, hxd] using hboxu x hx hxd), flipIf_upd]
  -- the column-level theorem
  obtain ⟨cv', _, ha⟩ := coord_after ds coords (some true) (some false) h.valid c hc cv d hg
  have hord := order_after ds c cv cv' d (some true) false hg ha
  have hinc : (revIf r (phys cv)).Pairwise (· < ·) := by
    have : phys cv' = revIf r (phys cv) := by rw [ha.phys, ← hrdef]; rfl
    rw [← this]; simpa using hord
  have hlp : (phys cv).length = ds.sz d := by rw [length_phys cv hg.noNaN, hg.sized]
  obtain ⟨hi, hj, hget, hnone, hsome⟩ :=
    column_pick (ds.sz d) (column ds.sz u d env) (phys cv) r (length_column _ _ _ _) hlp (by omega) hinc
  rw [← hcol1, ← hIeq] at hi hget
  -- read the result through the columns
  have hval : u2.at ds.sz env
      = u.at ds.sz (upd env d (if r = true then ds.sz d - 1 - floorIdx ds.sz nsdims d e1 env
          else floorIdx ds.sz nsdims d e1 env)) := by
    rw [hat2]
    have a := getElem?_column ds.sz u1 d env _ hi
    rw [hget] at a
    rw [← hcol1, ← hIeq] at hj
    rw [getElem?_column ds.sz u d env _ hj] at a
    exact (Option.some.inj a).symm
  rw [← hcol1, ← hIeq] at hj hnone hsome
  generalize hjdef : (if r = true then ds.sz d - 1 - floorIdx ds.sz nsdims d e1 env
      else floorIdx ds.sz nsdims d e1 env) = jstar at *
  constructor
  · intro hall
    have : ∀ x ∈ column ds.sz u d env, x = none := by
      intro x hx
      simp only [column, List.mem_map, List.mem_range] at hx
      obtain ⟨j, hj', rfl⟩ := hx
      exact hall j hj'
    have := hnone this
    rw [getElem?_column ds.sz u d env _ hj] at this
    rw [hval]; exact Option.some.inj this
  · rintro ⟨j0, hj0, hj0v⟩
    have hex : ∃ x ∈ column ds.sz u d env, x ≠ none :=
      ⟨_, by simp only [column, List.mem_map, List.mem_range]; exact ⟨j0, hj0, rfl⟩, hj0v⟩
    obtain ⟨⟨a, ha'⟩, hopt⟩ := hsome hex
    rw [getElem?_column ds.sz u d env _ hj] at ha'
    have hva : u.at ds.sz (upd env d jstar) = some a := Option.some.inj ha'
    refine ⟨jstar, hj, by rw [hva]; simp, hval, ?_⟩
    intro j' hj' hj'v p p' hp' hp
    cases hv : u.at ds.sz (upd env d j') with
    | none => exact absurd hv hj'v
    | some a' =>
      exact hopt j' a' (by rw [getElem?_column ds.sz u d env _ hj', hv]) p p' hp' hp

/-! ## Non-vacuity and the bounds-variable witness -/

/-- positive-up coordinate stored shallow to deep, a time coordinate, two variables of one
group with the depth dimension in different positions and the same staircase floor, a
surface variable -/
def fx : Dataset :=
  { sizes := [("k", 3), ("t", 2), ("x", 2)],
    vars := [
      { name := "zc", dims := ["k"], data := [some (-1), some (-2), some (-4)], positive := some "up",
        bounds := none, isCoord := true, extra := "a" },
      { name := "time", dims := ["t"], data := [some 0, some 1], positive := none,
        bounds := none, isCoord := true, extra := "t" },
      { name := "temp", dims := ["t", "x", "k"],
        data := [some 1, some 2, none, some 4, none, none, some 7, some 8, none, some 10, none, none],
        positive := none, bounds := none, isCoord := false, extra := "c" },
      { name := "salt", dims := ["k", "x"],
        data := [some 21, some 22, some 23, none, none, none],
        positive := none, bounds := none, isCoord := false, extra := "s" },
      { name := "surf", dims := ["x"], data := [some 5, some 6], positive := none, bounds := none,
        isCoord := false, extra := "d" } ] }

theorem fxValid : Valid fx ["zc"] where
  good := by
    intro c hc
    simp only [List.mem_singleton] at hc
    subst hc
    exact ⟨fx.vars[0], "k", ⟨by decide, rfl, by decide, by decide, Or.inr (by decide),
      Or.inr (Or.inl rfl), by decide, by decide⟩⟩
  indep := by simp
  names := by decide
  wf := by
    intro v hv
    simp only [fx, List.mem_cons, List.not_mem_nil, or_false] at hv
    rcases hv with rfl | rfl | rfl | rfl | rfl <;> decide

theorem fxSetting (kb : Bool) : Setting kb fx ["zc"] ["time"] ["k"] ["k"] ["t"] where
  valid := fxValid
  hdd := by decide
  hns := by decide
  ready := by
    refine ⟨by unfold NamesNodup; decide, ?_, ?_, ?_⟩
    · intro v _ a ha b hb _ _
      simp only [List.mem_singleton] at ha hb
      rw [ha, hb]
    · intro v hv hc d hd hdv
      simp only [List.mem_singleton] at hd
      subst hd
      simp only [fx, List.mem_cons, List.not_mem_nil, or_false] at hv
      rcases hv with rfl | rfl | rfl | rfl | rfl <;> simp_all
    · intro _ v hv w hw hb
      simp only [fx, List.mem_cons, List.not_mem_nil, or_false] at hw
      rcases hw with rfl | rfl | rfl | rfl | rfl <;> simp at hb
  hord := by simp

/-- the model computes the floor: `temp` (depth last, positive up) → the deepest valid value per
`(t, x)`; `salt` (depth first) likewise; depth coordinate and dimension gone, `surf` untouched -/
example : oceanFloorOrd true fx ["zc"] ["time"] ["k"] = some
  { sizes := [("t", 2), ("x", 2)],
    vars := [
      { name := "time", dims := ["t"], data := [some 0, some 1], positive := none,
        bounds := none, isCoord := true, extra := "t" },
      { name := "temp", dims := ["t", "x"], data := [some 2, some 4, some 8, some 10],
        positive := none, bounds := none, isCoord := false, extra := "c" },
      { name := "salt", dims := ["x"], data := [some 23, some 22],
        positive := none, bounds := none, isCoord := false, extra := "s" },
      { name := "surf", dims := ["x"], data := [some 5, some 6], positive := none, bounds := none,
        isCoord := false, extra := "d" } ] } := by decide

example : ∃ out, oceanFloorOrd true fx ["zc"] ["time"] ["k"] = some out :=
  ocean_floor_succeeds true fx _ _ _ _ _ (fxSetting true)

example : PlainVar fx ["zc"] "temp" ∧ qual ["t"] "k" fx.vars[2] = true := by
  refine ⟨⟨by decide, ?_⟩, by decide⟩
  intro c hc cv hf
  simp only [List.mem_singleton] at hc
  subst hc
  have : cv = fx.vars[0] := Option.some.inj (hf.symm.trans (by decide))
  subst this
  decide

/-- the static-floor hypothesis holds for `temp` in `fx`: its group is {`temp`, `salt`}, both have
the staircase floor, at every time -/
theorem fxStatic : ∀ e ∈ fx.vars, qual ["t"] "k" e = true →
    sameSet (spatialOf ["t"] "k" e) (spatialOf ["t"] "k" fx.vars[2]) = true →
    ∀ env : Env, (∀ x ∈ (fx.vars[2]).dims, x ≠ "k" → env x < fx.sz x) → ∀ j, j < fx.sz "k" →
      (e.at fx.sz (upd (zeroNs ["t"] env) "k" j)).isSome
        = ((fx.vars[2]).at fx.sz (upd env "k" j)).isSome := by
  intro e he hq _ env hb j hj
  have hx : env "x" < 2 := hb "x" (by decide) (by decide)
  have ht : env "t" < 2 := hb "t" (by decide) (by decide)
  have hj' : j < 3 := hj
  simp only [fx, List.mem_cons, List.not_mem_nil, or_false] at he
  have hxs : env "x" = 0 ∨ env "x" = 1 := by omega
  have hts : env "t" = 0 ∨ env "t" = 1 := by omega
  have hjs : j = 0 ∨ j = 1 ∨ j = 2 := by omega
  rcases he with rfl | rfl | rfl | rfl | rfl
  · simp [qual] at hq
  · simp [qual] at hq
  · rcases hxs with h1 | h1 <;> rcases hts with h2 | h2 <;> rcases hjs with rfl | rfl | rfl <;>
      simp [Var.at, upd, zeroNs, h1, h2, fx, Dataset.sz, ravel, size, List.lookup]
  · rcases hxs with h1 | h1 <;> rcases hts with h2 | h2 <;> rcases hjs with rfl | rfl | rfl <;>
      simp [Var.at, upd, zeroNs, h1, h2, fx, Dataset.sz, ravel, size, List.lookup]
  · simp [qual, spatialOf] at hq

/-- every hypothesis of `floor_spec` is met by `temp` in `fx` (both for the code as written and
for the repaired call) -/
example (kb : Bool) : ∃ out u', oceanFloorOrd kb fx ["zc"] ["time"] ["k"] = some out ∧ out.find "temp" = some u'
    ∧ ∀ x, x ∈ u'.dims ↔ x ∈ ["t", "x", "k"] ∧ x ≠ "k" := by
  have hg : GoodCoord fx "zc" fx.vars[0] "k" :=
    ⟨by decide, rfl, by decide, by decide, Or.inr (by decide), Or.inr (Or.inl rfl), by decide, by decide⟩
  have hplain : PlainVar fx ["zc"] "temp" := by
    refine ⟨by decide, ?_⟩
    intro c hc cv hf
    simp only [List.mem_singleton] at hc
    subst hc
    have : cv = fx.vars[0] := Option.some.inj (hf.symm.trans (by decide))
    subst this
    decide
  obtain ⟨out, u', h1, h2, h3, _⟩ := floor_spec kb fx ["zc"] ["time"] ["k"] ["k"] ["t"] (fxSetting kb) "zc"
    (by simp) fx.vars[0] "k" hg (by decide) (by decide) "temp" fx.vars[2] (by decide) hplain (by decide) fxStatic
  exact ⟨out, u', h1, h2, h3⟩

/-- **The bounds-variable witness** (finding `ocean-floor-bounds-variable`): a depth coordinate
with a bounds variable stored *after* a data variable of the same depth dimension.  The code
as written (`kb = true`) raises; with `keep_bounds=False` (`kb = false`) the floor is
computed.  The hypothesis `FloorReady.noBounds` is exactly what excludes this input. -/
def bx : Dataset :=
  { sizes := [("k", 2), ("x", 2), ("nv", 2)],
    vars := [
      { name := "zc", dims := ["k"], data := [some 1, some 3], positive := some "down",
        bounds := some "zb", isCoord := true, extra := "a" },
      { name := "temp", dims := ["k", "x"], data := [some 1, some 2, some 3, none],
        positive := none, bounds := none, isCoord := false, extra := "c" },
      { name := "zb", dims := ["k", "nv"], data := [some 0, some 2, some 2, some 4],
        positive := none, bounds := none, isCoord := false, extra := "b" } ] }

theorem keep_bounds_breaks_ocean_floor :
    oceanFloor true bx ["zc"] [] = none
    ∧ oceanFloor false bx ["zc"] [] = some
        { sizes := [("x", 2), ("nv", 2)],
          vars := [
            { name := "zb", dims := ["nv"], data := [some 2, some 4],
              positive := none, bounds := none, isCoord := false, extra := "b" },
            { name := "temp", dims := ["x"], data := [some 3, some 2],
              positive := none, bounds := none, isCoord := false, extra := "c" } ] } := by
  decide

end Ems.C12
