import EmsModel.Lemmas.DepthFloorSpec
/-!
# C12 — ocean floor extraction returns the deepest valid value of every water column

Property theorems only, about `Ems.Depth.floorIndex` (= `_find_ocean_floor_indexes` on one
column) and `Ems.Depth.oceanFloorOrd` (= `emsarray.operations.depth.ocean_floor`, with the
arbitrary order in which the code visits the depth dimensions as a parameter).
Unbounded in the number of levels, coordinates, variables, ranks and sizes.

`kb = true` is the code as written (`extract_vars(..., keep_bounds=True)`), `kb = false` the
repaired call (`keep_bounds=False`).  Every theorem holds for both, the first under the extra
hypothesis `FloorReady.noBounds` (no data variable with a depth dimension is named by a
`bounds` attribute) — exactly the input class on which the code as written raises, see
`keep_bounds_breaks_ocean_floor` at the end.
-/
namespace Ems.C12

open Ems Ems.Depth

/-! ## one water column -/

/-- **The floor index is the index of the last valid layer**: the running count of valid
layers followed by the first arg-max returns `i` exactly when layer `i` holds data and every
later layer is missing — gaps inside the column do not matter. -/
theorem floor_index_spec {α} (col : List (Option α)) (i : Nat) (h : lastValid col = some i) :
    floorIndex col = i ∧ i < col.length ∧ (∃ a, col[i]? = some (some a))
      ∧ ∀ j, i < j → j < col.length → col[j]? = some none := by
  obtain ⟨h1, h2, h3⟩ := lastValid_some col i h
  exact ⟨by rw [floorIndex_eq, h]; rfl, h1, h2, h3⟩

/-- a column has a last valid layer unless it is empty of data, and then the index is 0
(so the value picked there is a missing value) -/
theorem floor_index_none {α} (col : List (Option α)) :
    (lastValid col = none ↔ ∀ x ∈ col, x = none) ∧ ((∀ x ∈ col, x = none) → floorIndex col = 0) := by
  refine ⟨⟨lastValid_none col, lastValid_none_of_all col⟩, ?_⟩
  intro h
  rw [floorIndex_eq, lastValid_none_of_all col h]; rfl

/-- the index depends on nothing but which layers are valid -/
theorem floor_index_valid_only {α β} (c1 : List (Option α)) (c2 : List (Option β))
    (h : c1.map (·.isSome) = c2.map (·.isSome)) : floorIndex c1 = floorIndex c2 :=
  floorIndex_congr c1 c2 h

/-- **One column, every orientation.** `col` and the physical depths `ph` of its levels are in
stored order (any sign convention is already inside `ph`; `r` = the axis is stored deep to
shallow and gets reversed by the normalisation, after which depths increase with the index).
The layer `j` the code ends up taking is in range; it is missing iff the whole column is; and
otherwise it holds data and no valid layer lies physically deeper. -/
theorem column_floor_spec (n : Nat) (col : List Val) (ph : List Rat) (r : Bool)
    (hlc : col.length = n) (hlp : ph.length = n) (hn : 0 < n)
    (hinc : (revIf r ph).Pairwise (· < ·)) :
    let j := if r then n - 1 - floorIndex (revIf r col) else floorIndex (revIf r col)
    j < n
    ∧ ((∀ x ∈ col, x = none) → col[j]? = some none)
    ∧ ((∃ x ∈ col, x ≠ none) →
        (∃ a, col[j]? = some (some a)) ∧
        ∀ (j' : Nat) (a' : Rat), col[j']? = some (some a') →
          ∀ p p' : Rat, ph[j']? = some p' → ph[j]? = some p → p' ≤ p) := by
  obtain ⟨_, h2, _, h4, h5⟩ := column_pick n col ph r hlc hlp hn hinc
  exact ⟨h2, h4, h5⟩

/-! ## the whole dataset -/

/-- The hypotheses of the dataset-level theorems: the depth coordinates are valid in the
sense of C13 and have the dimensions `ddims`; the non-spatial coordinates have the dimensions
`nsdims`; the structural assumptions of `ocean_floor` hold; `order` lists the depth dimensions. -/
structure Setting (kb : Bool) (ds : Dataset) (coords ns order ddims nsdims : List String) : Prop where
  valid : Valid ds coords
  hdd : dimsOf ds coords = some ddims
  hns : dimsOf ds ns = some nsdims
  ready : FloorReady kb ddims ds
  hord : (∀ x ∈ order, x ∈ ddims) ∧ (∀ x ∈ ddims, x ∈ order)

/-- the run of `ocean_floor`, unfolded -/
theorem run_eq {kb : Bool} {ds : Dataset} {coords ns order ddims nsdims : List String}
    (h : Setting kb ds coords ns order ddims nsdims) :
    ∃ S', floorDims kb nsdims (normOut ds coords (some true) (some false)) order = some S'
      ∧ OInv ddims (normOut ds coords (some true) (some false)) S'
      ∧ oceanFloorOrd kb ds coords ns order = some (S'.dropDims ddims) := by
  have hN := floorReady_normOut kb ddims ds coords (some true) (some false) h.ready
  obtain ⟨S', hrun, hinv⟩ := floorDims_ok kb ddims nsdims _ hN order _ h.hord.1 (oinv_refl ddims _ hN.nodup)
  refine ⟨S', hrun, hinv, ?_⟩
  unfold oceanFloorOrd
  rw [normalize_valid ds coords (some true) (some false) h.valid]
  simp only [dimsOf_normOut, h.hdd, h.hns]
  have hchk : (order.all (· ∈ ddims) && ddims.all (· ∈ order)) = true := by
    simp only [Bool.and_eq_true, List.all_eq_true, decide_eq_true_eq]
    exact h.hord
  simp only [hchk, if_true, hrun, Option.map_some]

/-- **`ocean_floor` does not raise** on a valid input, in whatever order it visits the depth
dimensions. -/
theorem ocean_floor_succeeds (kb : Bool) (ds : Dataset) (coords ns order ddims nsdims : List String)
    (h : Setting kb ds coords ns order ddims nsdims) :
    ∃ out, oceanFloorOrd kb ds coords ns order = some out := by
  obtain ⟨S', _, _, hout⟩ := run_eq h
  exact ⟨_, hout⟩

/-- **The depth dimensions and their coordinates are removed**: no variable of the result has
a depth dimension, the depth coordinates are gone, and no depth dimension is left in `sizes`. -/
theorem depth_removed (kb : Bool) (ds : Dataset) (coords ns order ddims nsdims : List String)
    (h : Setting kb ds coords ns order ddims nsdims) (out : Dataset)
    (hout : oceanFloorOrd kb ds coords ns order = some out) :
    (∀ v ∈ out.vars, ∀ d ∈ ddims, d ∉ v.dims)
    ∧ (∀ c ∈ coords, out.find c = none)
    ∧ (∀ p ∈ out.sizes, p.1 ∉ ddims) := by
  obtain ⟨S', hrun, hinv, hout'⟩ := run_eq h
  rw [hout'] at hout
  have hout := (Option.some.inj hout).symm
  have hvars : ∀ v ∈ out.vars, ∀ d ∈ ddims, d ∉ v.dims := by
    intro v hv d hd hdv
    rw [hout] at hv
    simp only [Dataset.dropDims, List.mem_filter, List.all_eq_true, decide_eq_true_eq] at hv
    exact hv.2 d hdv hd
  refine ⟨hvars, ?_, ?_⟩
  · intro c hc
    obtain ⟨cv, d, hg⟩ := h.valid.good c hc
    obtain ⟨cv', hg', _⟩ := good_after ds coords (some true) (some false) h.valid c hc cv d hg
    have hN := floorReady_normOut kb ddims ds coords (some true) (some false) h.ready
    -- the dimension of c is one of the depth dimensions
    have hd : d ∈ ddims := by
      obtain ⟨y, hy, hfy⟩ := (allSome_map (dimOf ds) coords ddims h.hdd).1 c hc
      have : dimOf ds c = some d := by simp [dimOf, hg.found, hg.dims]
      rw [this] at hfy
      exact (Option.some.inj hfy) ▸ hy
    -- a one-dimensional variable never qualifies, so the coordinate reaches the end untouched …
    have hfr : S'.find c = some cv' :=
      floorDims_frame kb ddims nsdims _ hN order _ S' h.hord.1 (oinv_refl ddims _ hN.nodup) hrun c cv'
        hg'.found (by
          intro x _
          simp only [qual, spatialOf, hg'.dims]
          by_cases hx : x = d
          · subst hx; simp
          · have : x ∉ [d] := by simpa using hx
            simp [this])
    -- … and is dropped with its dimension
    cases hf : out.find c with
    | none => rfl
    | some v =>
      exfalso
      have hvm : v ∈ out.vars := find_mem _ _ _ hf
      have hvn : v.name = c := find_name _ _ _ hf
      have hvd := hvars v hvm d hd
      rw [hout] at hvm
      simp only [Dataset.dropDims, List.mem_filter] at hvm
      have a := find_of_mem S' hinv.nodup v hvm.1
      rw [hvn, hfr] at a
      rw [← Option.some.inj a, hg'.dims] at hvd
      exact hvd (by simp)
  · intro p hp hpd
    rw [hout] at hp
    simp only [Dataset.dropDims, List.mem_filter, List.any_eq_true, decide_eq_true_eq] at hp
    obtain ⟨_, v, hv, hpv⟩ := hp
    simp only [List.mem_filter, List.all_eq_true, decide_eq_true_eq] at hv
    exact hv.2 p.1 hpv hpd

end Ems.C12
