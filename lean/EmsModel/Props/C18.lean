import EmsModel.Core.Transect
import Mathlib.Algebra.Order.Field.Rat
import Mathlib.Tactic.Linarith
/-!
# C18 — transects cover exactly the part of the path inside the model, in path order

Stated in the path-parameter model of `Core/Transect.lean`.  Metric lengths (PROJ) and the
constructive geometry (GEOS `intersection`) are outside the model; the correspondence
validates the exact rational clipping on lattice-aligned paths.
-/
namespace Ems.C18
open Ems

theorem mem_rawSegments (pieces : List (Nat × List (Rat × Rat))) (s : Segment) :
    s ∈ rawSegments pieces ↔ ∃ cell ∈ pieces, ∃ p ∈ cell.2,
      s = { start := min p.1 p.2, stop := max p.1 p.2, linear := cell.1 } := by
  simp only [rawSegments, List.mem_flatMap, List.mem_map]
  constructor
  · rintro ⟨cell, hc, p, hp, rfl⟩; exact ⟨cell, hc, p, hp, rfl⟩
  · rintro ⟨cell, hc, p, hp, rfl⟩; exact ⟨cell, hc, p, hp, rfl⟩

/-- the sorted list is a rearrangement of one segment per line piece: nothing lost, nothing invented -/
theorem segments_perm (pieces : List (Nat × List (Rat × Rat))) :
    (segments pieces).Perm (rawSegments pieces) := List.mergeSort_perm _ _

/-- **start is never after end** -/
theorem segment_start_le_end (pieces : List (Nat × List (Rat × Rat))) (s : Segment)
    (h : s ∈ segments pieces) : s.start ≤ s.stop := by
  have := (segments_perm pieces).mem_iff.mp h
  obtain ⟨cell, _, p, _, rfl⟩ := (mem_rawSegments pieces s).mp this
  exact le_trans (min_le_left _ _) (le_max_left _ _)

/-- **each segment names the cell it was cut from**, with that piece's own end points -/
theorem segment_names_cell (pieces : List (Nat × List (Rat × Rat))) (s : Segment)
    (h : s ∈ segments pieces) :
    ∃ cell ∈ pieces, s.linear = cell.1 ∧ ∃ p ∈ cell.2, s.start = min p.1 p.2 ∧ s.stop = max p.1 p.2 := by
  have := (segments_perm pieces).mem_iff.mp h
  obtain ⟨cell, hc, p, hp, rfl⟩ := (mem_rawSegments pieces s).mp this
  exact ⟨cell, hc, rfl, p, hp, rfl, rfl⟩

theorem Segment.le_total (a b : Segment) : (a.le b || b.le a) = true := by
  simp only [Segment.le, Bool.or_eq_true, Bool.and_eq_true, decide_eq_true_eq, beq_iff_eq]
  rcases lt_trichotomy a.start b.start with h | h | h
  · left; left; exact h
  · rcases lt_trichotomy a.stop b.stop with h2 | h2 | h2
    · left; right; exact ⟨h, Or.inl h2⟩
    · rcases Nat.le_total a.linear b.linear with h3 | h3
      · left; right; exact ⟨h, Or.inr ⟨h2, h3⟩⟩
      · right; right; exact ⟨h.symm, Or.inr ⟨h2.symm, h3⟩⟩
    · right; right; exact ⟨h.symm, Or.inl h2⟩
  · right; left; exact h

theorem Segment.le_trans (a b c : Segment) (h1 : a.le b = true) (h2 : b.le c = true) : a.le c = true := by
  simp only [Segment.le, Bool.or_eq_true, Bool.and_eq_true, decide_eq_true_eq, beq_iff_eq] at *
  rcases h1 with h1 | ⟨e1, h1⟩
  · rcases h2 with h2 | ⟨e2, _⟩
    · left; exact lt_trans h1 h2
    · left; rw [← e2]; exact h1
  · rcases h2 with h2 | ⟨e2, h2⟩
    · left; rw [e1]; exact h2
    · right
      refine ⟨e1.trans e2, ?_⟩
      rcases h1 with h1 | ⟨f1, h1⟩
      · rcases h2 with h2 | ⟨f2, _⟩
        · left; exact lt_trans h1 h2
        · left; rw [← f2]; exact h1
      · rcases h2 with h2 | ⟨f2, h2⟩
        · left; rw [f1]; exact h2
        · right; exact ⟨f1.trans f2, Nat.le_trans h1 h2⟩

/-- **segments are listed by increasing distance from the start** (then by end) -/
theorem segments_sorted (pieces : List (Nat × List (Rat × Rat))) :
    (segments pieces).Pairwise fun a b => a.start < b.start ∨ (a.start = b.start ∧ a.stop ≤ b.stop) := by
  have h := List.pairwise_mergeSort (le := Segment.le)
    (fun a b c => Segment.le_trans a b c) (fun a b => Segment.le_total a b) (rawSegments pieces)
  refine List.Pairwise.imp ?_ h
  intro a b hab
  simp only [Segment.le, Bool.or_eq_true, Bool.and_eq_true, decide_eq_true_eq, beq_iff_eq] at hab
  rcases hab with h | ⟨e, h⟩
  · exact Or.inl h
  · right
    refine ⟨e, ?_⟩
    rcases h with h | ⟨f, _⟩
    · exact le_of_lt h
    · exact le_of_eq f

/-- a path that misses the model has no segments -/
theorem miss_is_empty : segments [] = [] := by simp [segments, rawSegments]

theorem no_pieces_no_segments (pieces : List (Nat × List (Rat × Rat))) (h : ∀ c ∈ pieces, c.2 = []) :
    segments pieces = [] := by
  have : rawSegments pieces = [] := by
    simp only [rawSegments, List.flatMap_eq_nil_iff, List.map_eq_nil_iff]
    exact h
  have hp := segments_perm pieces
  rw [this] at hp
  exact hp.eq_nil

/-- **Coverage.**  If the pieces of different cells do not overlap (cells do not overlap), the
segment lengths plus the gaps between them add up to the span from the first start to the
last end: the segments cover exactly the part of the path inside the model, each part once. -/
theorem coverage_1d : ∀ (segs : List Segment) (first last : Segment),
    segs.head? = some first → segs.getLast? = some last → NonOverlapping segs →
    totalLength segs + gaps segs = last.stop - first.start
  | [], _, _, h, _, _ => by simp at h
  | [a], first, last, hf, hl, _ => by
    simp at hf hl; subst hf hl
    simp [totalLength, gaps]
  | a :: b :: rest, first, last, hf, hl, hno => by
    simp only [List.head?_cons, Option.some.injEq] at hf
    subst hf
    have hl' : (b :: rest).getLast? = some last := by simpa [List.getLast?_cons_cons] using hl
    have ih := coverage_1d (b :: rest) b last rfl hl' hno.2
    have hfold : ∀ (l : List Rat) (x : Rat), l.foldl (· + ·) x = x + l.foldl (· + ·) 0 := by
      intro l
      induction l with
      | nil => intro x; simp
      | cons y ys ihl => intro x; simp only [List.foldl_cons]; rw [ihl (x + y), ihl (0 + y)]; linarith
    simp only [totalLength, List.map_cons, List.foldl_cons, gaps] at ih ⊢
    rw [hfold _ (0 + (a.stop - a.start) + (b.stop - b.start))]
    rw [hfold _ (0 + (b.stop - b.start))] at ih
    linarith

/-- in particular, when the path stays inside the model (no gaps) the lengths add up to the
length of the path between the first start and the last end -/
theorem coverage_contiguous (segs : List Segment) (first last : Segment)
    (hf : segs.head? = some first) (hl : segs.getLast? = some last) (hno : NonOverlapping segs)
    (hg : gaps segs = 0) : totalLength segs = last.stop - first.start := by
  have := coverage_1d segs first last hf hl hno
  rw [hg] at this; linarith

/-- **Data pairing**: for every depth layer `k` and segment `s`, the prepared value is the
flattened variable's value at `(k, linear_index s)`. -/
theorem data_pairing {α : Type} (flat : List (List α)) (segs : List Segment) (k j : Nat)
    (layer : List α) (s : Segment) (hk : flat[k]? = some layer) (hs : segs[j]? = some s) :
    ((transectColumns flat segs)[k]?).bind (·[j]?) = some (layer[s.linear]?) := by
  simp [transectColumns, hk, hs]

/-! ### the edge-running duplication (finding F11) violates the non-overlap hypothesis -/
/-- a stretch running along an edge shared by cells 1 and 5 is reported once per cell:
the two segments overlap, so the lengths add up to twice the stretch -/
theorem edge_running_duplicates_overlap :
    ¬ NonOverlapping (segments [(1, [((0 : Rat), 1)]), (5, [((0 : Rat), 1)])]) := by
  intro h
  have hp := segments_perm [(1, [((0 : Rat), 1)]), (5, [((0 : Rat), 1)])]
  have hlen := hp.length_eq
  simp [rawSegments] at hlen
  match hs : segments [(1, [((0 : Rat), 1)]), (5, [((0 : Rat), 1)])], hlen with
  | [a, b], _ =>
    rw [hs] at h hp
    have ha : a ∈ rawSegments [(1, [((0 : Rat), 1)]), (5, [((0 : Rat), 1)])] := hp.mem_iff.mp (by simp)
    have hb : b ∈ rawSegments [(1, [((0 : Rat), 1)]), (5, [((0 : Rat), 1)])] := hp.mem_iff.mp (by simp)
    simp [rawSegments] at ha hb
    have h1 : a.stop ≤ b.start := h.1
    rcases ha with rfl | rfl <;> rcases hb with rfl | rfl <;> norm_num at h1

/-! ### non-vacuity -/
example : NonOverlapping [⟨0, 1, 3⟩, ⟨1, 2, 4⟩, ⟨5/2, 3, 9⟩] := by
  simp only [NonOverlapping]; norm_num
example : totalLength [⟨0, 1, 3⟩, ⟨1, 2, 4⟩, ⟨5/2, 3, 9⟩] + gaps [⟨0, 1, 3⟩, ⟨1, 2, 4⟩, ⟨5/2, 3, 9⟩] = 3 := by
  simp only [totalLength, gaps, List.map, List.foldl]; norm_num

end Ems.C18
