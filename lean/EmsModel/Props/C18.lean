import EmsModel.Core.Transect
import EmsModel.Lemmas.PathClip
import Mathlib.Algebra.Order.Field.Rat
import Mathlib.Tactic.Linarith
/-!
# C18 — transects cover exactly the part of the path inside the model, in path order

Stated in the path-parameter model of `Core/Transect.lean`.  Metric lengths (PROJ) are outside
the model.  The constructive geometry is inside it for convex cells: `Core/PathClip.lean` clips
the path against a cell polygon and the second half of this file proves that the pieces are
exactly the parts of the path inside the cell; GEOS `polygon.intersection(line)` is compared
with that clipper by the correspondence on lattice-aligned paths.
-/
namespace Ems.C18
open Ems

theorem mem_rawSegments (pieces : List (Nat × List (Rat × Rat))) (s : Segment) :
    s ∈ rawSegments pieces ↔ ∃ cell ∈ pieces, ∃ p ∈ cell.2,
      s = { start := min p.1 p.2, stop := max p.1 p.2, linear := cell.1 } := by
  simp only [rawSegments, List.mem_flatMap, List.mem_map]
  constructor
  · rintro ⟨cell, hc, p, hp, rfl⟩; exact ⟨cell, hc, p, hp, rfl⟩
  · rintro ⟨cell, hc, p, hp, rfl⟩; exact ⟨cell, hc, p, hp, rfl⟩

/-- the sorted list is a rearrangement of one segment per line piece: nothing lost, nothing invented -/
theorem segments_perm (pieces : List (Nat × List (Rat × Rat))) :
    (segments pieces).Perm (rawSegments pieces) := List.mergeSort_perm _ _

/-- **start is never after end** -/
theorem segment_start_le_end (pieces : List (Nat × List (Rat × Rat))) (s : Segment)
    (h : s ∈ segments pieces) : s.start ≤ s.stop := by
  have := (segments_perm pieces).mem_iff.mp h
  obtain ⟨cell, _, p, _, rfl⟩ := (mem_rawSegments pieces s).mp this
  exact le_trans (min_le_left _ _) (le_max_left _ _)

/-- **each segment names the cell it was cut from**, with that piece's own end points -/
theorem segment_names_cell (pieces : List (Nat × List (Rat × Rat))) (s : Segment)
    (h : s ∈ segments pieces) :
    ∃ cell ∈ pieces, s.linear = cell.1 ∧ ∃ p ∈ cell.2, s.start = min p.1 p.2 ∧ s.stop = max p.1 p.2 := by
  have := (segments_perm pieces).mem_iff.mp h
  obtain ⟨cell, hc, p, hp, rfl⟩ := (mem_rawSegments pieces s).mp this
  exact ⟨cell, hc, rfl, p, hp, rfl, rfl⟩

theorem Segment.le_total (a b : Segment) : (a.le b || b.le a) = true := by
  simp only [Segment.le, Bool.or_eq_true, Bool.and_eq_true, decide_eq_true_eq, beq_iff_eq]
  rcases lt_trichotomy a.start b.start with h | h | h
  · left; left; exact h
  · rcases lt_trichotomy a.stop b.stop with h2 | h2 | h2
    · left; right; exact ⟨h, Or.inl h2⟩
    · rcases Nat.le_total a.linear b.linear with h3 | h3
      · left; right; exact ⟨h, Or.inr ⟨h2, h3⟩⟩
      · right; right; exact ⟨h.symm, Or.inr ⟨h2.symm, h3⟩⟩
    · right; right; exact ⟨h.symm, Or.inl h2⟩
  · right; left; exact h

theorem Segment.le_trans (a b c : Segment) (h1 : a.le b = true) (h2 : b.le c = true) : a.le c = true := by
  simp only [Segment.le, Bool.or_eq_true, Bool.and_eq_true, decide_eq_true_eq, beq_iff_eq] at *
  rcases h1 with h1 | ⟨e1, h1⟩
  · rcases h2 with h2 | ⟨e2, _⟩
    · left; exact lt_trans h1 h2
    · left; rw [← e2]; exact h1
  · rcases h2 with h2 | ⟨e2, h2⟩
    · left; rw [e1]; exact h2
    · right
      refine ⟨e1.trans e2, ?_⟩
      rcases h1 with h1 | ⟨f1, h1⟩
      · rcases h2 with h2 | ⟨f2, _⟩
        · left; exact lt_trans h1 h2
        · left; rw [← f2]; exact h1
      · rcases h2 with h2 | ⟨f2, h2⟩
        · left; rw [f1]; exact h2
        · right; exact ⟨f1.trans f2, Nat.le_trans h1 h2⟩

/-- **segments are listed by increasing distance from the start** (then by end) -/
theorem segments_sorted (pieces : List (Nat × List (Rat × Rat))) :
    (segments pieces).Pairwise fun a b => a.start < b.start ∨ (a.start = b.start ∧ a.stop ≤ b.stop) := by
  have h := List.pairwise_mergeSort (le := Segment.le)
    (fun a b c => Segment.le_trans a b c) (fun a b => Segment.le_total a b) (rawSegments pieces)
  refine List.Pairwise.imp ?_ h
  intro a b hab
  simp only [Segment.le, Bool.or_eq_true, Bool.and_eq_true, decide_eq_true_eq, beq_iff_eq] at hab
  rcases hab with h | ⟨e, h⟩
  · exact Or.inl h
  · right
    refine ⟨e, ?_⟩
    rcases h with h | ⟨f, _⟩
    · exact le_of_lt h
    · exact le_of_eq f

/-- a path that misses the model has no segments -/
theorem miss_is_empty : segments [] = [] := by simp [segments, rawSegments]

theorem no_pieces_no_segments (pieces : List (Nat × List (Rat × Rat))) (h : ∀ c ∈ pieces, c.2 = []) :
    segments pieces = [] := by
  have : rawSegments pieces = [] := by
    simp only [rawSegments, List.flatMap_eq_nil_iff, List.map_eq_nil_iff]
    exact h
  have hp := segments_perm pieces
  rw [this] at hp
  exact hp.eq_nil

/-- **Coverage.**  If the pieces of different cells do not overlap (cells do not overlap), the
segment lengths plus the gaps between them add up to the span from the first start to the
last end: the segments cover exactly the part of the path inside the model, each part once. -/
theorem coverage_1d : ∀ (segs : List Segment) (first last : Segment),
    segs.head? = some first → segs.getLast? = some last → NonOverlapping segs →
    totalLength segs + gaps segs = last.stop - first.start
  | [], _, _, h, _, _ => by simp at h
  | [a], first, last, hf, hl, _ => by
    simp at hf hl; subst hf hl
    simp [totalLength, gaps]
  | a :: b :: rest, first, last, hf, hl, hno => by
    simp only [List.head?_cons, Option.some.injEq] at hf
    subst hf
    have hl' : (b :: rest).getLast? = some last := by simpa [List.getLast?_cons_cons] using hl
    have ih := coverage_1d (b :: rest) b last rfl hl' hno.2
    have hfold : ∀ (l : List Rat) (x : Rat), l.foldl (· + ·) x = x + l.foldl (· + ·) 0 := by
      intro l
      induction l with
      | nil => intro x; simp
      | cons y ys ihl => intro x; simp only [List.foldl_cons]; rw [ihl (x + y), ihl (0 + y)]; linarith
    simp only [totalLength, List.map_cons, List.foldl_cons, gaps] at ih ⊢
    rw [hfold _ (0 + (a.stop - a.start) + (b.stop - b.start))]
    rw [hfold _ (0 + (b.stop - b.start))] at ih
    linarith

/-- in particular, when the path stays inside the model (no gaps) the lengths add up to the
length of the path between the first start and the last end -/
theorem coverage_contiguous (segs : List Segment) (first last : Segment)
    (hf : segs.head? = some first) (hl : segs.getLast? = some last) (hno : NonOverlapping segs)
    (hg : gaps segs = 0) : totalLength segs = last.stop - first.start := by
  have := coverage_1d segs first last hf hl hno
  rw [hg] at this; linarith

/-- **Data pairing**: for every depth layer `k` and segment `s`, the prepared value is the
flattened variable's value at `(k, linear_index s)`. -/
theorem data_pairing {α : Type} (flat : List (List α)) (segs : List Segment) (k j : Nat)
    (layer : List α) (s : Segment) (hk : flat[k]? = some layer) (hs : segs[j]? = some s) :
    ((transectColumns flat segs)[k]?).bind (·[j]?) = some (layer[s.linear]?) := by
  simp [transectColumns, hk, hs]

/-! ### the edge-running duplication (finding F11) violates the non-overlap hypothesis -/
/-- a stretch running along an edge shared by cells 1 and 5 is reported once per cell:
the two segments overlap, so the lengths add up to twice the stretch -/
theorem edge_running_duplicates_overlap :
    ¬ NonOverlapping (segments [(1, [((0 : Rat), 1)]), (5, [((0 : Rat), 1)])]) := by
  intro h
  have hp := segments_perm [(1, [((0 : Rat), 1)]), (5, [((0 : Rat), 1)])]
  have hlen := hp.length_eq
  simp [rawSegments] at hlen
  match hs : segments [(1, [((0 : Rat), 1)]), (5, [((0 : Rat), 1)])], hlen with
  | [a, b], _ =>
    rw [hs] at h hp
    have ha : a ∈ rawSegments [(1, [((0 : Rat), 1)]), (5, [((0 : Rat), 1)])] := hp.mem_iff.mp (by simp)
    have hb : b ∈ rawSegments [(1, [((0 : Rat), 1)]), (5, [((0 : Rat), 1)])] := hp.mem_iff.mp (by simp)
    simp [rawSegments] at ha hb
    have h1 : a.stop ≤ b.start := h.1
    rcases ha with rfl | rfl <;> rcases hb with rfl | rfl <;> norm_num at h1

/-! ### non-vacuity -/
example : NonOverlapping [⟨0, 1, 3⟩, ⟨1, 2, 4⟩, ⟨5/2, 3, 9⟩] := by
  simp only [NonOverlapping]; norm_num
example : totalLength [⟨0, 1, 3⟩, ⟨1, 2, 4⟩, ⟨5/2, 3, 9⟩] + gaps [⟨0, 1, 3⟩, ⟨1, 2, 4⟩, ⟨5/2, 3, 9⟩] = 3 := by
  simp only [totalLength, gaps, List.map, List.foldl]; norm_num

/-! ## The clipping of the path against the cells (convex cells): `Core/PathClip.lean`

`insideConvex poly p` is the closed convex polygon as an intersection of half-planes (one per
edge, winding normalised).  `clipLegConvex` is proved to return *exactly* the part of a leg
inside it, `clipPathConvex` the stretches of the whole path, and the segments built from those
pieces lie — with every one of their points — in the polygon of the cell they name. -/
open Ems.PathClip in
/-- **each segment lies within its cell's polygon** (one leg): the returned interval is inside
`[0,1]` and *every* parameter in it — not only its ends — denotes a point of the closed cell -/
theorem clip_sound (poly : Poly) (a b : Pt) (lo hi : Rat) (h : clipLegConvex poly a b = some (lo, hi)) :
    0 ≤ lo ∧ lo ≤ hi ∧ hi ≤ 1 ∧ ∀ s, lo ≤ s → s ≤ hi → insideConvex poly (legPoint a b s) := by
  obtain ⟨h0, h1, h2⟩ := clipLegConvex_bounds poly a b lo hi h
  refine ⟨h0, h1, h2, fun s hs1 hs2 => ?_⟩
  exact ((mem_clipLegConvex poly a b s).mp (by rw [h]; exact ⟨hs1, hs2⟩)).2

open Ems.PathClip in
/-- nothing inside the cell is left out: every point of the leg inside the cell is in the piece -/
theorem clip_complete (poly : Poly) (a b : Pt) (s : Rat) (h0 : 0 ≤ s) (h1 : s ≤ 1)
    (hin : insideConvex poly (legPoint a b s)) :
    ∃ lo hi, clipLegConvex poly a b = some (lo, hi) ∧ lo ≤ s ∧ s ≤ hi := by
  have m := (mem_clipLegConvex poly a b s).mpr ⟨⟨h0, h1⟩, hin⟩
  cases hcl : clipLegConvex poly a b with
  | none => rw [hcl] at m; exact m.elim
  | some p => rw [hcl] at m; exact ⟨p.1, p.2, rfl, m.1, m.2⟩

open Ems.PathClip in
/-- no piece ⇔ no point of the leg is inside the cell -/
theorem clip_none_iff (poly : Poly) (a b : Pt) :
    clipLegConvex poly a b = none ↔ ∀ s, 0 ≤ s → s ≤ 1 → ¬ insideConvex poly (legPoint a b s) := by
  constructor
  · intro h s h0 h1 hin
    obtain ⟨lo, hi, hc, _⟩ := clip_complete poly a b s h0 h1 hin
    rw [h] at hc; cases hc
  · intro h
    cases hcl : clipLegConvex poly a b with
    | none => rfl
    | some p =>
      obtain ⟨lo, hi⟩ := p
      obtain ⟨h0, h1, h2, hin⟩ := clip_sound poly a b lo hi hcl
      exact (h lo h0 (le_trans h1 h2) (hin lo (le_refl _) h1)).elim

/-- point touches are not pieces (`_intersect_polygon` keeps only the `LineString` parts) -/
theorem clip_piece_iff (poly : Poly) (a b : Pt) (lo hi : Rat) :
    clipLegConvexPiece poly a b = some (lo, hi) ↔ clipLegConvex poly a b = some (lo, hi) ∧ lo < hi :=
  Ems.PathClip.clipLegConvexPiece_eq_some poly a b lo hi

open Ems.PathClip in
/-- whole path, soundness: a returned piece is a proper interval and every parameter in it
denotes a point of the path (the only one it denotes) that is inside the cell; merging the
contiguous pieces of consecutive legs changes nothing of that -/
theorem clip_path_sound (poly : Poly) (path : List Pt) (p : Rat × Rat) (hp : p ∈ clipPathConvex poly path) :
    p.1 < p.2 ∧ ∀ t, p.1 ≤ t → t ≤ p.2 →
      (∃ q, OnPath path t q ∧ insideConvex poly q) ∧ ∀ q, OnPath path t q → insideConvex poly q := by
  refine ⟨clipPathConvex_proper poly path p hp, fun t h1 h2 => ?_⟩
  obtain ⟨q, hq, hin⟩ := clipPathConvex_sound poly path t ⟨p, hp, h1, h2⟩
  exact ⟨⟨q, hq, hin⟩, fun q' hq' => onPath_unique path t q q' hq hq' ▸ hin⟩

open Ems.PathClip in
/-- whole path, completeness: a point of leg `k` inside the cell lies in a returned piece,
unless it is the only point of that leg in the cell (a point touch, dropped by emsarray) -/
theorem clip_path_complete (poly : Poly) (path : List Pt) (k : Nat) (a b : Pt) (s s' : Rat)
    (ha : path[k]? = some a) (hb : path[k + 1]? = some b)
    (hs : 0 ≤ s ∧ s ≤ 1) (hs' : 0 ≤ s' ∧ s' ≤ 1) (hne : s ≠ s')
    (hin : insideConvex poly (legPoint a b s)) (hin' : insideConvex poly (legPoint a b s')) :
    ∃ p ∈ clipPathConvex poly path, p.1 ≤ (k : Rat) + s ∧ (k : Rat) + s ≤ p.2 :=
  clipPathConvex_complete poly path k a b s s' ha hb hs hs' hne hin hin'

/-- **each segment lies within its cell's polygon.**  When the pieces handed to `segments` are
the clips of the path against the (convex) cell polygons, every segment names a cell whose
polygon contains every point of the segment, and `start < stop`. -/
theorem segments_within_cells (cells : List (Nat × Poly)) (path : List Pt) (s : Segment)
    (h : s ∈ segments (cells.map fun c => (c.1, clipPathConvex c.2 path))) :
    s.start ≤ s.stop ∧ s.start < s.stop ∧ ∃ c ∈ cells, s.linear = c.1 ∧
      ∀ t, s.start ≤ t → t ≤ s.stop →
        (∃ q, OnPath path t q ∧ insideConvex c.2 q) ∧ ∀ q, OnPath path t q → insideConvex c.2 q := by
  obtain ⟨cell, hc, hlin, p, hp, hst, hsp⟩ := segment_names_cell _ s h
  obtain ⟨c, hcm, rfl⟩ := List.mem_map.mp hc
  obtain ⟨hlt, hin⟩ := clip_path_sound c.2 path p hp
  have e1 : s.start = p.1 := by rw [hst]; exact min_eq_left (le_of_lt hlt)
  have e2 : s.stop = p.2 := by rw [hsp]; exact max_eq_right (le_of_lt hlt)
  refine ⟨by rw [e1, e2]; exact le_of_lt hlt, by rw [e1, e2]; exact hlt, c, hcm, hlin, ?_⟩
  intro t h1 h2
  exact hin t (e1 ▸ h1) (e2 ▸ h2)

open Ems.PathClip in
/-- **cells do not overlap ⇒ their pieces share boundary points only.**  If no point is strictly
inside both cells (and each cell has an interior), a parameter lying in the pieces of both
cells on one leg denotes a point on the boundary of both: inside both closed cells, strictly
inside neither.  (It does *not* follow that the pieces overlap in end points only: a leg running
along a shared edge lies in both closed cells — finding `transect-edge-running-duplicated`,
`shared_edge_same_piece` below.) -/
theorem disjoint_interiors_pieces_overlap_only_on_boundaries (P Q : Poly) (a b : Pt)
    (hdis : ∀ p, ¬ (strictInside P p ∧ strictInside Q p))
    (hP : ∃ p, strictInside P p) (hQ : ∃ q, strictInside Q q)
    (lo₁ hi₁ lo₂ hi₂ : Rat) (h₁ : clipLegConvex P a b = some (lo₁, hi₁))
    (h₂ : clipLegConvex Q a b = some (lo₂, hi₂)) (s : Rat)
    (hs₁ : lo₁ ≤ s ∧ s ≤ hi₁) (hs₂ : lo₂ ≤ s ∧ s ≤ hi₂) :
    (insideConvex P (legPoint a b s) ∧ ¬ strictInside P (legPoint a b s)) ∧
    (insideConvex Q (legPoint a b s) ∧ ¬ strictInside Q (legPoint a b s)) := by
  have i1 := (clip_sound P a b lo₁ hi₁ h₁).2.2.2 s hs₁.1 hs₁.2
  have i2 := (clip_sound Q a b lo₂ hi₂ h₂).2.2.2 s hs₂.1 hs₂.2
  refine ⟨⟨i1, not_strictInside_of_disjoint P Q hdis hQ _ i2⟩,
          ⟨i2, not_strictInside_of_disjoint Q P (fun p hp => hdis p ⟨hp.2, hp.1⟩) hP _ i1⟩⟩

/-! ### non-vacuity of the clipping theorems -/
/-- a quad (counter-clockwise) and a leg crossing it: the clip is a proper sub-interval -/
example : clipLegConvex [(0, 0), (4, 0), (4, 2), (0, 2)] (-2, 1) (6, 1) = some (1/4, 3/4) := by decide +kernel
/-- the same ring wound clockwise gives the same piece -/
example : clipLegConvex [(0, 0), (0, 2), (4, 2), (4, 0)] (-2, 1) (6, 1) = some (1/4, 3/4) := by decide +kernel
example : convex [(0, 0), (4, 0), (4, 2), (0, 2)] = true ∧ convex [(0, 0), (0, 2), (4, 2), (4, 0)] = true ∧
    convex [(0, 0), (4, 0), (4, 1), (1, 1), (1, 4), (0, 4)] = false ∧ convex [(0, 0), (1, 1), (2, 2)] = false := by
  decide +kernel
/-- a leg that only touches the corner `(0,2)`: the clip is the single parameter `1/2`, and it is
not a piece -/
example : clipLegConvex [(0, 0), (2, 0), (2, 2), (0, 2)] (-1, 1) (1, 3) = some (1/2, 1/2) ∧
    clipLegConvexPiece [(0, 0), (2, 0), (2, 2), (0, 2)] (-1, 1) (1, 3) = none := by decide +kernel
/-- a leg that misses the cell -/
example : clipLegConvex [(0, 0), (2, 0), (2, 2), (0, 2)] (-2, 2) (2, 6) = none := by decide +kernel
/-- a path entering a cell on one leg and leaving on the next: one merged piece across the vertex -/
example : clipPathConvex [(0, 0), (2, 0), (2, 2), (0, 2)] [(-1, 1), (1, 1), (1, 3), (3, 3)] = [(1/2, 3/2)] := by
  decide +kernel
/-- the known finding as a fact of the geometry: a leg along the edge shared by two unit squares
is, whole, in both closed cells — the same piece for both, although no point is strictly inside both -/
theorem shared_edge_same_piece :
    clipPathConvex [(0, 0), (1, 0), (1, 1), (0, 1)] [(0, 1), (1, 1)] = [(0, 1)] ∧
    clipPathConvex [(0, 1), (1, 1), (1, 2), (0, 2)] [(0, 1), (1, 1)] = [(0, 1)] := by decide +kernel
/-- the hypotheses of `disjoint_interiors_pieces_overlap_only_on_boundaries` are satisfiable: the two unit
squares have interiors and the shared-edge points are strictly inside neither -/
example : strictInsideB [(0, 0), (1, 0), (1, 1), (0, 1)] (1/2, 1/2) = true ∧
    strictInsideB [(0, 1), (1, 1), (1, 2), (0, 2)] (1/2, 3/2) = true ∧
    strictInsideB [(0, 0), (1, 0), (1, 1), (0, 1)] (1/2, 1) = false ∧
    insideConvexB [(0, 0), (1, 0), (1, 1), (0, 1)] (1/2, 1) = true ∧
    insideConvexB [(0, 1), (1, 1), (1, 2), (0, 2)] (1/2, 1) = true := by decide +kernel

end Ems.C18
