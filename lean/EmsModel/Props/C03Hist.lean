import EmsModel.Props.C03
/-!
# C03, presentations of one variable

`dataset.ems` is handed the dataset's variable, then the same variable with its dimensions in another order
(`temp.transpose(...)`: the same name, and the same shape whenever two dimensions are equally long).  What the
flattening answers is a function of the variable alone - of the value it holds at each assignment of indexes to
dimension NAMES - and not of the order in which its dimensions happen to be stored, let alone of what was
flattened before (the model has no state: `GridConv.ravel` is a function).  Theorems:

* `kind_presentation_independent` - the grid kind found for a variable depends on the SET of its dimension names;
* `kind_of_transposed`            - so a transposed variable is on the same grid kind;
* `ravel_presentation_independent`- flattening `v` and flattening `v.transpose(order)` read the same value at every
  assignment of indexes to the remaining dimensions and the linear one (for all ranks, sizes, orders, positions).
-/
namespace Ems.C03
open Ems Ems.NArr

variable {α : Type}

/-- The grid kind of a variable depends only on which dimension names it has, not on their order. -/
theorem kind_presentation_independent (c : GridConv) (names order : List String) (h : order.Perm names) :
    c.getGridKind order = c.getGridKind names := by
  have hc : ∀ d : String, order.contains d = names.contains d := by
    intro d
    cases h1 : order.contains d <;> cases h2 : names.contains d <;> try rfl
    · exact absurd (List.contains_iff_mem.mpr (h.mem_iff.mpr (List.contains_iff_mem.mp h2))) (by rw [h1]; exact Bool.false_ne_true)
    · exact absurd (List.contains_iff_mem.mpr (h.mem_iff.mp (List.contains_iff_mem.mp h1))) (by rw [h2]; exact Bool.false_ne_true)
  simp only [GridConv.getGridKind, hc]

/-- A transposed variable lies on the same grid kind as the variable. -/
theorem kind_of_transposed [Inhabited α] (c : GridConv) (a : NArr α) (order : List String)
    (hwf : a.WF) (hperm : order.Perm a.names) :
    c.getGridKind (a.transposeTo order).names = c.getGridKind a.names :=
  kind_presentation_independent c a.names _
    (show ((a.transposeTo order).dims.map (fun d : Dim => d.1)).Perm (a.dims.map (fun d : Dim => d.1)) from
      (transposeTo_dims_perm a order hwf hperm).map (fun d : Dim => d.1))

/-- the environment that `ravel_get` reads the original at assigns an index in range to every dimension -/
theorem extended_env_inrange (a : NArr α) (gd : List Dim) (hwf : a.WF)
    (hgn : (gd.map (·.1)).Nodup) (hsub : ∀ d ∈ gd, d ∈ a.dims)
    (e : Env) (v : String → Nat) (n : Nat) (ig : List Nat)
    (hv : ∀ d ∈ a.dims.filter (fun d => !(gd.map (·.1)).contains d.1),
      e.get d.1 = some (v d.1) ∧ v d.1 < d.2)
    (hig : unravel (gd.map (·.2)) n = some ig) :
    ∀ d ∈ a.dims,
      Env.get ((gd.map (·.1)).zip ig ++ e) d.1 = some ((Env.get ((gd.map (·.1)).zip ig ++ e) d.1).getD 0) ∧
      (Env.get ((gd.map (·.1)).zip ig ++ e) d.1).getD 0 < d.2 := by
  have hir : InRange (gd.map (·.2)) ig := ravel_inRange _ _ _ (ravel_of_unravel _ _ _ hig)
  have hspec := zip_env_spec gd ig hgn hir
  intro d hd
  by_cases hg : d.1 ∈ gd.map (·.1)
  · obtain ⟨g, hgmem, hgname⟩ := List.mem_map.mp hg
    have hga := hsub g hgmem
    have hsame : g = d := by
      have h1 := lookup_dims a.dims hwf.2 g hga
      have h2 := lookup_dims a.dims hwf.2 d hd
      rw [hgname] at h1
      rw [h1] at h2
      exact Prod.ext hgname (by simpa using h2)
    subst hsame
    obtain ⟨x, hx, hlt⟩ := hspec g hgmem
    have : Env.get ((gd.map (·.1)).zip ig ++ e) g.1 = some x := lookup_append_left_some _ _ _ x hx
    exact ⟨by simp [this], by simp [this, hlt]⟩
  · have hdo : d ∈ a.dims.filter (fun d => !(gd.map (·.1)).contains d.1) := by
      simp only [List.mem_filter]
      refine ⟨hd, ?_⟩
      cases hc : (gd.map (·.1)).contains d.1 with
      | false => rfl
      | true => exact absurd (List.contains_iff_mem.mp hc) hg
    have : Env.get ((gd.map (·.1)).zip ig ++ e) d.1 = e.get d.1 :=
      lookup_append_left_none _ _ _ (lookup_zip_none _ _ _ hg)
    have hvd := hv d hdo
    exact ⟨by simp [this, hvd.1], by simp [this, hvd.1, hvd.2]⟩

/-- **Flattening does not depend on how the variable is presented.**  For a variable `a` and ANY order of its
dimensions, flattening `a` and flattening `a.transpose(order)` both succeed, and the two results hold the same
value at every assignment `e` of indexes to the remaining dimensions and to the linear dimension: element `n` is,
in both, the value of `a` at the grid multi-index `unravel n`.  (The remaining dimensions keep the relative order
they have in the presentation, which is why the statement is by name and not by position.) -/
theorem ravel_presentation_independent [Inhabited α] (a : NArr α) (order : List String) (gd : List Dim)
    (lin : String) (hwf : a.WF) (hperm : order.Perm a.names)
    (hgn : (gd.map (·.1)).Nodup) (hsub : ∀ d ∈ gd, d ∈ a.dims)
    (hfresh : lin ∉ (a.dims.filter (fun d => !(gd.map (·.1)).contains d.1)).map (·.1))
    (e : Env) (v : String → Nat) (n : Nat) (ig : List Nat)
    (hv : ∀ d ∈ a.dims.filter (fun d => !(gd.map (·.1)).contains d.1),
      e.get d.1 = some (v d.1) ∧ v d.1 < d.2)
    (hn : e.get lin = some n) (hig : unravel (gd.map (·.2)) n = some ig) :
    ∃ r r', a.ravelDims (gd.map (·.1)) (some lin) = some r ∧
      (a.transposeTo order).ravelDims (gd.map (·.1)) (some lin) = some r' ∧
      r'.get? e = r.get? e := by
  have hbwf := transposeTo_wf a order hwf hperm
  have hbp := transposeTo_dims_perm a order hwf hperm
  have hfp := hbp.filter (fun d => !(gd.map (·.1)).contains d.1)
  have hsub' : ∀ d ∈ gd, d ∈ (a.transposeTo order).dims := fun d hd => hbp.mem_iff.mpr (hsub d hd)
  have hfresh' : lin ∉ ((a.transposeTo order).dims.filter (fun d => !(gd.map (·.1)).contains d.1)).map (·.1) :=
    fun h => hfresh ((hfp.map (·.1)).mem_iff.mp h)
  have hv' : ∀ d ∈ (a.transposeTo order).dims.filter (fun d => !(gd.map (·.1)).contains d.1),
      e.get d.1 = some (v d.1) ∧ v d.1 < d.2 := fun d hd => hv d (hfp.mem_iff.mp hd)
  obtain ⟨r, hr, hrget⟩ := ravel_get a gd lin hwf hgn hsub hfresh e v n ig hv hn hig
  obtain ⟨r', hr', hrget'⟩ := ravel_get (a.transposeTo order) gd lin hbwf hgn hsub' hfresh' e v n ig hv' hn hig
  refine ⟨r, r', hr, hr', ?_⟩
  rw [hrget, hrget']
  exact transposeTo_get a order _ (fun d => (Env.get ((gd.map (·.1)).zip ig ++ e) d).getD 0) hwf hperm
    (extended_env_inrange a gd hwf hgn hsub e v n ig hv hig)

/-! ### non-vacuity: a square grid with as many time steps as rows - every presentation has the same shape -/

def sqA : NArr Int := { dims := [("t", 2), ("y", 2), ("x", 2)], data := [0, 1, 2, 3, 4, 5, 6, 7] }
def sqConv : GridConv := { grids := [("face", [("y", 2), ("x", 2)])], default := "face" }

example : sqA.WF := by constructor <;> decide
example : (sqA.transposeTo ["t", "x", "y"]).dims = [("t", 2), ("x", 2), ("y", 2)] := by decide
example : (sqA.transposeTo ["t", "x", "y"]).data = [0, 2, 1, 3, 4, 6, 5, 7] := by decide
example : sqConv.ravel (sqA.transposeTo ["t", "x", "y"]) none = sqConv.ravel sqA none := by decide
example : sqConv.ravel (sqA.transposeTo ["y", "t", "x"]) none = sqConv.ravel sqA none := by decide
example : sqConv.ravel sqA none = some { dims := [("t", 2), ("index", 4)], data := [0, 1, 2, 3, 4, 5, 6, 7] } := by decide

end Ems.C03
