import EmsModel.Lemmas.TriFanSrc
import EmsModel.Lemmas.TriDatasetSrc
import EmsModel.Gen.TriDatasetSrc
import EmsModel.Lemmas.Triangulate
import EmsModel.Props.C14
/-!
# C14, source-translated part — the fan triangulation as the source has it

`harness/trans_trifan.py` reads the SOURCE TEXT of `emsarray.operations.triangulate._triangulate_polygons_by_length`
from the working tree on every run and re-emits the array it returns as one term of the numpy expression language of
`Core/NpExpr.lean`: `Gen.triFanTriangles` (`Gen/TriFanSrc.lean`).  The theorems below are about THAT term, for every
number of polygons and every vertex count ≥ 3, over arbitrary rational coordinates.  They say that the generated term
computes the hand-written model `Ems.Tri.fan` of `Core/Triangulate.lean`, the function that `C14.fan_count`,
`fan_area`, `fan_oriented`, `fan_inside`, `fan_no_overlap`, `fan_cover`, `fan_partition` are about — so those theorems
are theorems about what the Python source computes, not about a transcription of it.

Input of the Python function: `polygons`, `n` shapely polygons with `vc` vertices each.  Here: `polys`, the list of
their vertex lists (closing vertex not repeated); `triFanCoords polys` is
`shapely.get_coordinates(shapely.get_exterior_ring(polygons))` (closed rings, one after the other) and
`triFanEnv … n (vc + 1)` binds `len(polygons)` and `len(polygons[0].exterior.coords)`.

The second half is about the BOOKKEEPING of `triangulate_dataset`, which `harness/trans_tridataset.py` translates from
the source on every run into `Gen/TriDatasetSrc.lean` (language and declared program: `Core/TriDatasetSrc.lean`): which
polygons go to the fan path and which to the ear path, which cell index is recorded with every block of triangles, how
many rows are pre-allocated, how the vertex table and the index join are wired.

Trusted here: the translator (`ast` → `NpExpr`, including `repeat` along an axis of length 1 = `broadcast_to`, whose
side condition it checks statically), the meaning given to the numpy operations in `Core/NpExpr.lean`, and that shapely
hands the closed rings over as described.  All three are cross-checked on every run by the driver op `fanpipe`, which
evaluates the generated term on the real rings and is compared with the real function's output.
-/
namespace Ems.C14
open Ems

/-- The translator understood every statement of `_triangulate_polygons_by_length` as the working tree has it
(anything it cannot render — a numpy function outside the language, a `repeat` along an axis not statically of length
1, an unknown input — is listed in `Gen.triFanComplaints` and makes this fail). -/
theorem fan_pipeline_translated : Gen.triFanComplaints = [] := by decide

/-- The array `_triangulate_polygons_by_length(polygons)` returns has shape
`(len(polygons), vertex_count - 2, 3, 2)`, as its docstring says, for every batch of polygons with
`vertex_count ≥ 3` vertices each: the `reshape`, the `repeat` and the `stack` of the source never raise
(for an empty batch the Python raises `IndexError` at `polygons[0]` before the pipeline starts; the term then denotes
the empty array). -/
theorem fan_pipeline_shape (polys : List (List Tri.Pt)) (vc : Nat) (hvc : 3 ≤ vc) (hlen : ∀ q ∈ polys, q.length = vc) :
    ∃ a, eval (triFanEnv (triFanCoords polys) polys.length (vc + 1)) Gen.triFanTriangles = some a ∧
      a.shape = [polys.length, vc - 2, 3, 2] ∧ a.WF := by
  obtain ⟨a, ha, hs, hwf, _⟩ := triFan_entry polys vc hvc hlen
  exact ⟨a, ha, hs, hwf⟩

/-- Entry `[p, t, c, :]` of the array `_triangulate_polygons_by_length(polygons)` returns is vertex `0` (`c = 0`),
`t + 1` (`c = 1`), `t + 2` (`c = 2`) of polygon `p`, for every polygon `p` of the batch and every
`t < vertex_count - 2`: triangle `t` of polygon `p` is `(v₀, v_{t+1}, v_{t+2})`.  Proved of the term generated from
the source; turning `1:-1` into `1:`, `2:` into `1:`, `vertex_count - 2` into `vertex_count - 1`, dropping
`[:, :-1, :]`, stacking along another axis or swapping `v1` / `v2` in the stack leaves this unprovable. -/
theorem fan_pipeline_entry (polys : List (List Tri.Pt)) (vc : Nat) (hvc : 3 ≤ vc) (hlen : ∀ q ∈ polys, q.length = vc)
    (a : NpArr) (ha : eval (triFanEnv (triFanCoords polys) polys.length (vc + 1)) Gen.triFanTriangles = some a)
    (p t c : Nat) (hp : p < polys.length) (ht : t < vc - 2) (hc : c < 3) :
    triFanPt a p t c = (polys[p]?).bind (·[triFanVertex c t]?) := by
  obtain ⟨a', ha', _, _, hpt⟩ := triFan_entry polys vc hvc hlen
  rw [ha] at ha'
  cases Option.some.inj ha'
  exact hpt p t c hp ht hc

/-- **`_triangulate_polygons_by_length` as the source has it computes the hand model's fan**: read as triangles, the
array it returns is, polygon by polygon and in order, `Ems.Tri.fan` of the polygon's vertex list — for every number of
polygons and every vertex count ≥ 3. -/
theorem fan_pipeline_spec (polys : List (List Tri.Pt)) (vc : Nat) (hvc : 3 ≤ vc) (hlen : ∀ q ∈ polys, q.length = vc) :
    (eval (triFanEnv (triFanCoords polys) polys.length (vc + 1)) Gen.triFanTriangles).bind triFanRead
      = some (polys.map Tri.fan) :=
  triFan_pipeline polys vc hvc hlen

/-- Hence what the source computes has the properties proved of the model: every polygon of the batch gets
`vertex_count - 2` triangles and their signed areas sum to the signed (shoelace) area of the polygon. -/
theorem fan_pipeline_count_area (polys : List (List Tri.Pt)) (vc : Nat) (hvc : 3 ≤ vc) (hlen : ∀ q ∈ polys, q.length = vc)
    (out : List (List Tri.Tri))
    (hout : (eval (triFanEnv (triFanCoords polys) polys.length (vc + 1)) Gen.triFanTriangles).bind triFanRead = some out) :
    out.length = polys.length ∧
    ∀ p (hp : p < polys.length), ∃ ts, out[p]? = some ts ∧ ts.length = vc - 2 ∧ Tri.sumArea2 ts = Tri.shoelace2 polys[p] := by
  rw [fan_pipeline_spec polys vc hvc hlen] at hout
  cases Option.some.inj hout
  refine ⟨by simp, fun p hp => ⟨Tri.fan polys[p], by simp [hp], ?_, Tri.sumArea2_fan _⟩⟩
  rw [Tri.fan_length, hlen _ (List.getElem_mem hp)]

/-! ## non-vacuity: a batch of two quadrilaterals (one anticlockwise, one clockwise) -/

/-- the hypotheses are satisfiable -/
example : (3 ≤ 4) ∧ ∀ q ∈ [[(⟨0, 0⟩ : Tri.Pt), ⟨2, 0⟩, ⟨3, 2⟩, ⟨0, 1⟩], [⟨5, 5⟩, ⟨5, 7⟩, ⟨8, 8⟩, ⟨9, 4⟩]], q.length = 4 := by
  decide

/-- and on that batch the generated term evaluates to the two fans -/
example :
    (eval (triFanEnv (triFanCoords [[(⟨0, 0⟩ : Tri.Pt), ⟨2, 0⟩, ⟨3, 2⟩, ⟨0, 1⟩], [⟨5, 5⟩, ⟨5, 7⟩, ⟨8, 8⟩, ⟨9, 4⟩]]) 2 5)
        Gen.triFanTriangles).bind triFanRead
      = some [[⟨⟨0, 0⟩, ⟨2, 0⟩, ⟨3, 2⟩⟩, ⟨⟨0, 0⟩, ⟨3, 2⟩, ⟨0, 1⟩⟩], [⟨⟨5, 5⟩, ⟨5, 7⟩, ⟨8, 8⟩⟩, ⟨⟨5, 5⟩, ⟨8, 8⟩, ⟨9, 4⟩⟩]] := by
  decide +kernel

/-- a pentagon: three triangles, the last one `(v₀, v₃, v₄)` -/
example :
    ((eval (triFanEnv (triFanCoords [[(⟨0, 0⟩ : Tri.Pt), ⟨4, 0⟩, ⟨6, 3⟩, ⟨3, 6⟩, ⟨-1, 2⟩]]) 1 6) Gen.triFanTriangles).bind
        triFanRead).map (fun l => l.map fun ts => ts[2]?)
      = some [some ⟨⟨0, 0⟩, ⟨3, 6⟩, ⟨-1, 2⟩⟩] := by
  decide +kernel

/-! ## the bookkeeping of `triangulate_dataset`, translated from the source -/

/-- The translator understood every statement of `triangulate_dataset` as the working tree has it. -/
theorem dataset_translated : Gen.triDatasetComplaints = [] := rfl

/-- The loops of `triangulate_dataset` as the source has them — what is iterated (`numpy.unique` of the lengths with the
concave polygons zeroed; `polygon_is_concave`), the `if unique_length == 0: continue` guard, which polygons are handed to
`_triangulate_polygons_by_length` / `_triangulate_concave_polygon`, and the two arguments of every `_add_triangles` call
(`int(face_index)` from `zip(same_length_face_indices, …)`, never the position in the batch) — are the program
`Ems.triDatasetLoops` that `dataset_loops_spec` is about.  Turning `!=` into `==` in the hull test, `==` into `>=` in the
batch selection, dropping the guard, recording the batch position or indexing `polygons` differently leaves this
unprovable. -/
theorem dataset_loops_generated : Gen.triDatasetLoops = triDatasetLoops := rfl

/-- `total_triangles` as the source computes it is the expression `Ems.triDatasetTotal`. -/
theorem dataset_total_generated : Gen.triDatasetTotal = triDatasetTotal := rfl

/-- The pre-allocation of the row arrays and the body of the local helper `_add_triangles` (names normalised by
position / first occurrence) are the statements declared in `Ems.triDatasetAddBody`: every call appends one block
`(face index, triangles)`. -/
theorem dataset_helper_generated : Gen.triDatasetAddBody = triDatasetAddBody := rfl

/-- The wiring of the vertex table and of the index join as the source has it (read off the `return` statement with the
locals inlined) is `Ems.triDatasetTable`: vertices = `drop_duplicates` of the coordinate pairs of all polygons (first
occurrences, `Tri.dedup (Tri.allCoords cells)`), numbered `arange`; data-frame column `x_c` / `y_c` =
`triangle_coords[:, c, 0 / 1]`; `v_c` = the vertex number joined on `(x_c, y_c)` (`Tri.indexOf?`); returned
`(vertices, [v0, v1, v2], face_indices)`. -/
theorem dataset_table_generated : Gen.triDatasetTable = triDatasetTable := rfl

/-- The generated wiring is sound as it stands (decided on the generated table itself): column `c` of the returned
triangles is the vertex number looked up for the `(x, y)` of corner `c`, the returned cell indexes are the recorded face
indexes, no column is made twice, and the tuple is `(vertices, triangles, cell indexes)` — the facts on which
`C14.vertex_table_spec` rests.  Joining `v1` on `['x1', 'y0']`, filling `y2` from `triangle_coords[:, 2, 0]` or returning
`[['v0', 'v2', 'v1']]` breaks this. -/
theorem dataset_table_wellformed : tdTableOk Gen.triDatasetTable = true := by decide

/-- **Every block of triangles `triangulate_dataset` writes names its own cell.**  Running the loops as the source has
them on any list of cells (polygons with at least 3 vertices, the contract of shapely; `hullLen` = number of coordinates
of the convex hull, `isEar` = the GEOS ear test, both arbitrary): the run succeeds; for every cell `j` with a polygon `p`
exactly one block is tagged `j`, and it holds what the model prescribes for that cell — the fan (of
`fan_pipeline_spec`) where hull and cell have the same number of coordinates, ear clipping otherwise; a cell without
geometry gets no block; every tag is a cell index.  (Clauses 2 and 3 of `C14.cell_index_spec`, here proved of the
generated program.) -/
theorem dataset_loops_spec (cells : List (Option (List Tri.Pt))) (hullLen : List Tri.Pt → Nat)
    (isEar : List Tri.Pt → Nat → Bool) (hmin : ∀ p, some p ∈ cells → 3 ≤ p.length) :
    ∃ blocks, tdRun ⟨cells, hullLen, isEar, []⟩ Gen.triDatasetLoops = some blocks ∧
      (∀ j p, cells[j]? = some (some p) →
        blocks.filter (fun b => b.1 == j) = [(j, Tri.triangulateCell (tdIsConvex hullLen) isEar p)]) ∧
      (∀ j, cells[j]? = some none → blocks.filter (fun b => b.1 == j) = []) ∧
      (∀ b ∈ blocks, b.1 < cells.length) := by
  rw [dataset_loops_generated]
  exact ⟨_, tdRun_declared cells hullLen isEar hmin, tdBlocks_spec cells hullLen isEar⟩

/-- Hence the source's bookkeeping and the model `Tri.triangulateDataset` (the function `cell_index_spec`,
`dataset_cell_triangles`, `vertex_table_spec` are about) agree cell by cell: whenever the model succeeds, the one block
the source writes for cell `j` holds exactly the triangles the model tags `j`, in the same order. -/
theorem dataset_loops_agree_with_model (cells : List (Option (List Tri.Pt))) (hullLen : List Tri.Pt → Nat)
    (isEar : List Tri.Pt → Nat → Bool) (hmin : ∀ p, some p ∈ cells → 3 ≤ p.length) (out : Tri.Output)
    (h : Tri.triangulateDataset (tdIsConvex hullLen) isEar cells = .ok out) :
    ∃ blocks, tdRun ⟨cells, hullLen, isEar, []⟩ Gen.triDatasetLoops = some blocks ∧
      ∀ j p, cells[j]? = some (some p) →
        blocks.filter (fun b => b.1 == j) = [(j, .ok ((out.tris.filter (fun kt => kt.1 == j)).map (·.2)))] := by
  obtain ⟨blocks, hrun, hcell, _, _⟩ := dataset_loops_spec cells hullLen isEar hmin
  refine ⟨blocks, hrun, fun j p hj => ?_⟩
  obtain ⟨ts, hts, he⟩ := (cell_index_spec (tdIsConvex hullLen) isEar cells out h).2.1 j p hj
  rw [hcell j p hj, hts, he]

/-- The number of rows `triangulate_dataset` pre-allocates, as the source computes it
(`numpy.sum(polygon_length[numpy.nonzero(polygon_length)] - 3)`), is the model's `Tri.totalTriangles` = Σ (n − 2) over the
cells with geometry — the number `C14.total_triangles_spec` proves the written rows add up to, so the source's
`assert current_face == total_triangles` holds. -/
theorem dataset_total_spec (cells : List (Option (List Tri.Pt))) (hullLen : List Tri.Pt → Nat)
    (isEar : List Tri.Pt → Nat → Bool) (vars : List TdVal) :
    tdEval ⟨cells, hullLen, isEar, vars⟩ Gen.triDatasetTotal = some (.nat (Tri.totalTriangles cells)) := by
  rw [dataset_total_generated]
  exact tdEval_total cells hullLen isEar vars

/-! ## non-vacuity: a square, a hole and a concave dart -/

/-- the hypothesis of `dataset_loops_spec` is satisfiable -/
example : ∀ p, some p ∈ [some [(⟨0, 0⟩ : Tri.Pt), ⟨2, 0⟩, ⟨2, 2⟩, ⟨0, 2⟩], none,
    some [⟨5, 0⟩, ⟨7, 3⟩, ⟨5, 1⟩, ⟨3, 3⟩]] → 3 ≤ p.length := by
  intro p hp
  simp at hp
  rcases hp with rfl | rfl <;> simp

/-- on these cells (the hull of the dart has 4 coordinates, not 5) the generated loops write the square's block first
(fan path, tag 0) and the dart's block afterwards (ear path, tag 2), two triangles each, nothing for the hole; and 4 rows
are pre-allocated -/
example :
    let cells : List (Option (List Tri.Pt)) := [some [⟨0, 0⟩, ⟨2, 0⟩, ⟨2, 2⟩, ⟨0, 2⟩], none, some [⟨5, 0⟩, ⟨7, 3⟩, ⟨5, 1⟩, ⟨3, 3⟩]]
    let hull : List Tri.Pt → Nat := fun p => if p.head? = some ⟨5, 0⟩ then 4 else p.length + 1
    ((tdRun ⟨cells, hull, fun _ _ => true, []⟩ Gen.triDatasetLoops).map fun bl => bl.map fun b =>
        (b.1, match b.2 with | .ok ts => ts.length | .error _ => 0)) = some [(0, 2), (2, 2)] ∧
      (match tdEval ⟨cells, hull, fun _ _ => true, []⟩ Gen.triDatasetTotal with | some (.nat k) => k | _ => 0) = 4 := by
  decide +kernel

end Ems.C14
