import EmsModel.Props.C15
/-!
# C15, continued — what the recorded indexes do *not* depend on

Two input classes of the check (`harness/gen/c15_extra6.py`) seen from the model:

* **coordinate regimes** (whole degrees, fine fractions of a degree, projected metres): re-expressing every cell's
  coordinates by any map `g` changes the exported polygons by `g` and nothing else — linear indexes, native indexes,
  record names, the number and order of features are those of the original dataset
  (`features_map_coords`, `dbfRecords_map_coords`, `multipolygon_map_coords`);
* **cells without polygon, whatever the cause** (missing bounds, or finite bounds of a degenerate cell): the linear
  indexes exported are exactly the positions that hold a polygon (`features_linear`), and a cell that loses its
  polygon takes exactly its own feature with it — every other feature keeps its linear index, its native index and
  its polygon, nothing shifts (`features_drop_cell`, `dbfRecords_drop_cell`).

About `Ems.features` (`to_geojson`), `Ems.dbfRecords` (`write_shapefile`), `Ems.multipolygon` (`write_wkt`,
`write_wkb`) of `Core/Export.lean`.
-/
namespace Ems.C15
open Ems

/-! ### coordinate regimes -/

/-- **The export commutes with any change of coordinates**: the features of the dataset whose polygons are `g p` are
the features of the original dataset with `g` applied to the polygon — same cells, same order, same linear and
native indexes. -/
theorem features_map_coords (c : Conv) (g : Poly → Poly) (polys : List (Option Poly)) :
    features c (polys.map (Option.map g)) =
      (features c polys).map (fun f => { f with polygon := g f.polygon }) := by
  simp only [features, List.length_map, List.map_filterMap]
  congr 1
  funext n
  simp only [List.getElem?_map]
  cases polys[n]? with
  | none => simp
  | some o => cases o <;> simp

/-- the Shapefile records (name, linear index, native index) do not depend on the coordinates at all -/
theorem dbfRecords_map_coords (style : IndexStyle) (c : Conv) (g : Poly → Poly) (polys : List (Option Poly)) :
    dbfRecords style c (polys.map (Option.map g)) = dbfRecords style c polys := by
  simp [dbfRecords, features_map_coords]

/-- the members of the WKT / WKB MultiPolygon are the original members under `g`, in the same order -/
theorem multipolygon_map_coords (g : Poly → Poly) :
    ∀ polys : List (Option Poly), multipolygon (polys.map (Option.map g)) = (multipolygon polys).map g
  | [] => rfl
  | none :: xs => by
    have ih := multipolygon_map_coords g xs
    simpa [multipolygon] using ih
  | some p :: xs => by
    have ih := multipolygon_map_coords g xs
    simpa [multipolygon] using ih

/-! ### cells without polygon -/

theorem linear_filterMap (c : Conv) (polys : List (Option Poly)) (l : List Nat) :
    (l.filterMap fun n =>
      match (polys[n]?).join with
      | some p => some ({ linear := n, index := c.windIndex none (n : Int), polygon := p } : Feature)
      | none => none).map (·.linear) = l.filter (fun n => ((polys[n]?).join).isSome) := by
  induction l with
  | nil => rfl
  | cons a as ih =>
    cases h : (polys[a]?).join with
    | none => simp [h, ih]
    | some p => simp [h, ih]

/-- **The linear indexes exported are exactly the positions that hold a polygon**, in increasing order — whatever
the reason the others hold none. -/
theorem features_linear (c : Conv) (polys : List (Option Poly)) :
    (features c polys).map (·.linear) =
      (List.range polys.length).filter (fun n => ((polys[n]?).join).isSome) :=
  linear_filterMap c polys _

theorem drop_filterMap (c : Conv) (polys : List (Option Poly)) (k : Nat) (l : List Nat) :
    (l.filterMap fun n =>
      match (((polys.set k none)[n]?).join) with
      | some p => some ({ linear := n, index := c.windIndex none (n : Int), polygon := p } : Feature)
      | none => none) =
    (l.filterMap fun n =>
      match (polys[n]?).join with
      | some p => some ({ linear := n, index := c.windIndex none (n : Int), polygon := p } : Feature)
      | none => none).filter (fun f => f.linear != k) := by
  induction l with
  | nil => rfl
  | cons a as ih =>
    by_cases hak : a = k
    · subst hak
      have h1 : ((polys.set a none)[a]?).join = none := by
        by_cases hlt : a < polys.length
        · simp [hlt]
        · simp [hlt]
      cases h : (polys[a]?).join with
      | none => simp [h1, h, ih]
      | some p => simp [h1, h, ih]
    · have h1 : (polys.set k none)[a]? = polys[a]? := by
        rw [List.getElem?_set, if_neg (fun h : k = a => hak h.symm)]
      cases h : (polys[a]?).join with
      | none => simp [h1, h, ih]
      | some p => simp [h1, h, ih, hak]

/-- **A cell that loses its polygon takes exactly its own feature with it**: every other feature is exported as
before, with its own linear index, native index and polygon — no index moves to a neighbour. -/
theorem features_drop_cell (c : Conv) (polys : List (Option Poly)) (k : Nat) :
    features c (polys.set k none) = (features c polys).filter (fun f => f.linear != k) := by
  simp only [features, List.length_set]
  exact drop_filterMap c polys k _

/-- the same for the Shapefile records -/
theorem dbfRecords_drop_cell (style : IndexStyle) (c : Conv) (polys : List (Option Poly)) (k : Nat) :
    dbfRecords style c (polys.set k none) =
      (dbfRecords style c polys).filter (fun r => r.linear != some k) := by
  simp only [dbfRecords, features_drop_cell, List.filter_map]
  rfl

/-! ### non-vacuity -/
example : (features exConv (exPolys.map (Option.map fun p => p.map fun (x, y) => (x + 500000, y + 6250000)))).map (·.linear)
    = [0, 2] := by decide
example : (features exConv (exPolys.set 0 none)).map (·.linear) = [2] := by decide
example : (features exConv (exPolys.set 0 none)).map (·.index) = [some ("face", [0, 2])] := by decide

end Ems.C15
