import EmsModel.Core.CliHist
/-!
# C20 — a geometry file denotes what it holds when the command runs

The property says that a GeoJSON *file* named on the command line denotes exactly the geometry in it.  A process
may name the same path many times; these theorems state, on the model with an explicit history of the directory
(`Core/CliHist.lean`), that only the present content of the path counts: not what the path held earlier, not what
was written to other paths, not how many times it was asked about before.
-/
namespace Ems.C20

open Ems Ems.Cli

theorem replay_from (h : List FsEvent) (p : List Char) (init : FsEntry) :
    h.foldl (fun cur e => if e.path = p then e.entry else cur) init
      = match h.reverse.find? (fun e => e.path = p) with
        | some e => e.entry
        | none => init := by
  induction h generalizing init with
  | nil => rfl
  | cons e t ih =>
    rw [List.foldl_cons, ih, List.reverse_cons, List.find?_append]
    cases hf : t.reverse.find? (fun e => e.path = p) with
    | some e' => rfl
    | none =>
      by_cases hp : e.path = p <;> simp [hp]

/-- replaying the events left to right gives the entry of the last event on the path -/
theorem replay_is_last_event (h : List FsEvent) (p : List Char) : fsReplay h p = fsLast h p :=
  replay_from h p .absent

/-- a geometry comes from a file only if there is a file and it loads -/
theorem ofFile_needs_loads (s : List Char) (json : JsonOutcome) (file : FileInfo)
    (h : geometryArgument s json file = .ok .ofFile) : file.exists = true ∧ file.loads = true := by
  unfold geometryArgument at h
  split at h
  · simp at h
  · split at h
    · simp at h
    · simp at h
    · cases he : file.exists <;> cases hl : file.loads <;> simp [he, hl] at h ⊢
      all_goals (split at h <;> simp at h)

/-- **only the present content counts**: whatever happened before, after an event on the path the argument
denotes what that event put there -/
theorem geometry_argument_history_free (h : List FsEvent) (s : List Char) (json : JsonOutcome)
    (path name : List Char) (entry : FsEntry) :
    geometryArgumentAfter (h ++ [⟨path, entry⟩]) s json path name = geometryArgumentOn s json name entry := by
  simp [geometryArgumentAfter, fsReplay, List.foldl_append]

/-- events on other paths change nothing -/
theorem geometry_argument_other_paths (h : List FsEvent) (s : List Char) (json : JsonOutcome)
    (path name : List Char) (e : FsEvent) (hne : e.path ≠ path) :
    geometryArgumentAfter (h ++ [e]) s json path name = geometryArgumentAfter h s json path name := by
  simp [geometryArgumentAfter, fsReplay, List.foldl_append, hne]

/-- a geometry read from a file is the one of the text written last: the path holds that version now, and it
loads -/
theorem file_version_is_current (h : List FsEvent) (s : List Char) (json : JsonOutcome) (path name : List Char)
    (v : Nat) (hv : geometryArgumentAfter h s json path name = .ok (.ofFile v)) :
    fsLast h path = .file v true := by
  rw [← replay_is_last_event]
  unfold geometryArgumentAfter geometryArgumentOn at hv
  generalize fsReplay h path = entry at hv
  cases hg : geometryArgument s json (entry.info name) with
  | error e => simp [hg] at hv
  | ok g =>
    cases g with
    | box b => simp [hg] at hv
    | ofJson => simp [hg] at hv
    | ofFile =>
      have hl := ofFile_needs_loads _ _ _ hg
      cases entry with
      | absent => simp [FsEntry.info] at hl
      | dir => simp [FsEntry.info] at hl
      | file w l =>
        simp only [hg] at hv
        have hw : w = v := by simpa using hv
        have hl' : l = true := by simpa [FsEntry.info] using hl.2
        rw [hw, hl']

/-- with the versions forgotten this is `geometry_argument` of `Core/Cli.lean` on the present state of the path: a
missing file, a directory and an unreadable text are usage errors whatever was read from that path before -/
theorem history_agrees_with_stateless (h : List FsEvent) (s : List Char) (json : JsonOutcome) (path name : List Char) :
    (geometryArgumentAfter h s json path name).map GeomV.erase
      = geometryArgument s json ((fsLast h path).info name) := by
  rw [← replay_is_last_event]
  unfold geometryArgumentAfter geometryArgumentOn
  generalize fsReplay h path = entry
  cases hg : geometryArgument s json (entry.info name) with
  | error e => rfl
  | ok g =>
    cases g with
    | box b => rfl
    | ofJson => rfl
    | ofFile =>
      have hl := ofFile_needs_loads _ _ _ hg
      cases entry with
      | file w l => rfl
      | absent => simp [FsEntry.info] at hl
      | dir => simp [FsEntry.info] at hl

/-- non-vacuity: a path written, asked about, rewritten with an unreadable text, rewritten again -/
example :
    let nm := "region.geojson".toList
    let h1 : List FsEvent := [⟨nm, .file 1 true⟩]
    let h2 := h1 ++ [⟨nm, .file 2 false⟩]
    let h3 := h2 ++ [⟨"other.json".toList, .file 3 true⟩, ⟨nm, .file 4 true⟩]
    geometryArgumentAfter h1 nm .notJson nm nm = .ok (.ofFile 1)
    ∧ geometryArgumentAfter h2 nm .notJson nm nm = .error .badFile
    ∧ geometryArgumentAfter h3 nm .notJson nm nm = .ok (.ofFile 4)
    ∧ geometryArgumentAfter (h3 ++ [⟨nm, .absent⟩]) nm .notJson nm nm = .error .notFound := by
  decide

end Ems.C20
