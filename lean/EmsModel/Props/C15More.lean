import EmsModel.Props.C15
/-!
# C15, continued — no two cells are exported under the same indexes; every cell with a polygon is exported exactly
once; WKT / WKB member count; shapefile records and shapes stay in step

About `Ems.features` (`to_geojson`), `Ems.multipolygon` (`_to_multipolygon`: `write_wkt`, `write_wkb`),
`Ems.dbfRecords` (`write_shapefile`) and `Ems.encodeIndex` of `Core/Export.lean`.
-/
namespace Ems.C15
open Ems

/-! ### helpers -/

theorem features_linear_nodup (c : Conv) (polys : List (Option Poly)) : ((features c polys).map (·.linear)).Nodup :=
  (features_sorted c polys).imp (fun h => Nat.ne_of_lt h)

/-- positions in a strictly increasing list are determined by the values -/
theorem pos_of_linear (c : Conv) (polys : List (Option Poly)) (k k' : Nat) (f g : Feature)
    (hf : (features c polys)[k]? = some f) (hg : (features c polys)[k']? = some g) (h : f.linear = g.linear) :
    k = k' := by
  have hk : k < ((features c polys).map (·.linear)).length := by
    simpa using (List.getElem?_eq_some_iff.mp hf).1
  have h1 : ((features c polys).map (·.linear))[k]? = some f.linear := by simp [hf]
  have h2 : ((features c polys).map (·.linear))[k']? = some g.linear := by simp [hg]
  exact (List.getElem?_inj hk (features_linear_nodup c polys)).mp (by rw [h1, h2, h])

theorem encodeIndex_injective (style : IndexStyle) (k : Kind) (a b : List Nat)
    (h : encodeIndex style (k, a) = encodeIndex style (k, b)) : a = b := by
  have h1 := index_json_roundtrip style k a
  rw [h, index_json_roundtrip style k b] at h1
  simpa using h1.symm

/-! ### injectivity -/

/-- **Two different cells are never exported under the same linear index or the same native index.**  Two features
of `to_geojson` that record the same `linear_index` are the same feature (same position in the output, same polygon);
on a convention whose default grid has the shape of the polygon array, the same holds of the recorded native
`index`: different cells, different `(kind, j, i)`. -/
theorem features_injective (c : Conv) (polys : List (Option Poly)) (k k' : Nat) (f g : Feature)
    (hf : (features c polys)[k]? = some f) (hg : (features c polys)[k']? = some g) :
    (f.linear = g.linear → k = k' ∧ f = g) ∧
    (∀ shape, c.shape? c.default = some shape → polys.length = size shape → f.index = g.index → k = k' ∧ f = g) := by
  have key : f.linear = g.linear → k = k' ∧ f = g := by
    intro h
    have hk := pos_of_linear c polys k k' f g hf hg h
    subst hk
    rw [hf] at hg
    exact ⟨rfl, Option.some.inj hg⟩
  refine ⟨key, ?_⟩
  intro shape hs hsize hidx
  apply key
  obtain ⟨i1, e1, r1⟩ := feature_index_identifies c polys shape hs hsize f (List.mem_of_getElem? hf)
  obtain ⟨i2, e2, r2⟩ := feature_index_identifies c polys shape hs hsize g (List.mem_of_getElem? hg)
  rw [e1, e2] at hidx
  have : i1 = i2 := by simpa using hidx
  subst this
  rw [r1] at r2
  exact Option.some.inj r2

/-- **… and neither are two shapefile records.**  Two records of `write_shapefile` at different positions differ
in their `linear_index` field, and — the JSON spelling of native indexes being injective — in their `index`
field. -/
theorem records_injective (style : IndexStyle) (c : Conv) (polys : List (Option Poly)) (shape : List Nat)
    (hs : c.shape? c.default = some shape) (hsize : polys.length = size shape)
    (k k' : Nat) (r r' : DbfRecord)
    (hr : (dbfRecords style c polys)[k]? = some r) (hr' : (dbfRecords style c polys)[k']? = some r') :
    (r.linear = r'.linear → k = k') ∧ (r.index = r'.index → k = k') := by
  simp only [dbfRecords, List.getElem?_map, Option.map_eq_some_iff] at hr hr'
  obtain ⟨f, hf, rfl⟩ := hr
  obtain ⟨g, hg, rfl⟩ := hr'
  obtain ⟨h1, h2⟩ := features_injective c polys k k' f g hf hg
  constructor
  · intro h
    exact (h1 (by simpa using h)).1
  · intro h
    obtain ⟨i1, e1, _⟩ := feature_index_identifies c polys shape hs hsize f (List.mem_of_getElem? hf)
    obtain ⟨i2, e2, _⟩ := feature_index_identifies c polys shape hs hsize g (List.mem_of_getElem? hg)
    simp only [e1, e2, Option.map_some, Option.some.injEq] at h
    have := encodeIndex_injective style c.default i1 i2 h
    exact (h2 shape hs hsize (by rw [e1, e2, this])).1

/-! ### completeness -/

theorem count_nodup_nat (l : List Nat) (h : l.Nodup) (n : Nat) : l.count n = if n ∈ l then 1 else 0 :=
  h.count

/-- **Every cell with a polygon is exported exactly once, every other cell never**: the number of features that
record linear index `n` is 1 if cell `n` has a polygon and 0 if it is a hole (or `n` is not a cell at all). -/
theorem features_complete (c : Conv) (polys : List (Option Poly)) (n : Nat) :
    (features c polys).countP (fun f => f.linear == n) = if ((polys[n]?).join).isSome then 1 else 0 := by
  have h1 : (features c polys).countP (fun f => f.linear == n) = ((features c polys).map (·.linear)).count n := by
    rw [List.count_eq_countP, List.countP_map]
    rfl
  rw [h1, count_nodup_nat _ (features_linear_nodup c polys)]
  have hiff : n ∈ (features c polys).map (·.linear) ↔ ((polys[n]?).join).isSome = true := by
    simp only [List.mem_map]
    constructor
    · rintro ⟨f, hf, rfl⟩
      rw [((mem_features c polys f).mp hf).1]; rfl
    · intro h
      cases hp : polys[n]? with
      | none => simp [hp] at h
      | some o =>
        cases o with
        | none => simp [hp] at h
        | some p =>
          obtain ⟨f, hf, hl, _⟩ := (features_spec c polys n p).mp hp
          exact ⟨f, hf, hl⟩
  by_cases h : ((polys[n]?).join).isSome = true
  · rw [if_pos (hiff.mpr h), if_pos h]
  · rw [if_neg (fun hm => h (hiff.mp hm)), if_neg h]

/-! ### WKT / WKB -/

theorem filterMap_id_length {β : Type} : ∀ (l : List (Option β)), (l.filterMap id).length = l.countP (·.isSome)
  | [] => rfl
  | none :: xs => by simpa using filterMap_id_length xs
  | some x :: xs => by simp [filterMap_id_length xs]

/-- **The MultiPolygon written by `write_wkt` / `write_wkb` has one member per non-hole cell** — as many as there
are GeoJSON features and shapefile records. -/
theorem multipolygon_count (style : IndexStyle) (c : Conv) (polys : List (Option Poly)) :
    (multipolygon polys).length = polys.countP (·.isSome) ∧
    (multipolygon polys).length = (features c polys).length ∧
    (multipolygon polys).length = (dbfRecords style c polys).length := by
  refine ⟨filterMap_id_length polys, ?_, (dbf_count style c polys).symm⟩
  rw [multipolygon_spec c]; simp

/-! ### shapefile: records and shapes in step -/

/-- **Records and shapes stay in step, for every prefix**: after `k` calls of `shapefile.record` / `.poly` there
are as many records as shapes, and the `k`-th record is the record of the cell whose polygon is the `k`-th shape:
its `linear_index` names a cell, that cell's polygon is the shape, its name is `polygon<linear index>` and its
`index` is the JSON of `wind_index(linear index)`. -/
theorem shapefile_in_step (style : IndexStyle) (c : Conv) (polys : List (Option Poly)) (k : Nat) :
    ((dbfRecords style c polys).take k).length = ((multipolygon polys).take k).length ∧
    ∀ r q, (dbfRecords style c polys)[k]? = some r → (multipolygon polys)[k]? = some q →
      ∃ n, r.linear = some n ∧ polys[n]? = some (some q) ∧ r.name = s!"polygon{n}" ∧
        r.index = (c.windIndex none (n : Int)).map (encodeIndex style) := by
  constructor
  · simp [List.length_take, dbf_count]
  · intro r q hr hq
    rw [multipolygon_spec c] at hq
    simp only [dbfRecords, List.getElem?_map, Option.map_eq_some_iff] at hr hq
    obtain ⟨f, hf, rfl⟩ := hr
    obtain ⟨g, hg, rfl⟩ := hq
    rw [hf] at hg
    cases Option.some.inj hg
    obtain ⟨hp, hi⟩ := (mem_features c polys f).mp (List.mem_of_getElem? hf)
    exact ⟨f.linear, rfl, hp, rfl, by rw [hi]⟩

/-! ### non-vacuity (the dataset of `Props/C15.lean`: three cells, the middle one a hole) -/
example : exConv.shape? exConv.default = some [1, 3] ∧ exPolys.length = size [1, 3] := by decide
example : (features exConv exPolys).countP (fun f => f.linear == 2) = 1 ∧
    (features exConv exPolys).countP (fun f => f.linear == 1) = 0 := by decide
example : (multipolygon exPolys).length = 2 ∧ exPolys.countP (·.isSome) = 2 := by decide
example : ((dbfRecords .kinded exConv exPolys).map (·.linear)) = [some 0, some 2] ∧
    ((dbfRecords .kinded exConv exPolys).map (·.index)) =
      [some [.str "face", .num 0, .num 0], some [.str "face", .num 0, .num 2]] := by decide

end Ems.C15
