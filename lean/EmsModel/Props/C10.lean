import EmsModel.Core.MeshDataset
import EmsModel.Lemmas.Mesh
import EmsModel.Lemmas.MeshTopo
/-!
# C10 — UGRID mesh topology is independent of encoding and internally consistent

Property theorems only (helper lemmas: `Lemmas/Mesh.lean`, `Lemmas/MeshTopo.lean`).
All statements are for meshes of any size; node, edge and face indexes are unbounded integers.
Edge *numbering* of derived tables is left free by the property: every statement about a
derived table is relative to the edge table in use (`en`), whatever its order, and
`edges_spec` holds for every renumbering the model accepts.
-/
namespace Ems.C10

open Ems.Mesh

/-! ## `_get_start_index` -/

/-- 0 and 1 are accepted silently, the strings "0" and "1" with a warning, a missing
attribute means 0, and *everything* else is refused. -/
theorem start_index_cases (a : AttrVal) :
    (getStartIndex a = .ok (0, false) ↔ a = .absent ∨ a = .int 0) ∧
    (getStartIndex a = .ok (1, false) ↔ a = .int 1) ∧
    (getStartIndex a = .ok (0, true) ↔ a = .str "0") ∧
    (getStartIndex a = .ok (1, true) ↔ a = .str "1") ∧
    ((∃ e, getStartIndex a = .error e) ↔
      a ≠ .absent ∧ a ≠ .int 0 ∧ a ≠ .int 1 ∧ a ≠ .str "0" ∧ a ≠ .str "1") := by
  cases a with
  | absent => simp [getStartIndex]
  | other => simp [getStartIndex]
  | int n =>
    by_cases h0 : n = 0
    · subst h0; simp [getStartIndex]
    · by_cases h1 : n = 1
      · subst h1; simp [getStartIndex]
      · simp [getStartIndex, h0, h1]
  | str s =>
    by_cases h0 : s = "0"
    · subst h0; simp [getStartIndex]
    · by_cases h1 : s = "1"
      · subst h1; simp [getStartIndex]
      · simp [getStartIndex, h0, h1]

/-- whatever is accepted is 0 or 1 -/
theorem start_index_range (a : AttrVal) (s : Int) (w : Bool) (h : getStartIndex a = .ok (s, w)) :
    s = 0 ∨ s = 1 := by
  cases a with
  | absent => simp [getStartIndex] at h; omega
  | other => simp [getStartIndex] at h
  | int n =>
    simp only [getStartIndex] at h
    split at h
    · simp at h; omega
    · simp at h
  | str t =>
    simp only [getStartIndex] at h
    split at h
    · simp at h; omega
    · split at h
      · simp at h; omega
      · simp at h

/-! ## every encoding of a mesh decodes to the same faces -/

/-- **normalise (encode e mesh) = mesh**: for every mesh and every encoding
(base 0 / 1, written as an integer, a string or omitted; missing entries as NaN, as an integer
`_FillValue`, or not needed; either dimension first) `_to_index_array` returns the faces,
padded with masked cells, and compressing the rows gives the faces back. -/
theorem normalise_encode (e : Enc) (fdim mdim : String) (hd : fdim ≠ mdim) (w : Nat)
    (faces : List (List Nat)) (h : e.Admissible w faces) :
    toIndexArray (encode e fdim mdim w faces) fdim = .ok (faces.map fun f => pad w (f.map Int.ofNat))
    ∧ facesOf (faces.map fun f => pad w (f.map Int.ofNat)) = faces.map (·.map Int.ofNat) := by
  obtain ⟨hb, hsp, hw, hfill⟩ := h
  refine ⟨?_, ?_⟩
  · have hstart : ∃ wn, getStartIndex e.startAttr = .ok (e.base, wn) := startAttr_ok e hb hsp
    obtain ⟨wn, hstart⟩ := hstart
    have hmask : (encPayload e w faces).masked = encCells e w faces := masked_encPayload e w faces hfill
    have hsub : (encCells e w faces).map (·.map (·.map (· - e.base)))
        = faces.map fun f => pad w (f.map Int.ofNat) := encCells_sub e w faces
    by_cases ht : e.transposed = true
    · have hne : mdim ≠ fdim := fun h => hd h.symm
      simp only [toIndexArray, encode, ht, if_true, hstart]
      simp only [ne_eq, hd, not_false_eq_true, not_true_eq_false, and_false, if_false, hne, if_true]
      rw [masked_transpose, hmask, transpose_transpose (by simp [encCells]) (encCells_rect e w faces hw), hsub]
    · have ht' : e.transposed = false := by simpa using ht
      simp only [toIndexArray, encode, ht']
      simp [hmask, hstart, hsub]
  · simp [facesOf, compress_pad]

/-- **encoding independence**: two admissible encodings of the same mesh normalise to the
same table. -/
theorem encoding_independent (e₁ e₂ : Enc) (fdim mdim fdim' mdim' : String) (hd : fdim ≠ mdim)
    (hd' : fdim' ≠ mdim') (w : Nat) (faces : List (List Nat))
    (h₁ : e₁.Admissible w faces) (h₂ : e₂.Admissible w faces) :
    toIndexArray (encode e₁ fdim mdim w faces) fdim = toIndexArray (encode e₂ fdim' mdim' w faces) fdim' := by
  rw [(normalise_encode e₁ fdim mdim hd w faces h₁).1, (normalise_encode e₂ fdim' mdim' hd' w faces h₂).1]

/-- a wider table (more masked padding) holds the same faces -/
theorem padding_irrelevant (w w' : Nat) (faces : List (List Nat)) :
    facesOf (faces.map fun f => pad w (f.map Int.ofNat)) = facesOf (faces.map fun f => pad w' (f.map Int.ofNat)) := by
  simp [facesOf, compress_pad]

/-! ## supplied tables are used as given, invalid ones are replaced by the derived table -/

/-- A supplied table that passed its validity test (`some …`) is returned exactly as decoded;
where none passed (`none`) the result is the derived table. -/
theorem supplied_used (t : TopoIn) :
    (∀ tab, t.hasEdgeDim = true → t.edgeNode = some tab → t.edgeNodeArray = tab) ∧
    (∀ tab, t.faceEdge = some tab → t.faceEdgeArray = tab) ∧
    (∀ tab, t.edgeFace = some tab → t.edgeFaceArray = tab) ∧
    (∀ tab, t.faceFace = some tab → t.faceFaceArray = tab) ∧
    (∀ faces, t.hasEdgeDim = true → t.edgeNode = none → t.faces = .ok faces →
        t.edgeNodeArray = .ok ((TopoIn.derivedEdges t.numbering faces).map pairRow)) ∧
    (∀ faces pairs, t.faceEdge = none → t.fillValueErr = none → t.faces = .ok faces →
        (t.edgeNodeArray.toOption.bind pairsOfTable) = some pairs →
        t.faceEdgeArray = makeFaceEdge t.width pairs faces) ∧
    (∀ n fe, t.edgeFace = none → t.fillValueErr = none → t.edgeCount = .ok n → t.faceEdgeArray = .ok fe →
        t.edgeFaceArray = makeEdgeFace n (fe.map compress)) ∧
    (∀ ef, t.faceFace = none → t.fillValueErr = none → t.edgeFaceArray = .ok ef →
        t.faceFaceArray = makeFaceFace t.nfaces t.width ef) := by
  refine ⟨?_, ?_, ?_, ?_, ?_, ?_, ?_, ?_⟩
  · intro tab he h; simp [TopoIn.edgeNodeArray, he, h]
  · intro tab h; simp [TopoIn.faceEdgeArray, h]
  · intro tab h; simp [TopoIn.edgeFaceArray, h]
  · intro tab h; simp [TopoIn.faceFaceArray, h]
  · intro faces he h hf; simp [TopoIn.edgeNodeArray, he, h, hf]
  · intro faces pairs h hfv hf hp
    cases hen : t.edgeNodeArray with
    | error e => simp [hen, Except.toOption] at hp
    | ok en =>
      simp only [hen, Except.toOption, Option.bind_some] at hp
      simp [TopoIn.faceEdgeArray, h, hfv, hen, hp, hf]
  · intro n fe h hfv hn hfe; simp [TopoIn.edgeFaceArray, h, hfv, hn, hfe]
  · intro ef h hfv hef; simp [TopoIn.faceFaceArray, h, hfv, hef]

/-- At the dataset level: an edge table enters the topology iff the dataset has an edge
dimension, the attribute names a *data variable*, and its dimensions are exactly
{edge dimension, two dimension}; a face table iff its dimensions are {face dimension,
max-node dimension} (and, for face_edge, its encoded `_FillValue` lies outside the index
range). Otherwise the slot is empty and `supplied_used` says the derived table is returned. -/
theorem supplied_valid_iff (ds : DS) (nb : Option (List Pair)) (q : Quirks) (t : TopoIn)
    (h : ds.topoIn nb q = .ok t) :
    (t.edgeNode.isSome ↔ ∃ v ed, ds.validEdgeVar? q "edge_node_connectivity" = some v ∧ ds.edgeDim = .ok ed) ∧
    (t.edgeFace.isSome ↔ ∃ v ed, ds.validEdgeVar? q "edge_face_connectivity" = some v ∧ ds.edgeDim = .ok ed) ∧
    (t.faceFace.isSome ↔ ∃ v fd, ds.validFaceVar? "face_face_connectivity" = some v ∧ ds.faceDim = .ok fd) ∧
    (t.faceEdge = none ↔ ∃ b, ds.topoBase nb q = .ok b ∧
        (ds.faceEdgeValid b = .ok false ∨ (ds.faceEdgeValid b = .ok true ∧
          ∀ v fd, ds.validFaceVar? "face_edge_connectivity" = some v → ds.faceDim ≠ .ok fd))) := by
  obtain ⟨b, hb, rfl⟩ := topoIn_eq h
  obtain ⟨hen, hef⟩ := topoBase_edgeTables hb
  refine ⟨?_, ?_, ?_, ?_⟩
  · simp only [hen]
    split <;> simp_all
  · simp only [hef]
    split <;> simp_all
  · simp only
    split <;> simp_all
  · simp only [hb, Except.ok.injEq, exists_eq_left']
    cases hv : ds.faceEdgeValid b with
    | error e => simp
    | ok ok =>
      cases ok with
      | false => simp
      | true =>
        cases hvar : ds.validFaceVar? "face_edge_connectivity" with
        | none => simp
        | some v =>
          cases hfd : ds.faceDim with
          | error e => simp
          | ok fd => simp

/-! ## derived edges -/

/-- **edges_spec**: the derived edges — in the model's own order or in any renumbering the
model accepts — are, as unordered pairs, exactly the consecutive node pairs (including the
wrap-around pair) of the faces, each once. -/
theorem edges_spec (faces : List (List Int)) (numbering : Option (List Pair)) :
    let en := TopoIn.derivedEdges numbering faces
    (en.map normPair).Nodup ∧
    (∀ e, e ∈ en.map normPair ↔ ∃ f ∈ faces, ∃ p ∈ facePairs f, normPair p = e) ∧
    en.length = (makeEdgeNode faces).length :=
  derivedEdges_spec faces numbering

/-- the model's own derived table stores every edge as (low, high) -/
theorem edges_sorted (faces : List (List Int)) : ∀ e ∈ makeEdgeNode faces, e.1 ≤ e.2 := by
  intro e he
  simp only [makeEdgeNode, mem_dedup, List.mem_map] at he
  obtain ⟨p, _, rfl⟩ := he
  exact normPair_le p

/-- the consecutive pairs of a face are (node c, node c+1 cyclically): the wrap-around pair is included -/
theorem face_pairs_spec (f : List Int) (c : Nat) (hc : c < f.length) :
    (facePairs f)[c]? = some (f[c], f[(c + 1) % f.length]'(Nat.mod_lt _ (by omega))) :=
  getElem?_facePairs f c hc

/-! ## derived face-edge table -/

/-- **face_edge_spec**: relative to *any* edge table `en` that contains every consecutive
node pair of the faces (the supplied one, the derived one, or any renumbering of it),
`make_face_edge_array` succeeds, and column `c` of face `i` is the index of an edge of `en`
whose node pair is the `c`-th consecutive pair of that face; the remaining columns up to
the width are masked.  If `en` has no repeated edge that index is the only possible one. -/
theorem face_edge_spec (w : Nat) (en : List Pair) (faces : List (List Int))
    (hcover : ∀ f ∈ faces, ∀ p ∈ facePairs f, ∃ e ∈ en, normPair e = normPair p)
    (hw : ∀ f ∈ faces, f.length ≤ w) :
    ∃ fe, makeFaceEdge w en faces = .ok fe ∧ fe.length = faces.length ∧
      ∀ i (hi : i < faces.length),
        ∃ row, fe[i]? = some row ∧ row.length = w ∧
          (∀ c (hc : c < (facePairs faces[i]).length),
              ∃ k : Nat, row[c]? = some (some (k : Int)) ∧ ∃ hk : k < en.length,
                normPair en[k] = normPair (facePairs faces[i])[c]) ∧
          (∀ c, faces[i].length ≤ c → c < w → row[c]? = some none) :=
  makeFaceEdge_spec w en faces hcover hw

/-- an edge table that lacks a needed node pair makes the derivation fail (KeyError) -/
theorem face_edge_missing_edge (w : Nat) (en : List Pair) (faces : List (List Int))
    (f : List Int) (hf : f ∈ faces) (p : Pair) (hp : p ∈ facePairs f)
    (hmiss : ∀ e ∈ en, normPair e ≠ normPair p) : makeFaceEdge w en faces = .error .key :=
  makeFaceEdge_missing w en faces f hf p hp hmiss

/-! ## derived edge-face table -/

/-- **edge_face_spec**: relative to *any* face-edge table `fe` (compressed rows; supplied or
derived) whose entries are valid edge indexes and in which no edge is used more than twice
(the manifold hypothesis, decidable), `make_edge_face_array` succeeds; row `k` has width 2,
its unmasked entries are exactly the faces whose face-edge row contains `k` (in increasing
face order, once per occurrence), so at most two. -/
theorem edge_face_spec (n : Nat) (fe : List (List Int))
    (hr : ∀ row ∈ fe, ∀ k ∈ row, 0 ≤ k ∧ k < (n : Int))
    (hman : ∀ k : Nat, k < n → (incidences fe k).length ≤ 2) :
    ∃ ef, makeEdgeFace n fe = .ok ef ∧ ef.length = n ∧
      ∀ k (_ : k < n), ∃ row, ef[k]? = some row ∧ row.length = 2 ∧
        (∀ f : Nat, (f : Int) ∈ compress row ↔ ∃ r, fe[f]? = some r ∧ (k : Int) ∈ r) ∧
        (compress row).length ≤ 2 ∧
        compress row = (incidences fe k).map Int.ofNat := by
  obtain ⟨ef, hef, hlen, hspec⟩ := makeEdgeFace_spec n fe hr hman
  refine ⟨ef, hef, hlen, ?_⟩
  intro k hk
  obtain ⟨row, hrow, hl, hc⟩ := hspec k hk
  refine ⟨row, hrow, hl, ?_, ?_, hc⟩
  · intro f
    rw [hc, ← mem_incidences]
    exact mem_map_ofNat
  · rw [hc]
    simpa using hman k hk

/-- an edge used by more than two face sides is refused (IndexError), never truncated -/
theorem edge_face_rejects_nonmanifold (n : Nat) (fe : List (List Int))
    (hr : ∀ row ∈ fe, ∀ k ∈ row, 0 ≤ k ∧ k < (n : Int))
    (k : Nat) (hk : k < n) (h : 2 < (incidences fe k).length) :
    makeEdgeFace n fe = .error .index :=
  makeEdgeFace_nonmanifold n fe hr k hk h

/-- conversely, whenever `make_edge_face_array` returns a table the input was in range and
manifold, and the table meets the specification -/
theorem edge_face_of_ok (n : Nat) (fe : List (List Int)) (ef : Table) (h : makeEdgeFace n fe = .ok ef) :
    (∀ k : Nat, k < n → (incidences fe k).length ≤ 2) ∧
    ∀ k (_ : k < n) (f : Nat), (f : Int) ∈ rowOf ef k ↔ ∃ r, fe[f]? = some r ∧ (k : Int) ∈ r := by
  obtain ⟨_, hman, _, hspec⟩ := makeEdgeFace_ok h
  refine ⟨hman, ?_⟩
  intro k hk f
  obtain ⟨row, hrow, _, hc⟩ := hspec k hk
  simp only [rowOf, hrow, hc, ← mem_incidences]
  exact mem_map_ofNat

/-! ## derived face-face table -/

/-- **face_face_symm**: for *any* edge-face table (supplied or derived) on which
`make_face_face_array` succeeds, `f` lists `g` iff `g` lists `f`. -/
theorem face_face_symm (nf w : Nat) (ef ff : Table) (h : makeFaceFace nf w ef = .ok ff)
    (f g : Nat) (hf : f < nf) (hg : g < nf) :
    (g : Int) ∈ rowOf ff f ↔ (f : Int) ∈ rowOf ff g := by
  rw [mem_rowOf_faceFace h hf, mem_rowOf_faceFace h hg]
  exact adjEvents_symm

/-- **face_face_iff_shared_edge** (table level): `f` lists `g` iff some edge's two faces are
exactly `f` and `g`; a face never lists itself. -/
theorem face_face_iff_shared_edge (nf w : Nat) (ef ff : Table) (h : makeFaceFace nf w ef = .ok ff)
    (f : Nat) (hf : f < nf) (g : Int) :
    (g ∈ rowOf ff f ↔ ∃ row ∈ ef, row = [some (f : Int), some g] ∨ row = [some g, some (f : Int)])
    ∧ (f : Int) ∉ rowOf ff f := by
  refine ⟨?_, ?_⟩
  · rw [mem_rowOf_faceFace h hf, mem_adjEvents]
  · rw [mem_rowOf_faceFace h hf]
    intro hmem
    exact (makeFaceFace_ok h).1 _ hmem rfl

/-- every row of the face-face table has the width of the face-node table, neighbours first -/
theorem face_face_shape (nf w : Nat) (ef ff : Table) (h : makeFaceFace nf w ef = .ok ff) :
    ff.length = nf ∧ ∀ row ∈ ff, row.length = w := by
  obtain ⟨_, hlen, hspec⟩ := makeFaceFace_ok h
  refine ⟨hlen, ?_⟩
  intro row hrow
  obtain ⟨i, hi, rfl⟩ := List.getElem_of_mem hrow
  obtain ⟨row', hrow', hl, _⟩ := hspec i (by omega)
  rw [List.getElem?_eq_getElem hi] at hrow'
  rw [Option.some.inj hrow']
  exact hl

/-! ## the derived tables together -/

/-- **internal consistency, in terms of node pairs.**  Let `en` be any edge table without
repeated edges that contains every consecutive node pair of the faces (a valid supplied
`edge_node` table, the derived one, or any renumbering of it), on a mesh that is manifold
(every undirected node pair is a side of at most two faces, no face uses one twice —
`Manifold`, decidable).  Then all three derivations succeed, and
* column `c` of face `i` in face-edge is an edge whose nodes are the `c`-th consecutive pair of `i`;
* edge `k` lists face `i` iff the node pair of `k` is a consecutive pair of `i`, and lists at most two faces;
* face `i` lists face `j` iff `i ≠ j` and they have a common undirected node pair;
  this relation is symmetric. -/
theorem derived_tables_consistent (w : Nat) (en : List Pair) (faces : List (List Int))
    (hnd : (en.map normPair).Nodup)
    (hcover : ∀ f ∈ faces, ∀ p ∈ facePairs f, ∃ e ∈ en, normPair e = normPair p)
    (hw : ∀ f ∈ faces, f.length ≤ w)
    (hm : Manifold faces) :
    ∃ fe ef ff, makeFaceEdge w en faces = .ok fe ∧
      makeEdgeFace en.length (fe.map compress) = .ok ef ∧
      makeFaceFace faces.length w ef = .ok ff ∧
      (∀ i (hi : i < faces.length) c (hc : c < (facePairs faces[i]).length),
          ∃ k : Nat, (fe[i]?.bind (·[c]?)) = some (some (k : Int)) ∧ ∃ hk : k < en.length,
            normPair en[k] = normPair (facePairs faces[i])[c]) ∧
      (∀ k (hk : k < en.length) i (hi : i < faces.length),
          (i : Int) ∈ rowOf ef k ↔ ∃ p ∈ facePairs faces[i], normPair p = normPair en[k]) ∧
      (∀ k, k < en.length → (rowOf ef k).length ≤ 2) ∧
      (∀ i (hi : i < faces.length) j (hj : j < faces.length),
          (j : Int) ∈ rowOf ff i ↔
            i ≠ j ∧ ∃ p ∈ facePairs faces[i], ∃ q ∈ facePairs faces[j], normPair p = normPair q) ∧
      (∀ i (_ : i < faces.length) j (_ : j < faces.length),
          (j : Int) ∈ rowOf ff i ↔ (i : Int) ∈ rowOf ff j) := by
  obtain ⟨fe, ef, ff, hfe, hef, hff⟩ := derived_tables_exist hnd hcover hw hm
  obtain ⟨hefs, hffs⟩ := derived_chain_spec hnd hcover hw hfe hef hff
  refine ⟨fe, ef, ff, hfe, hef, hff, ?_, hefs, ?_, hffs, ?_⟩
  · intro i hi c hc
    obtain ⟨fe', hfe', _, hspec⟩ := makeFaceEdge_spec w en faces hcover hw
    rw [hfe] at hfe'
    have := Except.ok.inj hfe'
    subst this
    obtain ⟨row, hrow, _, hin, _⟩ := hspec i hi
    obtain ⟨k, hk, hlt, hn⟩ := hin c hc
    exact ⟨k, by simp [hrow, hk], hlt, hn⟩
  · intro k hk
    obtain ⟨_, hman, _, hspec⟩ := makeEdgeFace_ok hef
    obtain ⟨row, hrow, _, hc⟩ := hspec k hk
    simp only [rowOf, hrow, hc, List.length_map]
    exact hman k hk
  · intro i hi j hj
    exact face_face_symm _ _ _ _ hff i j hi hj

/-- the same for the edges the code derives itself, **whatever numbering it gives them** -/
theorem derived_topology (w : Nat) (faces : List (List Int)) (numbering : Option (List Pair))
    (hw : ∀ f ∈ faces, f.length ≤ w) (hm : Manifold faces) :
    let en := TopoIn.derivedEdges numbering faces
    ∃ fe ef ff, makeFaceEdge w en faces = .ok fe ∧
      makeEdgeFace en.length (fe.map compress) = .ok ef ∧
      makeFaceFace faces.length w ef = .ok ff ∧
      (∀ k (hk : k < en.length) i (hi : i < faces.length),
          (i : Int) ∈ rowOf ef k ↔ ∃ p ∈ facePairs faces[i], normPair p = normPair en[k]) ∧
      (∀ i (hi : i < faces.length) j (hj : j < faces.length),
          (j : Int) ∈ rowOf ff i ↔
            i ≠ j ∧ ∃ p ∈ facePairs faces[i], ∃ q ∈ facePairs faces[j], normPair p = normPair q) := by
  intro en
  obtain ⟨hnd, hmem, _⟩ := derivedEdges_spec faces numbering
  have hcover : ∀ f ∈ faces, ∀ p ∈ facePairs f, ∃ e ∈ en, normPair e = normPair p := by
    intro f hf p hp
    have := (hmem (normPair p)).mpr ⟨f, hf, p, hp, rfl⟩
    obtain ⟨e, he, hn⟩ := List.mem_map.mp this
    exact ⟨e, he, hn⟩
  obtain ⟨fe, ef, ff, hfe, hef, hff, _, hefs, _, hffs, _⟩ :=
    derived_tables_consistent w en faces hnd hcover hw hm
  exact ⟨fe, ef, ff, hfe, hef, hff, hefs, hffs⟩

/-- and these are what the `*_array` properties return when the dataset supplies none of the
optional tables (edge dimension declared, sized or not) -/
theorem topology_all_derived (t : TopoIn) (faces : List (List Int))
    (hfaces : t.faces = .ok faces) (hedge : t.hasEdgeDim = true) (hfv : t.fillValueErr = none)
    (h1 : t.edgeNode = none) (h2 : t.faceEdge = none) (h3 : t.edgeFace = none) (h4 : t.faceFace = none)
    (hsize : t.edgeDimSize = none ∨ t.edgeDimSize = some (TopoIn.derivedEdges t.numbering faces).length) :
    let en := TopoIn.derivedEdges t.numbering faces
    t.edgeNodeArray = .ok (en.map pairRow) ∧
    t.faceEdgeArray = makeFaceEdge t.width en faces ∧
    (∀ fe, makeFaceEdge t.width en faces = .ok fe →
      t.edgeFaceArray = makeEdgeFace en.length (fe.map compress) ∧
      ∀ ef, makeEdgeFace en.length (fe.map compress) = .ok ef →
        t.faceFaceArray = makeFaceFace t.nfaces t.width ef) := by
  intro en
  have hen : t.edgeNodeArray = .ok (en.map pairRow) := by
    simp [TopoIn.edgeNodeArray, hedge, h1, hfaces, en]
  have hpairs : pairsOfTable (en.map pairRow) = some en := pairsOfTable_pairRow en
  have hfe : t.faceEdgeArray = makeFaceEdge t.width en faces := by
    simp [TopoIn.faceEdgeArray, h2, hfv, hen, hpairs, hfaces]
  have hcount : t.edgeCount = .ok en.length := by
    rcases hsize with h | h
    · simp [TopoIn.edgeCount, hedge, h, hen, Except.map]
    · simp [TopoIn.edgeCount, hedge, h, en]
  refine ⟨hen, hfe, ?_⟩
  intro fe hfe'
  have hef : t.edgeFaceArray = makeEdgeFace en.length (fe.map compress) := by
    simp [TopoIn.edgeFaceArray, h3, hfv, hcount, hfe, hfe']
  refine ⟨hef, ?_⟩
  intro ef hef'
  simp [TopoIn.faceFaceArray, h4, hfv, hef, hef']

/-! ## the recorded deviations do violate the property (concrete witnesses) -/

/-- Looking coordinate variables up in `data_vars` only (the unchanged code) does not find
node / face coordinate variables that are held as xarray coordinates (so `node_x` raises
KeyError and `face_x` is `None`), while the property-level lookup finds them. -/
theorem quirk_coords_in_data_vars_violates :
    witnessCoords.coordVar? { coordsInDataVars := true } "nx" = none ∧
    (witnessCoords.coordVar? {} "nx").isSome ∧
    witnessCoords.coordVar? { coordsInDataVars := true } "fx" = none ∧
    (witnessCoords.coordVar? {} "fx").isSome := by
  decide

/-- Guessing `two_dimension` as the first dimension of size two (the unchanged code) makes a
valid supplied edge-node table fail its validity test on a two-face mesh whose two-dimension
is not called `Two`; deriving it from the edge tables does not. -/
theorem quirk_two_dim_guess_violates :
    (witnessTwoDim.validEdgeVar? { twoDimGuess := true } "edge_node_connectivity").isNone ∧
    (witnessTwoDim.validEdgeVar? {} "edge_node_connectivity").isSome := by
  decide

/-- What the theorems above do *not* give, and the unchanged code does not do either: when a
dataset supplies `face_edge` but no `edge_node` table, the derived edge-node table is numbered
without looking at the supplied face-edge table, so the two need not agree.  Witness: one
triangle whose supplied face-edge row is `[2, 0, 1]`; the first side of the face is the node
pair (0, 1), but edge 2 of the derived edge-node table is (0, 2).  (`face_edge_spec` needs the
face-edge table to be derived from the edge table in use; `supplied_used` returns the supplied
one.)  Recorded as finding `ugrid-derived-edge-node-ignores-supplied-face-edge-numbering`. -/
theorem supplied_face_edge_numbering_not_followed :
    let t : TopoIn :=
      { faceNode := .ok [[some 0, some 1, some 2]], nfaces := 1, width := 3, hasEdgeDim := true,
        edgeDimSize := some 3, edgeNode := none, faceEdge := some (.ok [[some 2, some 0, some 1]]),
        edgeFace := none, faceFace := none }
    t.faceEdgeArray = .ok [[some 2, some 0, some 1]] ∧
    t.edgeNodeArray = .ok [[some 0, some 1], [some 1, some 2], [some 0, some 2]] := by
  decide

/-! ## the hypotheses are satisfiable (non-vacuity) -/

/-- two triangles sharing an edge form a manifold mesh; the derived tables exist -/
example : Manifold [[0, 1, 2], [1, 3, 2]] := by decide

example : ∃ fe ef ff, makeFaceEdge 3 (makeEdgeNode [[0, 1, 2], [1, 3, 2]]) [[0, 1, 2], [1, 3, 2]] = .ok fe ∧
    makeEdgeFace 5 (fe.map compress) = .ok ef ∧ makeFaceFace 2 3 ef = .ok ff ∧
    ff = [[some 1, none, none], [some 0, none, none]] := by
  refine ⟨_, _, _, rfl, rfl, rfl, ?_⟩
  decide

/-- an admissible encoding: one-based, integer fill value 999, transposed -/
example : ({ base := 1, spelling := .int, fill := .attr 999, transposed := true } : Enc).Admissible 4
    [[0, 1, 2], [1, 3, 2, 4]] := by
  refine ⟨Or.inr rfl, by simp, by decide, by decide⟩

example : toIndexArray (encode { base := 1, spelling := .str, fill := .nan, transposed := true } "f" "m" 4
    [[0, 1, 2], [1, 3, 2, 4]]) "f" = .ok [[some 0, some 1, some 2, none], [some 1, some 3, some 2, some 4]] := by
  decide

/-- a non-manifold mesh (three triangles on one edge) is refused -/
example : ¬ Manifold [[0, 1, 2], [1, 0, 3], [0, 1, 4]] := by decide

end Ems.C10
