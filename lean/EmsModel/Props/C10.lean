import EmsModel.Core.MeshDataset
import EmsModel.Lemmas.Mesh
import EmsModel.Lemmas.MeshTopo
import EmsModel.Lemmas.MeshFollow
/-!
# C10 — UGRID mesh topology is independent of encoding and internally consistent

Property theorems only (helper lemmas: `Lemmas/Mesh.lean`, `Lemmas/MeshTopo.lean`).
All statements are for meshes of any size; node, edge and face indexes are unbounded integers.
Edge *numbering* of derived tables is left free by the property where the dataset numbers no
edges: every statement about a derived table is relative to the edge table in use (`en`),
whatever its order, and `edges_spec` holds for every renumbering the model accepts.  Where the
dataset supplies a table that numbers the edges (`face_edge` or `edge_face`) and `edge_node` is
derived, "supplied tables are used as given" and "every derived table agrees with the
face-node table" together pin the numbering: the derived `edge_node` table follows the supplied
one (`edge_node_follows_face_edge`, `edge_node_follows_edge_face`, `derived_numbering_consistent`).
-/
namespace Ems.C10

open Ems.Mesh

/-! ## `_get_start_index` -/

/-- 0 and 1 are accepted silently, the strings "0" and "1" with a warning, a missing
attribute means 0, and *everything* else is refused. -/
theorem start_index_cases (a : AttrVal) :
    (getStartIndex a = .ok (0, false) ↔ a = .absent ∨ a = .int 0) ∧
    (getStartIndex a = .ok (1, false) ↔ a = .int 1) ∧
    (getStartIndex a = .ok (0, true) ↔ a = .str "0") ∧
    (getStartIndex a = .ok (1, true) ↔ a = .str "1") ∧
    ((∃ e, getStartIndex a = .error e) ↔
      a ≠ .absent ∧ a ≠ .int 0 ∧ a ≠ .int 1 ∧ a ≠ .str "0" ∧ a ≠ .str "1") := by
  cases a with
  | absent => simp [getStartIndex]
  | other => simp [getStartIndex]
  | int n =>
    by_cases h0 : n = 0
    · subst h0; simp [getStartIndex]
    · by_cases h1 : n = 1
      · subst h1; simp [getStartIndex]
      · simp [getStartIndex, h0, h1]
  | str s =>
    by_cases h0 : s = "0"
    · subst h0; simp [getStartIndex]
    · by_cases h1 : s = "1"
      · subst h1; simp [getStartIndex]
      · simp [getStartIndex, h0, h1]

/-- whatever is accepted is 0 or 1 -/
theorem start_index_range (a : AttrVal) (s : Int) (w : Bool) (h : getStartIndex a = .ok (s, w)) :
    s = 0 ∨ s = 1 := by
  cases a with
  | absent => simp [getStartIndex] at h; omega
  | other => simp [getStartIndex] at h
  | int n =>
    simp only [getStartIndex] at h
    split at h
    · simp at h; omega
    · simp at h
  | str t =>
    simp only [getStartIndex] at h
    split at h
    · simp at h; omega
    · split at h
      · simp at h; omega
      · simp at h

/-! ## every encoding of a mesh decodes to the same faces -/

/-- **normalise (encode e mesh) = mesh**: for every mesh and every encoding
(base 0 / 1, written as an integer, a string or omitted; missing entries as NaN, as an integer
`_FillValue`, or not needed; either dimension first) `_to_index_array` returns the faces,
padded with masked cells, and compressing the rows gives the faces back. -/
theorem normalise_encode (e : Enc) (fdim mdim : String) (hd : fdim ≠ mdim) (w : Nat)
    (faces : List (List Nat)) (h : e.Admissible w faces) :
    toIndexArray (encode e fdim mdim w faces) fdim = .ok (faces.map fun f => pad w (f.map Int.ofNat))
    ∧ facesOf (faces.map fun f => pad w (f.map Int.ofNat)) = faces.map (·.map Int.ofNat) := by
  obtain ⟨hb, hsp, hw, hfill⟩ := h
  refine ⟨?_, ?_⟩
  · have hstart : ∃ wn, getStartIndex e.startAttr = .ok (e.base, wn) := startAttr_ok e hb hsp
    obtain ⟨wn, hstart⟩ := hstart
    have hmask : (encPayload e w faces).masked = encCells e w faces := masked_encPayload e w faces hfill
    have hsub : (encCells e w faces).map (·.map (·.map (· - e.base)))
        = faces.map fun f => pad w (f.map Int.ofNat) := encCells_sub e w faces
    by_cases ht : e.transposed = true
    · have hne : mdim ≠ fdim := fun h => hd h.symm
      simp only [toIndexArray, encode, ht, if_true, hstart]
      simp only [ne_eq, hd, not_false_eq_true, not_true_eq_false, and_false, if_false, hne, if_true]
      rw [masked_transpose, hmask, transpose_transpose (by simp [encCells]) (encCells_rect e w faces hw), hsub]
    · have ht' : e.transposed = false := by simpa using ht
      simp only [toIndexArray, encode, ht']
      simp [hmask, hstart, hsub]
  · simp [facesOf, compress_pad]

/-- **encoding independence**: two admissible encodings of the same mesh normalise to the
same table. -/
theorem encoding_independent (e₁ e₂ : Enc) (fdim mdim fdim' mdim' : String) (hd : fdim ≠ mdim)
    (hd' : fdim' ≠ mdim') (w : Nat) (faces : List (List Nat))
    (h₁ : e₁.Admissible w faces) (h₂ : e₂.Admissible w faces) :
    toIndexArray (encode e₁ fdim mdim w faces) fdim = toIndexArray (encode e₂ fdim' mdim' w faces) fdim' := by
  rw [(normalise_encode e₁ fdim mdim hd w faces h₁).1, (normalise_encode e₂ fdim' mdim' hd' w faces h₂).1]

/-- a wider table (more masked padding) holds the same faces -/
theorem padding_irrelevant (w w' : Nat) (faces : List (List Nat)) :
    facesOf (faces.map fun f => pad w (f.map Int.ofNat)) = facesOf (faces.map fun f => pad w' (f.map Int.ofNat)) := by
  simp [facesOf, compress_pad]

/-! ## supplied tables are used as given, invalid ones are replaced by the derived table -/

/-- A supplied table that passed its validity test (`some …`) is returned exactly as decoded;
where none passed (`none`) the result is the derived table. -/
theorem supplied_used (t : TopoIn) :
    (∀ tab, t.hasEdgeDim = true → t.edgeNode = some tab → t.edgeNodeArray = tab) ∧
    (∀ tab, t.faceEdge = some tab → t.faceEdgeArray = tab) ∧
    (∀ tab, t.edgeFace = some tab → t.edgeFaceArray = tab) ∧
    (∀ tab, t.faceFace = some tab → t.faceFaceArray = tab) ∧
    (∀ faces, t.hasEdgeDim = true → t.edgeNode = none → t.faces = .ok faces →
        t.edgeNodeArray = .ok ((TopoIn.derivedEdges t.numbering faces).map pairRow)) ∧
    (∀ faces pairs, t.faceEdge = none → t.fillValueErr = none → t.faces = .ok faces →
        (t.edgeNodeArray.toOption.bind pairsOfTable) = some pairs →
        t.faceEdgeArray = makeFaceEdge t.width pairs faces) ∧
    (∀ n fe, t.edgeFace = none → t.fillValueErr = none → t.edgeCount = .ok n → t.faceEdgeArray = .ok fe →
        t.edgeFaceArray = makeEdgeFace n (fe.map compress)) ∧
    (∀ ef, t.faceFace = none → t.fillValueErr = none → t.edgeFaceArray = .ok ef →
        t.faceFaceArray = makeFaceFace t.nfaces t.width ef) := by
  refine ⟨?_, ?_, ?_, ?_, ?_, ?_, ?_, ?_⟩
  · intro tab he h; simp [TopoIn.edgeNodeArray, he, h]
  · intro tab h; simp [TopoIn.faceEdgeArray, h]
  · intro tab h; simp [TopoIn.edgeFaceArray, h]
  · intro tab h; simp [TopoIn.faceFaceArray, h]
  · intro faces he h hf; simp [TopoIn.edgeNodeArray, he, h, hf]
  · intro faces pairs h hfv hf hp
    cases hen : t.edgeNodeArray with
    | error e => simp [hen, Except.toOption] at hp
    | ok en =>
      simp only [hen, Except.toOption, Option.bind_some] at hp
      simp [TopoIn.faceEdgeArray, h, hfv, hen, hp, hf]
  · intro n fe h hfv hn hfe; simp [TopoIn.edgeFaceArray, h, hfv, hn, hfe]
  · intro ef h hfv hef; simp [TopoIn.faceFaceArray, h, hfv, hef]

/-- At the dataset level: an edge table enters the topology iff the dataset has an edge
dimension, the attribute names a *data variable*, and its dimensions are exactly
{edge dimension, two dimension}; a face table iff its dimensions are {face dimension,
max-node dimension} (and, for face_edge, its encoded `_FillValue` lies outside the index
range). Otherwise the slot is empty and `supplied_used` says the derived table is returned. -/
theorem supplied_valid_iff (ds : DS) (nb : Option (List Pair)) (q : Quirks) (t : TopoIn)
    (h : ds.topoIn nb q = .ok t) :
    (t.edgeNode.isSome ↔ ∃ v ed, ds.validEdgeVar? q "edge_node_connectivity" = some v ∧ ds.edgeDim = .ok ed) ∧
    (t.edgeFace.isSome ↔ ∃ v ed, ds.validEdgeVar? q "edge_face_connectivity" = some v ∧ ds.edgeDim = .ok ed) ∧
    (t.faceFace.isSome ↔ ∃ v fd, ds.validFaceVar? "face_face_connectivity" = some v ∧ ds.faceDim = .ok fd) ∧
    (t.faceEdge = none ↔ ∃ b, ds.topoBase nb q = .ok b ∧
        (ds.faceEdgeValid b = .ok false ∨ (ds.faceEdgeValid b = .ok true ∧
          ∀ v fd, ds.validFaceVar? "face_edge_connectivity" = some v → ds.faceDim ≠ .ok fd))) := by
  obtain ⟨b, hb, rfl⟩ := topoIn_eq h
  obtain ⟨hen, hef⟩ := topoBase_edgeTables hb
  refine ⟨?_, ?_, ?_, ?_⟩
  · simp only [hen]
    split <;> simp_all
  · simp only [hef]
    split <;> simp_all
  · simp only
    split <;> simp_all
  · simp only [hb, Except.ok.injEq, exists_eq_left']
    cases hv : ds.faceEdgeValid b with
    | error e => simp
    | ok ok =>
      cases ok with
      | false => simp
      | true =>
        cases hvar : ds.validFaceVar? "face_edge_connectivity" with
        | none => simp
        | some v =>
          cases hfd : ds.faceDim with
          | error e => simp
          | ok fd => simp

/-! ## derived edges -/

/-- **edges_spec**: the derived edges — in the model's own order or in any renumbering the
model accepts — are, as unordered pairs, exactly the consecutive node pairs (including the
wrap-around pair) of the faces, each once. -/
theorem edges_spec (faces : List (List Int)) (numbering : Option (List Pair)) :
    let en := TopoIn.derivedEdges numbering faces
    (en.map normPair).Nodup ∧
    (∀ e, e ∈ en.map normPair ↔ ∃ f ∈ faces, ∃ p ∈ facePairs f, normPair p = e) ∧
    en.length = (makeEdgeNode faces).length :=
  derivedEdges_spec faces numbering

/-- the model's own derived table stores every edge as (low, high) -/
theorem edges_sorted (faces : List (List Int)) : ∀ e ∈ makeEdgeNode faces, e.1 ≤ e.2 := by
  intro e he
  simp only [makeEdgeNode, mem_dedup, List.mem_map] at he
  obtain ⟨p, _, rfl⟩ := he
  exact normPair_le p

/-- the consecutive pairs of a face are (node c, node c+1 cyclically): the wrap-around pair is included -/
theorem face_pairs_spec (f : List Int) (c : Nat) (hc : c < f.length) :
    (facePairs f)[c]? = some (f[c], f[(c + 1) % f.length]'(Nat.mod_lt _ (by omega))) :=
  getElem?_facePairs f c hc

/-! ## derived face-edge table -/

/-- **face_edge_spec**: relative to *any* edge table `en` that contains every consecutive
node pair of the faces (the supplied one, the derived one, or any renumbering of it),
`make_face_edge_array` succeeds, and column `c` of face `i` is the index of an edge of `en`
whose node pair is the `c`-th consecutive pair of that face; the remaining columns up to
the width are masked.  If `en` has no repeated edge that index is the only possible one. -/
theorem face_edge_spec (w : Nat) (en : List Pair) (faces : List (List Int))
    (hcover : ∀ f ∈ faces, ∀ p ∈ facePairs f, ∃ e ∈ en, normPair e = normPair p)
    (hw : ∀ f ∈ faces, f.length ≤ w) :
    ∃ fe, makeFaceEdge w en faces = .ok fe ∧ fe.length = faces.length ∧
      ∀ i (hi : i < faces.length),
        ∃ row, fe[i]? = some row ∧ row.length = w ∧
          (∀ c (hc : c < (facePairs faces[i]).length),
              ∃ k : Nat, row[c]? = some (some (k : Int)) ∧ ∃ hk : k < en.length,
                normPair en[k] = normPair (facePairs faces[i])[c]) ∧
          (∀ c, faces[i].length ≤ c → c < w → row[c]? = some none) :=
  makeFaceEdge_spec w en faces hcover hw

/-- an edge table that lacks a needed node pair makes the derivation fail (KeyError) -/
theorem face_edge_missing_edge (w : Nat) (en : List Pair) (faces : List (List Int))
    (f : List Int) (hf : f ∈ faces) (p : Pair) (hp : p ∈ facePairs f)
    (hmiss : ∀ e ∈ en, normPair e ≠ normPair p) : makeFaceEdge w en faces = .error .key :=
  makeFaceEdge_missing w en faces f hf p hp hmiss

/-! ## derived edge-face table -/

/-- **edge_face_spec**: relative to *any* face-edge table `fe` (compressed rows; supplied or
derived) whose entries are valid edge indexes and in which no edge is used more than twice
(the manifold hypothesis, decidable), `make_edge_face_array` succeeds; row `k` has width 2,
its unmasked entries are exactly the faces whose face-edge row contains `k` (in increasing
face order, once per occurrence), so at most two. -/
theorem edge_face_spec (n : Nat) (fe : List (List Int))
    (hr : ∀ row ∈ fe, ∀ k ∈ row, 0 ≤ k ∧ k < (n : Int))
    (hman : ∀ k : Nat, k < n → (incidences fe k).length ≤ 2) :
    ∃ ef, makeEdgeFace n fe = .ok ef ∧ ef.length = n ∧
      ∀ k (_ : k < n), ∃ row, ef[k]? = some row ∧ row.length = 2 ∧
        (∀ f : Nat, (f : Int) ∈ compress row ↔ ∃ r, fe[f]? = some r ∧ (k : Int) ∈ r) ∧
        (compress row).length ≤ 2 ∧
        compress row = (incidences fe k).map Int.ofNat := by
  obtain ⟨ef, hef, hlen, hspec⟩ := makeEdgeFace_spec n fe hr hman
  refine ⟨ef, hef, hlen, ?_⟩
  intro k hk
  obtain ⟨row, hrow, hl, hc⟩ := hspec k hk
  refine ⟨row, hrow, hl, ?_, ?_, hc⟩
  · intro f
    rw [hc, ← mem_incidences]
    exact mem_map_ofNat
  · rw [hc]
    simpa using hman k hk

/-- an edge used by more than two face sides is refused (IndexError), never truncated -/
theorem edge_face_rejects_nonmanifold (n : Nat) (fe : List (List Int))
    (hr : ∀ row ∈ fe, ∀ k ∈ row, 0 ≤ k ∧ k < (n : Int))
    (k : Nat) (hk : k < n) (h : 2 < (incidences fe k).length) :
    makeEdgeFace n fe = .error .index :=
  makeEdgeFace_nonmanifold n fe hr k hk h

/-- conversely, whenever `make_edge_face_array` returns a table the input was in range and
manifold, and the table meets the specification -/
theorem edge_face_of_ok (n : Nat) (fe : List (List Int)) (ef : Table) (h : makeEdgeFace n fe = .ok ef) :
    (∀ k : Nat, k < n → (incidences fe k).length ≤ 2) ∧
    ∀ k (_ : k < n) (f : Nat), (f : Int) ∈ rowOf ef k ↔ ∃ r, fe[f]? = some r ∧ (k : Int) ∈ r := by
  obtain ⟨_, hman, _, hspec⟩ := makeEdgeFace_ok h
  refine ⟨hman, ?_⟩
  intro k hk f
  obtain ⟨row, hrow, _, hc⟩ := hspec k hk
  simp only [rowOf, hrow, hc, ← mem_incidences]
  exact mem_map_ofNat

/-! ## derived face-face table -/

/-- **face_face_symm**: for *any* edge-face table (supplied or derived) on which
`make_face_face_array` succeeds, `f` lists `g` iff `g` lists `f`. -/
theorem face_face_symm (nf w : Nat) (ef ff : Table) (h : makeFaceFace nf w ef = .ok ff)
    (f g : Nat) (hf : f < nf) (hg : g < nf) :
    (g : Int) ∈ rowOf ff f ↔ (f : Int) ∈ rowOf ff g := by
  rw [mem_rowOf_faceFace h hf, mem_rowOf_faceFace h hg]
  exact adjEvents_symm

/-- **face_face_iff_shared_edge** (table level): `f` lists `g` iff some edge's two faces are
exactly `f` and `g`; a face never lists itself. -/
theorem face_face_iff_shared_edge (nf w : Nat) (ef ff : Table) (h : makeFaceFace nf w ef = .ok ff)
    (f : Nat) (hf : f < nf) (g : Int) :
    (g ∈ rowOf ff f ↔ ∃ row ∈ ef, row = [some (f : Int), some g] ∨ row = [some g, some (f : Int)])
    ∧ (f : Int) ∉ rowOf ff f := by
  refine ⟨?_, ?_⟩
  · rw [mem_rowOf_faceFace h hf, mem_adjEvents]
  · rw [mem_rowOf_faceFace h hf]
    intro hmem
    exact (makeFaceFace_ok h).1 _ hmem rfl

/-- every row of the face-face table has the width of the face-node table, neighbours first -/
theorem face_face_shape (nf w : Nat) (ef ff : Table) (h : makeFaceFace nf w ef = .ok ff) :
    ff.length = nf ∧ ∀ row ∈ ff, row.length = w := by
  obtain ⟨_, hlen, hspec⟩ := makeFaceFace_ok h
  refine ⟨hlen, ?_⟩
  intro row hrow
  obtain ⟨i, hi, rfl⟩ := List.getElem_of_mem hrow
  obtain ⟨row', hrow', hl, _⟩ := hspec i (by omega)
  rw [List.getElem?_eq_getElem hi] at hrow'
  rw [Option.some.inj hrow']
  exact hl

/-! ## the derived tables together -/

/-- **internal consistency, in terms of node pairs.**  Let `en` be any edge table without
repeated edges that contains every consecutive node pair of the faces (a valid supplied
`edge_node` table, the derived one, or any renumbering of it), on a mesh that is manifold
(every undirected node pair is a side of at most two faces, no face uses one twice —
`Manifold`, decidable).  Then all three derivations succeed, and
* column `c` of face `i` in face-edge is an edge whose nodes are the `c`-th consecutive pair of `i`;
* edge `k` lists face `i` iff the node pair of `k` is a consecutive pair of `i`, and lists at most two faces;
* face `i` lists face `j` iff `i ≠ j` and they have a common undirected node pair;
  this relation is symmetric. -/
theorem derived_tables_consistent (w : Nat) (en : List Pair) (faces : List (List Int))
    (hnd : (en.map normPair).Nodup)
    (hcover : ∀ f ∈ faces, ∀ p ∈ facePairs f, ∃ e ∈ en, normPair e = normPair p)
    (hw : ∀ f ∈ faces, f.length ≤ w)
    (hm : Manifold faces) :
    ∃ fe ef ff, makeFaceEdge w en faces = .ok fe ∧
      makeEdgeFace en.length (fe.map compress) = .ok ef ∧
      makeFaceFace faces.length w ef = .ok ff ∧
      (∀ i (hi : i < faces.length) c (hc : c < (facePairs faces[i]).length),
          ∃ k : Nat, (fe[i]?.bind (·[c]?)) = some (some (k : Int)) ∧ ∃ hk : k < en.length,
            normPair en[k] = normPair (facePairs faces[i])[c]) ∧
      (∀ k (hk : k < en.length) i (hi : i < faces.length),
          (i : Int) ∈ rowOf ef k ↔ ∃ p ∈ facePairs faces[i], normPair p = normPair en[k]) ∧
      (∀ k, k < en.length → (rowOf ef k).length ≤ 2) ∧
      (∀ i (hi : i < faces.length) j (hj : j < faces.length),
          (j : Int) ∈ rowOf ff i ↔
            i ≠ j ∧ ∃ p ∈ facePairs faces[i], ∃ q ∈ facePairs faces[j], normPair p = normPair q) ∧
      (∀ i (_ : i < faces.length) j (_ : j < faces.length),
          (j : Int) ∈ rowOf ff i ↔ (i : Int) ∈ rowOf ff j) := by
  obtain ⟨fe, ef, ff, hfe, hef, hff⟩ := derived_tables_exist hnd hcover hw hm
  obtain ⟨hefs, hffs⟩ := derived_chain_spec hnd hcover hw hfe hef hff
  refine ⟨fe, ef, ff, hfe, hef, hff, ?_, hefs, ?_, hffs, ?_⟩
  · intro i hi c hc
    obtain ⟨fe', hfe', _, hspec⟩ := makeFaceEdge_spec w en faces hcover hw
    rw [hfe] at hfe'
    have := Except.ok.inj hfe'
    subst this
    obtain ⟨row, hrow, _, hin, _⟩ := hspec i hi
    obtain ⟨k, hk, hlt, hn⟩ := hin c hc
    exact ⟨k, by simp [hrow, hk], hlt, hn⟩
  · intro k hk
    obtain ⟨_, hman, _, hspec⟩ := makeEdgeFace_ok hef
    obtain ⟨row, hrow, _, hc⟩ := hspec k hk
    simp only [rowOf, hrow, hc, List.length_map]
    exact hman k hk
  · intro i hi j hj
    exact face_face_symm _ _ _ _ hff i j hi hj

/-- the same for the edges the code derives itself, **whatever numbering it gives them** -/
theorem derived_topology (w : Nat) (faces : List (List Int)) (numbering : Option (List Pair))
    (hw : ∀ f ∈ faces, f.length ≤ w) (hm : Manifold faces) :
    let en := TopoIn.derivedEdges numbering faces
    ∃ fe ef ff, makeFaceEdge w en faces = .ok fe ∧
      makeEdgeFace en.length (fe.map compress) = .ok ef ∧
      makeFaceFace faces.length w ef = .ok ff ∧
      (∀ k (hk : k < en.length) i (hi : i < faces.length),
          (i : Int) ∈ rowOf ef k ↔ ∃ p ∈ facePairs faces[i], normPair p = normPair en[k]) ∧
      (∀ i (hi : i < faces.length) j (hj : j < faces.length),
          (j : Int) ∈ rowOf ff i ↔
            i ≠ j ∧ ∃ p ∈ facePairs faces[i], ∃ q ∈ facePairs faces[j], normPair p = normPair q) := by
  intro en
  obtain ⟨hnd, hmem, _⟩ := derivedEdges_spec faces numbering
  have hcover : ∀ f ∈ faces, ∀ p ∈ facePairs f, ∃ e ∈ en, normPair e = normPair p := by
    intro f hf p hp
    have := (hmem (normPair p)).mpr ⟨f, hf, p, hp, rfl⟩
    obtain ⟨e, he, hn⟩ := List.mem_map.mp this
    exact ⟨e, he, hn⟩
  obtain ⟨fe, ef, ff, hfe, hef, hff, _, hefs, _, hffs, _⟩ :=
    derived_tables_consistent w en faces hnd hcover hw hm
  exact ⟨fe, ef, ff, hfe, hef, hff, hefs, hffs⟩

/-- and these are what the `*_array` properties return when the dataset supplies none of the
optional tables (edge dimension declared, sized or not) -/
theorem topology_all_derived (t : TopoIn) (faces : List (List Int))
    (hfaces : t.faces = .ok faces) (hedge : t.hasEdgeDim = true) (hfv : t.fillValueErr = none)
    (h1 : t.edgeNode = none) (h2 : t.faceEdge = none) (h3 : t.edgeFace = none) (h4 : t.faceFace = none)
    (hsize : t.edgeDimSize = none ∨ t.edgeDimSize = some (TopoIn.derivedEdges t.numbering faces).length) :
    let en := TopoIn.derivedEdges t.numbering faces
    t.edgeNodeArray = .ok (en.map pairRow) ∧
    t.faceEdgeArray = makeFaceEdge t.width en faces ∧
    (∀ fe, makeFaceEdge t.width en faces = .ok fe →
      t.edgeFaceArray = makeEdgeFace en.length (fe.map compress) ∧
      ∀ ef, makeEdgeFace en.length (fe.map compress) = .ok ef →
        t.faceFaceArray = makeFaceFace t.nfaces t.width ef) := by
  intro en
  have hen : t.edgeNodeArray = .ok (en.map pairRow) := by
    simp [TopoIn.edgeNodeArray, hedge, h1, hfaces, en]
  have hpairs : pairsOfTable (en.map pairRow) = some en := pairsOfTable_pairRow en
  have hfe : t.faceEdgeArray = makeFaceEdge t.width en faces := by
    simp [TopoIn.faceEdgeArray, h2, hfv, hen, hpairs, hfaces]
  have hcount : t.edgeCount = .ok en.length := by
    rcases hsize with h | h
    · simp [TopoIn.edgeCount, hedge, h, hen, Except.map]
    · simp [TopoIn.edgeCount, hedge, h, en]
  refine ⟨hen, hfe, ?_⟩
  intro fe hfe'
  have hef : t.edgeFaceArray = makeEdgeFace en.length (fe.map compress) := by
    simp [TopoIn.edgeFaceArray, h3, hfv, hcount, hfe, hfe']
  refine ⟨hef, ?_⟩
  intro ef hef'
  simp [TopoIn.faceFaceArray, h4, hfv, hef, hef']

/-! ## a derived edge table keeps the edge numbering of a supplied table

`Mesh2DTopology.edge_node_array` as it is now (repairs `87d11e3`, `3f3bd50`):
`TopoIn.edgeNodeArrayN`.  A dataset that stores `face_edge_connectivity` or
`edge_face_connectivity` but no `edge_node_connectivity` has numbered its edges; the derived
edge-node table must use that numbering, or "supplied tables are used as given" and "every
derived table agrees with the face-node table" cannot both hold. -/

/-- **edge_node_follows_face_edge.**  If the supplied face-edge table describes the faces
(`faceEdgeDescribes`, decidable: every side of every face has an entry that is a row of the
edge table, and two sides have the same entry exactly when they are the same undirected node
pair), then the derived edge-node table
* is a renumbering of the mesh's own edges (so `TopoIn.derivedEdges` accepts it and every
  theorem above about the edge table in use applies to it), stored (low, high), and
* for every face `fi` and side `c`, row `face_edge[fi][c]` of it is the `c`-th consecutive
  node pair of `fi`, as an unordered pair. -/
theorem edge_node_follows_face_edge (faces : List (List Int)) (fe : Table)
    (hd : faceEdgeDescribes faces fe = true) :
    ∃ en : List Pair,
      makeEdgeNodeFollowingFaceEdge faces fe = .ok (en.map pairRow) ∧
      isRenumbering en (makeEdgeNode faces) = true ∧
      TopoIn.derivedEdges (some en) faces = en ∧
      (∀ e ∈ en, e.1 ≤ e.2) ∧
      ∀ (fi : Nat) (hfi : fi < faces.length) (c : Nat) (hc : c < (facePairs faces[fi]).length),
        ∃ (v : Int) (k : Nat), cellOf fe fi c = some (some v) ∧
          numpyIndex (makeEdgeNode faces).length v = some k ∧ (0 ≤ v → v = (k : Int)) ∧
          (en.map pairRow)[k]? = some (pairRow (normPair (facePairs faces[fi])[c])) := by
  obtain ⟨en, htab, hren, _, hsorted, hfollow⟩ := followFaceEdge_spec hd
  refine ⟨en, htab, hren, derivedEdges_of_isRenumbering hren, hsorted, ?_⟩
  intro fi hfi c hc
  obtain ⟨k, ht, hk⟩ := hfollow fi c _ (isSide_of_lt hfi hc)
  obtain ⟨v, hv, hidx⟩ := writeTarget_some ht
  exact ⟨v, k, hv, hidx, fun h0 => numpyIndex_of_nonneg hidx h0, by simp [hk]⟩

/-- **edge_node_follows_edge_face.**  If the supplied edge-face table describes the sides
(`edgeFaceDescribes`, decidable: as many rows as the mesh has sides, and every row in turn
finds a side, not taken by an earlier row, that borders exactly the faces the row lists —
`edge_face_describes_iff` gives the order-free form), then the derived edge-node table
* is a renumbering of the mesh's own edges, stored (low, high), with one row per row of the
  supplied table, and
* for every edge `k`, the faces listed in row `k` of the supplied edge-face table are exactly
  the faces that have the derived edge `k` among their consecutive node pairs (and every
  entry of the row is a face of the mesh). -/
theorem edge_node_follows_edge_face (faces : List (List Int)) (ef : Table)
    (hd : edgeFaceDescribes faces ef = true) :
    ∃ en : List Pair,
      makeEdgeNodeFollowingEdgeFace faces ef = some (en.map pairRow) ∧
      isRenumbering en (makeEdgeNode faces) = true ∧
      TopoIn.derivedEdges (some en) faces = en ∧
      (∀ e ∈ en, e.1 ≤ e.2) ∧
      en.length = ef.length ∧
      ∀ (k : Nat) (hk : k < en.length),
        (∀ x ∈ rowOf ef k, ∃ i : Nat, i < faces.length ∧ x = (i : Int)) ∧
        ∀ (i : Nat) (hi : i < faces.length),
          (i : Int) ∈ rowOf ef k ↔ ∃ p ∈ facePairs faces[i], normPair p = normPair en[k] := by
  obtain ⟨en, htab, hren, hlen, hsorted, hrows⟩ := followEdgeFace_spec hd
  have hef : ef.length = (makeEdgeNode faces).length := (edgeFaceDescribes_iff.mp hd).1
  refine ⟨en, htab, hren, derivedEdges_of_isRenumbering hren, hsorted, by omega, ?_⟩
  intro k hk
  have hk2 : k < ef.length := by omega
  have hrow := hrows k en[k] ef[k] (List.getElem?_eq_getElem hk) (List.getElem?_eq_getElem hk2)
  have hrowOf : rowOf ef k = compress ef[k] := by simp [rowOf, List.getElem?_eq_getElem hk2]
  rw [hrowOf]
  refine ⟨?_, ?_⟩
  · intro x hx
    obtain ⟨i, f, hf, rfl, _⟩ := mem_sideFaces.mp ((hrow x).mp hx)
    exact ⟨i, (List.getElem?_eq_some_iff.mp hf).1, rfl⟩
  · intro i hi
    rw [hrow, mem_sideFaces]
    constructor
    · rintro ⟨j, f, hf, hij, p, hp, hpe⟩
      have : i = j := by omega
      subst this
      obtain ⟨_, rfl⟩ := List.getElem?_eq_some_iff.mp hf
      exact ⟨p, hp, hpe⟩
    · rintro ⟨p, hp, hpe⟩
      exact ⟨i, faces[i], List.getElem?_eq_getElem hi, rfl, p, hp, hpe⟩

/-- the order-free form of "the edge-face table describes the sides": as many rows as sides,
and no set of faces is listed by more rows than there are sides bordering exactly those faces -/
theorem edge_face_describes_iff (faces : List (List Int)) (ef : Table) :
    edgeFaceDescribes faces ef = true ↔
      ef.length = (makeEdgeNode faces).length ∧
      ∀ K : List Int, (ef.map compress).countP (fun k => sameFaces k K) ≤
        (makeEdgeNode faces).countP (fun e => sameFaces (sideFaces faces e) K) :=
  edgeFaceDescribes_iff

/-- **order of precedence** of `edge_node_array`: a supplied valid edge-node table is returned
as given; else a supplied valid face-edge table is followed, whether or not an edge-face table
is supplied too; else a supplied valid edge-face table is followed — if it does not describe
the sides the own numbering is returned; else the own numbering.  Without a supplied
face-edge or edge-face table nothing changed. -/
theorem edge_node_array_precedence (t : TopoIn) :
    (∀ tab, t.hasEdgeDim = true → t.edgeNode = some tab → t.edgeNodeArrayN = tab) ∧
    (∀ faces fe, t.hasEdgeDim = true → t.edgeNode = none → t.faces = .ok faces →
        t.faceEdge = some (.ok fe) → t.edgeNodeArrayN = makeEdgeNodeFollowingFaceEdge faces fe) ∧
    (∀ faces ef tab, t.hasEdgeDim = true → t.edgeNode = none → t.faces = .ok faces →
        t.faceEdge = none → t.edgeFace = some (.ok ef) →
        makeEdgeNodeFollowingEdgeFace faces ef = some tab → t.edgeNodeArrayN = .ok tab) ∧
    (∀ faces ef, t.hasEdgeDim = true → t.edgeNode = none → t.faces = .ok faces →
        t.faceEdge = none → t.edgeFace = some (.ok ef) →
        makeEdgeNodeFollowingEdgeFace faces ef = none →
        t.edgeNodeArrayN = .ok ((TopoIn.derivedEdges t.numbering faces).map pairRow)) ∧
    (t.faceEdge = none → t.edgeFace = none →
        t.edgeNodeArrayN = t.edgeNodeArray ∧ t.faceEdgeArrayN = t.faceEdgeArray) := by
  refine ⟨?_, ?_, ?_, ?_, ?_⟩
  · intro tab he h; simp [TopoIn.edgeNodeArrayN, he, h]
  · intro faces fe he h hf hfe; simp [TopoIn.edgeNodeArrayN, TopoIn.derivedEdgeTable, he, h, hf, hfe]
  · intro faces ef tab he h hf hfe hef htab
    simp [TopoIn.edgeNodeArrayN, TopoIn.derivedEdgeTable, he, h, hf, hfe, hef, htab]
  · intro faces ef he h hf hfe hef htab
    simp [TopoIn.edgeNodeArrayN, TopoIn.derivedEdgeTable, he, h, hf, hfe, hef, htab]
  · intro hfe hef
    have hen : t.edgeNodeArrayN = t.edgeNodeArray := by
      simp only [TopoIn.edgeNodeArrayN, TopoIn.edgeNodeArray, TopoIn.derivedEdgeTable, hfe, hef]
    refine ⟨hen, ?_⟩
    simp only [TopoIn.faceEdgeArrayN, TopoIn.faceEdgeArray, hen]

/-- **fall-back of the face-edge block (there is none in the code)**: the derivation raises
IndexError exactly when some side of some face has no usable entry — the entry is outside
the supplied table, masked, or not a row of the edge table (beyond the number of edges of the
mesh in either direction; a negative entry counts from the end, as numpy indexes do). -/
theorem follow_face_edge_raises_iff (faces : List (List Int)) (fe : Table) :
    (makeEdgeNodeFollowingFaceEdge faces fe = .error .index ↔
      ∃ (fi : Nat) (hfi : fi < faces.length) (c : Nat) (_ : c < (facePairs faces[fi]).length),
        cellOf fe fi c = none ∨ cellOf fe fi c = some none ∨
          ∃ v, cellOf fe fi c = some (some v) ∧
            (v < -((makeEdgeNode faces).length : Int) ∨ ((makeEdgeNode faces).length : Int) ≤ v)) ∧
    (∀ e, makeEdgeNodeFollowingFaceEdge faces fe = .error e → e = .index) := by
  refine ⟨?_, ?_⟩
  · rw [followFaceEdge_error_iff]
    constructor
    · rintro ⟨fi, c, p, hs, ht⟩
      obtain ⟨hfi, hc, _⟩ := isSide_lt hs
      exact ⟨fi, hfi, c, hc, writeTarget_none.mp ht⟩
    · rintro ⟨fi, hfi, c, hc, h⟩
      exact ⟨fi, c, _, isSide_of_lt hfi hc, writeTarget_none.mpr h⟩
  · intro e h
    simp only [makeEdgeNodeFollowingFaceEdge] at h
    split at h
    · exact (Except.error.inj h).symm
    · simp at h

/-- when the derivation returns a table that table has one row per edge of the mesh; a row is
the node pair (low, high) of a side whose face-edge entry names that row — the last such side
in face / column order where a supplied table gives several node pairs the same number — or
stays masked where no entry names it.  (So a face-edge table that numbers two different node
pairs alike yields a table with a masked row; nothing is reported.) -/
theorem follow_face_edge_rows (faces : List (List Int)) (fe tab : Table)
    (h : makeEdgeNodeFollowingFaceEdge faces fe = .ok tab) :
    tab.length = (makeEdgeNode faces).length ∧
    ∀ k row, tab[k]? = some row →
      (row = maskedRow ∧ ∀ (fi : Nat) (hfi : fi < faces.length) (c : Nat) (_ : c < (facePairs faces[fi]).length),
          writeTarget (makeEdgeNode faces).length fe fi c ≠ some k) ∨
      (∃ (fi : Nat) (hfi : fi < faces.length) (c : Nat) (hc : c < (facePairs faces[fi]).length),
          writeTarget (makeEdgeNode faces).length fe fi c = some k ∧
          row = pairRow (normPair (facePairs faces[fi])[c])) := by
  obtain ⟨hlen, hrows⟩ := followFaceEdge_rows h
  refine ⟨hlen, ?_⟩
  intro k row hrow
  rcases hrows k row hrow with ⟨hm, hno⟩ | ⟨fi, c, p, hs, ht, hp⟩
  · left
    exact ⟨hm, fun fi hfi c hc => hno fi c _ (isSide_of_lt hfi hc)⟩
  · right
    obtain ⟨hfi, hc, rfl⟩ := isSide_lt hs
    exact ⟨fi, hfi, c, hc, ht, hp⟩

/-- **fall-back of the edge-face block**: the supplied table is not followed — the code catches
the IndexError and returns its own numbering — exactly when some set of faces is listed by
more rows than there are sides bordering exactly those faces; in particular when the table
has more rows than the mesh has sides, or lists a set of faces no side borders. -/
theorem follow_edge_face_falls_back_iff (faces : List (List Int)) (ef : Table) :
    (makeEdgeNodeFollowingEdgeFace faces ef = none ↔
      ∃ K : List Int, (makeEdgeNode faces).countP (fun e => sameFaces (sideFaces faces e) K) <
        (ef.map compress).countP (fun k => sameFaces k K)) ∧
    ((makeEdgeNode faces).length < ef.length → makeEdgeNodeFollowingEdgeFace faces ef = none) := by
  refine ⟨?_, followEdgeFace_too_many_rows⟩
  have h := matchEdgeFace_isSome_iff (faces := faces) (keys := ef.map compress) (unused := makeEdgeNode faces)
  simp only [makeEdgeNodeFollowingEdgeFace, Option.map_eq_none_iff]
  constructor
  · intro hn
    apply Classical.byContradiction
    intro hno
    have : (matchEdgeFace faces (makeEdgeNode faces) (ef.map compress)).isSome = true := by
      rw [h]
      intro K
      apply Classical.byContradiction
      intro hK
      exact hno ⟨K, by omega⟩
    simp [hn] at this
  · rintro ⟨K, hK⟩
    cases hm : matchEdgeFace faces (makeEdgeNode faces) (ef.map compress) with
    | none => rfl
    | some w =>
      have := h.mp (by simp [hm]) K
      omega

/-- a table with fewer rows than the mesh has sides, each finding its side: those rows are
assigned, the remaining rows of the derived table stay masked (nothing is reported) -/
theorem follow_edge_face_fewer_rows (faces : List (List Int)) (ef tab : Table)
    (h : makeEdgeNodeFollowingEdgeFace faces ef = some tab) :
    tab.length = (makeEdgeNode faces).length ∧ ef.length ≤ (makeEdgeNode faces).length ∧
    (∀ k, k < ef.length → ∃ e ∈ makeEdgeNode faces, tab[k]? = some (pairRow e)) ∧
    (∀ k, ef.length ≤ k → k < (makeEdgeNode faces).length → tab[k]? = some maskedRow) :=
  followEdgeFace_fewer_rows h

/-- **derived_numbering_consistent** (supplied face-edge table, everything else derived).  On a
manifold mesh whose supplied face-edge table describes the faces and has the usual layout
(`faceEdgeShaped`: a row per face, as wide as the face-node table, a non-negative entry per
side, masked after them), the four `*_array` properties return tables `en`, `fe` (the supplied
one), `ef`, `ff` that agree with one another **entry by entry**: the supplied face-edge table
is exactly the table `make_face_edge_array` derives from the derived edge-node table, the
edge-face and face-face tables are derived from it, and so every conclusion of
`derived_tables_consistent` holds of the tables returned — not merely up to a renumbering. -/
theorem derived_numbering_consistent (t : TopoIn) (faces : List (List Int)) (fe : Table)
    (hfaces : t.faces = .ok faces) (hedge : t.hasEdgeDim = true) (hfv : t.fillValueErr = none)
    (h1 : t.edgeNode = none) (h2 : t.faceEdge = some (.ok fe)) (h3 : t.edgeFace = none)
    (h4 : t.faceFace = none) (hnf : t.nfaces = faces.length)
    (hsize : t.edgeDimSize = none ∨ t.edgeDimSize = some (makeEdgeNode faces).length)
    (hd : faceEdgeDescribes faces fe = true) (hshape : faceEdgeShaped t.width faces fe = true)
    (hm : Manifold faces) :
    ∃ (en : List Pair) (ef ff : Table),
      isRenumbering en (makeEdgeNode faces) = true ∧
      t.edgeNodeArrayN = .ok (en.map pairRow) ∧
      t.faceEdgeArrayN = .ok fe ∧
      t.edgeFaceArrayN = .ok ef ∧
      t.faceFaceArrayN = .ok ff ∧
      makeFaceEdge t.width en faces = .ok fe ∧
      makeEdgeFace en.length (fe.map compress) = .ok ef ∧
      makeFaceFace faces.length t.width ef = .ok ff ∧
      (∀ i (hi : i < faces.length) c (hc : c < (facePairs faces[i]).length),
          ∃ k : Nat, (fe[i]?.bind (·[c]?)) = some (some (k : Int)) ∧ ∃ hk : k < en.length,
            normPair en[k] = normPair (facePairs faces[i])[c]) ∧
      (∀ k (hk : k < en.length) i (hi : i < faces.length),
          (i : Int) ∈ rowOf ef k ↔ ∃ p ∈ facePairs faces[i], normPair p = normPair en[k]) ∧
      (∀ k, k < en.length → (rowOf ef k).length ≤ 2) ∧
      (∀ i (hi : i < faces.length) j (hj : j < faces.length),
          (j : Int) ∈ rowOf ff i ↔
            i ≠ j ∧ ∃ p ∈ facePairs faces[i], ∃ q ∈ facePairs faces[j], normPair p = normPair q) ∧
      (∀ i (_ : i < faces.length) j (_ : j < faces.length),
          (j : Int) ∈ rowOf ff i ↔ (i : Int) ∈ rowOf ff j) := by
  obtain ⟨en, htab, hren, hlen, _, hfollow⟩ := followFaceEdge_spec hd
  obtain ⟨hnd, hcover, _⟩ := isRenumbering_cover hren
  have hw := faceEdgeShaped_width hshape
  obtain ⟨fe', ef, ff, hfe', hef, hff, c1, c2, c3, c4, c5⟩ :=
    derived_tables_consistent t.width en faces hnd hcover hw hm
  have hsame : makeFaceEdge t.width en faces = .ok fe := makeFaceEdge_eq_supplied hshape hnd hfollow
  have : fe' = fe := by
    rw [hfe'] at hsame
    exact Except.ok.inj hsame
  subst this
  have henN : t.edgeNodeArrayN = .ok (en.map pairRow) := by
    simp [TopoIn.edgeNodeArrayN, TopoIn.derivedEdgeTable, hedge, h1, hfaces, h2, htab]
  have hfeN : t.faceEdgeArrayN = .ok fe' := by simp [TopoIn.faceEdgeArrayN, h2]
  have hcount : t.edgeCountN = .ok en.length := by
    rcases hsize with h | h
    · simp [TopoIn.edgeCountN, hedge, h, hfaces, hlen]
    · simp [TopoIn.edgeCountN, hedge, h, hlen]
  have hefN : t.edgeFaceArrayN = .ok ef := by
    simp [TopoIn.edgeFaceArrayN, h3, hcount, hfv, hfeN, hef]
  have hffN : t.faceFaceArrayN = .ok ff := by
    simp [TopoIn.faceFaceArrayN, h4, hfv, hefN, hnf, hff]
  exact ⟨en, ef, ff, hren, henN, hfeN, hefN, hffN, hfe', hef, hff, c1, c2, c3, c4, c5⟩

/-- **derived_numbering_consistent** (supplied edge-face table, everything else derived).  If
the supplied edge-face table describes the sides, the `*_array` properties return tables `en`
(derived, following the supplied numbering), `fe` (derived from `en`) and `ef` (the supplied
one) that agree entry by entry: column `c` of face `i` in `fe` is the edge whose nodes are
the `c`-th consecutive pair of `i`; edge `k` lists face `i` in the supplied table iff the
node pair of `k` is a consecutive pair of `i`, iff `fe` lists `k` for face `i`.
(`face_face_symm` and `face_face_iff_shared_edge` hold of the face-face table derived from
any edge-face table, hence from the supplied one.) -/
theorem derived_numbering_consistent_edge_face (t : TopoIn) (faces : List (List Int)) (ef : Table)
    (hfaces : t.faces = .ok faces) (hedge : t.hasEdgeDim = true) (hfv : t.fillValueErr = none)
    (h1 : t.edgeNode = none) (h2 : t.faceEdge = none) (h3 : t.edgeFace = some (.ok ef))
    (hw : ∀ f ∈ faces, f.length ≤ t.width)
    (hd : edgeFaceDescribes faces ef = true) :
    ∃ (en : List Pair) (fe : Table),
      isRenumbering en (makeEdgeNode faces) = true ∧
      t.edgeNodeArrayN = .ok (en.map pairRow) ∧
      t.faceEdgeArrayN = .ok fe ∧
      t.edgeFaceArrayN = .ok ef ∧
      makeFaceEdge t.width en faces = .ok fe ∧
      en.length = ef.length ∧
      (∀ i (hi : i < faces.length) c (hc : c < (facePairs faces[i]).length),
          ∃ k : Nat, (fe[i]?.bind (·[c]?)) = some (some (k : Int)) ∧ ∃ hk : k < en.length,
            normPair en[k] = normPair (facePairs faces[i])[c]) ∧
      (∀ k (hk : k < en.length) i (hi : i < faces.length),
          ((i : Int) ∈ rowOf ef k ↔ ∃ p ∈ facePairs faces[i], normPair p = normPair en[k]) ∧
          ((i : Int) ∈ rowOf ef k ↔ (k : Int) ∈ rowOf fe i)) := by
  obtain ⟨en, htab, hren, _, _, hlen, hrows⟩ := edge_node_follows_edge_face faces ef hd
  obtain ⟨hnd, hcover, _⟩ := isRenumbering_cover hren
  obtain ⟨fe, hfe, _, hspec⟩ := makeFaceEdge_spec t.width en faces hcover hw
  have henN : t.edgeNodeArrayN = .ok (en.map pairRow) := by
    simp [TopoIn.edgeNodeArrayN, TopoIn.derivedEdgeTable, hedge, h1, hfaces, h2, h3, htab]
  have hfeN : t.faceEdgeArrayN = .ok fe := by
    simp [TopoIn.faceEdgeArrayN, h2, hfv, henN, pairsOfTable_pairRow, hfaces, hfe]
  have hefN : t.edgeFaceArrayN = .ok ef := by simp [TopoIn.edgeFaceArrayN, h3]
  refine ⟨en, fe, hren, henN, hfeN, hefN, hfe, hlen, ?_, ?_⟩
  · intro i hi c hc
    obtain ⟨row, hrow, _, hin, _⟩ := hspec i hi
    obtain ⟨k, hk, hlt, hn⟩ := hin c hc
    exact ⟨k, by simp [hrow, hk], hlt, hn⟩
  · intro k hk i hi
    have h1 := (hrows k hk).2 i hi
    refine ⟨h1, ?_⟩
    rw [h1, mem_rowOf_faceEdge hnd hcover hw hfe hi]
    constructor
    · intro h; exact ⟨hk, h⟩
    · rintro ⟨_, h⟩; exact h

/-! ## the recorded deviations do violate the property (concrete witnesses) -/

/-- Looking coordinate variables up in `data_vars` only (the unchanged code) does not find
node / face coordinate variables that are held as xarray coordinates (so `node_x` raises
KeyError and `face_x` is `None`), while the property-level lookup finds them. -/
theorem quirk_coords_in_data_vars_violates :
    witnessCoords.coordVar? { coordsInDataVars := true } "nx" = none ∧
    (witnessCoords.coordVar? {} "nx").isSome ∧
    witnessCoords.coordVar? { coordsInDataVars := true } "fx" = none ∧
    (witnessCoords.coordVar? {} "fx").isSome := by
  decide

/-- Guessing `two_dimension` as the first dimension of size two (the unchanged code) makes a
valid supplied edge-node table fail its validity test on a two-face mesh whose two-dimension
is not called `Two`; deriving it from the edge tables does not. -/
theorem quirk_two_dim_guess_violates :
    (witnessTwoDim.validEdgeVar? { twoDimGuess := true } "edge_node_connectivity").isNone ∧
    (witnessTwoDim.validEdgeVar? {} "edge_node_connectivity").isSome := by
  decide

/-- What the code did before repair `87d11e3` — the own numbering whatever the dataset
supplies (the old `edgeNodeArray`) — violates the clause on one triangle whose supplied
face-edge row is `[2, 0, 1]`: the first side of the face is the node pair (0, 1), but row 2 of
the own edge table is (0, 2).  The table that follows the supplied numbering
(`edgeNodeArrayN`, what the code does now) has (0, 1) in row 2.  Recorded as finding
`ugrid-derived-edge-node-ignores-supplied-face-edge-numbering`. -/
theorem own_numbering_violates_face_edge_clause :
    let t : TopoIn :=
      { faceNode := .ok [[some 0, some 1, some 2]], nfaces := 1, width := 3, hasEdgeDim := true,
        edgeDimSize := some 3, edgeNode := none, faceEdge := some (.ok [[some 2, some 0, some 1]]),
        edgeFace := none, faceFace := none }
    t.faceEdgeArrayN = .ok [[some 2, some 0, some 1]] ∧
    -- old behaviour: edge 2 is (0, 2), not the first side (0, 1) of the face
    t.edgeNodeArray = .ok [[some 0, some 1], [some 1, some 2], [some 0, some 2]] ∧
    -- now: edge 2 is (0, 1), edge 0 is (1, 2), edge 1 is (0, 2)
    t.edgeNodeArrayN = .ok [[some 1, some 2], [some 0, some 2], [some 0, some 1]] := by
  decide

/-- the same statement under its old name: the supplied face-edge numbering **is** followed now -/
theorem supplied_face_edge_numbering_followed :
    let t : TopoIn :=
      { faceNode := .ok [[some 0, some 1, some 2]], nfaces := 1, width := 3, hasEdgeDim := true,
        edgeDimSize := some 3, edgeNode := none, faceEdge := some (.ok [[some 2, some 0, some 1]]),
        edgeFace := none, faceFace := none }
    ∀ c : Fin 3, (t.edgeNodeArrayN.toOption.bind fun en =>
        (([some 2, some 0, some 1] : List (Option Int))[c.val]?.bind id).bind fun k => en[k.toNat]?) =
      ((facePairs [0, 1, 2])[c.val]?).map fun p => pairRow (normPair p) := by
  decide

/-- What the code did before repair `3f3bd50` violates the clause on two triangles on four
nodes, faces (0,1,2) and (1,3,2), whose supplied edge-face table numbers the edges
(1,2), (0,1), (0,2), (1,3), (2,3): row 0 lists both faces, but edge 0 of the own edge table
is (0, 1), a side of face 0 only.  The table that follows the supplied numbering has the
shared side (1, 2) in row 0.  Recorded as finding `clip-ignores-edge-face-numbering`. -/
theorem own_numbering_violates_edge_face_clause :
    let t : TopoIn :=
      { faceNode := .ok [[some 0, some 1, some 2], [some 1, some 3, some 2]], nfaces := 2, width := 3,
        hasEdgeDim := true, edgeDimSize := some 5, edgeNode := none, faceEdge := none,
        edgeFace := some (.ok [[some 0, some 1], [some 0, none], [none, some 0], [some 1, none], [some 1, none]]),
        faceFace := none }
    t.edgeNodeArray = .ok [[some 0, some 1], [some 1, some 2], [some 0, some 2], [some 1, some 3], [some 2, some 3]] ∧
    sideFaces [[0, 1, 2], [1, 3, 2]] (0, 1) = [0] ∧
    t.edgeNodeArrayN = .ok [[some 1, some 2], [some 0, some 1], [some 0, some 2], [some 1, some 3], [some 2, some 3]] ∧
    sideFaces [[0, 1, 2], [1, 3, 2]] (1, 2) = [0, 1] := by
  decide

/-! ## the hypotheses are satisfiable (non-vacuity) -/

/-- two triangles sharing an edge form a manifold mesh; the derived tables exist -/
example : Manifold [[0, 1, 2], [1, 3, 2]] := by decide

example : ∃ fe ef ff, makeFaceEdge 3 (makeEdgeNode [[0, 1, 2], [1, 3, 2]]) [[0, 1, 2], [1, 3, 2]] = .ok fe ∧
    makeEdgeFace 5 (fe.map compress) = .ok ef ∧ makeFaceFace 2 3 ef = .ok ff ∧
    ff = [[some 1, none, none], [some 0, none, none]] := by
  refine ⟨_, _, _, rfl, rfl, rfl, ?_⟩
  decide

/-- an admissible encoding: one-based, integer fill value 999, transposed -/
example : ({ base := 1, spelling := .int, fill := .attr 999, transposed := true } : Enc).Admissible 4
    [[0, 1, 2], [1, 3, 2, 4]] := by
  refine ⟨Or.inr rfl, by simp, by decide, by decide⟩

example : toIndexArray (encode { base := 1, spelling := .str, fill := .nan, transposed := true } "f" "m" 4
    [[0, 1, 2], [1, 3, 2, 4]]) "f" = .ok [[some 0, some 1, some 2, none], [some 1, some 3, some 2, some 4]] := by
  decide

/-- a non-manifold mesh (three triangles on one edge) is refused -/
example : ¬ Manifold [[0, 1, 2], [1, 0, 3], [0, 1, 4]] := by decide

/-- the minimal mesh of repair `87d11e3`: one triangle, face-edge row `[2, 0, 1]` supplied, no
edge-node table — the table describes the faces, has the usual layout, and is followed -/
example : faceEdgeDescribes [[0, 1, 2]] [[some 2, some 0, some 1]] = true ∧
    faceEdgeShaped 3 [[0, 1, 2]] [[some 2, some 0, some 1]] = true ∧
    makeEdgeNodeFollowingFaceEdge [[0, 1, 2]] [[some 2, some 0, some 1]]
      = .ok [[some 1, some 2], [some 0, some 2], [some 0, some 1]] := by decide

/-- the minimal mesh of repair `3f3bd50`: two triangles on the nodes (0,0), (1,0), (0,1), (1,1),
faces (0,1,2) and (1,3,2), the edge-face rows of the edges (1,2), (0,1), (0,2), (1,3), (2,3)
(a boundary edge written `[face, -]` or `[-, face]`) — the table describes the sides and is
followed; the two boundary sides of each face are interchangeable and come in first-seen order -/
example : edgeFaceDescribes [[0, 1, 2], [1, 3, 2]]
      [[some 0, some 1], [some 0, none], [none, some 0], [some 1, none], [some 1, none]] = true ∧
    makeEdgeNodeFollowingEdgeFace [[0, 1, 2], [1, 3, 2]]
      [[some 0, some 1], [some 0, none], [none, some 0], [some 1, none], [some 1, none]]
      = some [[some 1, some 2], [some 0, some 1], [some 0, some 2], [some 1, some 3], [some 2, some 3]] := by decide

/-- fall-backs on the same meshes: a face-edge entry beyond the edges raises; one that numbers
two sides alike leaves a masked row; an edge-face table listing face 0 alone three times (the
mesh has two such sides) is not followed; one with a row too few leaves a masked row -/
example : makeEdgeNodeFollowingFaceEdge [[0, 1, 2]] [[some 3, some 0, some 1]] = .error .index ∧
    makeEdgeNodeFollowingFaceEdge [[0, 1, 2]] [[some 2, none, some 1]] = .error .index ∧
    makeEdgeNodeFollowingFaceEdge [[0, 1, 2]] [[some 2, some 2, some 1]]
      = .ok [[none, none], [some 0, some 2], [some 1, some 2]] ∧
    faceEdgeDescribes [[0, 1, 2]] [[some 2, some 2, some 1]] = false ∧
    makeEdgeNodeFollowingEdgeFace [[0, 1, 2], [1, 3, 2]]
      [[some 0, some 1], [some 0, none], [none, some 0], [some 1, none], [some 0, none]] = none ∧
    makeEdgeNodeFollowingEdgeFace [[0, 1, 2], [1, 3, 2]]
      [[some 0, some 1], [some 0, none], [none, some 0], [some 1, none]]
      = some [[some 1, some 2], [some 0, some 1], [some 0, some 2], [some 1, some 3], [none, none]] := by decide

/-- precedence: with both tables supplied (and no edge-node table) the face-edge table decides:
here the edge-face table alone would put (0, 1) before (0, 2) among the boundary sides of
face 0, the face-edge table says otherwise -/
example :
    let t : TopoIn :=
      { faceNode := .ok [[some 0, some 1, some 2], [some 1, some 3, some 2]], nfaces := 2, width := 3,
        hasEdgeDim := true, edgeDimSize := some 5, edgeNode := none,
        faceEdge := some (.ok [[some 2, some 0, some 1], [some 3, some 4, some 0]]),
        edgeFace := some (.ok [[some 0, some 1], [some 0, none], [none, some 0], [some 1, none], [some 1, none]]),
        faceFace := none }
    t.edgeNodeArrayN = .ok [[some 1, some 2], [some 0, some 2], [some 0, some 1], [some 1, some 3], [some 2, some 3]] := by
  decide

end Ems.C10
